// Correspondence harness for C09 (transparent tunnels): drives the real
// tcp.Proxy / tcp.SNIProxy / tcp.DynamicProxy ServeTCP and the raw websocket
// relay of proxy.HTTPProxy with a scripted in-memory client connection (exact
// control of segmentation, barriers, close and half-close) against a recording
// loopback upstream, tests the bufio.Reader model against the real bufio, and
// writes the cases for the Coq model to judge.
package main

import (
	"bufio"
	"bytes"
	"crypto/ecdsa"
	"crypto/elliptic"
	crand "crypto/rand"
	"crypto/tls"
	"crypto/x509"
	"crypto/x509/pkix"
	"errors"
	"fmt"
	"io"
	"math/big"
	"math/rand"
	"net"
	"net/http"
	"net/url"
	"os"
	"strconv"
	"strings"
	"sync"
	"time"

	"github.com/fabiolb/fabio/proxy"
	"github.com/fabiolb/fabio/proxy/tcp"
	"github.com/fabiolb/fabio/route"

	"verifharness/internal/vh"
)

const preamble = `From Coq Require Import List NArith String.
From Fabio Require Import Lib.Outcome Lib.Bytes Lib.Pack Model.ClientHello Model.BufioR Model.Tunnel Check.C09.
Import ListNotations.
Local Open Scope N_scope.
`

const (
	kTCP = iota
	kSNI
	kDyn
	kWS
)
const (
	cStay = iota
	cHalf
	cClose
)
const (
	uAtConnect = iota
	uAfterBytes
	uOnEOF
)
const (
	uStay = iota
	uClose
	uHalf
)

var kindName = []string{"tcp", "sni", "dyn", "ws"}
var kindCoq = []string{"KTcp", "KSni", "KDyn", "KWs"}
var cendCoq = []string{"CStay", "CHalf", "CClose"}
var uendCoq = []string{"UStay", "UClose", "UHalf"}

// ---------- scripted client connection ----------
type timeoutErr struct{}

func (timeoutErr) Error() string   { return "i/o timeout" }
func (timeoutErr) Timeout() bool   { return true }
func (timeoutErr) Temporary() bool { return true }

type cstep struct {
	data []byte // a segment the client sends (one Read returns at most this)
	wait int    // or: block until the client has received this many bytes
}

type cliConn struct {
	mu        sync.Mutex
	cond      *sync.Cond
	steps     []cstep
	end       int
	recv      bytes.Buffer
	dropped   int  // bytes written to a fully closed client
	closed    bool // the proxy closed the connection
	eofGiven  bool
	rdExpired bool
	rdDeadline time.Time // a read deadline in the future (tcp.Server ReadTimeout, or a deadline armed by mistake)
	local     *net.TCPAddr
	remote    *net.TCPAddr
	lastProg  time.Time
	wrClosed  bool  // the proxy closed the write side (CloseWrite): the client sees EOF, nothing more can be written
	finErr    error // non-nil: the Read that returns the client's last bytes also returns this error
	finGiven  bool
	// deadline log (chat.go): every Read / Write issued on this (inner) connection with the deadline
	// of its direction in force when it was called
	logging      bool
	base         time.Time
	rdRaw, wrRaw time.Time // the last value given to SetReadDeadline / SetWriteDeadline (zero: none)
	rdRet, wrRet int64     // when the previous Read / Write returned (ns since base)
	dlLog        []dlEntry
}

func newCli(steps []cstep, end int, local, remote *net.TCPAddr) *cliConn {
	c := &cliConn{steps: steps, end: end, local: local, remote: remote, lastProg: time.Now(), base: time.Now()}
	c.cond = sync.NewCond(&c.mu)
	return c
}

func (c *cliConn) Read(p []byte) (n int, err error) {
	called := time.Now()
	c.mu.Lock()
	defer c.mu.Unlock()
	var now time.Time // the clock reading on which this Read decides (deadline first, then data)
	if c.logging {
		e := dlEntry{Read: true, Lo: c.rdRet, Ts: called.Sub(c.base).Nanoseconds(), Dl: c.rdRaw}
		defer func() {
			_, e.Cut = err.(timeoutErr)
			e.Te = now.Sub(c.base).Nanoseconds()
			c.rdRet = e.Te
			c.dlLog = append(c.dlLog, e)
		}()
	}
	for {
		now = time.Now()
		if c.closed {
			return 0, net.ErrClosed
		}
		if c.rdExpired || (!c.rdDeadline.IsZero() && !now.Before(c.rdDeadline)) {
			return 0, timeoutErr{}
		}
		if len(p) == 0 {
			return 0, nil
		}
		if c.finGiven {
			return 0, c.finErr
		}
		if len(c.steps) == 0 {
			if c.end == cStay {
				c.cond.Wait()
				continue
			}
			c.eofGiven = true
			c.lastProg = time.Now()
			return 0, io.EOF
		}
		s := &c.steps[0]
		if s.data == nil {
			if c.recv.Len() >= s.wait {
				c.steps = c.steps[1:]
				continue
			}
			c.cond.Wait()
			continue
		}
		if len(s.data) == 0 {
			c.steps = c.steps[1:]
			continue
		}
		n := copy(p, s.data)
		s.data = s.data[n:]
		if len(s.data) == 0 {
			c.steps = c.steps[1:]
		}
		c.lastProg = time.Now()
		if len(c.steps) == 0 && c.finErr != nil && c.end != cStay {
			// the last bytes and the end of the stream in one Read (n > 0, err != nil)
			c.finGiven = true
			c.eofGiven = true
			return n, c.finErr
		}
		return n, nil
	}
}

func (c *cliConn) Write(p []byte) (int, error) {
	called := time.Now()
	c.mu.Lock()
	defer c.mu.Unlock()
	if c.logging {
		// the scripted client takes the bytes at once: the operation can complete when it is called
		ts := called.Sub(c.base).Nanoseconds()
		c.dlLog = append(c.dlLog, dlEntry{Read: false, Lo: c.wrRet, Ts: ts, Dl: c.wrRaw, Te: ts})
		defer func() { c.wrRet = time.Since(c.base).Nanoseconds() }()
	}
	if c.closed {
		return 0, net.ErrClosed
	}
	if c.wrClosed {
		return 0, errors.New("write: broken pipe")
	}
	if c.end == cClose && c.eofGiven {
		c.dropped += len(p)
		return len(p), nil
	}
	c.recv.Write(p)
	c.lastProg = time.Now()
	c.cond.Broadcast()
	return len(p), nil
}

// cliConnCW is a client connection that can be closed for writing only (like *net.TCPConn
// and *tls.Conn); the plain cliConn cannot (like the wrapper of proxy/tcp/server.go).
type cliConnCW struct{ *cliConn }

func (c cliConnCW) CloseWrite() error {
	c.mu.Lock()
	defer c.mu.Unlock()
	if c.closed {
		return net.ErrClosed
	}
	c.wrClosed = true
	c.lastProg = time.Now()
	return nil
}

func (c *cliConn) Close() error {
	c.mu.Lock()
	c.closed = true
	c.cond.Broadcast()
	c.mu.Unlock()
	return nil
}
func (c *cliConn) LocalAddr() net.Addr           { return c.local }
func (c *cliConn) RemoteAddr() net.Addr          { return c.remote }
func (c *cliConn) SetDeadline(t time.Time) error {
	c.SetWriteDeadline(t)
	return c.SetReadDeadline(t)
}
func (c *cliConn) SetReadDeadline(t time.Time) error {
	c.mu.Lock()
	c.rdRaw = t
	c.rdExpired = !t.IsZero() && !t.After(time.Now())
	c.rdDeadline = time.Time{}
	if !t.IsZero() && t.After(time.Now()) {
		c.rdDeadline = t
		time.AfterFunc(time.Until(t)+time.Millisecond, func() {
			c.mu.Lock()
			c.cond.Broadcast()
			c.mu.Unlock()
		})
	}
	c.cond.Broadcast()
	c.mu.Unlock()
	return nil
}
func (c *cliConn) SetWriteDeadline(t time.Time) error {
	c.mu.Lock()
	c.wrRaw = t
	c.mu.Unlock()
	return nil
}

func (c *cliConn) snapshot() (recv []byte, closed bool, last time.Time, stepsLeft int) {
	c.mu.Lock()
	defer c.mu.Unlock()
	return append([]byte(nil), c.recv.Bytes()...), c.closed, c.lastProg, len(c.steps)
}

// one-connection listener for the http.Server on the websocket path
type oneListener struct {
	ch   chan net.Conn
	done chan struct{}
	once sync.Once
}

func (l *oneListener) Accept() (net.Conn, error) {
	select {
	case c := <-l.ch:
		return c, nil
	case <-l.done:
		return nil, net.ErrClosed
	}
}
func (l *oneListener) Close() error   { l.once.Do(func() { close(l.done) }); return nil }
func (l *oneListener) Addr() net.Addr { return &net.TCPAddr{IP: net.IPv4(127, 0, 0, 1), Port: 80} }

// ---------- recording upstream ----------
type upstream struct {
	mu       sync.Mutex
	cond     *sync.Cond
	ln       net.Listener
	accepted bool
	recv     []byte
	eof      bool // the read side ended (EOF or error)
	clean    bool // ... with io.EOF (FIN) rather than an error (reset)
	lastProg time.Time
	finished chan struct{}
}

type script struct {
	Kind    int
	PP      bool
	Local   *net.TCPAddr
	Remote  *net.TCPAddr
	Stream  []byte // everything the client sends (after the websocket request on the ws path)
	Lit     int    // the first Lit bytes are passed to Coq literally, the rest symbolically
	Segs    []int
	CWait   bool
	CEnd    int
	UTrig   int
	UN      int
	Reply   []byte
	RLit    int
	RSeg1   int // >0: the upstream pauses after the first RSeg1 bytes of its output
	UEnd    int
	WSHead  int  // ws: length of the handshake reply head inside Reply the client waits for before sending
	Note    string
	Class   string
	BadPref bool
	Slow    bool // the upstream consumes slowly (32 KiB per millisecond)
	Bulk    bool // multi-MiB client stream: only its structure goes to Coq
	RT, WT  time.Duration // tcp.Server ReadTimeout / WriteTimeout of the listener (tcp paths)
	TLSUp   bool          // websocket: the upstream speaks TLS (target scheme https: the relay dials with tls.Dial)
	WSEarly  bool         // websocket: the client's first segment travels in the same segment as the upgrade request
	WSBefore int          // ... and this many more segments follow before it has seen the 101
	Barrier int           // the client sends its last Barrier segments only after it has received the upstream's whole output
	CliCW   bool // the client connection handed to the proxy has a CloseWrite method
	Fin     int  // 0: EOF in a Read of its own; 1: the last bytes come with io.EOF; 9: with another error
	HeadLen int  // bulk: the first HeadLen bytes of Stream are the literal head (ClientHello)
	// websocket, directed early-bytes classes (wsearly.go): the upgrade request as the client sends it (nil: wsReq),
	// cut after ReqSplit bytes into two segments (0: one piece); such a script goes to Coq as a CWsEarly case
	Req       []byte
	ReqSplit  int
	EarlyCase bool
	NoWait101 bool // the client sends everything with / right after its request and half-closes without waiting for the 101
	Chat      *chat // a conversation in rounds (chat.go): Segs are the client's messages, Chat.Msgs the upstream's
}

const wsReq = "GET /ws HTTP/1.1\r\nHost: front.example\r\nConnection: Upgrade\r\nUpgrade: websocket\r\nSec-WebSocket-Key: dGhlIHNhbXBsZSBub25jZQ==\r\nSec-WebSocket-Version: 13\r\n\r\n"

func startUpstream(s *script) *upstream {
	ln, err := net.Listen("tcp", "127.0.0.1:0")
	if err != nil {
		panic(err)
	}
	u := &upstream{ln: ln, finished: make(chan struct{}), lastProg: time.Now()}
	u.cond = sync.NewCond(&u.mu)
	go func() {
		defer close(u.finished)
		conn, err := ln.Accept()
		if err != nil {
			return
		}
		if s.TLSUp {
			conn = tls.Server(conn, upstreamTLS)
		}
		u.mu.Lock()
		u.accepted = true
		u.mu.Unlock()
		br := bufio.NewReaderSize(conn, 65536)
		if s.Kind == kWS {
			// consume the forwarded upgrade request head
			conn.SetReadDeadline(time.Now().Add(5 * time.Second))
			for {
				line, err := br.ReadString('\n')
				if err != nil || line == "\r\n" {
					break
				}
			}
			conn.SetReadDeadline(time.Time{})
		}
		// reader
		rdDone := make(chan struct{})
		go func() {
			defer close(rdDone)
			buf := make([]byte, 65536)
			if s.Slow {
				buf = buf[:32768]
			}
			for {
				n, err := br.Read(buf)
				if s.Slow {
					time.Sleep(time.Millisecond) // slow consumer
				}
				u.mu.Lock()
				if n > 0 {
					u.recv = append(u.recv, buf[:n]...)
					u.lastProg = time.Now()
				}
				if err != nil {
					u.eof = true
					u.clean = err == io.EOF
				}
				u.cond.Broadcast()
				u.mu.Unlock()
				if err != nil {
					return
				}
			}
		}()
		// websocket: the handshake reply goes out at once; the payload follows the trigger
		writeSplit := func(out []byte) {
			if s.RSeg1 > 0 && s.RSeg1 < len(out) {
				conn.Write(out[:s.RSeg1])
				time.Sleep(120 * time.Millisecond)
				out = out[s.RSeg1:]
			}
			for len(out) > 0 {
				n := len(out)
				if n > 20000 {
					n = 20000
				}
				if _, err := conn.Write(out[:n]); err != nil {
					break
				}
				out = out[n:]
			}
		}
		reply := s.Reply
		if s.Kind == kWS && s.UTrig != uAtConnect {
			writeSplit(reply[:s.WSHead])
			reply = reply[s.WSHead:]
			// keep the head apart from a payload whose trigger has already fired: what the relay's
			// handshake reads return must not depend on the kernel coalescing the two writes
			time.Sleep(120 * time.Millisecond)
		}
		if s.Chat != nil && !u.chat(s, conn) {
			conn.Close()
			<-rdDone
			return
		}
		// writer: wait for the trigger
		u.mu.Lock()
		for {
			if s.Chat != nil || s.UTrig == uAtConnect || (s.UTrig == uAfterBytes && len(u.recv) >= s.UN) || (s.UTrig == uOnEOF && u.eof) {
				break
			}
			if u.eof {
				// the connection ended before the trigger: nothing to reply to
				u.mu.Unlock()
				conn.Close()
				<-rdDone
				return
			}
			u.cond.Wait()
		}
		u.mu.Unlock()
		if s.Chat != nil {
			// everything has been sent round by round
		} else if s.Kind == kWS && s.UTrig != uAtConnect {
			for len(reply) > 0 {
				n := min(len(reply), 20000)
				if _, err := conn.Write(reply[:n]); err != nil {
					break
				}
				reply = reply[n:]
			}
		} else {
			writeSplit(reply)
		}
		if s.UEnd == uClose {
			conn.Close()
			<-rdDone
			return
		}
		if s.UEnd == uHalf {
			// done sending, still reading
			conn.(interface{ CloseWrite() error }).CloseWrite()
		}
		<-rdDone
		conn.Close()
	}()
	return u
}

func (u *upstream) progress() (n int, last time.Time) {
	u.mu.Lock()
	defer u.mu.Unlock()
	return len(u.recv), u.lastProg
}

func (c *cliConn) progress() (n int, closed bool, last time.Time) {
	c.mu.Lock()
	defer c.mu.Unlock()
	return c.recv.Len(), c.closed, c.lastProg
}

func (u *upstream) snapshot() (recv []byte, accepted, eof bool, last time.Time) {
	u.mu.Lock()
	defer u.mu.Unlock()
	return append([]byte(nil), u.recv...), u.accepted, u.eof, u.lastProg
}

type observation struct {
	Conn     bool
	ClEOF    bool // the proxy closed the write side of the client connection: the client saw EOF after the upstream's data
	Ended    bool // the tunnel returned by itself, before the harness stopped the connection
	Stalled  bool // the harness stopped the connection because nothing moved any more although not everything expected had arrived
	UpClean  bool // the upstream's stream ended with a clean EOF
	Up       []byte
	Cl       []byte
	Panicked bool
	TimedOut bool
	DL       []dlEntry // chat scripts: the deadline log of the client connection
	Base     time.Time // ... and the time its clock starts from
}

func proxyLine(s *script) []byte {
	ch, cp, _ := net.SplitHostPort(s.Remote.String())
	sh, sp, _ := net.SplitHostPort(s.Local.String())
	proto := "TCP6"
	if net.ParseIP(ch).To4() != nil {
		proto = "TCP4"
	}
	return []byte("PROXY " + proto + " " + ch + " " + sh + " " + cp + " " + sp + "\r\n")
}

// what a transparent tunnel would deliver to the upstream
func specUp(s *script) []byte {
	if s.PP && s.Kind != kWS {
		return append(proxyLine(s), s.Stream...)
	}
	return s.Stream
}

func splitSegs(stream []byte, segs []int) [][]byte {
	var out [][]byte
	for _, n := range segs {
		out = append(out, append([]byte(nil), stream[:n]...))
		stream = stream[n:]
	}
	if len(stream) != 0 {
		panic("segmentation does not cover the stream")
	}
	return out
}

// runOnce runs one scripted connection through the real proxy code.
func runOnce(s *script) observation {
	u := startUpstream(s)
	defer u.ln.Close()
	target := &route.Target{URL: &url.URL{Scheme: "tcp", Host: u.ln.Addr().String()}, ProxyProto: s.PP}
	var steps []cstep
	segs := splitSegs(s.Stream, s.Segs)
	skip := 0
	if s.Kind == kWS {
		req := []byte(wsReq)
		if s.Req != nil {
			req = append([]byte(nil), s.Req...)
		}
		if s.ReqSplit > 0 && s.ReqSplit < len(req) {
			// the request itself arrives in two segments
			steps = append(steps, cstep{data: append([]byte(nil), req[:s.ReqSplit]...)})
			req = req[s.ReqSplit:]
		}
		if s.WSEarly && len(segs) > 0 {
			// the client does not wait for the 101: its first bytes share the request's segment ...
			req = append(req, segs[0]...)
			skip = 1
		}
		steps = append(steps, cstep{data: req})
		// ... and more follow at once
		for skip < len(segs) && skip < 1+s.WSBefore && s.WSEarly {
			if len(segs[skip]) > 0 {
				steps = append(steps, cstep{data: segs[skip]})
			}
			skip++
		}
		if !s.NoWait101 {
			steps = append(steps, cstep{wait: s.WSHead})
		}
	}
	if s.Chat != nil {
		steps = s.Chat.clientSteps(segs)
		segs = nil
	}
	for i, seg := range segs {
		if i < skip {
			continue
		}
		if s.Barrier > 0 && i == len(segs)-s.Barrier {
			steps = append(steps, cstep{wait: len(s.Reply)})
		}
		if len(seg) > 0 {
			steps = append(steps, cstep{data: seg})
		}
	}
	if s.CWait {
		steps = append(steps, cstep{wait: len(s.Reply)})
	}
	cli := newCli(steps, s.CEnd, s.Local, s.Remote)
	cli.logging = s.Chat != nil
	switch s.Fin {
	case 1:
		cli.finErr = io.EOF
	case 9:
		cli.finErr = errors.New("read: connection reset by peer")
	}
	var pin net.Conn = cli
	if s.CliCW {
		pin = cliConnCW{cli}
	}
	forced := false
	served := make(chan bool, 1)
	var wsLn *oneListener
	go func() {
		p, _ := vh.Recover(func() {
			switch s.Kind {
			case kTCP, kSNI, kDyn:
				// through the real tcp.Server: the handler gets the server's timeout wrapper around the
				// scripted connection, exactly as on a listener
				lookup := func(string) *route.Target { return target }
				var h tcp.Handler
				switch s.Kind {
				case kTCP:
					h = &tcp.Proxy{DialTimeout: 2 * time.Second, Lookup: lookup}
				case kSNI:
					h = &tcp.SNIProxy{DialTimeout: 2 * time.Second, Lookup: lookup}
				default:
					h = &tcp.DynamicProxy{DialTimeout: 2 * time.Second, Lookup: lookup}
				}
				hpanic := make(chan interface{}, 1)
				guarded := tcp.HandlerFunc(func(in net.Conn) error {
					defer func() {
						if v := recover(); v != nil {
							hpanic <- v
							in.Close()
						}
					}()
					return h.ServeTCP(in)
				})
				ln := &oneListener{ch: make(chan net.Conn, 1), done: make(chan struct{})}
				ln.ch <- pin
				srv := &tcp.Server{Handler: guarded, ReadTimeout: s.RT, WriteTimeout: s.WT}
				go srv.Serve(ln)
				for {
					_, closed, _, _ := cli.snapshot()
					if closed {
						break
					}
					time.Sleep(time.Millisecond)
				}
				srv.Close()
				select {
				case v := <-hpanic:
					panic(v)
				default:
				}
			case kWS:
				wt := &route.Target{URL: &url.URL{Scheme: "http", Host: u.ln.Addr().String()}}
				if s.TLSUp {
					wt.URL.Scheme = "https"
					wt.TLSSkipVerify = true
				}
				insecure := &http.Transport{TLSClientConfig: &tls.Config{InsecureSkipVerify: true}}
				px := &proxy.HTTPProxy{Transport: http.DefaultTransport, InsecureTransport: insecure, Lookup: func(*http.Request) *route.Target { return wt }}
				wsLn = &oneListener{ch: make(chan net.Conn, 1), done: make(chan struct{})}
				wsLn.ch <- pin
				srv := &http.Server{Handler: px}
				go srv.Serve(wsLn)
				// the handler returns when the relay ends; the server then closes the hijacked conn itself (defer in.Close())
				for {
					_, closed, _, _ := cli.snapshot()
					if closed {
						break
					}
					time.Sleep(time.Millisecond)
				}
				wsLn.Close()
			}
		})
		served <- p
	}()

	obs := observation{}
	wantUp, wantCl := len(specUp(s)), len(s.Reply)
	start := time.Now()
	panicked := false
	servedDone := false
	for {
		select {
		case p := <-served:
			panicked = p
			servedDone = true
		case <-time.After(2 * time.Millisecond):
		}
		if servedDone {
			break
		}
		clN, closed, clLast := cli.progress()
		upN, upLast := u.progress()
		if closed {
			continue
		}
		last := clLast
		if upLast.After(last) {
			last = upLast
		}
		idle := time.Since(last)
		full := upN >= wantUp && clN >= wantCl
		// nobody will finish: stop when everything expected has arrived and things are quiet, or nothing moves any more
		if (full && idle > 150*time.Millisecond && s.CEnd == cStay) || idle > 4*time.Second || time.Since(start) > 15*time.Second {
			if time.Since(start) > 15*time.Second {
				obs.TimedOut = true
			}
			forced = true
			obs.Stalled = !full
			cli.Close()
		}
	}
	// wait for the upstream side to see the end (a connection the proxy dialled is accepted within moments)
	for i := 0; i < 100; i++ {
		if _, acc, _, _ := u.snapshot(); acc {
			break
		}
		time.Sleep(time.Millisecond)
	}
	if _, acc, _, _ := u.snapshot(); !acc {
		u.ln.Close()
	}
	select {
	case <-u.finished:
	case <-time.After(time.Duration(3+len(s.Stream)>>18) * time.Second):
		u.ln.Close()
		select {
		case <-u.finished:
		case <-time.After(2 * time.Second):
		}
	}
	obs.Panicked = panicked
	obs.Ended = !forced
	cli.mu.Lock()
	obs.ClEOF = cli.wrClosed
	cli.mu.Unlock()
	obs.Cl, _, _, _ = cli.snapshot()
	cli.mu.Lock()
	obs.DL, obs.Base = append([]dlEntry(nil), cli.dlLog...), cli.base
	cli.mu.Unlock()
	obs.Up, obs.Conn, _, _ = u.snapshot()
	u.mu.Lock()
	obs.UpClean = u.eof && u.clean
	u.mu.Unlock()
	return obs
}

func sameObs(a, b observation) bool {
	return a.Conn == b.Conn && a.Ended == b.Ended && a.ClEOF == b.ClEOF && a.UpClean == b.UpClean && bytes.Equal(a.Up, b.Up) && bytes.Equal(a.Cl, b.Cl) && a.Panicked == b.Panicked
}

// complete: both directions delivered everything a transparent tunnel would
func complete(s *script, o observation) bool {
	return bytes.Equal(o.Up, specUp(s)) && bytes.Equal(o.Cl, s.Reply) && (!s.Bulk || o.UpClean)
}

// run with an immediate replay when the first run shows a loss: kernel timing is
// outside the model, a loss counts only if it repeats
// modified: some direction received bytes that are not a prefix of what was sent (changed,
// reordered or duplicated bytes).  Kernel timing can cut a stream short, it cannot do that:
// no replay, the observation stands.
func modified(s *script, o observation) bool {
	up := specUp(s)
	return len(o.Up) > len(up) || !bytes.Equal(o.Up, up[:len(o.Up)]) ||
		len(o.Cl) > len(s.Reply) || !bytes.Equal(o.Cl, s.Reply[:len(o.Cl)])
}

// racy: scenarios in which the kernel or goroutine timing decides how much arrives (the model
// gives an interval there); only those are replayed.  Everywhere else the first observation
// stands: a loss is reported at once.
func racy(s *script) bool {
	total := len(specUp(s))
	early := s.UTrig == uAtConnect || (s.UTrig == uAfterBytes && s.UN <= total)
	allBefore := s.UTrig == uOnEOF || (s.UTrig == uAfterBytes && s.UN >= total) || (s.UTrig == uAtConnect && total == 0)
	// (a conversation runs against wall-clock timeouts: a cut counts only if the replay repeats it)
	return s.Bulk || s.Chat != nil || (s.UEnd == uClose && early && !allBefore) || (s.UEnd == uHalf && !s.CliCW && early && !allBefore)
}

func runCase(s *script) (observation, int) {
	a := runOnce(s)
	// (a connection the harness had to stop because nothing moved any more is looked at twice: on a
	// loaded machine a scripted pause can outlast the idle limit)
	if complete(s, a) || modified(s, a) || (!racy(s) && !a.Stalled) {
		return a, 1
	}
	b := runOnce(s)
	if sameObs(a, b) || complete(s, b) || (s.Bulk && !complete(s, b)) {
		return b, 2 // bulk: where the stream is cut differs from run to run; a second incomplete run is a repeat
	}
	c := runOnce(s)
	if sameObs(c, a) {
		return a, 3
	}
	return c, 3
}

// ---------- rendering streams for Coq ----------
// A stream is lit ++ symbolic tail: literal bytes are < 256, the i-th symbolic byte
// is the number 256+i (the model never inspects payload bytes, so big payloads are
// shipped as positions; the harness checks the real bytes against the real payload).
func coqStream(b []byte, lit int) string {
	if lit > len(b) {
		lit = len(b)
	}
	if lit == len(b) {
		return vh.Hx(b)
	}
	return fmt.Sprintf("(%s ++ symseq 0 %s)", vh.Hx(b[:lit]), vh.N(len(b)-lit))
}

// describe renders observed bytes as pieces of the sent stream `sent` (literal part
// sent[:lit]); bytes that cannot be explained as a piece of `sent` are shipped
// literally and followed by a marker no model output contains.
func describe(obs, sent []byte, lit int) string {
	if lit > len(sent) {
		lit = len(sent)
	}
	var parts []string
	emit := func(a, b int) { // sent[a:b]
		if a < lit {
			e := b
			if e > lit {
				e = lit
			}
			parts = append(parts, vh.Hx(sent[a:e]))
			a = e
		}
		if a < b {
			parts = append(parts, fmt.Sprintf("symseq %s %s", vh.N(a-lit), vh.N(b-a)))
		}
	}
	pos, exp := 0, 0
	garbage := 0
	for pos < len(obs) {
		m := 0
		for pos+m < len(obs) && exp+m < len(sent) && obs[pos+m] == sent[exp+m] {
			m++
		}
		q := pos + m
		if q == len(obs) {
			emit(exp, exp+m)
			break
		}
		// the observed bytes leave the sent stream at q: look for the place where they continue
		probe := obs[q:]
		if len(probe) > 16 {
			probe = probe[:16]
		}
		idx := -1
		if exp+m <= len(sent) {
			if i := bytes.Index(sent[exp+m:], probe); i >= 0 {
				idx = exp + m + i
			}
		}
		if idx < 0 {
			idx = bytes.Index(sent, probe)
		}
		if idx < 0 {
			if m > 0 {
				emit(exp, exp+m)
			}
			exp += m
			parts = append(parts, fmt.Sprintf("[%s; 99999]", vh.N(int(obs[q]))))
			pos = q + 1
			garbage++
			if garbage > 24 {
				parts = append(parts, fmt.Sprintf("[88888; %s]", vh.N(len(obs)-pos)))
				break
			}
			continue
		}
		// bytes just before q that fit both alignments (chance matches inside a symbolic
		// payload) belong to the later one: the observed bytes physically come from there
		b := 0
		for b < m && exp+m-b-1 >= lit && idx-b-1 >= 0 && obs[q-b-1] == sent[idx-b-1] {
			b++
		}
		if m-b > 0 {
			emit(exp, exp+m-b)
		}
		pos = q - b
		exp = idx - b
	}
	if len(parts) == 0 {
		return "[]"
	}
	return "(" + strings.Join(parts, " ++ ") + ")"
}

// ---------- generators ----------
func randBytes(r *rand.Rand, n int) []byte {
	b := make([]byte, n)
	r.Read(b)
	return b
}

// payloads that are shipped symbolically use bytes >= 128 only, so that they can never
// be mistaken for the ASCII text around them (PROXY line, websocket head) when the
// observed bytes are mapped back to positions
func payload(r *rand.Rand, n int) []byte {
	b := randBytes(r, n)
	if n > 1500 {
		for i := range b {
			b[i] |= 0x80
		}
	}
	return b
}

func payloadBytes(r *rand.Rand, n int) []byte { return payload(r, n) }

func segmentation(r *rand.Rand, n int, style int) []int {
	var segs []int
	for n > 0 {
		var k int
		switch style {
		case 0: // anything
			k = 1 + r.Intn(n)
		case 1: // small
			k = 1 + r.Intn(min(n, 9))
		case 2: // around the copy buffer size
			k = []int{32767, 32768, 32769, 65536, 40000, 4096, 4097}[r.Intn(7)]
		default: // medium
			k = 1 + r.Intn(min(n, 3000))
		}
		if k > n {
			k = n
		}
		segs = append(segs, k)
		n -= k
	}
	return segs
}

func realHello(r *rand.Rand, name string) []byte {
	cfg := &tls.Config{InsecureSkipVerify: true, ServerName: name}
	if r.Intn(2) == 0 {
		cfg.NextProtos = []string{"h2", "http/1.1"}
	}
	if r.Intn(3) == 0 {
		cfg.MaxVersion = tls.VersionTLS12
	}
	c1, c2 := net.Pipe()
	go func() {
		_ = tls.Client(c1, cfg).Handshake()
		c1.Close()
	}()
	defer c2.Close()
	hdr := make([]byte, 5)
	c2.SetReadDeadline(time.Now().Add(5 * time.Second))
	if _, err := io.ReadFull(c2, hdr); err != nil {
		return nil
	}
	n := int(hdr[3])<<8 | int(hdr[4])
	body := make([]byte, n)
	if _, err := io.ReadFull(c2, body); err != nil {
		return nil
	}
	return append(hdr, body...)
}

// a hello padded (extension 21) to exactly `want` record bytes
func paddedHello(r *rand.Rand, name string, want int) []byte {
	h := realHello(r, name)
	if h == nil || want <= len(h)+4 {
		return h
	}
	// append a padding extension: needs the extensions block to be last (it is in crypto/tls hellos)
	pad := want - len(h) - 4
	hs := append([]byte(nil), h[5:]...)
	// locate the extensions length field: skip type(1) len(3) vers(2) random(32) sid cs comp
	p := 4 + 2 + 32
	p += 1 + int(hs[p])
	p += 2 + (int(hs[p])<<8 | int(hs[p+1]))
	p += 1 + int(hs[p])
	extLen := int(hs[p])<<8 | int(hs[p+1])
	ext := append([]byte{0, 21, byte(pad >> 8), byte(pad)}, make([]byte, pad)...)
	hs = append(hs, ext...)
	extLen += len(ext)
	hs[p], hs[p+1] = byte(extLen>>8), byte(extLen)
	bl := len(hs) - 4
	hs[1], hs[2], hs[3] = byte(bl>>16), byte(bl>>8), byte(bl)
	if len(hs) > 16384 {
		return h
	}
	return append([]byte{22, 3, 1, byte(len(hs) >> 8), byte(len(hs))}, hs...)
}

func randAddr(r *rand.Rand) *net.TCPAddr {
	port := 1 + r.Intn(65535)
	switch r.Intn(8) {
	case 0:
		return &net.TCPAddr{IP: net.ParseIP("::1"), Port: port}
	case 1:
		return &net.TCPAddr{IP: net.ParseIP(fmt.Sprintf("2001:db8::%x:%x", r.Intn(65536), r.Intn(65536))), Port: port}
	case 2:
		return &net.TCPAddr{IP: net.ParseIP("fe80::1"), Port: port, Zone: "eth0"}
	case 3:
		return &net.TCPAddr{IP: net.ParseIP("::ffff:10.1.2.3"), Port: port}
	default:
		return &net.TCPAddr{IP: net.IPv4(byte(1+r.Intn(223)), byte(r.Intn(256)), byte(r.Intn(256)), byte(1+r.Intn(254))).To4(), Port: port}
	}
}

// a throw-away certificate for TLS upstreams (the relay dials them with InsecureSkipVerify)
var upstreamTLS = func() *tls.Config {
	key, err := ecdsa.GenerateKey(elliptic.P256(), crand.Reader)
	if err != nil {
		panic(err)
	}
	tmpl := &x509.Certificate{SerialNumber: big.NewInt(1), Subject: pkix.Name{CommonName: "upstream.test"},
		NotBefore: time.Now().Add(-time.Hour), NotAfter: time.Now().Add(24 * time.Hour), DNSNames: []string{"upstream.test"}}
	der, err := x509.CreateCertificate(crand.Reader, tmpl, tmpl, &key.PublicKey, key)
	if err != nil {
		panic(err)
	}
	return &tls.Config{Certificates: []tls.Certificate{{Certificate: [][]byte{der}, PrivateKey: key}}}
}()

const wsHead101 = "HTTP/1.1 101 Switching Protocols\r\nUpgrade: websocket\r\nConnection: Upgrade\r\nSec-WebSocket-Accept: s3pPLMBiTxaQ9kYGzzhZRbK+xOo=\r\n\r\n"

type gen struct {
	r *rand.Rand
}

// payload lengths: mostly small (shipped literally), some big (shipped symbolically)
func (g *gen) payloadLen(big bool) int {
	r := g.r
	if big {
		return []int{32767, 32768, 32769, 65536, 5000 + r.Intn(60000), 2000 + r.Intn(8000)}[r.Intn(6)]
	}
	switch r.Intn(6) {
	case 0:
		return 0
	case 1:
		return 1 + r.Intn(4)
	default:
		return 1 + r.Intn(300)
	}
}

func (g *gen) base(kind int, big bool) *script {
	r := g.r
	s := &script{Kind: kind, PP: r.Intn(2) == 0, Local: randAddr(r), Remote: randAddr(r)}
	n := g.payloadLen(big)
	s.Stream = payload(r, n)
	s.Lit = n
	if n > 1500 {
		s.Lit = 0
	}
	s.Segs = segmentation(r, n, []int{0, 1, 3, 3, 0}[r.Intn(5)])
	if big {
		s.Segs = segmentation(r, n, []int{0, 2, 3}[r.Intn(3)])
	}
	m := g.payloadLen(big && r.Intn(2) == 0)
	s.Reply = payload(r, m)
	s.RLit = m
	if m > 1500 {
		s.RLit = 0
	}
	return s
}

// closing disciplines; name goes into the class
func (g *gen) ending(s *script, which int) string {
	total := len(specUp(s))
	switch which {
	case 0: // nobody finishes: pure transparency in both directions
		s.CEnd, s.UEnd, s.UTrig = cStay, uStay, uAtConnect
		if g.r.Intn(2) == 0 {
			s.UTrig, s.UN = uAfterBytes, g.r.Intn(total+1)
		}
		return "open"
	case 1: // client sends everything and closes; upstream only listens or replies at EOF
		s.CEnd, s.UEnd, s.UTrig = cClose, uStay, uOnEOF
		return "client-close"
	case 2: // request / reply with a half-closing client (reply when the request is complete = EOF)
		s.CEnd, s.UEnd, s.UTrig = cHalf, uClose, uOnEOF
		return "half-close-eof"
	case 3: // upstream replies when it has everything and closes; the client stays
		s.CEnd, s.UEnd, s.UTrig, s.UN = cStay, uClose, uAfterBytes, total
		return "upstream-close"
	case 4: // ping-pong: client waits for the whole reply, then half-closes / closes; upstream stays
		s.CEnd, s.UEnd, s.UTrig, s.UN, s.CWait = []int{cHalf, cClose}[g.r.Intn(2)], uStay, uAfterBytes, g.r.Intn(total+1), true
		return "client-waits"
	case 5: // half-close racing with an early reply
		s.CEnd, s.UEnd, s.UTrig = cHalf, uStay, uAtConnect
		return "half-close-race"
	case 6: // upstream talks first and closes at once, client data may still be on its way
		s.CEnd, s.UEnd, s.UTrig = cStay, uClose, uAtConnect
		return "upstream-first-close"
	case 7: // the upstream half-closes after its output and keeps reading; the client keeps sending, then ends
		s.CEnd, s.UEnd = []int{cStay, cHalf, cClose}[g.r.Intn(3)], uHalf
		s.UTrig, s.UN = uAfterBytes, g.r.Intn(total+1)
		if g.r.Intn(3) == 0 {
			s.UTrig = uAtConnect
		}
		return "upstream-half-close-client-continues"
	default: // both half-close: the upstream when it has everything and has replied, the client after sending
		s.CEnd, s.UEnd, s.UTrig, s.UN = cHalf, uHalf, uAfterBytes, total
		if g.r.Intn(2) == 0 {
			s.UTrig = uOnEOF
		}
		s.CWait = s.UTrig == uAfterBytes && g.r.Intn(2) == 0
		return "both-half-close"
	}
}

func min(a, b int) int {
	if a < b {
		return a
	}
	return b
}

// ---------- bufio.Reader differential test ----------
type segReader struct{ segs [][]byte }

func (c *segReader) Read(p []byte) (int, error) {
	for len(c.segs) > 0 && len(c.segs[0]) == 0 {
		c.segs = c.segs[1:]
	}
	if len(c.segs) == 0 {
		return 0, io.EOF
	}
	n := copy(p, c.segs[0])
	c.segs[0] = c.segs[0][n:]
	return n, nil
}

func errKind(err error) int {
	switch {
	case err == nil:
		return 0
	case err == io.EOF:
		return 1
	case err == io.ErrUnexpectedEOF:
		return 2
	case errors.Is(err, bufio.ErrBufferFull):
		return 3
	case errors.Is(err, bufio.ErrNegativeCount):
		return 4
	}
	return 9
}

func bufioCase(run *vh.Run, r *rand.Rand, class string, size int, total int, style int, nops int) {
	stream := randBytes(r, total)
	segLens := segmentation(r, total, style)
	segs := splitSegs(stream, segLens)
	br := bufio.NewReaderSize(&segReader{segs: segs}, size)
	real := size
	if real < 16 {
		real = 16
	}
	var ops, res []string
	for i := 0; i < nops; i++ {
		var n int
		switch r.Intn(5) {
		case 0:
			n = r.Intn(12)
		case 1:
			n = real - 2 + r.Intn(5)
		default:
			n = r.Intn(2*real + 2)
		}
		var data []byte
		var err error
		switch r.Intn(3) {
		case 0:
			ops = append(ops, "BPeek "+vh.N(n))
			d, e := br.Peek(n)
			data, err = append([]byte(nil), d...), e
		case 1:
			ops = append(ops, "BRead "+vh.N(n))
			p := make([]byte, n)
			k, e := br.Read(p)
			data, err = p[:k], e
		default:
			ops = append(ops, "BReadFull "+vh.N(n))
			p := make([]byte, n)
			k, e := io.ReadFull(br, p)
			data, err = p[:k], e
		}
		res = append(res, fmt.Sprintf("(%s, %s, %s)", vh.Hx(data), vh.N(errKind(err)), vh.N(br.Buffered())))
	}
	segItems := make([]string, len(segLens))
	for i, n := range segLens {
		segItems[i] = vh.N(n)
	}
	run.Add(class, vh.App("CBufio", vh.N(real), vh.Hx(stream), vh.List(segItems), vh.List(ops), vh.List(res)),
		map[string]interface{}{"fn": "bufio.Reader", "size": real, "stream_len": total, "segments": len(segLens), "ops": len(ops)})
}

// ---------- main ----------
func coqScript(s *script, o observation) string {
	ch, cp, _ := net.SplitHostPort(s.Remote.String())
	sh, sp, _ := net.SplitHostPort(s.Local.String())
	is4 := net.ParseIP(ch).To4() != nil
	segItems := make([]string, len(s.Segs))
	for i, n := range s.Segs {
		segItems[i] = vh.N(n)
	}
	trig := "UAtConnect"
	switch s.UTrig {
	case uAfterBytes:
		trig = "(UAfterBytes " + vh.N(s.UN) + ")"
	case uOnEOF:
		trig = "UOnEOF"
	}
	full := specUp(s)
	lineLen := len(full) - len(s.Stream)
	return vh.App("CTunnel", kindCoq[s.Kind], vh.Bool(s.PP), vh.Bool(is4), vh.HxS(ch), vh.HxS(sh), vh.HxS(cp), vh.HxS(sp),
		coqStream(s.Stream, s.Lit), vh.List(segItems), vh.N(s.Fin), vh.Bool(s.CliCW), vh.Bool(s.CWait), cendCoq[s.CEnd], trig,
		coqStream(s.Reply, s.RLit), vh.N(s.RSeg1), vh.N(s.WSHead), uendCoq[s.UEnd],
		vh.Bool(o.Conn), describe(o.Up, full, lineLen+s.Lit), describe(o.Cl, s.Reply, s.RLit), vh.Bool(o.Ended), vh.Bool(o.ClEOF))
}

// a multi-MiB connection: the head (PROXY line + ClientHello) goes to Coq byte for byte, the
// bulk payload as its length; the received bytes are compared with the sent ones here
func coqBulk(s *script, o observation) string {
	ch, cp, _ := net.SplitHostPort(s.Remote.String())
	sh, sp, _ := net.SplitHostPort(s.Local.String())
	is4 := net.ParseIP(ch).To4() != nil
	full := specUp(s)
	prefix := len(o.Up) <= len(full) && bytes.Equal(o.Up, full[:len(o.Up)])
	headItems := []string{}
	if s.HeadLen > 0 {
		headItems = append(headItems, vh.N(s.HeadLen))
	}
	oh := o.Up
	if hl := len(full) - len(s.Stream) + s.HeadLen; len(oh) > hl {
		oh = oh[:hl]
	}
	return vh.App("CBulk", kindCoq[s.Kind], vh.Bool(s.PP), vh.Bool(is4), vh.HxS(ch), vh.HxS(sh), vh.HxS(cp), vh.HxS(sp),
		vh.Hx(s.Stream[:s.HeadLen]), vh.List(headItems), vh.N(len(s.Stream)-s.HeadLen),
		vh.Bool(o.Conn), vh.Hx(oh), vh.N(len(o.Up)), vh.Bool(prefix), vh.Bool(o.UpClean))
}

func main() {
	run := vh.Start("C09")
	r := run.Rng
	g := &gen{r: r}
	debug := os.Getenv("C09_DEBUG") != ""

	var scripts []*script
	add := func(s *script, class string) {
		// reads that return bytes together with an error: the client's last Read returns its last
		// bytes and io.EOF (or, for a closing client, another error) at once
		if s.CEnd != cStay && !s.CWait && len(s.Stream) > 0 {
			switch r.Intn(5) {
			case 0, 1:
				s.Fin = 1
				class += "+eof-with-last-bytes"
			case 2:
				if s.CEnd == cClose {
					s.Fin = 9
					class += "+error-with-last-bytes"
				}
			}
		}
		s.CliCW = r.Intn(2) == 0
		// forced interleaving: the client sends its last segments only after it has received the
		// upstream's whole output, i.e. after the upstream has half-closed
		if s.UEnd == uHalf && !s.CWait && len(s.Segs) >= 2 {
			b := 1 + r.Intn(min(3, len(s.Segs)-1))
			tail := 0
			for _, n := range s.Segs[len(s.Segs)-b:] {
				tail += n
			}
			// (on tcp+sni nothing reaches the upstream before the whole ClientHello has been sent)
			if (s.Kind != kSNI || len(s.Stream)-tail >= s.HeadLen) &&
				(s.UTrig == uAtConnect || (s.UTrig == uAfterBytes && s.UN <= len(specUp(s))-tail)) {
				s.Barrier = b
				class += "+client-sends-rest-after-upstream-eof"
			}
		}
		// listener timeouts longer than every scripted pause on the side they guard (a write
		// timeout guards writes only: it must not cut a client that is silently reading)
		if s.Kind != kWS && r.Intn(4) == 0 {
			tc := [][2]time.Duration{{0, 50 * time.Millisecond}, {3 * time.Second, 50 * time.Millisecond}, {3 * time.Second, 0}}[r.Intn(3)]
			s.RT, s.WT = tc[0], tc[1]
			class += "+listener-timeouts"
		}
		if s.Kind == kWS && strings.HasPrefix(class, "ws-101") && s.Barrier == 0 && len(s.Segs) > 0 && r.Intn(3) == 0 {
			total := len(specUp(s))
			allBefore := s.UTrig == uOnEOF || (s.UTrig == uAfterBytes && s.UN >= total) || (s.UTrig == uAtConnect && total == 0)
			if s.UEnd != uClose || allBefore {
				s.WSEarly = true
				s.WSBefore = r.Intn(3)
				class += "+bytes-with-upgrade-request"
			}
		}
		if s.Kind == kWS && r.Intn(3) == 0 {
			s.TLSUp = true
			class += "+tls-upstream"
		}
		if !s.CliCW {
			class += "/client-conn-without-CloseWrite"
		}
		s.Class = class
		scripts = append(scripts, s)
	}

	// 1. tcp / tcp-dynamic: every closing discipline x PROXY on/off x payload sizes
	for _, kind := range []int{kTCP, kDyn} {
		for e := 0; e < 9; e++ {
			reps := run.Scale(5, 30)
			for i := 0; i < reps; i++ {
				s := g.base(kind, i%5 == 4)
				if kind == kDyn && i%2 == 0 {
					s.PP = false
				}
				name := g.ending(s, e)
				add(s, kindName[kind]+"-"+name)
			}
		}
	}
	// directed: streams around the 32 KiB copy buffer in one segment / many segments, both directions
	for i := 0; i < run.Scale(6, 40); i++ {
		s := g.base(kTCP, true)
		n := []int{32767, 32768, 32769, 65535, 65536, 2 * 32768}[i%6]
		s.Stream, s.Lit = payload(r, n), 0
		s.Segs = [][]int{{n}, segmentation(r, n, 2), segmentation(r, n, 0)}[r.Intn(3)]
		s.Reply, s.RLit = payload(r, n-1+r.Intn(3)), 0
		name := g.ending(s, []int{0, 1, 3}[i%3])
		add(s, "tcp-copybuf-boundary-"+name)
	}

	// directed: heavy traffic in both directions at the same time, nobody closes (two copiers
	// of one connection busy together)
	for i := 0; i < run.Scale(9, 45); i++ {
		s := g.base([]int{kTCP, kDyn, kTCP}[i%3], true)
		n, m := 100000+r.Intn(60000), 100000+r.Intn(60000)
		s.Stream, s.Lit = payload(r, n), 0
		s.Segs = segmentation(r, n, 3)
		s.Reply, s.RLit = payload(r, m), 0
		g.ending(s, 0)
		s.UTrig = uAtConnect
		add(s, kindName[s.Kind]+"-duplex-both-directions-busy")
	}

	// directed: half-close with large replies (an abortive close would cut them), all paths but ws here
	for i := 0; i < run.Scale(6, 30); i++ {
		s := g.base([]int{kTCP, kDyn}[i%2], false)
		m := 65536 + r.Intn(80000)
		s.Reply, s.RLit = payload(r, m), 0
		g.ending(s, 2)
		if i%3 == 2 {
			s.UTrig = uAtConnect // the reply races with the client's EOF
		}
		add(s, kindName[s.Kind]+"-half-close-large-reply")
	}

	// directed: a listener with a write timeout (with and without a read timeout) and an upstream
	// that pauses mid-reply for longer than it while the client silently reads
	for i := 0; i < run.Scale(9, 36); i++ {
		s := g.base([]int{kTCP, kDyn, kTCP}[i%3], false)
		m := 1500 + r.Intn(1500)
		s.Reply, s.RLit = payload(r, m), m
		if m > 1500 {
			s.RLit = 0
		}
		s.RSeg1 = 1 + r.Intn(m-1)
		name := g.ending(s, []int{0, 3, 4, 2}[i%4])
		add(s, kindName[s.Kind]+"-upstream-pauses-mid-reply-"+name)
		last := scripts[len(scripts)-1]
		last.WT = 50 * time.Millisecond
		last.RT = []time.Duration{0, 0, 3 * time.Second}[i%3]
		if !strings.Contains(last.Class, "+listener-timeouts") {
			last.Class += "+listener-timeouts"
		}
	}

	// 2. tcp+sni
	hosts := []string{"foo.example", "a.b.example.com", "svc.internal", "x.io"}
	for i := 0; i < run.Scale(70, 400); i++ {
		big := i%6 == 5
		s := g.base(kSNI, big)
		var hello []byte
		switch {
		case i%10 == 3:
			hello = paddedHello(r, hosts[r.Intn(len(hosts))], []int{4090, 4096, 4097, 5000, 9000}[r.Intn(5)])
		case i%17 == 5: // a hello without the server_name extension: nothing to route on
			hello = realHello(r, "")
		default:
			hello = realHello(r, hosts[r.Intn(len(hosts))])
		}
		if hello == nil {
			run.Exclude("crypto/tls client produced no hello")
			continue
		}
		extra := s.Stream
		s.Stream = append(append([]byte(nil), hello...), extra...)
		s.HeadLen = len(hello)
		s.Lit = len(hello) + len(extra)
		if len(extra) > 1500 {
			s.Lit = len(hello)
		}
		class := ""
		switch i % 5 {
		case 0, 1: // the hello ends a segment: nothing else is buffered
			s.Segs = append(segmentation(r, len(hello), []int{0, 1, 3}[r.Intn(3)]), segmentation(r, len(extra), []int{0, 3}[r.Intn(2)])...)
			if i%10 == 0 {
				s.Segs = append([]int{len(hello)}, segmentation(r, len(extra), 0)...)
			}
			class = "sni-hello-boundary"
		case 2: // k more bytes in the hello's segment
			k := 0
			if len(extra) > 0 {
				k = 1 + r.Intn(len(extra))
				if r.Intn(3) == 0 {
					k = min(len(extra), 22)
				}
			}
			s.Segs = append([]int{len(hello) + k}, segmentation(r, len(extra)-k, 0)...)
			class = "sni-hello-plus-extra-one-segment"
		case 3: // hello split, its tail shares a segment with more data
			cut := 1 + r.Intn(len(hello)-1)
			k := 0
			if len(extra) > 0 {
				k = 1 + r.Intn(len(extra))
			}
			s.Segs = append([]int{cut, len(hello) - cut + k}, segmentation(r, len(extra)-k, 3)...)
			class = "sni-split-hello-plus-extra"
		default: // anything
			s.Segs = segmentation(r, len(s.Stream), []int{0, 3, 2}[r.Intn(3)])
			class = "sni-random-segmentation"
		}
		// keep a symbolic tail either empty or long (see describe)
		name := g.ending(s, []int{1, 0, 2, 3, 4, 1, 3, 7, 8, 2, 5, 6}[r.Intn(12)])
		if i%12 == 11 { // both directions busy at the same time
			m := 60000 + r.Intn(30000)
			s.Reply, s.RLit = payload(r, m), 0
			name = g.ending(s, 0) + "-duplex-both-directions-busy"
			s.UTrig = uAtConnect
		}
		if i%17 == 5 && i%10 != 3 {
			class = "sni-hello-without-server-name"
		}
		if i%23 == 7 { // not a routable hello: nothing is tunnelled
			s.Stream[5] = 2
			class = "sni-not-a-hello"
		}
		add(s, class+"-"+name)
	}

	// 3. websocket relay
	for i := 0; i < run.Scale(60, 300); i++ {
		s := g.base(kWS, i%7 == 6)
		s.PP = false
		payload := s.Reply
		head := wsHead101
		class := "ws-101"
		switch i % 10 {
		case 7:
			head = "HTTP/1.1 400 Bad Request\r\nContent-Length: 0\r\n\r\n"
			class = "ws-refused"
		case 8:
			head = "HTTP/1.1 101 Switching Protocols\r\nUpgrade: websocket\r\nConnection: Upgrade\r\nX-Pad: " + strings.Repeat("p", 900+r.Intn(300)) + "\r\n\r\n"
			class = "ws-101-long-head"
		}
		s.Reply = append([]byte(head), payload...)
		s.RLit = len(head) + len(payload)
		if len(payload) > 1500 {
			s.RLit = len(head)
		}
		s.WSHead = len(head)
		switch i % 5 {
		case 0: // handshake reply in one piece, payload later
			s.RSeg1 = len(head)
			class += "-head-alone"
		case 1: // reply and first payload bytes together
			s.RSeg1 = 0
			class += "-head-with-payload"
		case 2: // reply split inside the status line
			s.RSeg1 = 1 + r.Intn(11)
			if r.Intn(2) == 0 {
				s.RSeg1 = 10
			}
			class += "-split-status"
		case 3: // split at / just after the 12 bytes the relay tests
			s.RSeg1 = 12 + r.Intn(3)
			class += "-split-at-12"
		default: // split anywhere in the head
			s.RSeg1 = 13 + r.Intn(len(head)-13)
			class += "-split-head"
		}
		name := g.ending(s, []int{0, 3, 4, 0, 2, 7, 8, 2, 1, 5, 6}[r.Intn(11)])
		if i%12 == 11 && strings.HasPrefix(class, "ws-101") { // both directions busy at the same time
			n, m := 60000+r.Intn(30000), 60000+r.Intn(30000)
			s.Stream, s.Lit = payloadBytes(r, n), 0
			s.Segs = segmentation(r, n, 3)
			s.Reply = append([]byte(head), payloadBytes(r, m)...)
			s.RLit = len(head)
			name = g.ending(s, 0) + "-duplex-both-directions-busy"
		}
		if r.Intn(2) == 0 && s.UTrig == uAfterBytes {
			s.UTrig = uAtConnect // head and payload leave together
		}
		if s.UTrig != uAtConnect && s.RSeg1 >= len(head) {
			s.RSeg1 = 0
		}
		add(s, class+"-"+name)
	}

	// 3a. the handshake reply cut at every point inside the 12 bytes the relay tests (101 and
	// non-101), and replies that end before 12 bytes have arrived
	for k := 1; k <= 11; k++ {
		for _, head := range []string{wsHead101, "HTTP/1.1 400 Bad Request\r\nContent-Length: 0\r\n\r\n"} {
			if head != wsHead101 && k%3 != 0 && !run.Thorough() {
				continue
			}
			s := g.base(kWS, false)
			s.PP = false
			payload := s.Reply
			s.Reply = append([]byte(head), payload...)
			s.RLit, s.WSHead, s.RSeg1 = len(s.Reply), len(head), k
			name := g.ending(s, []int{0, 3, 4, 0}[r.Intn(4)])
			if s.UTrig == uAfterBytes && r.Intn(2) == 0 {
				s.UTrig = uAtConnect
			}
			class := "ws-101-split-at-every-point"
			if head != wsHead101 {
				class = "ws-refused-split-at-every-point"
			}
			add(s, class+"-"+name)
		}
	}
	// 3b. the 101 head TOGETHER WITH immediate payload in the upstream's first chunk(s): payload
	// sizes around the relay's 1024-byte handshake buffer and bufio's 4096, one chunk or cut at
	// the interesting boundaries (12, end of head, 1024, 4096), followed by more data
	for i, pl := range []int{0, 500, 1024 - len(wsHead101), 1025 - len(wsHead101), 1025, 2000, 4096 - len(wsHead101), 4096, 10000} {
		cuts := []int{0, 12, len(wsHead101), 1024, 4096}
		for j, cut := range cuts {
			if !run.Thorough() && j != 0 && (i+j)%2 == 0 {
				continue
			}
			s := g.base(kWS, false)
			s.PP = false
			more := 0
			if (i+j)%3 != 0 {
				more = 1 + r.Intn(3000)
			}
			body := payload(r, pl+more)
			if pl+more <= 1500 { // small: literal bytes
				body = randBytes(r, pl+more)
			}
			s.Reply = append([]byte(wsHead101), body...)
			s.WSHead = len(wsHead101)
			s.RLit = len(s.Reply)
			if len(body) > 1500 {
				s.RLit = len(wsHead101)
			}
			s.RSeg1 = cut
			if cut >= len(s.Reply) {
				s.RSeg1 = 0
			}
			name := g.ending(s, []int{0, 3, 4}[r.Intn(3)])
			s.UTrig = uAtConnect // head and payload leave together
			add(s, fmt.Sprintf("ws-101-head-plus-%d-payload-%s", pl, name))
		}
	}
	for i, n := range []int{1, 5, 10, 11, 11, 9} {
		s := g.base(kWS, false)
		s.PP = false
		s.Reply = []byte(wsHead101[:n])
		s.RLit, s.WSHead = n, n
		s.RSeg1 = []int{0, 2, 4, 0, 10, 0}[i]
		s.CEnd, s.CWait, s.UTrig, s.UEnd = cStay, false, uAtConnect, uClose
		class := "ws-short-reply-then-close"
		if i == 5 { // the upstream stays silent: the 1 s handshake deadline ends it
			s.UEnd = uStay
			class = "ws-short-reply-then-silence"
		}
		add(s, class)
	}

	// 3c. websocket: the client sends the start of its stream together with its upgrade request
	// (a rand source of its own: the inputs of the classes above do not depend on it)
	scripts = append(scripts, wsEarlyScripts(run)...)

	// 3d. tcp paths: conversations in rounds that outlive the listener's rt= / wt= (both set, one set),
	// with the deadline log of the connection (a rand source of its own)
	scripts = append(scripts, chatScripts(run)...)

	// run them (a few at a time; every connection has its own upstream listener)
	type result struct {
		o    observation
		runs int
	}
	results := make([]result, len(scripts))
	var wg sync.WaitGroup
	sem := make(chan struct{}, 8)
	for i := range scripts {
		wg.Add(1)
		sem <- struct{}{}
		go func(i int) {
			defer wg.Done()
			defer func() { <-sem }()
			o, n := runCase(scripts[i])
			results[i] = result{o, n}
		}(i)
	}
	wg.Wait()

	replays := 0
	for i, s := range scripts {
		o := results[i].o
		if results[i].runs > 1 {
			replays++
		}
		sample := map[string]interface{}{"kind": kindName[s.Kind], "pxyproto": s.PP, "client": s.Remote.String(), "listener": s.Local.String(),
			"stream_len": len(s.Stream), "segments": len(s.Segs), "first_segment": firstSeg(s), "client_conn_has_CloseWrite": s.CliCW, "client_saw_eof": o.ClEOF, "listener_read_timeout": s.RT.String(), "listener_write_timeout": s.WT.String(), "tls_upstream": s.TLSUp, "first_segment_with_upgrade_request": s.WSEarly, "segments_before_101": s.WSBefore, "segments_after_barrier": s.Barrier, "ended_by_itself": o.Ended, "cwait": s.CWait, "cend": cendCoq[s.CEnd], "last_read_err": []string{"separate EOF", "EOF with data", "", "", "", "", "", "", "", "error with data"}[s.Fin],
			"utrig": []string{"at-connect", "after-bytes " + strconv.Itoa(s.UN), "on-eof"}[s.UTrig], "reply_len": len(s.Reply), "rseg1": s.RSeg1, "uend": uendCoq[s.UEnd],
			"upstream_got": len(o.Up), "client_got": len(o.Cl), "connected": o.Conn, "runs": results[i].runs}
		term := coqScript(s, o)
		if s.EarlyCase {
			term = coqWsEarly(s, o)
			sample["request_len"], sample["request_split"] = len(s.Req), s.ReqSplit
		}
		id := run.Add(s.Class, term, sample)
		if s.Chat != nil {
			sample["rounds"], sample["gap"], sample["talks_first"] = len(s.Chat.Msgs), s.Chat.Gap.String(), []string{"upstream", "client"}[s.Chat.First]
			cut := 0
			for _, e := range o.DL {
				if e.Cut {
					cut++
				}
			}
			run.Add(s.Class+"/deadline-log", coqDeadlines(s, o), map[string]interface{}{"kind": kindName[s.Kind], "listener_read_timeout": s.RT.String(),
				"listener_write_timeout": s.WT.String(), "operations": len(o.DL), "cut_by_timeout": cut, "rounds": len(s.Chat.Msgs), "gap": s.Chat.Gap.String(),
				"upstream_got": len(o.Up), "upstream_expected": len(specUp(s)), "client_got": len(o.Cl), "client_expected": len(s.Reply)})
		}
		if o.Panicked {
			run.Violation(id, "C09 panic inside the tunnel code ("+kindName[s.Kind]+")", sample)
		}
		if o.TimedOut {
			run.Violation(id, "C09 tunnel made no progress for 15 s ("+kindName[s.Kind]+")", sample)
		}
		if debug {
			fmt.Fprintf(os.Stderr, "%4d %-48s up %6d/%6d cl %6d/%6d conn=%v runs=%d\n", id, s.Class, len(o.Up), len(specUp(s)), len(o.Cl), len(s.Reply), o.Conn, results[i].runs)
		}
	}
	run.Notes["replayed_cases"] = replays

	// 3b. the client finishes first while the proxy still holds bytes for a slow upstream:
	// several MiB (more than the socket buffers) in 50000-byte segments, then a full close;
	// the upstream reads 32 KiB per millisecond and never replies.  One at a time.
	bulkRuns := 0
	for i := 0; i < run.Scale(6, 18); i++ {
		kind := []int{kTCP, kSNI, kDyn}[i%3]
		s := &script{Kind: kind, PP: r.Intn(2) == 0, Local: randAddr(r), Remote: randAddr(r),
			CEnd: cClose, UEnd: uStay, UTrig: uOnEOF, Slow: true, Bulk: true}
		n := 8 << 20
		if run.Thorough() {
			n = []int{4 << 20, 8 << 20, 12 << 20, 16 << 20}[r.Intn(4)] + r.Intn(70000)
		}
		body := randBytes(r, n)
		if kind == kSNI {
			hello := realHello(r, hosts[r.Intn(len(hosts))])
			if hello == nil {
				run.Exclude("crypto/tls client produced no hello")
				continue
			}
			s.HeadLen = len(hello)
			s.Stream = append(hello, body...)
			s.Segs = []int{len(hello)}
		} else {
			s.Stream = body
		}
		for left := n; left > 0; {
			k := min(left, 50000)
			s.Segs = append(s.Segs, k)
			left -= k
		}
		s.Class = kindName[kind] + "-client-finishes-first-slow-upstream"
		if i >= 3 && i%2 == 1 {
			// the client's connection fails right after its last bytes (they arrive together with the
			// error): the tunnel ends at once while the proxy still holds megabytes for the upstream
			s.Fin = 9
			s.Class += "+error-with-last-bytes"
		}
		o, nruns := runCase(s)
		bulkRuns += nruns
		sample := map[string]interface{}{"kind": kindName[kind], "pxyproto": s.PP, "client": s.Remote.String(), "listener": s.Local.String(),
			"stream_len": len(s.Stream), "segments": len(s.Segs), "cend": "CClose", "upstream": "reads 32 KiB per ms, never replies",
			"upstream_got": len(o.Up), "upstream_expected": len(specUp(s)), "clean_eof": o.UpClean, "connected": o.Conn, "runs": nruns}
		id := run.Add(s.Class, coqBulk(s, o), sample)
		if o.Panicked {
			run.Violation(id, "C09 panic inside the tunnel code ("+kindName[kind]+")", sample)
		}
		if debug {
			fmt.Fprintf(os.Stderr, "%4d %-48s up %8d/%8d clean=%v conn=%v runs=%d\n", id, s.Class, len(o.Up), len(specUp(s)), o.UpClean, o.Conn, nruns)
		}
	}
	run.Notes["bulk_runs"] = bulkRuns

	// 4. the bufio.Reader model against the real bufio.Reader
	for i := 0; i < run.Scale(150, 2500); i++ {
		size := []int{16, 16, 32, 64, 4096}[r.Intn(5)]
		total := r.Intn(6 * size)
		if size == 4096 {
			total = r.Intn(3 * size)
		}
		bufioCase(run, r, fmt.Sprintf("bufio-ops-size-%d", size), size, total, []int{0, 1, 3}[r.Intn(3)], 2+r.Intn(8))
	}

	run.Finish(preamble, 20)
}

func firstSeg(s *script) int {
	if len(s.Segs) == 0 {
		return 0
	}
	return s.Segs[0]
}
