// Correspondence harness for C17 (response compression never changes the
// content): runs the real gzip.NewGzipHandler of /repo around scripted inner
// handlers on an httptest.ResponseRecorder, decodes the recorded body with the
// real compress/gzip reader, and writes the cases for the Coq model to judge.
package main

import (
	"bytes"
	stdgzip "compress/gzip"
	"fmt"
	"io"
	"math/rand"
	"net/http"
	"net/http/httptest"
	"net/http/httputil"
	"net"
	"net/url"
	"net/textproto"
	"os"
	"path/filepath"
	"regexp"
	"runtime"
	"sort"
	"strconv"
	"strings"
	"sync"
	"syscall"
	"time"

	"github.com/fabiolb/fabio/config"
	"github.com/fabiolb/fabio/proxy"
	fgzip "github.com/fabiolb/fabio/proxy/gzip"
	"github.com/fabiolb/fabio/route"

	"verifharness/internal/vh"
)

const preamble = `From Coq Require Import List NArith String.
From Fabio Require Import Lib.Bytes Lib.Pack Model.Gzip Check.C17.
Import ListNotations.
Local Open Scope N_scope.
`

// bodies up to this many bytes travel into Coq byte for byte; larger ones as
// one token per chunk (equality of the big byte strings is then decided here)
const smallBody = 700

// ---------- scripts ----------
type hop struct {
	Kind  string // set add del clear wh write
	Key   string // as passed to the real Header method (any casing)
	Val   string
	Code  int
	Data  []byte
	Yield int // concurrency classes: Gosched this many times before the op
}

type script struct {
	Class  string
	H0     map[string][]string
	Accept []string
	AE     []string
	Re     *regexp.Regexp
	Ops    []hop
	Dirty  int // 0: leave the pool alone; 1..3: seed it with a used writer first
	Abort  bool // the inner handler ends with panic(http.ErrAbortHandler) after its ops
}

type infoResp struct {
	Code int
	Hdr  http.Header
}

type obs struct {
	Panicked   bool // a panic that is not the inner handler's own ErrAbortHandler
	Propagated bool // the inner handler's ErrAbortHandler came out of ServeHTTP
	PanicVal   string
	Code     int
	Hdr      http.Header
	Info     []infoResp
	Body     []byte
}

// srvWriter is the underlying http.ResponseWriter of the scripted runs.  It follows
// net/http's server (server.go): a 1xx WriteHeader before the final one is sent at
// once with the current header map and finalises nothing; the final WriteHeader or
// the first Write snapshots the header map (implicit 200); when the response is
// finished the server's sniffing rule applies to the snapshot: no Content-Type key,
// no Transfer-Encoding, no non-empty Content-Encoding, non-empty body ->
// Content-Type = DetectContentType(start of the body).  The end-to-end classes run
// the same scripts behind a real net/http server and compare.
type srvWriter struct {
	hdr   http.Header
	wrote bool
	code  int
	snap  http.Header
	body  bytes.Buffer
	info  []infoResp
}

func newSrvWriter(h0 map[string][]string) *srvWriter {
	w := &srvWriter{hdr: http.Header{}, code: 200}
	for k, vs := range h0 {
		w.hdr[k] = append([]string(nil), vs...)
	}
	return w
}

func (w *srvWriter) Header() http.Header { return w.hdr }
func (w *srvWriter) WriteHeader(code int) {
	if w.wrote {
		return
	}
	if code < 100 || code > 999 {
		panic(fmt.Sprintf("invalid WriteHeader code %v", code))
	}
	if code >= 100 && code <= 199 && code != 101 {
		w.info = append(w.info, infoResp{code, w.hdr.Clone()})
		return
	}
	w.wrote, w.code, w.snap = true, code, w.hdr.Clone()
}
func (w *srvWriter) Write(b []byte) (int, error) {
	if !w.wrote {
		w.WriteHeader(200)
	}
	return w.body.Write(b)
}

// finish returns the headers the client gets.
func (w *srvWriter) finish() http.Header {
	h := w.snap
	if !w.wrote {
		h = w.hdr.Clone()
	}
	if h == nil {
		h = http.Header{}
	}
	_, haveType := h["Content-Type"]
	if !haveType && h.Get("Transfer-Encoding") == "" && h.Get("Content-Encoding") == "" && w.body.Len() > 0 {
		h.Set("Content-Type", http.DetectContentType(w.body.Bytes()))
	}
	return h
}

var regexps = []*regexp.Regexp{
	regexp.MustCompile(`^(text/.*|application/(javascript|json|font-woff|xml)|.*\+(json|xml))(;.*)?$`), // fabio's documented example
	regexp.MustCompile(`^text/`),
	regexp.MustCompile(`.*`),
	regexp.MustCompile(`json`),
	regexp.MustCompile(`^$`),
	regexp.MustCompile(`(?i)^text/`),
	regexp.MustCompile(`^application/octet-stream$`),
	// expressions that EXCLUDE or REQUIRE parameters: which string the code hands to the
	// expression (the whole header value, parameters included) decides the outcome
	regexp.MustCompile(`^text/plain$`),
	regexp.MustCompile(`^application/json$`),
	regexp.MustCompile(`^text/(plain|html)(; charset=.*)?$`),
	regexp.MustCompile(`^.*; *charset=utf-8$`),
	regexp.MustCompile(`charset`),
	regexp.MustCompile(`^[^;]*$`),
	regexp.MustCompile(`^[a-z/]+ $`),
}

var aeVariants = [][]string{
	nil, {""}, {"gzip"}, {"gzip, deflate"}, {"deflate, gzip"}, {"gzip, deflate, br"}, {"GZIP"}, {"Gzip"},
	{"gzip;q=0"}, {"gzip; q=0.0"}, {"identity;q=1, gzip;q=0"}, {"deflate, gzip;q=0.000"}, {"gzip;q=0.001"},
	{"gzip;q=0.5"}, {"gzip;q=1.0, identity; q=0.5"}, {"deflate"}, {"br"}, {"*"}, {"identity"}, {"x-gzip"},
	{"deflate", "gzip"}, {"gzip", "deflate"}, {" gzip"}, {"deflate;q=0.5,gzip;q=1"}, {"gzip;Q=0"}, {"notgzip2"},
	{"*;q=0, gzip"}, {"gzip;q=0, *"},
	// more spellings of a zero weight (and near misses), kept after fix 7cff601
	{"gzip ; q=0"}, {"gzip;\tq=0"}, {"gzip;q=0 , deflate"}, {"gzip;q=0."}, {"gzip;q=0.0000"}, {"gzip;q=00"}, {"gzip;q=."}, {"gzip;q="},
	{"gzip; Q=0.0"}, {"deflate, gzip;Q=0"}, {"gzip;q=0;x=1"}, {"gzip;x=1;q=0"}, {"gzip;q =0"}, {"gzip;q= 0"}, {"x-gzip;q=0"}, {"x-gzip;q=0.3"},
	{"gzip;q=0, x-gzip"}, {"gzip;q=0.1"}, {"br;q=0, gzip"}, {"gzip;q=0", "gzip"}, {"gzip, notgzip2"}, {"gzip;"}, {"gzip;q=1;q=0"},
	// upper / mixed-case coding names (case-insensitive since bfb8a14)
	{"Gzip;q=0"}, {"GZIP;Q=0.0"}, {"X-GZIP"}, {"X-Gzip;q=0"}, {"deflate, GZip;q=0.8"}, {"gzipx"}, {"x-gzip2, br"},
}

var acceptVariants = [][]string{
	nil, nil, nil, {"*/*"}, {"text/html,application/xhtml+xml;q=0.9,*/*;q=0.8"}, {"text/event-stream"},
	{"application/json, text/event-stream"}, {"TEXT/EVENT-STREAM"}, {"text/html", "text/event-stream"},
}

var contentTypes = []string{
	"text/html", "text/html; charset=utf-8", "text/plain", "application/json", "application/javascript",
	"image/png", "application/octet-stream", "TEXT/HTML", "application/vnd.api+json", "", "text/event-stream",
	"font/woff2", "application/gzip", "application/xml;charset=UTF-8",
	// parameters, odd spacing and case
	"text/plain; charset=utf-8", "text/plain;charset=UTF-8", "text/plain ; q", "text/plain ", " text/plain", "TEXT/PLAIN",
	"text/plain; format=flowed", "application/json;profile=stream", "application/json; charset=utf-8", "text/html;charset=utf-8",
	"text/html; charset=ISO-8859-1", ";", "text/plain;", "charset",
}

var encodings = []string{"", "gzip", "br", "identity", "deflate", "GZIP"}

var codes = []int{200, 200, 201, 202, 204, 206, 301, 302, 304, 400, 404, 418, 500, 502, 503, 999}

// informational codes (101 Switching Protocols is outside the modelled domain)
var infoCodes = []int{100, 102, 103, 103, 103, 110, 199}

func gzipBytes(b []byte) []byte {
	var buf bytes.Buffer
	zw := stdgzip.NewWriter(&buf)
	zw.Write(b)
	zw.Close()
	return buf.Bytes()
}

func gunzip(b []byte) ([]byte, bool) {
	zr, err := stdgzip.NewReader(bytes.NewReader(b))
	if err != nil {
		return nil, false
	}
	out, err := io.ReadAll(zr)
	if err != nil {
		return nil, false
	}
	return out, true
}

// body kinds: 0 text, 1 html, 2 json, 3 random binary, 4 gzip stream, 5 one repeated byte, 6 png-ish
func makeBody(r *rand.Rand, kind, n int) []byte {
	b := make([]byte, 0, n)
	switch kind {
	case 0:
		words := []string{"fabio ", "route ", "the quick brown fox ", "\n", "0123456789 ", "lorem ipsum ", "ü", "€ "}
		for len(b) < n {
			b = append(b, words[r.Intn(len(words))]...)
		}
	case 1:
		b = append(b, "<!DOCTYPE html><html><head><title>t</title></head><body>"...)
		for len(b) < n {
			b = append(b, fmt.Sprintf("<p class=\"c%d\">row %d</p>\n", r.Intn(9), r.Intn(1000))...)
		}
	case 2:
		b = append(b, `{"items":[`...)
		for len(b) < n {
			b = append(b, fmt.Sprintf(`{"id":%d,"name":"n%d"},`, r.Intn(100000), r.Intn(50))...)
		}
	case 3:
		b = make([]byte, n)
		r.Read(b)
	case 4:
		src := make([]byte, n)
		for i := range src {
			src[i] = byte('a' + r.Intn(4))
		}
		b = gzipBytes(src)
	case 5:
		b = bytes.Repeat([]byte{byte(r.Intn(256))}, n)
	case 6:
		b = append(b, "\x89PNG\r\n\x1a\n"...)
		for len(b) < n {
			b = append(b, byte(r.Intn(256)))
		}
	}
	if kind != 4 && len(b) > n {
		b = b[:n]
	}
	return b
}

// random chunking: any number of chunks, empty and one-byte chunks included
func chunks(r *rand.Rand, b []byte) [][]byte {
	var out [][]byte
	if len(b) == 0 {
		for i := r.Intn(3); i > 0; i-- {
			out = append(out, []byte{})
		}
		return out
	}
	style := r.Intn(5)
	for len(b) > 0 {
		var n int
		switch style {
		case 0: // everything at once
			n = len(b)
		case 1: // tiny chunks first
			n = 1 + r.Intn(3)
		case 2: // io.Copy-like 32 KiB buffers
			n = 32 * 1024
		case 3:
			n = 1 + r.Intn(len(b))
		default:
			n = 1 + r.Intn(1+min(len(b), 4096))
		}
		if style == 1 && len(out) > 6 {
			style = 3
		}
		if n > len(b) {
			n = len(b)
		}
		if r.Intn(12) == 0 {
			out = append(out, []byte{})
		}
		out = append(out, b[:n])
		b = b[n:]
	}
	return out
}

func casing(r *rand.Rand, k string) string {
	switch r.Intn(5) {
	case 0:
		return strings.ToLower(k)
	case 1:
		return strings.ToUpper(k)
	}
	return k
}

func randHeaderOp(r *rand.Rand, bodyLen int) hop {
	var key, val string
	switch x := r.Intn(100); {
	case x < 35:
		key, val = "Content-Type", contentTypes[r.Intn(len(contentTypes))]
	case x < 52:
		key, val = "Content-Encoding", encodings[r.Intn(len(encodings))]
	case x < 68:
		key, val = "Content-Length", strconv.Itoa([]int{bodyLen, bodyLen, 5, 0, bodyLen + 1}[r.Intn(5)])
	case x < 80:
		key, val = "Vary", []string{"Origin", "Accept-Encoding", "Accept", "*", "Cookie"}[r.Intn(5)]
	case x < 95:
		key = []string{"X-Custom", "Etag", "Cache-Control", "X-Request-Id", "Location"}[r.Intn(5)]
		val = []string{"a", "\"abc\"", "no-cache", "1234", "/x"}[r.Intn(5)]
	default:
		key, val = "Transfer-Encoding", []string{"chunked", "", "identity"}[r.Intn(3)]
	}
	kind := "set"
	switch x := r.Intn(100); {
	case x < 12:
		kind = "add"
	case x < 20:
		kind = "del"
	}
	return hop{Kind: kind, Key: casing(r, key), Val: val}
}

func pick(r *rand.Rand, l [][]string) []string { return l[r.Intn(len(l))] }

func randH0(r *rand.Rand) map[string][]string {
	h := map[string][]string{}
	if r.Intn(4) == 0 {
		h["Vary"] = [][]string{{"Origin"}, {"Accept-Encoding"}, {"Origin", "Cookie"}}[r.Intn(3)]
	}
	if r.Intn(5) == 0 {
		h["X-Pre"] = []string{"1"}
	}
	if r.Intn(12) == 0 {
		h["Content-Type"] = []string{contentTypes[r.Intn(len(contentTypes))]}
	}
	if r.Intn(25) == 0 {
		h["Content-Encoding"] = []string{"br"}
	}
	if r.Intn(25) == 0 {
		h["Content-Length"] = []string{"3"}
	}
	return h
}

func randScript(r *rand.Rand, class string, maxBody int) *script {
	s := &script{Class: class, Re: regexps[r.Intn(len(regexps))], Accept: pick(r, acceptVariants), AE: pick(r, aeVariants), H0: randH0(r)}
	if r.Intn(3) != 0 { // bias to requests that do accept gzip
		s.AE = [][]string{{"gzip"}, {"gzip, deflate"}, {"gzip, deflate, br"}, {"deflate, gzip;q=1.0"}}[r.Intn(4)]
		if r.Intn(4) != 0 {
			s.Accept = nil
		}
	}
	n := 0
	switch r.Intn(6) {
	case 0:
	case 1:
		n = 1 + r.Intn(20)
	default:
		n = r.Intn(maxBody + 1)
	}
	body := makeBody(r, r.Intn(7), n)
	for i := r.Intn(4); i > 0; i-- {
		s.Ops = append(s.Ops, randHeaderOp(r, len(body)))
	}
	if r.Intn(6) == 0 { // informational responses before the final headers exist, the way ReverseProxy forwards them
		for i := 1 + r.Intn(2); i > 0; i-- {
			if r.Intn(2) == 0 {
				s.Ops = append(s.Ops, hop{Kind: "set", Key: "Link", Val: "</a.css>; rel=preload"})
			}
			s.Ops = append(s.Ops, hop{Kind: "wh", Code: infoCodes[r.Intn(len(infoCodes))]})
			if r.Intn(3) != 0 {
				s.Ops = append(s.Ops, hop{Kind: "clear"})
			}
		}
	}
	if r.Intn(3) != 0 { // most upstream responses carry a content type
		s.Ops = append(s.Ops, hop{Kind: "set", Key: casing(r, "Content-Type"), Val: contentTypes[r.Intn(len(contentTypes))]})
	}
	if r.Intn(12) == 0 { // ... or between the final headers and the final status
		s.Ops = append(s.Ops, hop{Kind: "wh", Code: infoCodes[r.Intn(len(infoCodes))]})
	}
	if r.Intn(2) == 0 {
		s.Ops = append(s.Ops, hop{Kind: "wh", Code: codes[r.Intn(len(codes))]})
	}
	for _, c := range chunks(r, body) {
		if r.Intn(10) == 0 {
			s.Ops = append(s.Ops, randHeaderOp(r, len(body))) // too late: must have no effect
		}
		if r.Intn(25) == 0 {
			s.Ops = append(s.Ops, hop{Kind: "wh", Code: append(codes, infoCodes...)[r.Intn(len(codes)+len(infoCodes))]}) // superfluous
		}
		s.Ops = append(s.Ops, hop{Kind: "write", Data: c})
	}
	if r.Intn(10) == 0 {
		s.Ops = append(s.Ops, hop{Kind: "wh", Code: codes[r.Intn(len(codes))]})
	}
	if r.Intn(10) == 0 {
		s.Ops = append(s.Ops, randHeaderOp(r, len(body)))
	}
	s.Abort = r.Intn(15) == 0 // the inner handler dies with ErrAbortHandler after its calls
	return s
}

// ---------- running the real handler ----------
func seedPool(kind int) {
	var sink bytes.Buffer
	w := stdgzip.NewWriter(&sink)
	switch kind {
	case 1: // used and not closed: pending data, header already written
		w.Write(bytes.Repeat([]byte("stale data from another response "), 50))
		w.Flush()
		w.Write([]byte("unflushed tail"))
	case 2: // used and closed
		w.Write([]byte("stale"))
		w.Close()
	case 3: // fresh writer bound to another buffer
	}
	fgzip.VerifPoolPut(w)
}

func innerHandler(s *script) http.Handler {
	return http.HandlerFunc(func(w http.ResponseWriter, _ *http.Request) {
		for _, o := range s.Ops {
			for i := 0; i < o.Yield; i++ {
				runtime.Gosched()
			}
			switch o.Kind {
			case "set":
				w.Header().Set(o.Key, o.Val)
			case "add":
				w.Header().Add(o.Key, o.Val)
			case "del":
				w.Header().Del(o.Key)
			case "clear":
				clear(w.Header())
			case "wh":
				w.WriteHeader(o.Code)
			case "write":
				n, err := w.Write(o.Data)
				if err != nil || n != len(o.Data) {
					panic(fmt.Sprintf("short write: %d of %d, %v", n, len(o.Data), err))
				}
			}
		}
		if s.Abort {
			panic(http.ErrAbortHandler)
		}
	})
}

func scriptRequest(s *script, target string) *http.Request {
	req := httptest.NewRequest("GET", target, nil)
	for _, v := range s.Accept {
		req.Header.Add("Accept", v)
	}
	for _, v := range s.AE {
		req.Header.Add("Accept-Encoding", v)
	}
	return req
}

// serveOn runs h on a fresh srvWriter and collects what the client would get.
func serveOn(s *script, h http.Handler) obs {
	var o obs
	sw := newSrvWriter(s.H0)
	p, v := vh.Recover(func() { h.ServeHTTP(sw, scriptRequest(s, "http://example.com/x")) })
	if p {
		if v == http.ErrAbortHandler && s.Abort {
			o.Propagated = true
		} else {
			o.Panicked, o.PanicVal = true, fmt.Sprint(v)
		}
	}
	o.Code, o.Hdr, o.Body, o.Info = sw.code, sw.finish(), append([]byte(nil), sw.body.Bytes()...), sw.info
	return o
}

func execute(s *script) obs {
	h := fgzip.NewGzipHandler(innerHandler(s), s.Re)
	if s.Dirty > 0 {
		seedPool(s.Dirty)
	}
	return serveOn(s, h)
}

// ---------- rendering ----------
func coqStrs(l []string) string {
	items := make([]string, len(l))
	for i, v := range l {
		items[i] = vh.HxS(v)
	}
	return vh.List(items)
}

func coqHdr(h map[string][]string) string {
	keys := make([]string, 0, len(h))
	for k := range h {
		keys = append(keys, k)
	}
	sort.Strings(keys)
	items := make([]string, len(keys))
	for i, k := range keys {
		items[i] = vh.Pair(vh.HxS(k), coqStrs(h[k]))
	}
	return vh.List(items) + "%list"
}

func tokens(ts []int) string {
	items := make([]string, len(ts))
	for i, t := range ts {
		items[i] = vh.N(t)
	}
	return vh.List(items)
}

const mismatchToken = 999

func emit(run *vh.Run, s *script, o obs) {
	var all []byte
	nWrites := 0
	for _, op := range s.Ops {
		if op.Kind == "write" {
			all = append(all, op.Data...)
			nWrites++
		}
	}
	tokenised := len(all) > smallBody || len(o.Body) > 4*smallBody
	// chunk terms
	var allTok []int
	chunkTerm := func(i int, d []byte) string {
		if !tokenised {
			return vh.Hx(d)
		}
		if len(d) == 0 {
			return "[]"
		}
		allTok = append(allTok, 1000+i)
		return tokens([]int{1000 + i})
	}
	ops := make([]string, 0, len(s.Ops))
	ctSet := map[string]bool{"": true}
	firstWrite, firstTerm, wi := []byte(nil), "", 0
	for _, op := range s.Ops {
		ck := textproto.CanonicalMIMEHeaderKey(op.Key)
		switch op.Kind {
		case "set":
			ops = append(ops, vh.App("SetHeader", vh.HxS(ck), vh.HxS(op.Val)))
		case "add":
			ops = append(ops, vh.App("AddHeader", vh.HxS(ck), vh.HxS(op.Val)))
		case "del":
			ops = append(ops, vh.App("DelHeader", vh.HxS(ck)))
		case "clear":
			ops = append(ops, "ClearHeaders")
		case "wh":
			ops = append(ops, vh.App("WriteHeader", vh.N(op.Code)))
		case "write":
			t := chunkTerm(wi, op.Data)
			if wi == 0 {
				firstWrite, firstTerm = op.Data, t
			}
			wi++
			ops = append(ops, vh.App("Write", t))
		}
		if ck == "Content-Type" && (op.Kind == "set" || op.Kind == "add") {
			ctSet[op.Val] = true
		}
	}
	for _, v := range s.H0["Content-Type"] {
		ctSet[v] = true
	}
	// http.DetectContentType at the two points where it is asked: the first chunk (the handler)
	// and the start of the whole body (net/http's server when the response is finished)
	var sniffItems []string
	if nWrites > 0 {
		st := http.DetectContentType(firstWrite)
		ctSet[st] = true
		sniffItems = append(sniffItems, vh.Pair(firstTerm, vh.HxS(st)))
	}
	if len(all) > 0 {
		st := http.DetectContentType(all)
		ctSet[st] = true
		allTerm := vh.Hx(all)
		if tokenised {
			allTerm = tokens(allTok)
		}
		if allTerm != firstTerm {
			sniffItems = append(sniffItems, vh.Pair(allTerm, vh.HxS(st)))
		}
	}
	sniffTbl := vh.List(sniffItems)
	ctSet[o.Hdr.Get("Content-Type")] = true
	cts := make([]string, 0, len(ctSet))
	for k := range ctSet {
		cts = append(cts, k)
	}
	sort.Strings(cts)
	ctItems := make([]string, len(cts))
	for i, k := range cts {
		ctItems[i] = vh.Pair(vh.HxS(k), vh.Bool(s.Re.MatchString(k)))
	}
	// observed body and its decoding
	render := func(b []byte) string {
		if !tokenised {
			return vh.Hx(b)
		}
		if bytes.Equal(b, all) {
			return tokens(allTok)
		}
		if len(b) <= smallBody {
			return vh.Hx(b)
		}
		return tokens([]int{mismatchToken})
	}
	dec, isGz := gunzip(o.Body)
	gun := vh.None
	if isGz {
		gun = vh.Some(render(dec))
	}
	infos := make([]string, len(o.Info))
	infoCodesSeen := make([]int, len(o.Info))
	for i, in := range o.Info {
		infos[i] = vh.Pair(vh.N(in.Code), coqHdr(in.Hdr))
		infoCodesSeen[i] = in.Code
	}
	term := vh.App("Case", coqHdr(s.H0), coqStrs(s.Accept), coqStrs(s.AE), vh.List(ops), vh.Bool(s.Abort),
		vh.List(ctItems), sniffTbl,
		vh.Bool(o.Panicked), vh.Bool(o.Propagated), vh.N(o.Code), coqHdr(o.Hdr), vh.List(infos), render(o.Body), gun)
	kinds := make([]string, len(s.Ops))
	for i, op := range s.Ops {
		switch op.Kind {
		case "write":
			kinds[i] = fmt.Sprintf("write(%d)", len(op.Data))
		case "wh":
			kinds[i] = fmt.Sprintf("wh(%d)", op.Code)
		case "clear":
			kinds[i] = "clear"
		default:
			kinds[i] = fmt.Sprintf("%s(%s=%q)", op.Kind, op.Key, op.Val)
		}
	}
	if len(kinds) > 14 {
		kinds = append(kinds[:12], fmt.Sprintf("... %d more", len(kinds)-12))
	}
	sample := map[string]interface{}{"accept": s.Accept, "accept_encoding": s.AE, "regexp": s.Re.String(), "h0": s.H0,
		"ops": kinds, "abort": s.Abort, "propagated": o.Propagated, "written": len(all), "tokenised": tokenised, "pool_seed": s.Dirty,
		"status": o.Code, "informational": infoCodesSeen, "resp_header": o.Hdr, "body_len": len(o.Body), "body_is_gzip": isGz, "panic": o.PanicVal}
	id := run.Add(s.Class, term, sample)
	if o.Panicked {
		run.Violation(id, "gzip handler panicked: "+o.PanicVal, sample)
	}
}

// When built with -race the harness re-executes itself once with GORACE set so
// that race reports go to files in the output directory instead of stderr; they
// are turned into violations at the end of the run.
func raceReexec() {
	if !raceEnabled || os.Getenv("C17_RACE_CHILD") != "" {
		return
	}
	out := ""
	for i, a := range os.Args {
		if (a == "-out" || a == "--out") && i+1 < len(os.Args) {
			out = os.Args[i+1]
		} else if strings.HasPrefix(a, "-out=") {
			out = a[5:]
		}
	}
	exe, err := os.Executable()
	if out == "" || err != nil {
		return
	}
	os.MkdirAll(out, 0o755)
	old, _ := filepath.Glob(filepath.Join(out, "race.*"))
	for _, f := range old {
		os.Remove(f)
	}
	env := append(os.Environ(), "C17_RACE_CHILD=1", "GORACE=log_path="+filepath.Join(out, "race")+" halt_on_error=0 exitcode=0")
	syscall.Exec(exe, os.Args, env)
}

func raceReports(run *vh.Run) {
	files, _ := filepath.Glob(filepath.Join(run.Out, "race.*"))
	n := 0
	for _, f := range files {
		b, _ := os.ReadFile(f)
		for _, rep := range strings.Split(string(b), "==================") {
			if !strings.Contains(rep, "DATA RACE") {
				continue
			}
			n++
			if n > 5 {
				continue
			}
			var frames []string
			for _, l := range strings.Split(rep, "\n") {
				l = strings.TrimSpace(l)
				if strings.Contains(l, "(") && !strings.HasPrefix(l, "/") && (strings.Contains(l, "gzip") || strings.Contains(l, "flate")) && len(frames) < 6 {
					frames = append(frames, l)
				}
			}
			run.Violation(-1, "data race between handlers sharing the gzip writer pool (race detector): "+strings.Join(frames, " | "), map[string]interface{}{"report": rep})
		}
		os.Remove(f)
	}
	run.Notes["race_detector"] = raceEnabled
	run.Notes["race_reports"] = n
}


// ---------- end to end: client -> real net/http server -> gzip handler -> httputil.ReverseProxy -> backend ----------
// The backend optionally sends "103 Early Hints" before its final response (net/http forwards
// informational responses through ResponseWriter.WriteHeader).  Observed at the client: status,
// Content-Encoding, Content-Length, and the body after undoing the labelled encoding.
type e2eResult struct {
	Status  int
	CE, CL  string
	Body    []byte
	ReadErr string
}

func e2e(re *regexp.Regexp, ae string, hints bool, ct string, body []byte) (e2eResult, error) {
	backend := httptest.NewServer(http.HandlerFunc(func(w http.ResponseWriter, r *http.Request) {
		if hints {
			w.Header().Set("Link", "</style.css>; rel=preload; as=style")
			w.WriteHeader(http.StatusEarlyHints)
		}
		w.Header().Set("Content-Type", ct)
		w.Header().Set("Content-Length", strconv.Itoa(len(body)))
		w.WriteHeader(200)
		w.Write(body)
	}))
	defer backend.Close()
	u, _ := url.Parse(backend.URL)
	rp := &httputil.ReverseProxy{Director: func(r *http.Request) { r.URL.Scheme, r.URL.Host = u.Scheme, u.Host }}
	front := httptest.NewServer(fgzip.NewGzipHandler(rp, re))
	defer front.Close()
	req, _ := http.NewRequest("GET", front.URL+"/", nil)
	if ae != "" {
		req.Header.Set("Accept-Encoding", ae)
	}
	cl := &http.Client{Transport: &http.Transport{DisableCompression: true}, Timeout: 10 * time.Second}
	resp, err := cl.Do(req)
	if err != nil {
		return e2eResult{}, err
	}
	defer resp.Body.Close()
	raw, rerr := io.ReadAll(resp.Body)
	out := e2eResult{Status: resp.StatusCode, CE: resp.Header.Get("Content-Encoding"), CL: resp.Header.Get("Content-Length"), Body: raw}
	if rerr != nil {
		out.ReadErr = rerr.Error()
	}
	return out, nil
}

func runE2E(run *vh.Run) {
	r := run.Rng
	n := 0
	for _, hints := range []bool{false, true} {
		for _, re := range []*regexp.Regexp{regexps[0], regexps[1], regexps[2]} {
			for _, ae := range []string{"gzip", ""} {
				for _, ct := range []string{"text/html", "image/png"} {
					for _, size := range []int{0, 300, run.Scale(5000, 70000)} {
						body := makeBody(r, 1, size)
						res, err := e2e(re, ae, hints, ct, body)
						n++
						in := map[string]interface{}{"regexp": re.String(), "accept_encoding": ae, "early_hints_103": hints, "content_type": ct, "body_len": len(body),
							"status": res.Status, "resp_content_encoding": res.CE, "resp_content_length": res.CL, "resp_body_len": len(res.Body), "read_error": res.ReadErr}
						got := res.Body
						if err == nil && res.CE == "gzip" {
							if d, ok := gunzip(res.Body); ok {
								got = d
							}
						}
						wantGzip := ae == "gzip" && re.MatchString(ct)
						ok := err == nil && res.ReadErr == "" && res.Status == 200 && bytes.Equal(got, body) &&
							((res.CE == "" && !wantGzip && res.CL == strconv.Itoa(len(body))) || (res.CE == "gzip" && wantGzip))
						if ok {
							continue
						}
						if err != nil {
							in["client_error"] = err.Error()
						}
						what := "end to end through net/http server and ReverseProxy: the client does not receive the upstream's response (body, Content-Encoding label or Content-Length wrong)"
						if hints {
							what += " after a 103 Early Hints"
						}
						run.Violation(-1, what, in)
					}
				}
			}
		}
	}
	n2, n3, n4, n5 := runE2EScripts(run), runE2EAbort(run), runE2EBodyless(run), runE2EProxy(run)
	run.Notes["extra_evaluations"] = n + n2 + n3 + n4 + n5
	run.Notes["e2e_real_server_responses"] = n
	run.Notes["e2e_scripts_real_server_vs_underlying_writer"] = n2
	run.Notes["e2e_aborted_responses"] = n3
	run.Notes["e2e_bodyless_responses"] = n4
	run.Notes["e2e_through_HTTPProxy_ServeHTTP"] = n5
}

// ---------- end to end: the scripted inner handlers behind a real net/http server ----------
type clientView struct {
	Status          int
	CT, CE, Vary    []string
	CL              string
	Body            []byte
	DoErr, ReadErr  string
}

func clientGet(h http.Handler, s *script, method string) clientView {
	srv := httptest.NewServer(h)
	defer srv.Close()
	req, _ := http.NewRequest(method, srv.URL+"/x", nil)
	for _, v := range s.Accept {
		req.Header.Add("Accept", v)
	}
	for _, v := range s.AE {
		req.Header.Add("Accept-Encoding", v)
	}
	cl := &http.Client{Transport: &http.Transport{DisableCompression: true, DisableKeepAlives: true}, Timeout: 10 * time.Second}
	resp, err := cl.Do(req)
	if err != nil {
		return clientView{DoErr: "error"}
	}
	defer resp.Body.Close()
	b, rerr := io.ReadAll(resp.Body)
	v := clientView{Status: resp.StatusCode, CT: resp.Header.Values("Content-Type"), CE: resp.Header.Values("Content-Encoding"),
		Vary: resp.Header.Values("Vary"), CL: resp.Header.Get("Content-Length"), Body: b}
	if rerr != nil {
		v.ReadErr = "error"
	}
	return v
}

func sameStrs(a, b []string) bool {
	if len(a) != len(b) {
		return false
	}
	for i := range a {
		if a[i] != b[i] {
			return false
		}
	}
	return true
}

// agrees: the model's underlying writer (srvWriter) predicts what a client of the real server sees
func agrees(real clientView, o obs) string {
	switch {
	case real.DoErr != "" || real.ReadErr != "":
		return "client error"
	case real.Status != o.Code:
		return fmt.Sprintf("status %d vs %d", real.Status, o.Code)
	case !sameStrs(real.CT, o.Hdr.Values("Content-Type")):
		return fmt.Sprintf("Content-Type %q vs %q", real.CT, o.Hdr.Values("Content-Type"))
	case !sameStrs(real.CE, o.Hdr.Values("Content-Encoding")):
		return fmt.Sprintf("Content-Encoding %q vs %q", real.CE, o.Hdr.Values("Content-Encoding"))
	case !sameStrs(real.Vary, o.Hdr.Values("Vary")):
		return fmt.Sprintf("Vary %q vs %q", real.Vary, o.Hdr.Values("Vary"))
	case !bytes.Equal(real.Body, o.Body):
		return fmt.Sprintf("body %d vs %d bytes", len(real.Body), len(o.Body))
	}
	return ""
}

// runE2EScripts: sniffing-relevant scripts (no Content-Type; encoded or not; short first chunk) run four
// ways: real server with / without the gzip handler, srvWriter with / without.  The srvWriter runs are
// what the Coq cases are made of; a disagreement with the real server means the underlying-writer model
// (net/http's sniffing rule) is wrong.
func runE2EScripts(run *vh.Run) int {
	r := run.Rng
	n := 0
	first := [][]byte{[]byte("<"), []byte("<html><body>"), []byte("{"), {0x1b, 3, 0, 0xf8}, []byte("plain"), {}}
	for _, ce := range []string{"-", "br", "", "gzip"} {
		for fi, f := range first {
			for _, re := range []*regexp.Regexp{regexps[1], regexps[2], regexp.MustCompile(`^image/`)} {
				for _, ae := range [][]string{{"gzip"}, nil} {
					s := &script{Class: "e2e", Re: re, AE: ae, H0: map[string][]string{}}
					if ce != "-" {
						s.Ops = append(s.Ops, hop{Kind: "set", Key: "Content-Encoding", Val: ce})
					}
					switch r.Intn(4) {
					case 0:
						s.Ops = append(s.Ops, hop{Kind: "wh", Code: []int{200, 404}[r.Intn(2)]})
					case 1:
						s.Ops = append(s.Ops, hop{Kind: "set", Key: "Content-Type", Val: []string{"text/html", "image/png"}[r.Intn(2)]})
					}
					s.Ops = append(s.Ops, hop{Kind: "write", Data: f}, hop{Kind: "write", Data: []byte("html><body>" + strings.Repeat("row ", 10+fi) + "</body></html>")})
					inner := innerHandler(s)
					wrapped := fgzip.NewGzipHandler(inner, re)
					for _, pair := range []struct {
						name string
						h    http.Handler
					}{{"without the gzip handler", inner}, {"with the gzip handler", wrapped}} {
						n++
						if d := agrees(clientGet(pair.h, s, "GET"), serveOn(s, pair.h)); d != "" {
							run.Violation(-1, "the underlying-writer model differs from net/http's server "+pair.name+": "+d,
								map[string]interface{}{"content_encoding": ce, "first_chunk": string(f), "regexp": re.String(), "accept_encoding": ae, "ops": len(s.Ops)})
						}
					}
				}
			}
		}
	}
	return n
}

// runE2EAbort: the response is cut short -- the inner handler panics with ErrAbortHandler mid-body, or the
// backend behind httputil.ReverseProxy closes the connection mid-body.  The deferred Close writes a
// complete gzip trailer over the truncated data; the client must still be able to tell (transport error),
// exactly as without the gzip handler.
func runE2EAbort(run *vh.Run) int {
	n := 0
	body := []byte(strings.Repeat("<p>row of the table</p>\n", 400))
	// (a) scripted inner handler
	for _, cut := range []int{0, 1, 3} {
		for _, ae := range [][]string{{"gzip"}, nil} {
			s := &script{Class: "e2e-abort", Re: regexps[1], AE: ae, H0: map[string][]string{}, Abort: true}
			s.Ops = append(s.Ops, hop{Kind: "set", Key: "Content-Type", Val: "text/html"})
			for i := 0; i < cut; i++ {
				s.Ops = append(s.Ops, hop{Kind: "write", Data: body[i*3000 : (i+1)*3000]})
			}
			n++
			v := clientGet(fgzip.NewGzipHandler(innerHandler(s), s.Re), s, "GET")
			if v.DoErr == "" && v.ReadErr == "" {
				run.Violation(-1, "aborted response reaches the client as a complete one (inner handler panicked with ErrAbortHandler)",
					map[string]interface{}{"chunks_before_abort": cut, "accept_encoding": ae, "status": v.Status, "body_len": len(v.Body), "content_encoding": v.CE})
			}
		}
	}
	// (b) backend dies mid-body behind httputil.ReverseProxy
	ln, err := net.Listen("tcp", "127.0.0.1:0")
	if err != nil {
		run.Exclude("no loopback listener for the dying backend")
		return n
	}
	defer ln.Close()
	go func() {
		for {
			c, err := ln.Accept()
			if err != nil {
				return
			}
			go func(c net.Conn) {
				buf := make([]byte, 4096)
				c.Read(buf)
				fmt.Fprintf(c, "HTTP/1.1 200 OK\r\nContent-Type: text/html\r\nContent-Length: %d\r\n\r\n", len(body))
				c.Write(body[:len(body)/3])
				c.Close()
			}(c)
		}
	}()
	u, _ := url.Parse("http://" + ln.Addr().String())
	for _, ae := range [][]string{{"gzip"}, nil} {
		rp := &httputil.ReverseProxy{Director: func(r *http.Request) { r.URL.Scheme, r.URL.Host = u.Scheme, u.Host }, ErrorLog: nil}
		s := &script{AE: ae}
		n++
		v := clientGet(fgzip.NewGzipHandler(rp, regexps[1]), s, "GET")
		if v.DoErr == "" && v.ReadErr == "" {
			run.Violation(-1, "aborted response reaches the client as a complete one (backend closed the connection mid-body behind ReverseProxy)",
				map[string]interface{}{"accept_encoding": ae, "status": v.Status, "body_len": len(v.Body), "content_encoding": v.CE})
		}
	}
	return n
}

// runE2EBodyless: HEAD requests and 204 / 304 responses with a matching content type behind the real
// server (Write fails with ErrBodyNotAllowed there).  Required: same status as without the handler, no
// body, no client error.  Header differences on these body-less responses are counted in the notes.
func runE2EBodyless(run *vh.Run) int {
	n := 0
	labelled, headCL := 0, 0
	for _, kind := range []string{"HEAD", "HEAD-cl", "204", "304"} {
		for _, ae := range [][]string{{"gzip"}, nil} {
			s := &script{Class: "e2e-bodyless", Re: regexps[1], AE: ae, H0: map[string][]string{}}
			s.Ops = append(s.Ops, hop{Kind: "set", Key: "Content-Type", Val: "text/html"}, hop{Kind: "set", Key: "Etag", Val: "\"x\""})
			method := "GET"
			switch kind {
			case "HEAD":
				method = "HEAD"
				s.Ops = append(s.Ops, hop{Kind: "wh", Code: 200})
			case "HEAD-cl":
				method = "HEAD"
				s.Ops = append(s.Ops, hop{Kind: "set", Key: "Content-Length", Val: "500"}, hop{Kind: "wh", Code: 200})
			case "204":
				s.Ops = append(s.Ops, hop{Kind: "wh", Code: 204})
			case "304":
				s.Ops = append(s.Ops, hop{Kind: "wh", Code: 304})
			}
			inner := innerHandler(s)
			bare := clientGet(inner, s, method)
			got := clientGet(fgzip.NewGzipHandler(inner, s.Re), s, method)
			n += 2
			if got.DoErr != "" || got.ReadErr != "" || got.Status != bare.Status || len(got.Body) != 0 {
				run.Violation(-1, "body-less response (HEAD / 204 / 304) through the gzip handler: status changed, a body appeared or the client failed",
					map[string]interface{}{"kind": kind, "accept_encoding": ae, "status": got.Status, "status_without": bare.Status, "body_len": len(got.Body)})
			}
			if !sameStrs(got.CE, bare.CE) {
				labelled++
			}
			if method == "HEAD" && got.CL != bare.CL {
				headCL++
			}
		}
	}
	run.Notes["bodyless_responses_labelled_gzip"] = labelled
	run.Notes["head_responses_with_other_content_length"] = headCL
	return n
}

// runE2EProxy: the wiring in proxy.HTTPProxy.ServeHTTP (http_proxy.go: "if p.Config.GZIPContentTypes != nil
// { h = gzip.NewGzipHandler(h, ...) }", underneath proxy.responseWriter): compression happens exactly when
// it is configured, the client accepts it and the type matches; the body round-trips in every case.
func runE2EProxy(run *vh.Run) int {
	r := run.Rng
	n := 0
	for _, re := range []*regexp.Regexp{nil, regexps[0], regexps[1]} {
		for _, ae := range []string{"gzip", "", "gzip;q=0"} {
			for _, ct := range []string{"text/html", "image/png"} {
				body := makeBody(r, 1, 200+r.Intn(3000))
				backend := httptest.NewServer(http.HandlerFunc(func(w http.ResponseWriter, _ *http.Request) {
					w.Header().Set("Content-Type", ct)
					w.Header().Set("Content-Length", strconv.Itoa(len(body)))
					w.WriteHeader(203)
					w.Write(body)
				}))
				u, _ := url.Parse(backend.URL)
				tgt := &route.Target{URL: u}
				p := &proxy.HTTPProxy{Config: config.Proxy{GZIPContentTypes: re}, Transport: &http.Transport{DisableCompression: true},
					UUID: func() string { return "c17" }, Lookup: func(*http.Request) *route.Target { return tgt }}
				s := &script{}
				if ae != "" {
					s.AE = []string{ae}
				}
				v := clientGet(p, s, "GET")
				backend.Close()
				n++
				got := v.Body
				isGz := sameStrs(v.CE, []string{"gzip"})
				if isGz {
					if d, ok := gunzip(v.Body); ok {
						got = d
					}
				}
				want := re != nil && ae == "gzip" && re.MatchString(ct)
				if v.DoErr != "" || v.ReadErr != "" || v.Status != 203 || !bytes.Equal(got, body) || isGz != want || (!want && len(v.CE) != 0) ||
					(want && v.CL != "" && v.CL != strconv.Itoa(len(v.Body))) || (!want && v.CL != strconv.Itoa(len(body))) {
					reS := "nil"
					if re != nil {
						reS = re.String()
					}
					run.Violation(-1, "through proxy.HTTPProxy.ServeHTTP: compression is not exactly 'configured, accepted and matching', or the body does not round-trip",
						map[string]interface{}{"gzip_content_types": reS, "accept_encoding": ae, "content_type": ct, "status": v.Status, "content_encoding": v.CE, "content_length": v.CL, "body_len": len(v.Body), "want_gzip": want})
				}
			}
		}
	}
	return n
}

func main() {
	raceReexec()
	run := vh.Start("C17")
	r := run.Rng
	do := func(s *script) { emit(run, s, execute(s)) }

	// 1. random scripts, small bodies (compared byte for byte inside Coq)
	for i := 0; i < run.Scale(900, 12000); i++ {
		do(randScript(r, "random-small", 400))
	}

	// 2. Accept-Encoding x Content-Encoding x content type, everything else fixed or random
	for _, ae := range aeVariants {
		for _, ce := range []string{"-", "", "gzip", "br", "identity"} {
			for _, ct := range []string{"text/html", "image/png"} {
				s := &script{Class: "matrix-accept-encoding", Re: regexps[0], AE: ae, H0: map[string][]string{}}
				body := makeBody(r, 1, 30+r.Intn(200))
				if ce == "gzip" {
					body = gzipBytes(body)
				}
				s.Ops = append(s.Ops, hop{Kind: "set", Key: "Content-Type", Val: ct})
				if ce != "-" {
					s.Ops = append(s.Ops, hop{Kind: "set", Key: "Content-Encoding", Val: ce})
				}
				s.Ops = append(s.Ops, hop{Kind: "set", Key: "Content-Length", Val: strconv.Itoa(len(body))})
				if r.Intn(2) == 0 {
					s.Ops = append(s.Ops, hop{Kind: "wh", Code: 200})
				}
				for _, c := range chunks(r, body) {
					s.Ops = append(s.Ops, hop{Kind: "write", Data: c})
				}
				do(s)
			}
		}
	}

	// 2b. every expression x every content type (with and without parameters, odd spacing and case),
	//     single and multiple Content-Type values: the verdict in the case is the real expression on
	//     the WHOLE header value, so "which string is matched" is part of the correspondence
	for _, re := range regexps {
		for ci, ct := range contentTypes {
			s := &script{Class: "matrix-content-type", Re: re, AE: []string{"gzip"}, H0: map[string][]string{}}
			body := makeBody(r, 0, 20+r.Intn(80))
			switch (ci + r.Intn(2)) % 6 {
			case 0: // two values: only the first one counts
				s.Ops = append(s.Ops, hop{Kind: "add", Key: "Content-Type", Val: ct}, hop{Kind: "add", Key: "Content-Type", Val: contentTypes[r.Intn(len(contentTypes))]})
			case 1:
				s.Ops = append(s.Ops, hop{Kind: "add", Key: "Content-Type", Val: contentTypes[r.Intn(len(contentTypes))]}, hop{Kind: "add", Key: "content-type", Val: ct})
			case 2: // already on the writer
				s.H0["Content-Type"] = []string{ct}
			default:
				s.Ops = append(s.Ops, hop{Kind: "set", Key: casing(r, "Content-Type"), Val: ct})
			}
			if r.Intn(2) == 0 {
				s.Ops = append(s.Ops, hop{Kind: "set", Key: "Content-Length", Val: strconv.Itoa(len(body))})
			}
			if r.Intn(2) == 0 {
				s.Ops = append(s.Ops, hop{Kind: "wh", Code: codes[r.Intn(len(codes))]})
			}
			for _, c := range chunks(r, body) {
				s.Ops = append(s.Ops, hop{Kind: "write", Data: c})
			}
			do(s)
		}
	}

	// 3. status codes x Content-Length x explicit/implicit header
	for _, code := range []int{0, 200, 201, 204, 206, 301, 304, 404, 500, 503} {
		for _, cl := range []string{"-", "right", "stale"} {
			for _, nbody := range []int{0, 1, 64} {
				for _, ct := range []string{"text/plain", "application/octet-stream", "-"} {
					s := &script{Class: "matrix-status", Re: regexps[r.Intn(2)], AE: []string{"gzip, deflate"}, H0: randH0(r)}
					body := makeBody(r, 0, nbody)
					if ct != "-" {
						s.Ops = append(s.Ops, hop{Kind: "set", Key: "Content-Type", Val: ct})
					}
					switch cl {
					case "right":
						s.Ops = append(s.Ops, hop{Kind: "set", Key: "Content-Length", Val: strconv.Itoa(len(body))})
					case "stale":
						s.Ops = append(s.Ops, hop{Kind: "add", Key: "content-length", Val: "12345"})
					}
					if code != 0 {
						s.Ops = append(s.Ops, hop{Kind: "wh", Code: code})
					}
					for _, c := range chunks(r, body) {
						s.Ops = append(s.Ops, hop{Kind: "write", Data: c})
					}
					do(s)
				}
			}
		}
	}

	// 4. call order: nothing at all, headers only, WriteHeader only, late headers, repeated WriteHeader,
	//    content type changed between the decision and later writes
	for i := 0; i < run.Scale(120, 1500); i++ {
		s := &script{Class: "call-order", Re: regexps[r.Intn(3)], AE: []string{"gzip"}, H0: randH0(r)}
		ct1, ct2 := contentTypes[r.Intn(len(contentTypes))], contentTypes[r.Intn(len(contentTypes))]
		w := func(n int) hop { return hop{Kind: "write", Data: makeBody(r, 0, n)} }
		switch i % 10 {
		case 0:
		case 1:
			s.Ops = []hop{{Kind: "set", Key: "Content-Type", Val: ct1}, randHeaderOp(r, 0)}
		case 2:
			s.Ops = []hop{{Kind: "set", Key: "Content-Type", Val: ct1}, {Kind: "wh", Code: codes[r.Intn(len(codes))]}}
		case 3: // the decision was made on ct1; ct2 arrives too late
			s.Ops = []hop{{Kind: "set", Key: "Content-Type", Val: ct1}, {Kind: "wh", Code: 200}, {Kind: "set", Key: "Content-Type", Val: ct2}, w(50)}
		case 4:
			s.Ops = []hop{{Kind: "set", Key: "Content-Type", Val: ct1}, w(20), {Kind: "set", Key: "Content-Type", Val: ct2}, {Kind: "wh", Code: 404}, w(20)}
		case 5: // encoding set after the first write
			s.Ops = []hop{{Kind: "set", Key: "Content-Type", Val: ct1}, w(20), {Kind: "set", Key: "Content-Encoding", Val: "br"}, w(20)}
		case 6: // encoding set, then removed before the first write
			s.Ops = []hop{{Kind: "set", Key: "Content-Type", Val: ct1}, {Kind: "set", Key: "Content-Encoding", Val: "br"}, {Kind: "del", Key: "content-encoding"}, w(40)}
		case 7: // two WriteHeader calls with different codes and a type change in between
			s.Ops = []hop{{Kind: "set", Key: "Content-Type", Val: ct1}, {Kind: "wh", Code: 500}, {Kind: "set", Key: "Content-Type", Val: ct2}, {Kind: "wh", Code: 200}, w(30)}
		case 8: // Content-Length added after the decision
			s.Ops = []hop{{Kind: "set", Key: "Content-Type", Val: ct1}, {Kind: "wh", Code: 200}, {Kind: "set", Key: "Content-Length", Val: "30"}, w(30)}
		case 9: // several values for the deciding headers
			s.Ops = []hop{{Kind: "add", Key: "Content-Type", Val: ct1}, {Kind: "add", Key: "Content-Type", Val: ct2},
				{Kind: "add", Key: "Content-Encoding", Val: encodings[r.Intn(2)]}, {Kind: "add", Key: "Content-Encoding", Val: "br"}, w(30)}
		}
		do(s)
	}

	// 4b. informational responses: the calls httputil.ReverseProxy makes for an upstream that sends
	//     1xx (copy the 1xx headers, WriteHeader(1xx), clear the map), then the final response
	for i := 0; i < run.Scale(160, 1600); i++ {
		s := &script{Class: "informational-1xx", Re: regexps[i%len(regexps)], AE: [][]string{{"gzip"}, {"gzip, deflate"}, nil, {"gzip;q=0"}}[r.Intn(4)], H0: randH0(r)}
		if i%3 != 0 {
			s.AE = []string{"gzip"}
		}
		body := makeBody(r, r.Intn(3), r.Intn(300))
		for k := 1 + r.Intn(2); k > 0; k-- {
			switch r.Intn(4) {
			case 0: // early hints carrying headers that would sway the decision
				s.Ops = append(s.Ops, hop{Kind: "set", Key: "Content-Type", Val: contentTypes[r.Intn(len(contentTypes))]})
			case 1:
				s.Ops = append(s.Ops, hop{Kind: "set", Key: "Content-Encoding", Val: encodings[r.Intn(len(encodings))]})
			default:
				s.Ops = append(s.Ops, hop{Kind: "set", Key: "Link", Val: "</style.css>; rel=preload; as=style"})
			}
			s.Ops = append(s.Ops, hop{Kind: "wh", Code: infoCodes[r.Intn(len(infoCodes))]})
			if r.Intn(5) != 0 {
				s.Ops = append(s.Ops, hop{Kind: "clear"})
			}
		}
		if r.Intn(8) != 0 {
			s.Ops = append(s.Ops, hop{Kind: "set", Key: "Content-Type", Val: contentTypes[r.Intn(len(contentTypes))]})
		}
		if r.Intn(2) == 0 {
			s.Ops = append(s.Ops, hop{Kind: "set", Key: "Content-Length", Val: strconv.Itoa(len(body))})
		}
		if r.Intn(6) == 0 {
			s.Ops = append(s.Ops, hop{Kind: "set", Key: "Content-Encoding", Val: encodings[r.Intn(len(encodings))]})
		}
		switch r.Intn(4) {
		case 0: // implicit final header
		case 1: // nothing after the informational response at all
			body = nil
		default:
			s.Ops = append(s.Ops, hop{Kind: "wh", Code: codes[r.Intn(len(codes))]})
		}
		for _, c := range chunks(r, body) {
			s.Ops = append(s.Ops, hop{Kind: "write", Data: c})
		}
		if r.Intn(6) == 0 {
			s.Ops = append(s.Ops, hop{Kind: "wh", Code: 103}) // after the final header: ignored
		}
		do(s)
	}

	// 5. no Content-Type: the first chunk is sniffed, by the handler (accepting request) or by the recorder
	firsts := [][]byte{[]byte("<html><body>"), []byte("<"), []byte("{\"a\":1}"), []byte("plain words"), {}, {0x1f, 0x8b, 8, 0, 0, 0, 0, 0}, []byte("\x89PNG\r\n\x1a\n"), {0, 1, 2, 3}, []byte("%PDF-1.4"), []byte("<?xml version=\"1.0\"?>"), []byte("  \n<!DOCTYPE html>")}
	for i := 0; i < run.Scale(110, 1100); i++ {
		s := &script{Class: "sniffed-type", Re: regexps[r.Intn(len(regexps))], AE: [][]string{{"gzip"}, nil, {"gzip;q=0"}}[r.Intn(3)], H0: map[string][]string{}}
		if r.Intn(8) == 0 {
			s.Ops = append(s.Ops, hop{Kind: "set", Key: "Transfer-Encoding", Val: "chunked"})
		}
		if r.Intn(8) == 0 {
			s.Ops = append(s.Ops, hop{Kind: "set", Key: "Content-Length", Val: "40"})
		}
		switch r.Intn(6) { // net/http does not sniff an encoded body: does the handler add a type of its own?
		case 0:
			s.Ops = append(s.Ops, hop{Kind: "set", Key: "Content-Encoding", Val: "br"})
		case 1:
			s.Ops = append(s.Ops, hop{Kind: "set", Key: "Content-Encoding", Val: encodings[r.Intn(len(encodings))]})
		}
		if r.Intn(6) == 0 {
			s.Ops = append(s.Ops, hop{Kind: "wh", Code: 200})
		}
		s.Ops = append(s.Ops, hop{Kind: "write", Data: firsts[i%len(firsts)]}, hop{Kind: "write", Data: makeBody(r, 1, r.Intn(60))})
		do(s)
	}

	// 5b. several Content-Encoding values, empty ones first / last / only ("already encoded" must look at all of them)
	ceLists := [][]string{{"", "br"}, {"", ""}, {"br", ""}, {"", "gzip"}, {"", "", "deflate"}, {"identity", "br"}, {""}, {"br"}}
	for i := 0; i < run.Scale(64, 640); i++ {
		s := &script{Class: "content-encoding-values", Re: regexps[[]int{0, 1, 2}[r.Intn(3)]], AE: [][]string{{"gzip"}, {"gzip"}, nil}[r.Intn(3)], H0: map[string][]string{}}
		l := ceLists[i%len(ceLists)]
		if i%3 == 0 {
			s.H0["Content-Encoding"] = l
		} else {
			for _, v := range l {
				s.Ops = append(s.Ops, hop{Kind: "add", Key: "Content-Encoding", Val: v})
			}
		}
		s.Ops = append(s.Ops, hop{Kind: "set", Key: "Content-Type", Val: []string{"text/html", "image/png"}[r.Intn(2)]})
		if r.Intn(2) == 0 {
			s.Ops = append(s.Ops, hop{Kind: "wh", Code: 200})
		}
		for _, c := range chunks(r, makeBody(r, 3, 20+r.Intn(100))) {
			s.Ops = append(s.Ops, hop{Kind: "write", Data: c})
		}
		do(s)
	}

	// 5c. the inner handler dies (panic(http.ErrAbortHandler), what httputil.ReverseProxy does when the backend
	//     dies mid-body): before anything, after the headers, after the header call, mid-body
	for i := 0; i < run.Scale(80, 800); i++ {
		s := &script{Class: "abort", Re: regexps[[]int{0, 1, 2}[r.Intn(3)]], AE: [][]string{{"gzip"}, {"gzip"}, nil}[r.Intn(3)], H0: randH0(r), Abort: true}
		body := makeBody(r, r.Intn(3), 50+r.Intn(300))
		stage := i % 5
		if stage >= 1 {
			s.Ops = append(s.Ops, hop{Kind: "set", Key: "Content-Type", Val: []string{"text/html", "image/png", "text/plain"}[r.Intn(3)]},
				hop{Kind: "set", Key: "Content-Length", Val: strconv.Itoa(len(body))})
		}
		if stage >= 2 && r.Intn(2) == 0 {
			s.Ops = append(s.Ops, hop{Kind: "wh", Code: []int{200, 206, 500}[r.Intn(3)]})
		}
		if stage >= 3 {
			cs := chunks(r, body)
			if stage == 3 && len(cs) > 1 {
				cs = cs[:1+r.Intn(len(cs)-1)] // a strict prefix of the body
			}
			for _, c := range cs {
				s.Ops = append(s.Ops, hop{Kind: "write", Data: c})
			}
		}
		do(s)
	}

	// 6. bodies up to 256 KiB in random chunkings (boundary sizes of the deflate window and bufio buffers)
	sizes := []int{701, 1023, 1024, 4095, 4096, 4097, 32767, 32768, 32769, 65535, 65536, 65537, 100000, 131072, 262143, 262144}
	for i := 0; i < run.Scale(48, 600); i++ {
		n := sizes[i%len(sizes)]
		if i >= 2*len(sizes) {
			n = smallBody + 1 + r.Intn(262144-smallBody)
		}
		s := &script{Class: "big-body", Re: regexps[0], AE: [][]string{{"gzip"}, {"gzip, deflate"}, {"deflate"}}[r.Intn(3)], H0: map[string][]string{}}
		body := makeBody(r, []int{0, 1, 2, 3, 4, 5}[i%6], n)
		s.Ops = append(s.Ops, hop{Kind: "set", Key: "Content-Type", Val: []string{"text/html", "application/json", "image/png"}[r.Intn(3)]})
		if i%6 == 4 && r.Intn(2) == 0 {
			s.Ops = append(s.Ops, hop{Kind: "set", Key: "Content-Encoding", Val: "gzip"})
		}
		if r.Intn(2) == 0 {
			s.Ops = append(s.Ops, hop{Kind: "set", Key: "Content-Length", Val: strconv.Itoa(len(body))})
		}
		if r.Intn(2) == 0 {
			s.Ops = append(s.Ops, hop{Kind: "wh", Code: []int{200, 206, 404}[r.Intn(3)]})
		}
		for _, c := range chunks(r, body) {
			s.Ops = append(s.Ops, hop{Kind: "write", Data: c})
		}
		do(s)
	}

	// 7. the pool holds a used writer (pending data, closed, bound to another response): Reset must make it clean
	for i := 0; i < run.Scale(90, 900); i++ {
		s := randScript(r, "pool-seeded", 300)
		s.AE, s.Accept, s.Re = []string{"gzip"}, nil, regexps[2]
		s.Dirty = 1 + i%3
		do(s)
	}

	// 8. 16 handlers at a time sharing the writer pool, interleaved op by op
	rounds := run.Scale(12, 150)
	for round := 0; round < rounds; round++ {
		const par = 16
		ss := make([]*script, par)
		for i := range ss {
			max := 400
			if i%4 == 0 {
				max = 40000
			}
			ss[i] = randScript(r, "concurrent-16", max)
			if i%2 == 0 {
				ss[i].AE, ss[i].Accept, ss[i].Re = []string{"gzip"}, nil, regexps[2]
			}
			for k := range ss[i].Ops {
				ss[i].Ops[k].Yield = r.Intn(4)
			}
		}
		out := make([]obs, par)
		var wg sync.WaitGroup
		start := make(chan struct{})
		for i := range ss {
			wg.Add(1)
			go func(i int) {
				defer wg.Done()
				<-start
				out[i] = execute(ss[i])
			}(i)
		}
		close(start)
		done := make(chan struct{})
		go func() { wg.Wait(); close(done) }()
		select {
		case <-done:
		case <-time.After(60 * time.Second):
			run.Violation(run.NextID(), "concurrent handlers did not finish within 60 s", nil)
			raceReports(run)
			run.Finish(preamble, run.Scale(150, 500))
			return
		}
		for i := range ss {
			emit(run, ss[i], out[i])
		}
	}
	runE2E(run)
	raceReports(run)
	run.Finish(preamble, run.Scale(150, 500))
}
