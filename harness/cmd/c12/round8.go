// Round 8: two dimensions the other classes never entered.
//
// tcpRoutes (class tcp/route-targets, case type CTcpRoute, Model/TcpTargets.v): a proto=tcp
// route with SEVERAL targets.  Access rules live on the target - every instance registers an
// allow= / deny= option of its own -, so the targets of one route may disagree about a peer, and
// an instance may be gone while it is still in the table.  Here the real tcp.Proxy.ServeTCP runs
// with the real Table.LookupHost (rr / rnd picker) on a table built by the real
// route.NewTableCustom with 2-4 targets whose options are chosen relative to the peer (none,
// allow containing it, allow not containing it, deny containing it, deny not containing it, a
// generated / malformed text) and whose instances are listeners (counting what they accept) or
// bound sockets that do not listen (the dial is refused at once, the port stays reserved).  A
// history of connections per table, the calls of Lookup recorded.  The model asks Lookup once and
// contacts that target only; the property: an instance accepts a connection only if the rules of
// ITS target admit the peer.
//
// reloadCycles (class http/auth-reload-cycle, case type CReload, Model/BasicReload.v +
// Model/ReloadRemoval.v): the htpasswd file of a refreshed basic scheme is removed MORE THAN ONCE:
// present / removed / restored / removed (/ restored / removed ...).  Every removal must lock
// everybody out, the second and third just like the first.
package main

import (
	"fmt"
	"io"
	"math/rand"
	"net"
	"net/http"
	"net/http/httptest"
	"net/netip"
	"os"
	"path/filepath"
	"strconv"
	"strings"
	"syscall"
	"time"

	"github.com/fabiolb/fabio/auth"
	"github.com/fabiolb/fabio/config"
	"github.com/fabiolb/fabio/proxy"
	"github.com/fabiolb/fabio/proxy/tcp"
	"github.com/fabiolb/fabio/route"

	"verifharness/internal/vh"
)

// goneInstance binds a loopback port without listening on it: a dial is refused at once and
// nobody else can get the port while the run lasts.
func goneInstance() (addr string, release func()) {
	fd, err := syscall.Socket(syscall.AF_INET, syscall.SOCK_STREAM, 0)
	if err != nil {
		panic(err)
	}
	if err := syscall.Bind(fd, &syscall.SockaddrInet4{Port: 0, Addr: [4]byte{127, 0, 0, 1}}); err != nil {
		panic(err)
	}
	sa, err := syscall.Getsockname(fd)
	if err != nil {
		panic(err)
	}
	return "127.0.0.1:" + strconv.Itoa(sa.(*syscall.SockaddrInet4).Port), func() { syscall.Close(fd) }
}

// a block of the peer's family that contains it / does not contain it
func blockAround(r *rand.Rand, a netip.Addr) string {
	bits := a.BitLen()
	n := []int{bits, bits, bits - 1, bits - 8, 8, 1 + r.Intn(bits), 1 + r.Intn(bits)}[r.Intn(7)]
	if n < 1 {
		n = 1
	}
	p, _ := a.Prefix(n)
	if n == bits && r.Intn(2) == 0 {
		return a.String() // a single address
	}
	return p.String()
}

func blockAway(r *rand.Rand, a netip.Addr) string {
	for {
		var o netip.Addr
		switch r.Intn(4) {
		case 0: // the neighbour
			if o = a.Next(); !o.IsValid() {
				o = a.Prev()
			}
			return o.String()
		case 1: // the other family
			if a.Is4() {
				o = randV6(r)
			} else {
				o = randV4(r)
			}
		default:
			if a.Is4() {
				o = randV4(r)
			} else {
				o = randV6(r)
			}
		}
		bits := o.BitLen()
		p, _ := o.Prefix(bits/4 + r.Intn(bits-bits/4+1))
		if !p.Contains(a) {
			return p.String()
		}
	}
}

func tcpRoutes(run *vh.Run) {
	r := rand.New(rand.NewSource(run.Seed*49979687 + 11))
	const pool = 4
	var live []*upstream
	var gone []string
	for i := 0; i < pool; i++ {
		u := newUpstream()
		defer u.ln.Close()
		live = append(live, u)
		a, release := goneInstance()
		defer release()
		gone = append(gone, a)
	}
	type tgt struct {
		g     ruleGen
		alive bool
		addr  string
		up    *upstream
		ref   refRules
		env   string
	}
	mkRule := func(kind int, a netip.Addr) ruleGen {
		extra := func() string {
			if r.Intn(3) == 0 {
				return ",ip:" + blockAway(r, a)
			}
			return ""
		}
		switch kind {
		case 0:
			return ruleGen{class: "none"}
		case 1:
			return ruleGen{allow: "ip:" + blockAround(r, a) + extra(), class: "allow-in"}
		case 2:
			return ruleGen{allow: "ip:" + blockAway(r, a) + extra(), class: "allow-out"}
		case 3:
			return ruleGen{deny: "ip:" + blockAround(r, a) + extra(), class: "deny-in"}
		case 4:
			return ruleGen{deny: "ip:" + blockAway(r, a) + extra(), class: "deny-out"}
		default:
			return genRule(r)
		}
	}
	history := func(h int, directed [][2]int) {
		main := randAddr(r)
		nT := 2 + r.Intn(3)
		if directed != nil {
			nT = len(directed)
		}
		port := 20000 + r.Intn(20000)
		src := ":" + strconv.Itoa(port)
		ts := make([]*tgt, nT)
		var defs []route.RouteDef
		nLive, nGone := 0, 0
		for i := range ts {
			kind, alive := r.Intn(6), r.Intn(2) == 0
			if directed != nil {
				kind, alive = directed[i][0], directed[i][1] == 1
			}
			t := &tgt{g: mkRule(kind, main), alive: alive}
			if !ascii(t.g.allow, t.g.deny) {
				t.g = ruleGen{class: "none"}
			}
			if alive {
				t.up, t.addr = live[nLive], live[nLive].ln.Addr().String()
				nLive++
			} else {
				t.addr = gone[nGone]
				nGone++
			}
			tb := newTables(run)
			tb.askRule(t.g.allow)
			tb.askRule(t.g.deny)
			t.ref = refParse(t.g.allow, t.g.deny)
			t.env = coqEnv(t.g.allow, t.g.deny, tb, &t.ref)
			opts := map[string]string{"proto": "tcp"}
			if t.g.allow != "" {
				opts["allow"] = t.g.allow
			}
			if t.g.deny != "" {
				opts["deny"] = t.g.deny
			}
			defs = append(defs, route.RouteDef{Cmd: route.RouteAddCmd, Service: "svc", Src: src, Dst: "tcp://" + t.addr, Opts: opts})
			ts[i] = t
		}
		tbl, err := route.NewTableCustom(&defs)
		if err != nil {
			panic(err)
		}
		pickerName := []string{"rr", "rnd"}[r.Intn(2)]
		if directed != nil {
			pickerName = "rr"
		}
		picker := route.Picker[pickerName]
		noRoute := false
		var picks []string
		p := &tcp.Proxy{DialTimeout: 5 * time.Second, Lookup: func(host string) *route.Target {
			if noRoute {
				picks = append(picks, "None")
				return nil
			}
			t := tbl.LookupHost(host, picker)
			if t == nil {
				picks = append(picks, "None")
				return nil
			}
			for i := range ts {
				if t.URL.Host == ts[i].addr {
					picks = append(picks, vh.Some(vh.N(i)))
					return t
				}
			}
			panic("tcp/route-targets: Lookup returned a target that is not in the table")
		}}
		nConn := 3 + r.Intn(4)
		if directed != nil {
			nConn = 2 * nT
		}
		for k := 0; k < nConn; k++ {
			a := main
			if directed == nil && r.Intn(5) < 2 {
				t := ts[r.Intn(nT)]
				a = pick(r, candidates(r, &t.ref))
			}
			ta := &net.TCPAddr{IP: netIP(r, a), Port: 1 + r.Intn(65535)}
			var remote net.Addr = ta
			canon := &a
			if directed == nil {
				switch r.Intn(40) {
				case 0:
					remote, canon = &net.UnixAddr{Name: "@", Net: "unix"}, nil
				case 1:
					ta.IP, canon = nil, nil
				}
			}
			noRoute = directed == nil && r.Intn(40) == 0
			picks = nil
			c := &scriptConn{remote: remote, local: &net.TCPAddr{IP: net.IPv4(127, 0, 0, 1), Port: port}}
			id := run.NextID()
			if pn, v := vh.Recover(func() { _ = p.ServeTCP(c) }); pn {
				run.Violation(id, fmt.Sprintf("tcp/route-targets: ServeTCP panicked: %v", v), remote.String())
				continue
			}
			peer := "NotTCPAddr"
			if x, ok := remote.(*net.TCPAddr); ok {
				peer = vh.App("TCPAddr", coqOptIP(x.IP))
			}
			var targets, accepts, notes []string
			first := ""
			for i, t := range ts {
				adm := true
				if canon != nil {
					adm = t.ref.admits(*canon)
				}
				n := 0
				if t.alive {
					n = t.up.hits()
				}
				targets = append(targets, vh.Pair(vh.Pair(t.env, vh.Bool(t.alive)), vh.Bool(adm)))
				accepts = append(accepts, vh.N(n))
				notes = append(notes, fmt.Sprintf("#%d allow=%q deny=%q alive=%v admits-peer=%v accepted=%d", i, t.g.allow, t.g.deny, t.alive, adm, n))
				if len(picks) > 0 && picks[0] == vh.Some(vh.N(i)) {
					first = map[bool]string{true: "admit", false: "deny"}[adm] + "+" + map[bool]string{true: "alive", false: "gone"}[t.alive]
				}
			}
			if first == "" {
				first = "no-route"
			}
			class := "tcp/route-targets/" + first
			if directed != nil {
				class = "tcp/route-targets-directed/" + first
			}
			run.Add(class, vh.App("CTcpRoute", vh.List(targets), vh.List(picks), peer, vh.List(accepts), vh.Bool(c.closed)),
				map[string]interface{}{"history": h, "connection": k, "picker": pickerName, "remote": remote.String(), "targets": notes, "lookups": len(picks)})
		}
	}
	for h := 0; h < run.Scale(45, 400); h++ {
		history(h, nil)
	}
	// directed: every pair (first target, second target) of {allow-in, allow-out, deny-in, deny-out, none} x {alive, gone}
	kinds := []int{1, 2, 3, 4, 0}
	for i, k1 := range kinds {
		for j, k2 := range kinds {
			if !run.Thorough() && (i+j)%2 == 1 && k1 != 1 {
				continue // quick tier: half of the grid, every pair with an admitting first target
			}
			for _, al := range [][2]int{{0, 1}, {1, 0}, {0, 0}} {
				history(1000+10*i+j, [][2]int{{k1, al[0]}, {k2, al[1]}})
			}
		}
	}
}

func reloadCycles(run *vh.Run, dir string) {
	r := rand.New(rand.NewSource(run.Seed*86028121 + 12))
	const lockTimeout = 3 * time.Second
	pw := func(n int) string {
		const cs = "abcdefghijklmnopqrstuvwxyzABCDEFGHIJKLMNOPQRSTUVWXYZ0123456789-_:!"
		b := make([]byte, n)
		for i := range b {
			b[i] = cs[r.Intn(len(cs))]
		}
		return string(b)
	}
	mkUser := func(name, p string) hLine {
		l := hLine{kind: 0, user: name, pw: p}
		switch r.Intn(3) {
		case 0:
			l.text = shaLine(name, p)
		case 1:
			l.text = bcryptLine(name, p)
		default:
			l.text = name + ":" + p
		}
		return l
	}
	coqCreds := func(header string) (string, string) {
		req := &http.Request{Header: http.Header{}}
		if header != "" {
			req.Header.Set("Authorization", header)
		}
		u, p, ok := req.BasicAuth()
		return fmt.Sprintf("{| c_ok := %s; c_user := %s; c_pw := %s |}", vh.Bool(ok), vh.HxS(u), vh.HxS(p)), fmt.Sprintf("%q/%q ok=%v", u, p, ok)
	}
	for h := 0; h < run.Scale(9, 45); h++ {
		file := filepath.Join(dir, fmt.Sprintf("cycle%d.htpasswd", h))
		base := time.Now().Truncate(time.Second).Add(-time.Hour)
		names := []string{"alice", "bob", "carol", "dave", "erin", "frank"}
		r.Shuffle(len(names), func(i, j int) { names[i], names[j] = names[j], names[i] })
		install := func(f []hLine, mt int) {
			tmp := file + ".new"
			if err := os.WriteFile(tmp, hFileText(f), 0o600); err != nil {
				panic(err)
			}
			t := base.Add(time.Duration(mt) * time.Second)
			if err := os.Chtimes(tmp, t, t); err != nil {
				panic(err)
			}
			if err := os.Rename(tmp, file); err != nil {
				panic(err)
			}
		}
		nUsers := 1 + r.Intn(3)
		var users []hLine
		for k := 0; k < nUsers; k++ {
			users = append(users, mkUser(names[k], pw(1+r.Intn(9))))
		}
		canary := mkUser(fmt.Sprintf("cyc%dv0", h), pw(6))
		content := append(append([]hLine(nil), users...), canary)
		r.Shuffle(len(content), func(i, j int) { content[i], content[j] = content[j], content[i] })
		init := content
		install(init, 0)
		authName := []string{"mybasic", "staff"}[r.Intn(2)]
		hs, err := auth.LoadAuthSchemes(map[string]config.AuthScheme{authName: {Name: authName, Type: "basic",
			Basic: config.BasicAuth{Realm: "r", File: file, Refresh: 10 * time.Millisecond}}})
		if err != nil {
			panic(err)
		}
		sp := &sharedProxy{}
		if h%4 == 3 {
			sp.redirect = redirectCodes[r.Intn(len(redirectCodes))]
		}
		sp.tbl = mkTable(r, "", "", authName, sp.redirect)
		sp.p = &proxy.HTTPProxy{
			Transport: rtFunc(func(req *http.Request) (*http.Response, error) {
				sp.hits++
				return &http.Response{StatusCode: 200, Proto: "HTTP/1.1", ProtoMajor: 1, ProtoMinor: 1, Header: http.Header{},
					Body: io.NopCloser(strings.NewReader("ok")), Request: req}, nil
			}),
			Lookup:      tableLookup(sp.tbl),
			AuthSchemes: hs,
		}
		doReq := func(header string) (int, int, bool) {
			before := sp.hits
			req := httptest.NewRequest("GET", "http://svc.example/", nil)
			req.RemoteAddr = "192.0.2.7:4711"
			if header != "" {
				req.Header.Set("Authorization", header)
			}
			rec := httptest.NewRecorder()
			sp.p.ServeHTTP(rec, req)
			return rec.Code, sp.hits - before, rec.Header().Get("Location") != ""
		}
		type reqStep struct {
			histLen             int
			phase, note, header string
			status, hits        int
			loc                 bool
		}
		var hist, histNotes []string
		var steps []reqStep
		send := func(phase, note, header string) {
			var st, hi int
			var loc bool
			if pn, pv := vh.Recover(func() { st, hi, loc = doReq(header) }); pn {
				run.Violation(run.NextID(), fmt.Sprintf("auth-reload-cycle: ServeHTTP panicked: %v", pv), note)
				return
			}
			steps = append(steps, reqStep{histLen: len(hist), phase: phase, note: note, header: header, status: st, hits: hi, loc: loc})
		}
		pair := func(phase, note string, u hLine) {
			send(phase, fmt.Sprintf("%s %q/%q", note, u.user, u.pw), basicHeader(u.user, u.pw))
		}
		// polls until the canary is accepted / rejected as wanted; false = not within the time
		waitCanary := func(c hLine, want bool, d time.Duration) bool {
			deadline := time.Now().Add(d)
			for {
				st, _, _ := doReq(basicHeader(c.user, c.pw))
				if (st == 200 || (sp.redirect != 0 && st == sp.redirect)) == want {
					return true
				}
				if time.Now().After(deadline) {
					return false
				}
				time.Sleep(2 * time.Millisecond)
			}
		}
		for _, u := range users {
			pair("initial", "good login", u)
		}
		send("initial", "wrong password", basicHeader(users[0].user, users[0].pw+"x"))

		removals := 2 + r.Intn(2)
		if run.Thorough() {
			removals = 2 + r.Intn(4)
		}
		staleEnd := h%5 == 4 // the last restoration keeps the modification time the scheme loaded last
		mt, loadedMt := 0, 0
		gaveUp := false
		for k := 1; k <= removals && !gaveUp; k++ {
			// ---- the operator removes the file ----
			if err := os.Remove(file); err != nil {
				panic(err)
			}
			hist, histNotes = append(hist, "HsRemove"), append(histNotes, fmt.Sprintf("removal %d", k))
			phase := "locked-first"
			if k > 1 {
				phase = "locked-again"
			}
			if waitCanary(canary, false, lockTimeout) {
				hist, histNotes = append(hist, "HsInForce"), append(histNotes, fmt.Sprintf("lock-out %d seen (canary rejected)", k))
			} else {
				// hundreds of refresh periods later the removed file's users are still let in
				hist, histNotes = append(hist, "HsSettled"), append(histNotes, fmt.Sprintf("removal %d: canary still accepted %v (= %d refresh periods) later", k, lockTimeout, lockTimeout/(10*time.Millisecond)))
				gaveUp = true
			}
			for _, u := range users {
				pair(phase, "pair of the removed file", u)
			}
			pair(phase, "canary of the removed file", canary)
			send(phase, "no header", "")
			if r.Intn(2) == 0 {
				time.Sleep(25 * time.Millisecond) // a few refresh periods later: still locked out
				pair(phase, "pair of the removed file, some refresh periods later", users[r.Intn(len(users))])
			}
			if gaveUp || (k == removals && !staleEnd) {
				break
			}
			// ---- the operator restores the file ----
			stale := k == removals && staleEnd
			prevUsers, prevCanary := users, canary
			switch r.Intn(3) {
			case 0: // the very same content (restored from a backup)
			case 1: // same users, a new canary line
				canary = mkUser(fmt.Sprintf("cyc%dv%d", h, k), pw(6))
			default: // one password changed, maybe a user added
				users = append([]hLine(nil), users...)
				i := r.Intn(len(users))
				users[i] = mkUser(users[i].user, users[i].pw+pw(1+r.Intn(2)))
				if len(users) < len(names) && r.Intn(2) == 0 {
					users = append(users, mkUser(names[len(users)], pw(1+r.Intn(9))))
				}
				canary = mkUser(fmt.Sprintf("cyc%dv%d", h, k), pw(6))
			}
			content = append(append([]hLine(nil), users...), canary)
			r.Shuffle(len(content), func(i, j int) { content[i], content[j] = content[j], content[i] })
			if stale {
				mt = loadedMt
			} else {
				mt += 2
			}
			hist = append(hist, vh.App("HsWrite", coqHFile(content), vh.N(mt)))
			histNotes = append(histNotes, fmt.Sprintf("restoration %d (mtime +%ds)", k, mt))
			install(content, mt)
			if stale {
				// cfg.ModTime == stat.ModTime(): the goroutine does not re-read; everybody stays locked out
				time.Sleep(300 * time.Millisecond)
				hist, histNotes = append(hist, "HsSettled"), append(histNotes, "30 refresh periods later (unchanged modification time: no re-read expected)")
				for _, u := range users {
					pair("stale-mtime", "pair of the restored file", u)
				}
				pair("stale-mtime", "canary of the restored file", canary)
				break
			}
			if waitCanary(canary, true, lockTimeout) {
				hist, histNotes = append(hist, "HsInForce"), append(histNotes, fmt.Sprintf("restoration %d seen in force", k))
				loadedMt = mt
			} else {
				hist, histNotes = append(hist, "HsSettled"), append(histNotes, fmt.Sprintf("restoration %d: canary still rejected %v later", k, lockTimeout))
				gaveUp = true
			}
			for _, u := range users {
				pair("restored", "pair of the restored file", u)
			}
			for i, u := range prevUsers {
				if i < len(users) && users[i].pw != u.pw {
					pair("restored", "old password of a user whose password changed", u)
				}
			}
			if prevCanary.user != canary.user {
				pair("restored", "canary of the file removed before", prevCanary)
			}
			send("restored", "wrong password", basicHeader(users[0].user, users[0].pw+"x"))
		}
		for i, st := range steps {
			creds, shown := coqCreds(st.header)
			class := "auth-reload-cycle/" + st.phase
			if sp.redirect != 0 {
				class += "+redirect"
			}
			run.Add("http/"+class, vh.App("CReload", vh.N(sp.redirect), vh.HxS(authName), coqHFile(init), vh.N(0), vh.List(hist[:st.histLen]), vh.N(i), creds,
				vh.N(st.status), vh.N(st.hits), vh.Bool(st.loc)),
				map[string]interface{}{"history": h, "auth": authName, "redirect": sp.redirect, "phase": st.phase, "request": st.note, "basic_auth": shown,
					"before": histNotes[:st.histLen], "requests_before": i, "status": st.status, "upstream_hits": st.hits})
		}
	}
}
