// Correspondence harness for C12 (access rules and route authentication gate):
// runs the real Route.addTarget / ProcessAccessRules / denyByIP,
// HTTPProxy.ServeHTTP (recorder + counting RoundTripper) and the three TCP
// proxies' ServeTCP (scripted conn + counting loopback upstream) of /repo on
// generated rule texts (well-formed and malformed), peers, X-Forwarded-For
// chains and credentials, records what the real net.ParseIP / ParseCIDR /
// SplitHostPort answered on every string involved, evaluates the same rule
// text independently with net/netip, and writes the cases for the Coq model.
// Also: long X-Forwarded-For lists (class http/xff-long) and histories of a
// basic scheme whose htpasswd file is replaced / removed while requests are
// served, with requests sent from inside the re-read through the standard
// logger (class http/auth-reload, case type CReload, Model/BasicReload.v).
// Also: histories against a SET of basic schemes (two or three schemes with htpasswd
// files of their own and equal or different realms behind ONE HTTPProxy, one route per
// scheme): credentials accepted on the route of one scheme are presented on the routes
// of the others (class http/scheme-set, case type CSchemes, Model/BasicSchemes.v).
// Also: whole requests - every method, arbitrary header maps - through the two gates
// (gate.go, class http/any-request, case type CGate, Model/GateRequest.v).
package main

import (
	"bufio"
	"bytes"
	"context"
	"crypto/sha1"
	"crypto/tls"
	"encoding/base64"
	"fmt"
	"io"
	"log"
	"math/big"
	"math/rand"
	"net"
	"net/http"
	"net/http/httptest"
	"net/netip"
	"net/url"
	"os"
	"path/filepath"
	"sort"
	"strconv"
	"strings"
	"sync"
	"sync/atomic"
	"time"

	"golang.org/x/crypto/bcrypt"
	grpc_proxy "github.com/mwitkow/grpc-proxy/proxy"
	"google.golang.org/grpc"
	"google.golang.org/grpc/credentials/insecure"
	"google.golang.org/grpc/metadata"

	"github.com/fabiolb/fabio/auth"
	"github.com/fabiolb/fabio/config"
	"github.com/fabiolb/fabio/metrics"
	"github.com/fabiolb/fabio/proxy"
	"github.com/fabiolb/fabio/proxy/tcp"
	"github.com/fabiolb/fabio/route"

	"verifharness/internal/vh"
)

const preamble = `From Coq Require Import List NArith String.
From Fabio Require Import Lib.Outcome Lib.Bytes Lib.Pack Model.Access Model.BasicReload Model.BasicSchemes Model.GateRequest Check.C12.
Import ListNotations.
Local Open Scope N_scope.
`

// ---------- Coq rendering ----------
func bigN(b []byte) string { return new(big.Int).SetBytes(b).String() + "%N" }

func coqIP(ip net.IP) string {
	switch len(ip) {
	case 4:
		return "(IP4 " + bigN(ip) + ")"
	case 16:
		return "(IP16 " + bigN(ip) + ")"
	}
	panic("coqIP: length")
}

func coqOptIP(ip net.IP) string {
	if ip == nil {
		return vh.None
	}
	return vh.Some(coqIP(ip))
}

func coqNet(n *net.IPNet) string {
	ones, bits := n.Mask.Size()
	if (bits != 32 && bits != 128) || (len(n.IP) != 4 && len(n.IP) != 16) || len(n.Mask)*8 != bits {
		panic("coqNet: non-canonical IPNet " + n.String())
	}
	return fmt.Sprintf("{| n_ip := %s; n_ones := %s; n_m16 := %s |}", coqIP(n.IP), vh.N(ones), vh.Bool(bits == 128))
}

func coqNets(l []*net.IPNet) string {
	items := make([]string, len(l))
	for i, n := range l {
		items[i] = coqNet(n)
	}
	return vh.List(items)
}

// canonical address: (is v6, number) of an unmapped, zone-less netip.Addr
func coqCanon(a netip.Addr) string {
	return "(" + vh.Bool(a.Is6()) + ", " + bigN(a.AsSlice()) + ")"
}

func coqPrefix(p netip.Prefix) string {
	return fmt.Sprintf("{| s_v6 := %s; s_net := %s; s_len := %s |}", vh.Bool(p.Addr().Is6()), bigN(p.Addr().AsSlice()), vh.N(p.Bits()))
}

// ---------- the independent reading of a rule text with net/netip ----------
type refRules struct {
	allow, deny       []netip.Prefix
	hasAllow, hasDeny bool
	malformed         bool // some item does not parse, or both options given
}

func digits(s string) bool {
	if s == "" {
		return false
	}
	for _, c := range s {
		if c < '0' || c > '9' {
			return false
		}
	}
	return true
}

// refItem: the block an item of a rule option denotes, by the documented grammar
// "ip:<address>" or "ip:<address>/<prefix length>".
func refItem(item string) (netip.Prefix, bool) {
	typ, val, ok := strings.Cut(item, ":")
	if !ok || strings.ToLower(strings.TrimSpace(typ)) != "ip" {
		return netip.Prefix{}, false
	}
	val = strings.TrimSpace(val)
	as, bs, hasLen := strings.Cut(val, "/")
	a, err := netip.ParseAddr(as)
	if err != nil || a.Zone() != "" {
		return netip.Prefix{}, false
	}
	bits := a.BitLen()
	if hasLen {
		if !digits(bs) || len(bs) > 6 {
			return netip.Prefix{}, false
		}
		bits, _ = strconv.Atoi(bs)
		if bits > a.BitLen() {
			return netip.Prefix{}, false
		}
	}
	// an IPv4-mapped block whose prefix covers the ::ffff:0:0/96 part is an IPv4 block
	if a.Is4In6() && bits >= 96 {
		a, bits = a.Unmap(), bits-96
	}
	p := netip.PrefixFrom(a, bits).Masked()
	if !p.IsValid() {
		return netip.Prefix{}, false
	}
	return p, true
}

func refParse(allow, deny string) refRules {
	var r refRules
	r.hasAllow, r.hasDeny = allow != "", deny != ""
	r.malformed = r.hasAllow && r.hasDeny
	one := func(opt string) (ps []netip.Prefix) {
		for _, it := range strings.Split(opt, ",") {
			if p, ok := refItem(it); ok {
				ps = append(ps, p)
			} else {
				r.malformed = true
			}
		}
		return
	}
	if r.hasAllow {
		r.allow = one(allow)
	}
	if r.hasDeny {
		r.deny = one(deny)
	}
	return r
}

func (r *refRules) admits(a netip.Addr) bool {
	a = a.WithZone("").Unmap()
	if r.hasAllow {
		in := false
		for _, p := range r.allow {
			if p.Contains(a) {
				in = true
			}
		}
		if !in {
			return false
		}
	}
	if r.hasDeny {
		for _, p := range r.deny {
			if p.Contains(a) {
				return false
			}
		}
	}
	return true
}

func (r *refRules) coq() string {
	one := func(has bool, ps []netip.Prefix) string {
		if !has {
			return vh.None
		}
		items := make([]string, len(ps))
		for i, p := range ps {
			items[i] = coqPrefix(p)
		}
		return vh.Some(vh.List(items))
	}
	return fmt.Sprintf("{| ref_allow := %s; ref_deny := %s |}", one(r.hasAllow, r.allow), one(r.hasDeny, r.deny))
}

// ---------- oracle tables: answers of the real net package ----------
type tables struct {
	ip   map[string]net.IP
	cidr map[string]*net.IPNet
	run  *vh.Run
}

func newTables(run *vh.Run) *tables {
	return &tables{ip: map[string]net.IP{}, cidr: map[string]*net.IPNet{}, run: run}
}

func (t *tables) askIP(s string) { t.ip[s] = net.ParseIP(s) }

// askValue records what the real library says about the value of a rule item.
func (t *tables) askValue(v string) {
	if strings.Contains(v, "/") {
		_, n, err := net.ParseCIDR(v)
		if err != nil {
			n = nil
		}
		t.cidr[v] = n
		return
	}
	ip := net.ParseIP(v)
	t.ip[v] = ip
	if ip != nil {
		// the model replaces ParseCIDR(ip.String()+"/32"|"/128") by the host block of ip
		var want *net.IPNet
		s := ip.String() + "/128"
		if ip4 := ip.To4(); ip4 != nil {
			s = ip.String() + "/32"
			want = &net.IPNet{IP: ip4, Mask: net.CIDRMask(32, 32)}
		} else {
			want = &net.IPNet{IP: ip, Mask: net.CIDRMask(128, 128)}
		}
		_, got, err := net.ParseCIDR(s)
		if err != nil || !got.IP.Equal(want.IP) || len(got.IP) != len(want.IP) || got.Mask.String() != want.Mask.String() {
			t.run.Violation(t.run.NextID(), "harness assumption broken: ParseCIDR(ParseIP(v).String()+/len) is not the host block of v", v)
		}
	}
}

func (t *tables) askRule(opt string) {
	if opt == "" {
		return
	}
	for _, c := range strings.Split(opt, ",") {
		temps := strings.SplitN(c, ":", 2)
		if len(temps) == 2 {
			t.askValue(strings.TrimSpace(temps[1]))
		}
	}
}

func sortedKeys[V any](m map[string]V) []string {
	ks := make([]string, 0, len(m))
	for k := range m {
		ks = append(ks, k)
	}
	sort.Strings(ks)
	return ks
}

func (t *tables) coqIPTab() string {
	var items []string
	for _, k := range sortedKeys(t.ip) {
		items = append(items, vh.Pair(vh.HxS(k), coqOptIP(t.ip[k])))
	}
	return vh.List(items)
}

func (t *tables) coqCIDRTab() string {
	var items []string
	for _, k := range sortedKeys(t.cidr) {
		v := vh.None
		if t.cidr[k] != nil {
			v = vh.Some(coqNet(t.cidr[k]))
		}
		items = append(items, vh.Pair(vh.HxS(k), v))
	}
	return vh.List(items)
}

func coqEnv(allow, deny string, t *tables, ref *refRules) string {
	return fmt.Sprintf("{| e_allow := %s; e_deny := %s; e_ip := %s; e_cidr := %s; e_ref := %s |}",
		vh.HxS(allow), vh.HxS(deny), t.coqIPTab(), t.coqCIDRTab(), ref.coq())
}

func stripZone(s string) string {
	if i := strings.IndexByte(s, '%'); i >= 0 {
		return s[:i]
	}
	return s
}

func ascii(ss ...string) bool {
	for _, s := range ss {
		for i := 0; i < len(s); i++ {
			if s[i] >= 0x80 {
				return false
			}
		}
	}
	return true
}

// ---------- generators ----------
func randV4(r *rand.Rand) netip.Addr {
	var b [4]byte
	r.Read(b[:])
	if r.Intn(3) == 0 {
		copy(b[:], [][]byte{{10, 0, 0, 0}, {10, 1, 2, 3}, {192, 168, 1, 77}, {172, 16, 5, 4}, {1, 2, 3, 4}, {127, 0, 0, 1}, {100, 123, 4, 5}, {0, 0, 0, 0}, {255, 255, 255, 255}, {6, 6, 6, 6}}[r.Intn(10)])
	}
	return netip.AddrFrom4(b)
}

func randV6(r *rand.Rand) netip.Addr {
	var b [16]byte
	r.Read(b[:])
	switch r.Intn(6) {
	case 0:
		b = netip.MustParseAddr("fe80::1").As16()
	case 1:
		b = netip.MustParseAddr("2001:db8::42").As16()
	case 2:
		b = netip.MustParseAddr("::1").As16()
	case 3:
		for i := 2; i < 10; i++ {
			b[i] = 0
		}
		b[0], b[1] = 0x20, 0x01
	case 4:
		// close to the v4-mapped range without being in it
		b = [16]byte{0, 0, 0, 0, 0, 0, 0, 0, 0, 0, 0xff, byte(0xfe + r.Intn(2)), 10, 0, 0, byte(r.Intn(256))}
	}
	a := netip.AddrFrom16(b)
	if a.Is4In6() {
		return netip.MustParseAddr("2001:db8::7")
	}
	return a
}

func randAddr(r *rand.Rand) netip.Addr {
	if r.Intn(3) == 0 {
		return randV6(r)
	}
	return randV4(r)
}

// addrText renders an (unmapped) address the ways a peer / header may spell it.
func addrText(r *rand.Rand, a netip.Addr) string {
	if a.Is4() {
		if r.Intn(5) == 0 {
			return "::ffff:" + a.String()
		}
		return a.String()
	}
	if r.Intn(8) == 0 {
		return strings.ToUpper(a.String())
	}
	if r.Intn(10) == 0 {
		return a.StringExpanded()
	}
	return a.String()
}

// well-formed item value: address or CIDR, v4 / v6 / v4-mapped, host bits possibly set
func goodValue(r *rand.Rand) string {
	switch r.Intn(12) {
	case 0, 1, 2:
		a := randV4(r)
		return fmt.Sprintf("%s/%d", a, r.Intn(33))
	case 3:
		return []string{"10.0.0.0/8", "192.168.1.0/24", "172.16.0.0/12", "0.0.0.0/0", "1.2.3.4/32", "100.123.0.0/16", "10.0.0.0/08", "6.6.6.6/31"}[r.Intn(8)]
	case 4:
		return randV4(r).String()
	case 5, 6:
		a := randV6(r)
		return fmt.Sprintf("%s/%d", a, []int{0, 10, 32, 48, 64, 96, 104, 120, 127, 128, r.Intn(129)}[r.Intn(11)])
	case 7:
		return []string{"fe80::/10", "2001:db8::/32", "::/0", "::1/128", "fe80::1234", "::1", "2001:DB8::/32"}[r.Intn(7)]
	case 8:
		return randV6(r).String()
	case 9: // v4-mapped blocks, prefix on either side of /96
		return fmt.Sprintf("::ffff:%s/%d", randV4(r), []int{96, 104, 120, 128, 96 + r.Intn(33), 90, 64, 0, 95}[r.Intn(9)])
	case 10:
		return "::ffff:" + randV4(r).String()
	default:
		return fmt.Sprintf("%s/%d", randV4(r), []int{0, 1, 31, 32}[r.Intn(4)])
	}
}

var badValues = []string{
	"10.0.0.0/33", "fe80::/129", "10.0.0.0/-1", "10.0.0.0/", "/8", "10.0.0/8", "300.1.1.1", "1.2.3.4/24/1",
	"fe80::1%eth0", "fe80::1%eth0/64", "", "garbage", "10.0.0.0/8x", "10.0.0.0/+8", "10.0.0.0 /8", "1.2.3.4.5",
	"::ffff:1.2.3.4/129", "10.0.0.0/999999999999999999999", "01.2.3.4", "1.2.3.4:80", "example.com", "::g/64", "*",
}

// item returns the text of one rule item and whether it is meant to be well-formed.
func item(r *rand.Rand, bad bool) string {
	if !bad {
		tag := []string{"ip", "ip", "ip", "ip", "IP", "Ip", " ip", "ip ", "\tiP "}[r.Intn(9)]
		sep := []string{"", "", "", " ", "  "}[r.Intn(5)]
		return tag + ":" + sep + goodValue(r) + []string{"", "", "", " "}[r.Intn(4)]
	}
	switch r.Intn(8) {
	case 0: // missing "ip:" (the documentation's own example has this form)
		return goodValue(r)
	case 1: // unknown type
		return []string{"host", "cidr", "ipv4", "i p", "", "ip6"}[r.Intn(6)] + ":" + goodValue(r)
	case 2:
		return ""
	case 3:
		return []string{"ip", "ip=10.0.0.0/8", "ip;10.0.0.0/8", "allow"}[r.Intn(4)]
	default:
		return "ip:" + badValues[r.Intn(len(badValues))]
	}
}

// ruleText builds one option value: n items, the item at position badAt (if >= 0) malformed.
func ruleText(r *rand.Rand, n, badAt int) string {
	items := make([]string, n)
	for i := range items {
		items[i] = item(r, i == badAt)
	}
	return strings.Join(items, ",")
}

type ruleGen struct {
	allow, deny, class string
}

func genRule(r *rand.Rand) ruleGen {
	n := 1 + r.Intn(4)
	switch k := r.Intn(20); {
	case k < 6:
		return ruleGen{allow: ruleText(r, n, -1), class: "allow"}
	case k < 12:
		return ruleGen{deny: ruleText(r, n, -1), class: "deny"}
	case k < 14:
		return ruleGen{allow: ruleText(r, n, r.Intn(n)), class: "allow-bad-item"}
	case k < 16:
		return ruleGen{deny: ruleText(r, n, r.Intn(n)), class: "deny-bad-item"}
	case k < 17:
		return ruleGen{allow: ruleText(r, n, 0), class: "allow-bad-first"}
	case k < 18:
		return ruleGen{allow: ruleText(r, n, -1), deny: ruleText(r, 1+r.Intn(2), -1), class: "allow+deny"}
	case k < 19:
		return ruleGen{class: "no-rule"}
	default:
		// trailing / doubled comma: an empty item
		s := ruleText(r, n, -1)
		if r.Intn(2) == 0 {
			return ruleGen{allow: s + ",", class: "allow-empty-item"}
		}
		return ruleGen{deny: "," + s, class: "deny-empty-item"}
	}
}

// neighbours of a block: first, last, just outside on both sides, something inside
func edgeAddrs(r *rand.Rand, p netip.Prefix) []netip.Addr {
	first := p.Masked().Addr()
	b := first.AsSlice()
	last := make([]byte, len(b))
	copy(last, b)
	inside := make([]byte, len(b))
	copy(inside, b)
	for i := p.Bits(); i < len(b)*8; i++ {
		last[i/8] |= 1 << (7 - i%8)
		if r.Intn(2) == 0 {
			inside[i/8] |= 1 << (7 - i%8)
		}
	}
	la, _ := netip.AddrFromSlice(last)
	in, _ := netip.AddrFromSlice(inside)
	out := []netip.Addr{first, la, in}
	if n := la.Next(); n.IsValid() {
		out = append(out, n)
	}
	if pv := first.Prev(); pv.IsValid() {
		out = append(out, pv)
	}
	// flip one bit inside the prefix: outside, but close
	if p.Bits() > 0 {
		f := make([]byte, len(b))
		copy(f, inside)
		i := r.Intn(p.Bits())
		f[i/8] ^= 1 << (7 - i%8)
		fa, _ := netip.AddrFromSlice(f)
		out = append(out, fa)
	}
	return out
}

// candidate addresses for a rule: edges of its blocks (as the reference reads them) + random
func candidates(r *rand.Rand, ref *refRules) []netip.Addr {
	var out []netip.Addr
	for _, p := range append(append([]netip.Prefix(nil), ref.allow...), ref.deny...) {
		out = append(out, edgeAddrs(r, p)...)
	}
	for i := 0; i < 3; i++ {
		out = append(out, randAddr(r))
	}
	for i := range out {
		if out[i].Is4In6() { // neighbours of ::ffff:0:0/96 stay as they are; mapped ones count as v4
			out[i] = out[i].Unmap()
		}
	}
	return out
}

func pick(r *rand.Rand, c []netip.Addr) netip.Addr { return c[r.Intn(len(c))] }

// netIP renders a canonical address as the byte slice a net.TCPAddr / probe may carry
func netIP(r *rand.Rand, a netip.Addr) net.IP {
	if a.Is4() {
		b := a.As4()
		if r.Intn(2) == 0 {
			return net.IP(b[:])
		}
		return net.IP(b[:]).To16()
	}
	b := a.As16()
	return net.IP(b[:])
}

// ---------- running the implementation ----------
var upstreamURL *url.URL

func mkTarget(allow, deny, authScheme string) *route.Target {
	opts := map[string]string{}
	if allow != "" {
		opts["allow"] = allow
	}
	if deny != "" {
		opts["deny"] = deny
	}
	if authScheme != "" {
		opts["auth"] = authScheme
	}
	return route.VerifAddTarget("svc", upstreamURL, opts)
}

var redirectTemplates = []string{"http://redir.example/new$path", "https://redir.example/fixed", "http://redir.example$path", "http://redir.example/", "https://redir.example/a/b/$path?x=1"}

// mkTable builds a one-route table through the real Route.addTarget; redirect != 0 makes it a
// redirect route (opts redirect=<code>, the target URL is the Location template).
func mkTable(r *rand.Rand, allow, deny, authScheme string, redirect int) route.Table {
	opts := map[string]string{}
	if allow != "" {
		opts["allow"] = allow
	}
	if deny != "" {
		opts["deny"] = deny
	}
	if authScheme != "" {
		opts["auth"] = authScheme
	}
	u := upstreamURL
	if redirect != 0 {
		opts["redirect"] = strconv.Itoa(redirect)
		var err error
		if u, err = url.Parse(redirectTemplates[r.Intn(len(redirectTemplates))]); err != nil {
			panic(err)
		}
	}
	tbl, _ := route.VerifTable("svc", u, opts)
	if tbl == nil {
		panic("VerifTable: addTarget appended no target")
	}
	return tbl
}

var globCache = route.NewGlobCache(16)

// tableLookup is what main.go's lookup does: the real Table.Lookup, which hands out a
// per-request copy of a redirect target.
func tableLookup(tbl route.Table) func(*http.Request) *route.Target {
	return func(req *http.Request) *route.Target {
		return tbl.Lookup(req, "", route.Picker["rnd"], route.Matcher["prefix"], globCache, false)
	}
}

var redirectCodes = []int{301, 302, 307, 308}

// sharedProxy is ONE HTTPProxy (one loaded auth scheme set, one target) serving a whole
// request history; hits counts the upstream round trips so far.
type sharedProxy struct {
	p        *proxy.HTTPProxy
	hits     int
	tbl      route.Table
	redirect int
}

// hijackRecorder is a ResponseRecorder that can be hijacked (websocket path): the client side
// of the connection is an in-memory pipe whose other end is drained.
type hijackRecorder struct {
	*httptest.ResponseRecorder
	hijacked bool
}

func (h *hijackRecorder) Hijack() (net.Conn, *bufio.ReadWriter, error) {
	c1, c2 := net.Pipe()
	go func() { io.Copy(io.Discard, c2); c2.Close() }()
	h.hijacked = true
	return c1, bufio.NewReadWriter(bufio.NewReader(c1), bufio.NewWriter(c1)), nil
}

// rawCodec: gRPC messages are byte slices
type rawCodec struct{}

func (rawCodec) Marshal(v any) ([]byte, error) {
	b, ok := v.(*[]byte)
	if !ok {
		return nil, fmt.Errorf("rawCodec: %T", v)
	}
	return *b, nil
}
func (rawCodec) Unmarshal(data []byte, v any) error {
	b, ok := v.(*[]byte)
	if !ok {
		return fmt.Errorf("rawCodec: %T", v)
	}
	*b = append([]byte(nil), data...)
	return nil
}
func (rawCodec) Name() string { return "proto" }

type rtFunc func(*http.Request) (*http.Response, error)

func (f rtFunc) RoundTrip(r *http.Request) (*http.Response, error) { return f(r) }

// scripted connection for the TCP proxies
type scriptConn struct {
	data   []byte
	remote net.Addr
	local  net.Addr
	closed bool
}

func (c *scriptConn) Read(p []byte) (int, error) {
	if len(c.data) == 0 {
		return 0, io.EOF
	}
	n := copy(p, c.data)
	c.data = c.data[n:]
	return n, nil
}
func (c *scriptConn) Write(p []byte) (int, error)      { return len(p), nil }
func (c *scriptConn) Close() error                     { c.closed = true; return nil }
func (c *scriptConn) LocalAddr() net.Addr              { return c.local }
func (c *scriptConn) RemoteAddr() net.Addr             { return c.remote }
func (c *scriptConn) SetDeadline(time.Time) error      { return nil }
func (c *scriptConn) SetReadDeadline(time.Time) error  { return nil }
func (c *scriptConn) SetWriteDeadline(time.Time) error { return nil }

// a loopback upstream that reports the remote address of every connection it accepts
type upstream struct {
	ln   net.Listener
	seen chan string
}

func newUpstream() *upstream {
	ln, err := net.Listen("tcp", "127.0.0.1:0")
	if err != nil {
		panic(err)
	}
	u := &upstream{ln: ln, seen: make(chan string, 64)}
	go func() {
		for {
			c, err := ln.Accept()
			if err != nil {
				return
			}
			u.seen <- c.RemoteAddr().String()
			c.Close()
		}
	}()
	return u
}

// hitsSince returns how many connections (other than the sentinel made here) the
// upstream accepted since the last call; accept order is connect order.
func (u *upstream) hits() int {
	s, err := net.DialTimeout("tcp", u.ln.Addr().String(), 5*time.Second)
	if err != nil {
		panic(err)
	}
	me := s.LocalAddr().String()
	defer s.Close()
	n := 0
	for {
		select {
		case a := <-u.seen:
			if a == me {
				return n
			}
			n++
		case <-time.After(10 * time.Second):
			panic("upstream sentinel lost")
		}
	}
}

func clientHello(serverName string) []byte {
	c1, c2 := net.Pipe()
	go func() {
		_ = tls.Client(c1, &tls.Config{ServerName: serverName, InsecureSkipVerify: true}).Handshake()
		c1.Close()
	}()
	defer c2.Close()
	hdr := make([]byte, 5)
	c2.SetReadDeadline(time.Now().Add(5 * time.Second))
	if _, err := io.ReadFull(c2, hdr); err != nil {
		panic(err)
	}
	body := make([]byte, int(hdr[3])<<8|int(hdr[4]))
	if _, err := io.ReadFull(c2, body); err != nil {
		panic(err)
	}
	return append(hdr, body...)
}

// ---------- credentials ----------
type user struct{ name, pw, line string }

func shaLine(u, pw string) string {
	h := sha1.Sum([]byte(pw))
	return u + ":{SHA}" + base64.StdEncoding.EncodeToString(h[:])
}

func bcryptLine(u, pw string) string {
	h, err := bcrypt.GenerateFromPassword([]byte(pw), bcrypt.MinCost)
	if err != nil {
		panic(err)
	}
	return u + ":" + string(h)
}

type credGen struct {
	header string // Authorization header value, "" = none
	note   string
	right  map[string]bool // scheme name -> these credentials are right for it
}

func basicHeader(u, pw string) string {
	return "Basic " + base64.StdEncoding.EncodeToString([]byte(u+":"+pw))
}

// ---------- refreshed htpasswd files (class http/auth-reload) ----------
// one line of a generated htpasswd file: kind 0 = user entry, 1 = malformed (no colon; the text
// carries a marker the log hook recognises), 2 = blank
type hLine struct {
	kind     int
	user, pw string
	text     string // the line as written
}

func coqHFile(f []hLine) string {
	items := make([]string, len(f))
	for i, l := range f {
		switch l.kind {
		case 0:
			items[i] = vh.App("HUser", vh.HxS(l.user), vh.HxS(l.pw))
		case 1:
			items[i] = "HBad"
		default:
			items[i] = "HBlank"
		}
	}
	return vh.List(items)
}

func hFileText(f []hLine) []byte {
	var b bytes.Buffer
	for _, l := range f {
		b.WriteString(l.text)
		b.WriteByte('\n')
	}
	return b.Bytes()
}

// reloadHook is installed as the output of the standard logger.  fabio's bad-line handler logs
// the offending line from INSIDE the scanner loop of htpasswd's ReloadFromReader, i.e. in the
// refresh goroutine, after it noticed the change and before the new table is swapped in; when the
// logged text carries the armed marker the hook runs onBad right there.
type reloadHook struct {
	mu     sync.Mutex
	marker string
	onBad  func(tail string)
}

func (w *reloadHook) arm(marker string, f func(string)) {
	w.mu.Lock()
	w.marker, w.onBad = marker, f
	w.mu.Unlock()
}

func (w *reloadHook) Write(p []byte) (int, error) {
	w.mu.Lock()
	m, f := w.marker, w.onBad
	w.mu.Unlock()
	if m != "" && f != nil {
		if i := bytes.Index(p, []byte(m)); i >= 0 {
			f(strings.TrimSpace(string(p[i+len(m):])))
		}
	}
	return len(p), nil
}

func main() {
	run := vh.Start("C12")
	r := run.Rng
	route.SetMetricsProvider(metrics.DiscardProvider{})

	dir, err := os.MkdirTemp("", "verif-c12-")
	if err != nil {
		panic(err)
	}
	defer os.RemoveAll(dir)

	// two htpasswd files with generated users (sha, bcrypt)
	pws := func(n int) string {
		const cs = "abcdefghijklmnopqrstuvwxyzABCDEFGHIJKLMNOPQRSTUVWXYZ0123456789-_:! "
		b := make([]byte, n)
		for i := range b {
			b[i] = cs[r.Intn(len(cs))]
		}
		return string(b)
	}
	usersA := []user{{name: "alice", pw: pws(8)}, {name: "bob", pw: pws(12)}, {name: "carol", pw: pws(1)}}
	usersB := []user{{name: "alice", pw: pws(9)}, {name: "dave", pw: pws(6)}}
	write := func(file string, us []user) {
		var lines []string
		for i, u := range us {
			if i%2 == 0 {
				lines = append(lines, shaLine(u.name, u.pw))
			} else {
				lines = append(lines, bcryptLine(u.name, u.pw))
			}
		}
		if err := os.WriteFile(file, []byte(strings.Join(lines, "\n")+"\n"), 0o600); err != nil {
			panic(err)
		}
	}
	fa, fb := filepath.Join(dir, "a.htpasswd"), filepath.Join(dir, "b.htpasswd")
	write(fa, usersA)
	write(fb, usersB)
	schemes, err := auth.LoadAuthSchemes(map[string]config.AuthScheme{
		"mybasic": {Name: "mybasic", Type: "basic", Basic: config.BasicAuth{Realm: "a", File: fa}},
		"other":   {Name: "other", Type: "basic", Basic: config.BasicAuth{Realm: "b", File: fb}},
	})
	if err != nil {
		panic(err)
	}
	registered := map[string][]user{"mybasic": usersA, "other": usersB}
	genCred := func() credGen {
		c := credGen{right: map[string]bool{}}
		all := append(append([]user(nil), usersA...), usersB...)
		u := all[r.Intn(len(all))]
		switch r.Intn(9) {
		case 0:
			c.note = "no header"
		case 1:
			c.header, c.note = basicHeader(u.name, u.pw+"x"), "wrong password"
		case 2:
			c.header, c.note = basicHeader("mallory", u.pw), "unknown user"
		case 3:
			c.header, c.note = []string{"Basic !!!", "Bearer abc", "Basic", "basic " + base64.StdEncoding.EncodeToString([]byte("nocolon"))}[r.Intn(4)], "malformed header"
		case 4:
			c.header, c.note = basicHeader(u.name, ""), "empty password"
		default:
			c.header, c.note = basicHeader(u.name, u.pw), "right for "+u.name
		}
		// by construction: right for a scheme iff the header is a well-formed Basic header
		// naming one of that scheme's users with exactly that user's password
		req := &http.Request{Header: http.Header{}}
		if c.header != "" {
			req.Header.Set("Authorization", c.header)
		}
		name, pw, ok := req.BasicAuth()
		for s, us := range registered {
			for _, x := range us {
				if ok && x.name == name && x.pw == pw {
					c.right[s] = true
				}
			}
			if !c.right[s] {
				c.right[s] = false
			}
		}
		return c
	}
	coqSchemes := func(c credGen) string {
		var items []string
		for _, s := range sortedKeys(c.right) {
			items = append(items, vh.Pair(vh.HxS(s), vh.Bool(c.right[s])))
		}
		return vh.List(items)
	}

	up := newUpstream()
	defer up.ln.Close()
	upstreamURL = &url.URL{Scheme: "tcp", Host: up.ln.Addr().String()}
	hello := clientHello("svc.example")

	// ---------------- 1. rule parsing and denyByIP on probe addresses ----------------
	addRule := func(g ruleGen, extra []netip.Addr) {
		if !ascii(g.allow, g.deny) {
			run.Exclude("non-ASCII rule text")
			return
		}
		tb := newTables(run)
		tb.askRule(g.allow)
		tb.askRule(g.deny)
		ref := refParse(g.allow, g.deny)
		t := mkTarget(g.allow, g.deny, "")
		if t == nil {
			run.Violation(run.NextID(), "addTarget appended no target", g)
			return
		}
		al, dn, keys, other := route.VerifAccessRules(t)
		if other != 0 {
			run.Violation(run.NextID(), "rule map has entries other than *net.IPNet under allow:ip / deny:ip", map[string]interface{}{"rule": g, "keys": keys})
			return
		}
		perr := (&route.Target{Opts: map[string]string{"allow": g.allow, "deny": g.deny}}).ProcessAccessRules() != nil
		var probes []string
		var sample []string
		for _, a := range append(candidates(r, &ref), extra...) {
			ip := netIP(r, a)
			d := route.VerifDenyByIP(t, ip)
			ra := ref.admits(a)
			probes = append(probes, fmt.Sprintf("(%s, %s, %s)", coqIP(ip), vh.Bool(d), vh.Bool(ra)))
			if len(sample) < 6 {
				sample = append(sample, fmt.Sprintf("%s(len %d): denied=%v ref_admits=%v", a, len(ip), d, ra))
			}
		}
		// a key of the rule map may exist with an empty list (denyAll): None = key absent
		hasKey := func(k string) bool {
			for _, x := range keys {
				if x == k {
					return true
				}
			}
			return false
		}
		optNets := func(k string, l []*net.IPNet) string {
			if !hasKey(k) {
				return vh.None
			}
			return vh.Some(coqNets(l))
		}
		rules := fmt.Sprintf("{| r_allow := %s; r_deny := %s |}", optNets("allow:ip", al), optNets("deny:ip", dn))
		run.Add("rule/"+g.class, vh.App("CRule", coqEnv(g.allow, g.deny, tb, &ref), rules, vh.Bool(perr), vh.List(probes)),
			map[string]interface{}{"allow": g.allow, "deny": g.deny, "impl_allow": fmt.Sprint(al), "impl_deny": fmt.Sprint(dn), "impl_err": perr, "probes": sample})
	}
	for i := 0; i < run.Scale(700, 6000); i++ {
		addRule(genRule(r), nil)
	}
	// directed: the named malformed forms
	for _, g := range []ruleGen{
		{allow: "ip:10.0.0.0/33", class: "directed"},
		{deny: "ip:bad,ip:6.6.6.6", class: "directed"},
		{allow: "ip:10.0.0.0/8", deny: "ip:6.6.6.6", class: "directed"},
		{deny: "ip:fe80::1234,100.123.0.0/16", class: "directed"},
		{allow: "ip:10.0.0.0/8,ip:192.168.0.0/16", class: "directed"},
		{allow: "ip:10.0.0.0/8,192.168.0.0/16", class: "directed"},
		{allow: "ip:fe80::1%eth0", class: "directed"},
		{allow: "IP : 10.0.0.0/8 , Ip:fe80::/10", class: "directed"},
		{deny: "ip:::ffff:10.0.0.0/104", class: "directed"},
		{allow: "ip:::ffff:10.1.2.3", class: "directed"},
		{allow: "ip:0.0.0.0/0", class: "directed"},
		{allow: "ip:::/0", class: "directed"},
		{deny: "ip:::ffff:0:0/96", class: "directed"},
		{deny: "ip:::ffff:0:0/95", class: "directed"},
	} {
		extra := []netip.Addr{netip.MustParseAddr("8.8.8.8"), netip.MustParseAddr("6.6.6.6"), netip.MustParseAddr("10.9.9.9"), netip.MustParseAddr("100.123.1.1"),
			netip.MustParseAddr("192.168.3.4"), netip.MustParseAddr("fe80::1"), netip.MustParseAddr("fe80::1234"), netip.MustParseAddr("2001:db8::1")}
		addRule(g, extra)
	}

	// ---------------- 2. HTTPProxy.ServeHTTP ----------------
	garbage := []string{"unknown", "_hidden", "1.2.3.4:80", "", "[::1]", "10.0.0", "fe80::1%eth0", "fe80::abcd%1", "for=1.2.3.4", "::ffff:1.2.3", "0x7f.1",
		"fe80::1%", "6.6.6.6%eth0", "10.1.2.3%1", "%eth0", "fe80::1%eth0%x", "2001:db8::42%en0"}
	authNames := []string{"", "", "", "mybasic", "mybasic", "mybasic", "other", "nosuch", "MyBasic", " mybasic", "basic"}
	type httpIn struct {
		g        ruleGen
		present  bool
		authName string
		cred     credGen
		remote   string
		xff      []string
		redirect int          // 0 = the route forwards, else the redirect code of the route
		via      int          // 0 plain GET, 1 Upgrade: websocket (raw dial to a counting listener), 2 SSE
		shared   *sharedProxy // non-nil: a step of a request history on one proxy / scheme set
		note     string
	}
	addHTTP := func(class string, in httpIn) {
		if !ascii(in.g.allow, in.g.deny, in.remote, in.authName) || !ascii(in.xff...) {
			run.Exclude("non-ASCII request data")
			return
		}
		tb := newTables(run)
		tb.askRule(in.g.allow)
		tb.askRule(in.g.deny)
		ref := refParse(in.g.allow, in.g.deny)
		host, _, serr := net.SplitHostPort(in.remote)
		split := vh.None
		// every address string of the request and its netip meaning
		sem := map[string]*netip.Addr{}
		askSem := func(s string) {
			if a, err := netip.ParseAddr(s); err == nil {
				a = a.WithZone("").Unmap()
				sem[s] = &a
			} else {
				sem[s] = nil
			}
		}
		refAdmit := true
		if serr == nil {
			split = vh.Some(vh.HxS(host))
			// the code reads an address through route.parseIP: net.ParseIP of the text with
			// everything from the first '%' cut; the table holds ParseIP's answer for that text
			tb.askIP(stripZone(host))
			askSem(host)
			for _, v := range in.xff { // every field value (all header lines)
				for _, e := range strings.Split(v, ",") {
					e = strings.TrimSpace(e)
					tb.askIP(stripZone(e))
					askSem(e)
				}
			}
			for _, a := range sem {
				if a != nil && !ref.admits(*a) {
					refAdmit = false
				}
			}
		}
		var semItems []string
		for _, k := range sortedKeys(sem) {
			v := vh.None
			if sem[k] != nil {
				v = vh.Some(coqCanon(*sem[k]))
			}
			semItems = append(semItems, vh.Pair(vh.HxS(k), v))
		}
		redirect := in.redirect
		if in.shared != nil {
			redirect = in.shared.redirect
		}
		var lookup func(*http.Request) *route.Target
		if in.shared == nil {
			lookup = tableLookup(mkTable(r, in.g.allow, in.g.deny, in.authName, redirect))
		}
		hits := 0
		p := &proxy.HTTPProxy{
			Transport: rtFunc(func(req *http.Request) (*http.Response, error) {
				hits++
				return &http.Response{StatusCode: 200, Proto: "HTTP/1.1", ProtoMajor: 1, ProtoMinor: 1, Header: http.Header{},
					Body: io.NopCloser(strings.NewReader("ok")), Request: req}, nil
			}),
			Lookup: func(req *http.Request) *route.Target {
				if in.present {
					return lookup(req)
				}
				return nil
			},
			AuthSchemes: schemes,
		}
		before := 0
		if in.shared != nil {
			p, before = in.shared.p, in.shared.hits
		}
		req := httptest.NewRequest("GET", "http://svc.example/", nil)
		req.RemoteAddr = in.remote
		if len(in.xff) > 0 {
			req.Header["X-Forwarded-For"] = append([]string(nil), in.xff...)
		}
		if in.cred.header != "" {
			req.Header.Set("Authorization", in.cred.header)
		}
		rec := httptest.NewRecorder()
		var w http.ResponseWriter = rec
		switch in.via {
		case 1: // the websocket path dials the target itself: the upstream is the counting listener
			req.Header.Set("Upgrade", "websocket")
			req.Header.Set("Connection", "Upgrade")
			w = &hijackRecorder{ResponseRecorder: rec}
		case 2:
			req.Header.Set("Accept", "text/event-stream")
		}
		id := run.NextID()
		if pn, v := vh.Recover(func() { p.ServeHTTP(w, req) }); pn {
			run.Violation(id, fmt.Sprintf("ServeHTTP panicked: %v", v), in.remote)
			return
		}
		if in.shared != nil {
			hits = in.shared.hits - before
		}
		if in.via == 1 {
			if hits != 0 {
				run.Violation(id, "websocket request went through the Transport", in.remote)
			}
			hits = up.hits()
			class += "+websocket"
		} else if in.via == 2 {
			class += "+sse"
		}
		xs := make([]string, len(in.xff))
		for i, v := range in.xff {
			xs[i] = vh.HxS(v)
		}
		loc := rec.Header().Get("Location")
		if redirect != 0 {
			class += "+redirect"
		}
		run.Add("http/"+class, vh.App("CHttp", coqEnv(in.g.allow, in.g.deny, tb, &ref), vh.Bool(in.present), vh.N(in.via), vh.N(redirect), vh.HxS(in.authName), coqSchemes(in.cred),
			vh.HxS(in.remote), split, vh.List(xs), vh.List(semItems), vh.Bool(refAdmit), vh.N(rec.Code), vh.N(hits), vh.Bool(loc != "")),
			map[string]interface{}{"redirect": redirect, "location": loc, "via": in.via, "allow": in.g.allow, "deny": in.g.deny, "auth": in.authName, "cred": in.cred.note, "remote": in.remote, "xff": in.xff,
				"status": rec.Code, "upstream_hits": hits, "ref_admit": refAdmit, "history": in.note})
	}
	genXFF := func(cands []netip.Addr, peerText string) []string {
		line := func() string {
			n := r.Intn(5)
			var es []string
			for i := 0; i < n; i++ {
				switch r.Intn(10) {
				case 0:
					es = append(es, garbage[r.Intn(len(garbage))])
				case 1:
					es = append(es, peerText)
				default:
					es = append(es, addrText(r, pick(r, cands)))
				}
			}
			return strings.Join(es, []string{",", ", ", ", ", " , ", ",\t"}[r.Intn(5)])
		}
		switch r.Intn(12) {
		case 0, 1, 2, 3:
			return nil
		case 4: // several field values
			k := 2 + r.Intn(2)
			var vs []string
			for i := 0; i < k; i++ {
				vs = append(vs, line())
			}
			return vs
		default:
			return []string{line()}
		}
	}
	for i := 0; i < run.Scale(1100, 9000); i++ {
		g := genRule(r)
		ref := refParse(g.allow, g.deny)
		cands := candidates(r, &ref)
		peer := pick(r, cands)
		peerText := addrText(r, peer)
		remote := net.JoinHostPort(peerText, strconv.Itoa(1+r.Intn(65535)))
		class := g.class
		switch r.Intn(30) {
		case 0: // zone-scoped link-local peer, as net/http renders it
			peerText = []string{"fe80::1%eth0", "fe80::1234%1", "fe80::abcd%en0"}[r.Intn(3)]
			remote = net.JoinHostPort(peerText, "1234")
			class += "+zone-peer"
		case 1: // RemoteAddr that does not split
			remote = []string{"1.2.3.4", "", "[::1]", "1.2.3.4:80:90", "::1:80", "@"}[r.Intn(6)]
			class += "+unsplittable"
		case 2:
			remote = []string{"localhost:80", "example.com:443", ":80", "[]:1"}[r.Intn(4)]
			class += "+hostname-peer"
		}
		authName := authNames[r.Intn(len(authNames))]
		redirect := 0
		if r.Intn(5) < 2 {
			redirect = redirectCodes[r.Intn(len(redirectCodes))]
		}
		addHTTP(class, httpIn{g: g, present: r.Intn(40) != 0, authName: authName, cred: genCred(), remote: remote, xff: genXFF(cands, peerText), redirect: redirect, via: []int{0, 0, 0, 0, 0, 0, 0, 1, 1, 2}[r.Intn(10)]})
	}
	// directed witnesses of the recorded findings and of each gate branch
	okCred := credGen{header: basicHeader(usersA[0].name, usersA[0].pw), note: "right for alice", right: map[string]bool{"mybasic": true, "other": false}}
	noCred := credGen{note: "no header", right: map[string]bool{"mybasic": false, "other": false}}
	for _, d := range []httpIn{
		{g: ruleGen{allow: "ip:10.0.0.0/33"}, remote: "8.8.8.8:1234"},
		{g: ruleGen{deny: "ip:bad,ip:6.6.6.6"}, remote: "6.6.6.6:1234"},
		{g: ruleGen{allow: "ip:10.0.0.0/8", deny: "ip:6.6.6.6"}, remote: "6.6.6.6:1234"},
		{g: ruleGen{deny: "ip:fe80::1234,100.123.0.0/16"}, remote: "100.123.1.1:999"},
		{g: ruleGen{allow: "ip:10.0.0.0/8"}, remote: "[fe80::1%eth0]:1234"},
		{g: ruleGen{allow: "ip:10.0.0.0/8"}, remote: "10.1.1.1:1", xff: []string{"10.2.2.2, fe80::1%eth0"}},
		{g: ruleGen{deny: "ip:6.6.6.6"}, remote: "1.1.1.1:1", xff: []string{"1.1.1.1", "6.6.6.6"}},
		{g: ruleGen{deny: "ip:6.6.6.6"}, remote: "1.1.1.1:1", xff: []string{"", "6.6.6.6"}},
		{g: ruleGen{deny: "ip:6.6.6.6"}, remote: "1.1.1.1:1", xff: []string{"2.2.2.2, 3.3.3.3 ,6.6.6.6"}},
		{g: ruleGen{allow: "ip:10.0.0.0/8"}, remote: "10.1.1.1:1", xff: []string{"10.2.2.2,10.3.3.3,11.0.0.1"}},
		{g: ruleGen{allow: "ip:10.0.0.0/8"}, remote: "10.1.1.1:1", xff: []string{"10.2.2.2,unknown, 10.3.3.3"}},
		{g: ruleGen{allow: "ip:10.0.0.0/8"}, remote: "8.8.8.8:1", authName: "mybasic", cred: noCred},
		{g: ruleGen{allow: "ip:10.0.0.0/8"}, remote: "10.8.8.8:1", authName: "mybasic", cred: noCred},
		{g: ruleGen{allow: "ip:10.0.0.0/8"}, remote: "10.8.8.8:1", authName: "mybasic", cred: okCred},
		{g: ruleGen{allow: "ip:10.0.0.0/8"}, remote: "10.8.8.8:1", authName: "nosuch", cred: okCred},
		{g: ruleGen{allow: "ip:10.0.0.0/8"}, remote: "10.8.8.8:1", authName: "other", cred: okCred},
		{g: ruleGen{allow: "ip:10.0.0.0/8"}, remote: "[::ffff:10.8.8.8]:1"},
		{g: ruleGen{deny: "ip:10.0.0.0/8"}, remote: "[::ffff:10.8.8.8]:1"},
	} {
		if d.cred.right == nil {
			d.cred = noCred
		}
		d.present = true
		addHTTP("directed", d)
		d.redirect = redirectCodes[r.Intn(len(redirectCodes))] // the same request on a redirect route
		addHTTP("directed", d)
		d.redirect, d.via = 0, 1 // and as a websocket upgrade
		addHTTP("directed", d)
	}

	// ---------------- 3. the TCP proxies ----------------
	proxies := []struct {
		name  string
		serve func(c net.Conn, lookup func(string) *route.Target) error
		data  []byte
	}{
		{"tcp", func(c net.Conn, l func(string) *route.Target) error {
			return (&tcp.Proxy{DialTimeout: 5 * time.Second, Lookup: l}).ServeTCP(c)
		}, nil},
		{"tcp+sni", func(c net.Conn, l func(string) *route.Target) error {
			return (&tcp.SNIProxy{DialTimeout: 5 * time.Second, Lookup: l}).ServeTCP(c)
		}, hello},
		{"tcp-dynamic", func(c net.Conn, l func(string) *route.Target) error {
			return (&tcp.DynamicProxy{DialTimeout: 5 * time.Second, Lookup: l}).ServeTCP(c)
		}, nil},
	}
	var tcpShared []*route.Target
	addTCP := func(class string, g ruleGen, present bool, remote net.Addr, canon *netip.Addr) {
		if !ascii(g.allow, g.deny) {
			run.Exclude("non-ASCII rule text")
			return
		}
		tb := newTables(run)
		tb.askRule(g.allow)
		tb.askRule(g.deny)
		ref := refParse(g.allow, g.deny)
		peer, refAdmit := "NotTCPAddr", true
		if ta, ok := remote.(*net.TCPAddr); ok {
			peer = vh.App("TCPAddr", coqOptIP(ta.IP))
			if canon != nil {
				refAdmit = ref.admits(*canon)
			}
		}
		env := coqEnv(g.allow, g.deny, tb, &ref)
		for k, px := range proxies {
			t := mkTarget(g.allow, g.deny, "")
			if tcpShared != nil { // a step of a connection history: one long-lived target per proxy
				t = tcpShared[k]
			}
			looked := 0
			lookup := func(string) *route.Target {
				looked++
				if present {
					return t
				}
				return nil
			}
			c := &scriptConn{data: append([]byte(nil), px.data...), remote: remote, local: &net.TCPAddr{IP: net.IPv4(127, 0, 0, 1), Port: 443}}
			id := run.NextID()
			if pn, v := vh.Recover(func() { _ = px.serve(c, lookup) }); pn {
				run.Violation(id, fmt.Sprintf("%s ServeTCP panicked: %v", px.name, v), remote.String())
				continue
			}
			dials := up.hits()
			if looked == 0 || !c.closed {
				run.Violation(id, px.name+": ServeTCP returned without a Lookup or without closing the client connection", remote.String())
			}
			run.Add("tcp/"+class, vh.App("CTcp", env, vh.Bool(present), vh.N(k), peer, vh.Bool(refAdmit), vh.N(dials)),
				map[string]interface{}{"proxy": px.name, "allow": g.allow, "deny": g.deny, "remote": remote.String(), "dials": dials, "ref_admit": refAdmit})
		}
	}
	for i := 0; i < run.Scale(170, 1500); i++ {
		g := genRule(r)
		ref := refParse(g.allow, g.deny)
		a := pick(r, candidates(r, &ref))
		ta := &net.TCPAddr{IP: netIP(r, a), Port: 1 + r.Intn(65535)}
		class := g.class
		var remote net.Addr = ta
		canon := &a
		switch r.Intn(25) {
		case 0:
			if a.Is6() {
				ta.Zone = "eth0" // the zone is a separate field of a TCPAddr: the IP is still checked
				class += "+zone-peer"
			}
		case 1:
			remote, canon = &net.UnixAddr{Name: "@", Net: "unix"}, nil
			class += "+not-tcpaddr"
		case 2:
			ta.IP, canon = nil, nil
			class += "+nil-ip"
		}
		addTCP(class, g, r.Intn(30) != 0, remote, canon)
	}
	for _, d := range []struct {
		g    ruleGen
		peer string
	}{
		{ruleGen{allow: "ip:10.0.0.0/8"}, "8.8.8.8"}, {ruleGen{allow: "ip:10.0.0.0/8"}, "10.8.8.8"},
		{ruleGen{deny: "ip:6.6.6.6"}, "6.6.6.6"}, {ruleGen{deny: "ip:6.6.6.6"}, "6.6.6.7"},
		{ruleGen{allow: "ip:10.0.0.0/33"}, "8.8.8.8"}, {ruleGen{deny: "ip:bad,ip:6.6.6.6"}, "6.6.6.6"},
		{ruleGen{allow: "ip:fe80::/10"}, "fe80::1"}, {ruleGen{allow: "ip:fe80::/10"}, "2001:db8::1"},
	} {
		a := netip.MustParseAddr(d.peer)
		addTCP("directed", d.g, true, &net.TCPAddr{IP: netIP(r, a), Port: 4711}, &a)
	}
	// ---------------- 4. request HISTORIES against one HTTPProxy / one loaded scheme set ----------------
	// Target.Authorized is a function of (scheme table, credentials): the answer to a request must
	// not depend on the requests served before it (C12_auth_history_independent).  A good login is
	// followed by every re-split of user+password (all split points, empty user / empty password),
	// case variants, the good pair again, wrong pairs; optionally the htpasswd file is rewritten
	// (refresh enabled) and the old pair is tried again.  Every step is judged as an independent
	// request with the by-construction verdict of the htpasswd content in force.
	swapCase := func(s string) string {
		b := []byte(s)
		for i, c := range b {
			switch {
			case c >= 'a' && c <= 'z':
				b[i] = c - 32
			case c >= 'A' && c <= 'Z':
				b[i] = c + 32
			}
		}
		return string(b)
	}
	nHist := run.Scale(10, 80)
	for h := 0; h < nHist; h++ {
		names := []string{"alice", "bob", "carol", "dave", "al", "alicia", "x"}
		r.Shuffle(len(names), func(i, j int) { names[i], names[j] = names[j], names[i] })
		us := make([]user, 2+r.Intn(2))
		for i := range us {
			us[i] = user{name: names[i], pw: pws(1 + r.Intn(9))}
		}
		file := filepath.Join(dir, fmt.Sprintf("hist%d.htpasswd", h))
		write(file, us)
		rewrite := h%4 == 3
		cfg := config.BasicAuth{Realm: "h", File: file}
		if rewrite {
			cfg.Refresh = 20 * time.Millisecond
		}
		hs, err := auth.LoadAuthSchemes(map[string]config.AuthScheme{"mybasic": {Name: "mybasic", Type: "basic", Basic: cfg}})
		if err != nil {
			panic(err)
		}
		sp := &sharedProxy{}
		if h%3 == 2 {
			sp.redirect = redirectCodes[r.Intn(len(redirectCodes))]
		}
		sp.tbl = mkTable(r, "", "", "mybasic", sp.redirect)
		sp.p = &proxy.HTTPProxy{
			Transport: rtFunc(func(req *http.Request) (*http.Response, error) {
				sp.hits++
				return &http.Response{StatusCode: 200, Proto: "HTTP/1.1", ProtoMajor: 1, ProtoMinor: 1, Header: http.Header{},
					Body: io.NopCloser(strings.NewReader("ok")), Request: req}, nil
			}),
			Lookup:      tableLookup(sp.tbl),
			AuthSchemes: hs,
		}
		cur := us // htpasswd content in force
		step := 0
		try := func(note, header string) {
			c := credGen{header: header, note: note, right: map[string]bool{"mybasic": false}}
			req := &http.Request{Header: http.Header{}}
			if header != "" {
				req.Header.Set("Authorization", header)
			}
			name, pw, ok := req.BasicAuth()
			for _, x := range cur {
				if ok && x.name == name && x.pw == pw {
					c.right["mybasic"] = true
				}
			}
			addHTTP("auth-history", httpIn{present: true, authName: "mybasic", cred: c, remote: "192.0.2.7:4711", shared: sp,
				note: fmt.Sprintf("history %d step %d: %s", h, step, note)})
			step++
		}
		pair := func(note, u, pw string) { try(fmt.Sprintf("%s %q/%q", note, u, pw), basicHeader(u, pw)) }
		if r.Intn(2) == 0 { // cold scheme: a colliding pair BEFORE any login
			cat := us[0].name + us[0].pw
			i := r.Intn(len(cat) + 1)
			if i != len(us[0].name) {
				pair("cold re-split", cat[:i], cat[i:])
			}
		}
		for _, u := range us {
			pair("good login", u.name, u.pw)
			cat := u.name + u.pw
			for i := 0; i <= len(cat); i++ {
				pair("re-split", cat[:i], cat[i:])
			}
			pair("case variant", strings.ToUpper(u.name), u.pw)
			pair("case variant", u.name, swapCase(u.pw))
			pair("case variant", swapCase(u.name), swapCase(u.pw))
			pair("good again", u.name, u.pw)
			pair("wrong password", u.name, u.pw+"x")
			pair("wrong password", u.name, us[(h+1)%len(us)].pw+"y")
			pair("unknown user", u.name+"x", u.pw)
			try("no header", "")
			try("malformed header", "Basic "+base64.StdEncoding.EncodeToString([]byte(cat)))
		}
		if rewrite {
			old := us[0]
			nu := append([]user(nil), us...)
			nu[0].pw = old.pw + "N"
			nu = append(nu[:1], nu[2:]...) // second user removed
			time.Sleep(30 * time.Millisecond)
			write(file, nu)
			time.Sleep(600 * time.Millisecond) // refresh ticker (20 ms) picks the new file up
			cur = nu
			pair("old pair after rewrite", old.name, old.pw)
			pair("removed user after rewrite", us[1].name, us[1].pw)
			pair("new pair after rewrite", nu[0].name, nu[0].pw)
			cat := old.name + old.pw
			for i := 0; i <= len(cat); i++ {
				pair("re-split of the old pair after rewrite", cat[:i], cat[i:])
			}
		}
	}

	// ---------------- 5. access HISTORIES on one long-lived target ----------------
	// The access verdict is a function of (rules, request): the k-th request of a history must get
	// the verdict it would get alone (C12_access_history_independent).  2-8 requests share one
	// RemoteAddr host with X-Forwarded-For chains that flip the verdict (allowed then denied, denied
	// then allowed, the same again), other peers repeat the same chains; TCP: peers reconnecting to
	// one target per proxy.  Every step is an ordinary CHttp / CTcp case.
	wellFormed := func() ruleGen {
		for {
			g := genRule(r)
			if g.class == "allow" || g.class == "deny" {
				return g
			}
		}
	}
	for h := 0; h < run.Scale(60, 500); h++ {
		g := wellFormed()
		if h%10 == 9 {
			g = genRule(r) // any text, malformed ones included
		}
		ref := refParse(g.allow, g.deny)
		cands := candidates(r, &ref)
		var in, out []netip.Addr
		for _, a := range cands {
			if ref.admits(a) {
				in = append(in, a)
			} else {
				out = append(out, a)
			}
		}
		sp := &sharedProxy{}
		if h%3 == 1 {
			sp.redirect = redirectCodes[r.Intn(len(redirectCodes))]
		}
		sp.tbl = mkTable(r, g.allow, g.deny, "", sp.redirect)
		sp.p = &proxy.HTTPProxy{
			Transport: rtFunc(func(req *http.Request) (*http.Response, error) {
				sp.hits++
				return &http.Response{StatusCode: 200, Proto: "HTTP/1.1", ProtoMajor: 1, ProtoMinor: 1, Header: http.Header{},
					Body: io.NopCloser(strings.NewReader("ok")), Request: req}, nil
			}),
			Lookup:      tableLookup(sp.tbl),
			AuthSchemes: schemes,
		}
		chain := func(dirty bool) []string {
			var es []string
			for i := r.Intn(3); i > 0; i-- {
				if len(in) > 0 {
					es = append(es, addrText(r, pick(r, in)))
				}
			}
			if dirty && len(out) > 0 {
				es = append(es, addrText(r, pick(r, out)))
				for i := r.Intn(2); i > 0 && len(in) > 0; i-- {
					es = append(es, addrText(r, pick(r, in)))
				}
			}
			if len(es) == 0 {
				return nil
			}
			if len(es) > 1 && r.Intn(4) == 0 { // two header lines
				return []string{strings.Join(es[:1], ", "), strings.Join(es[1:], ", ")}
			}
			return []string{strings.Join(es, ", ")}
		}
		peers := []netip.Addr{pick(r, cands), pick(r, cands)}
		if len(in) > 0 {
			peers[0] = pick(r, in) // an admitted front proxy: the XFF chain decides
		}
		texts := []string{addrText(r, peers[0]), addrText(r, peers[1])}
		n := 2 + r.Intn(7)
		start := r.Intn(2) == 0
		var last []string
		for k := 0; k < n; k++ {
			pi := 0
			if k >= 2 && r.Intn(4) == 0 {
				pi = 1 // another peer, same chain as the previous request
			}
			var xff []string
			switch {
			case pi == 1 || (k > 0 && r.Intn(5) == 0):
				xff = last // the same again
			default:
				xff = chain((k%2 == 0) == start)
			}
			last = xff
			port := "4711"
			if r.Intn(2) == 0 {
				port = strconv.Itoa(1024 + r.Intn(60000))
			}
			addHTTP("access-history", httpIn{g: g, present: true, cred: noCred, remote: net.JoinHostPort(texts[pi], port), xff: xff, shared: sp,
				note: fmt.Sprintf("access history %d step %d/%d peer %d", h, k, n, pi)})
		}
		// TCP: the same peers reconnecting to one target per proxy, verdicts alternating where possible
		if h%3 == 0 {
			tcpShared = []*route.Target{mkTarget(g.allow, g.deny, ""), mkTarget(g.allow, g.deny, ""), mkTarget(g.allow, g.deny, "")}
			seq := []netip.Addr{peers[0], peers[1], peers[0]}
			if len(in) > 0 && len(out) > 0 {
				a, b := pick(r, in), pick(r, out)
				seq = []netip.Addr{a, b, a, b, b, a}[:2+r.Intn(5)]
			}
			for _, a := range seq {
				a := a
				addTCP("access-history", g, true, &net.TCPAddr{IP: netIP(r, a), Port: 1 + r.Intn(65535)}, &a)
			}
			tcpShared = nil
		}
	}

	// ---------------- 6. the gRPC proxy ----------------
	// The real gRPC proxy (main.go:newGrpcProxy replicated: TransparentHandler(GetGRPCDirector) +
	// GrpcProxyInterceptor.Stream, served by proxy.ListenAndServeGRPC) in front of a real gRPC
	// backend; the route comes out of the real addTarget with opts proto=grpc + allow/deny/auth and
	// is installed with route.SetTable.  Callers connect from chosen loopback addresses.
	{
		var served int64
		bln, err := net.Listen("tcp", "127.0.0.1:0")
		if err != nil {
			panic(err)
		}
		bsrv := grpc.NewServer(grpc.ForceServerCodec(rawCodec{}), grpc.UnknownServiceHandler(func(_ any, ss grpc.ServerStream) error {
			var b []byte
			if err := ss.RecvMsg(&b); err != nil {
				return err
			}
			atomic.AddInt64(&served, 1)
			return ss.SendMsg(&b)
		}))
		go bsrv.Serve(bln)
		defer bsrv.Stop()
		cfg := &config.Config{}
		cfg.Proxy.Strategy, cfg.Proxy.Matcher = "rnd", "prefix"
		cfg.Proxy.GRPCMaxRxMsgSize, cfg.Proxy.GRPCMaxTxMsgSize = 4<<20, 4<<20
		cfg.Proxy.GRPCGShutdownTimeout = 100 * time.Millisecond
		cfg.GlobCacheSize = 100
		sh := &proxy.GrpcStatsHandler{Connect: metrics.DiscardProvider{}.NewCounter("c"), Request: metrics.DiscardProvider{}.NewHistogram("r"),
			NoRoute: metrics.DiscardProvider{}.NewCounter("n"), Status: metrics.DiscardProvider{}.NewHistogram("s")}
		pi := proxy.GrpcProxyInterceptor{Config: cfg, StatsHandler: sh, GlobCache: route.NewGlobCache(cfg.GlobCacheSize)}
		opts := []grpc.ServerOption{
			grpc.CustomCodec(grpc_proxy.Codec()),
			grpc.UnknownServiceHandler(grpc_proxy.TransparentHandler(proxy.GetGRPCDirector(nil, cfg))),
			grpc.StreamInterceptor(pi.Stream),
			grpc.StatsHandler(sh),
			grpc.MaxRecvMsgSize(cfg.Proxy.GRPCMaxRxMsgSize),
			grpc.MaxSendMsgSize(cfg.Proxy.GRPCMaxTxMsgSize),
		}
		var paddr string
		for try := 0; ; try++ {
			ln, err := net.Listen("tcp", "127.0.0.1:0")
			if err != nil {
				panic(err)
			}
			paddr = ln.Addr().String()
			ln.Close()
			errc := make(chan error, 1)
			go func() { errc <- proxy.ListenAndServeGRPC(config.Listen{Addr: paddr, Proto: "grpc"}, opts, nil) }()
			select {
			case err := <-errc:
				if try > 5 {
					panic(fmt.Sprintf("ListenAndServeGRPC: %v", err))
				}
				continue
			case <-time.After(150 * time.Millisecond):
			}
			break
		}
		defer proxy.Close()
		srcs := []string{"127.0.0.1", "127.0.0.2", "127.1.2.3"}
		callers := map[string]*grpc.ClientConn{}
		for _, src := range srcs {
			src := src
			cc, err := grpc.NewClient("passthrough:///"+paddr, grpc.WithTransportCredentials(insecure.NewCredentials()),
				grpc.WithDefaultCallOptions(grpc.ForceCodec(rawCodec{})),
				grpc.WithContextDialer(func(ctx context.Context, addr string) (net.Conn, error) {
					d := net.Dialer{LocalAddr: &net.TCPAddr{IP: net.ParseIP(src)}}
					return d.DialContext(ctx, "tcp", addr)
				}))
			if err != nil {
				panic(err)
			}
			callers[src] = cc
			defer cc.Close()
		}
		burl := &url.URL{Scheme: "grpc", Host: bln.Addr().String()}
		rulesG := []ruleGen{
			{class: "no-rule"},
			{allow: "ip:10.0.0.0/8", class: "allow"}, {allow: "ip:127.0.0.0/8", class: "allow"}, {allow: "ip:127.0.0.2,ip:fe80::/10", class: "allow"},
			{deny: "ip:127.0.0.1", class: "deny"}, {deny: "ip:127.0.0.0/30", class: "deny"}, {deny: "ip:10.0.0.0/8", class: "deny"},
			{allow: "ip:10.0.0.0/33", class: "allow-bad-item"}, {allow: "ip:127.0.0.0/8", deny: "ip:127.0.0.1", class: "allow+deny"},
		}
		authsG := []string{"", "", "mybasic", "nosuch"}
		nG := run.Scale(40, 300)
		for i := 0; i < nG; i++ {
			g := rulesG[i%len(rulesG)]
			if i >= 2*len(rulesG) && r.Intn(2) == 0 {
				g = genRule(r)
			}
			if !ascii(g.allow, g.deny) {
				run.Exclude("non-ASCII rule text")
				continue
			}
			authName := authsG[r.Intn(len(authsG))]
			cred := noCred
			if r.Intn(2) == 0 {
				cred = okCred
			}
			src := srcs[r.Intn(len(srcs))]
			gopts := map[string]string{"proto": "grpc"}
			if g.allow != "" {
				gopts["allow"] = g.allow
			}
			if g.deny != "" {
				gopts["deny"] = g.deny
			}
			if authName != "" {
				gopts["auth"] = authName
			}
			tbl, _ := route.VerifTable("svc", burl, gopts)
			if tbl == nil {
				panic("VerifTable (grpc)")
			}
			route.SetTable(tbl)
			tb := newTables(run)
			tb.askRule(g.allow)
			tb.askRule(g.deny)
			ref := refParse(g.allow, g.deny)
			peer := netip.MustParseAddr(src)
			before := atomic.LoadInt64(&served)
			ctx, cancel := context.WithTimeout(context.Background(), 10*time.Second)
			if cred.header != "" {
				ctx = metadata.AppendToOutgoingContext(ctx, "authorization", cred.header)
			}
			// a well-formed protobuf message (field 1, bytes "ping"): the proxy's codec parses payloads
			in, out := []byte{0x0a, 0x04, 'p', 'i', 'n', 'g'}, []byte(nil)
			callErr := callers[src].Invoke(ctx, "/pkg.Svc/Do", &in, &out)
			cancel()
			reached := int(atomic.LoadInt64(&served) - before)
			p4 := peer.As4()
			run.Add("grpc/"+g.class, vh.App("CGrpc", coqEnv(g.allow, g.deny, tb, &ref), vh.HxS(authName), coqSchemes(cred), coqIP(net.IP(p4[:])),
				vh.Bool(ref.admits(peer)), vh.N(reached), vh.Bool(callErr == nil)),
				map[string]interface{}{"proto": "grpc", "allow": g.allow, "deny": g.deny, "auth": authName, "cred": cred.note, "caller": src,
					"backend_calls": reached, "ok": callErr == nil, "err": fmt.Sprint(callErr), "ref_admit": ref.admits(peer)})
		}
		route.SetTable(route.Table{})
	}

	// ---------------- 7. long X-Forwarded-For lists ----------------
	// "every address listed in X-Forwarded-For": lists of 5-328 elements over one or several header
	// lines (the lines form ONE list), the not-admitted address at a chosen position (first, middle,
	// around 32 and 64, last but one, last, random), all others admitted; also clean lists (forwarded)
	// and lists with two not-admitted addresses, garbage or the peer itself in between.  Ordinary
	// CHttp cases; the choices come from a source of their own.
	// (The cases are big terms; they are generated in small batches between the histories of
	// section 8 so that they spread over several shards.)
	r7 := rand.New(rand.NewSource(run.Seed*7919 + 7))
	longXFF := func(count int) {
		for i := 0; i < count; i++ {
			var g ruleGen
			for {
				if g = genRule(r7); g.class == "allow" || g.class == "deny" {
					break
				}
			}
			ref := refParse(g.allow, g.deny)
			cands := candidates(r7, &ref)
			for k := 0; k < 12; k++ {
				cands = append(cands, randAddr(r7))
			}
			var in, out []netip.Addr
			for _, a := range cands {
				if ref.admits(a) {
					in = append(in, a)
				} else {
					out = append(out, a)
				}
			}
			if len(in) == 0 || len(out) == 0 {
				run.Exclude("xff-long: the rule admits none or all of the candidate addresses")
				continue
			}
			var n int
			switch k := r7.Intn(20); {
			case k < 4:
				n = 5 + r7.Intn(28)
			case k < 8:
				n = []int{33, 34, 35, 36, 64, 65, 66, 128, 129}[r7.Intn(9)]
			case k < 12:
				n = 33 + r7.Intn(34)
			case k < 16:
				n = 67 + r7.Intn(62)
			default:
				n = 129 + r7.Intn(200)
			}
			clip := func(p int) int {
				if p < 0 {
					return 0
				}
				if p >= n {
					return n - 1
				}
				return p
			}
			// the tail of the list is where an element is most easily lost
			pos := clip([]int{n - 1, n - 1, n - 2, n - 2, n - 3, n - 1 - r7.Intn(5), 0, n / 2, 30, 31, 32, 33, 34, 63, 64, r7.Intn(n), r7.Intn(n), r7.Intn(n)}[r7.Intn(18)])
			peerText := addrText(r7, pick(r7, in))
			es := make([]string, n)
			for k := range es {
				es[k] = addrText(r7, pick(r7, in))
			}
			kind := "dirty"
			switch r7.Intn(10) {
			case 0, 1:
				kind, pos = "clean", -1
			case 2:
				es[pos] = addrText(r7, pick(r7, out))
				p2 := clip(pos + 1 + r7.Intn(n))
				es[p2] = addrText(r7, pick(r7, out))
			default:
				es[pos] = addrText(r7, pick(r7, out))
			}
			if k := r7.Intn(n); k != pos && r7.Intn(5) == 0 {
				es[k] = garbage[r7.Intn(len(garbage))]
			}
			if k := r7.Intn(n); k != pos && r7.Intn(6) == 0 {
				es[k] = peerText
			}
			sep := []string{",", ", ", ", ", " , "}[r7.Intn(4)]
			var lines []string
			switch r7.Intn(4) {
			case 0: // several header lines
				for rest := es; len(rest) > 0; {
					k := 1 + r7.Intn(len(rest))
					if len(lines) == 3 {
						k = len(rest)
					}
					lines = append(lines, strings.Join(rest[:k], sep))
					rest = rest[k:]
				}
			case 1: // one header line per element
				lines = append(lines, es...)
			default:
				lines = []string{strings.Join(es, sep)}
			}
			redirect := 0
			if r7.Intn(4) == 0 {
				redirect = redirectCodes[r7.Intn(len(redirectCodes))]
			}
			class := "xff-long/" + kind
			if pos >= 31 {
				class += "-from-32nd"
			}
			addHTTP(class, httpIn{g: g, present: true, cred: noCred, remote: net.JoinHostPort(peerText, strconv.Itoa(1+r7.Intn(65535))), xff: lines,
				redirect: redirect, via: []int{0, 0, 0, 0, 0, 0, 0, 1, 2, 2}[r7.Intn(10)],
				note: fmt.Sprintf("%d elements in %d header lines, not-admitted address at index %d", n, len(lines), pos)})
		}
	}

	// ---------------- 8. a refreshed htpasswd file: requests WHILE and AFTER it is re-read ----------------
	// auth=<scheme> with a basic scheme whose refresh is on.  The operator replaces the file (users
	// removed, passwords changed, users added; rename, explicit ModTime) or removes it.  The new
	// file carries 0-3 malformed lines: fabio's bad-line handler logs them from inside the scanner
	// loop of the re-read, and the log hook sends requests right there, i.e. in the window between
	// "change noticed" and "new table swapped in" (the model: the OLD file is in force).  Then the
	// harness waits until the new file's canary user is accepted and sends the old and the new pairs
	// again (the model and the property: the NEW file decides).  One CReload case per request.
	{
		r8 := rand.New(rand.NewSource(run.Seed*104729 + 8))
		hook := &reloadHook{}
		log.SetOutput(hook)
		pw8 := func(n int) string {
			const cs = "abcdefghijklmnopqrstuvwxyzABCDEFGHIJKLMNOPQRSTUVWXYZ0123456789-_:!"
			b := make([]byte, n)
			for i := range b {
				b[i] = cs[r8.Intn(len(cs))]
			}
			return string(b)
		}
		mkUser := func(name, pw string) hLine {
			l := hLine{kind: 0, user: name, pw: pw}
			switch r8.Intn(3) {
			case 0:
				l.text = shaLine(name, pw)
			case 1:
				l.text = bcryptLine(name, pw)
			default:
				l.text = name + ":" + pw // AcceptPlain
			}
			return l
		}
		coqCreds := func(header string) (string, string) {
			req := &http.Request{Header: http.Header{}}
			if header != "" {
				req.Header.Set("Authorization", header)
			}
			u, pw, ok := req.BasicAuth()
			return fmt.Sprintf("{| c_ok := %s; c_user := %s; c_pw := %s |}", vh.Bool(ok), vh.HxS(u), vh.HxS(pw)), fmt.Sprintf("%q/%q ok=%v", u, pw, ok)
		}
		for h := 0; h < run.Scale(14, 100); h++ {
			longXFF(run.Scale(8, 12))
			file := filepath.Join(dir, fmt.Sprintf("reload%d.htpasswd", h))
			base := time.Now().Truncate(time.Second).Add(-time.Hour)
			names := []string{"alice", "bob", "carol", "dave", "erin", "frank", "al", "alicia", "x", "Bob"}
			r8.Shuffle(len(names), func(i, j int) { names[i], names[j] = names[j], names[i] })
			fresh := 0
			nextName := func() string {
				fresh++
				if fresh <= len(names) {
					return names[fresh-1]
				}
				return fmt.Sprintf("user%d", fresh)
			}
			layout := func(us []hLine, nBad int, marker string) []hLine {
				f := append([]hLine(nil), us...)
				r8.Shuffle(len(f), func(i, j int) { f[i], f[j] = f[j], f[i] })
				for k := 0; k < nBad; k++ {
					at := []int{0, len(f), len(f) / 2, r8.Intn(len(f) + 1)}[r8.Intn(4)]
					txt := []string{"#" + marker + strconv.Itoa(k), marker + strconv.Itoa(k) + " staff accounts"}[r8.Intn(2)]
					f = append(f[:at], append([]hLine{{kind: 1, text: txt}}, f[at:]...)...)
				}
				for k := r8.Intn(2); k > 0; k-- {
					at := r8.Intn(len(f) + 1)
					f = append(f[:at], append([]hLine{{kind: 2, text: []string{"", "   ", "\t"}[r8.Intn(3)]}}, f[at:]...)...)
				}
				return f
			}
			install := func(f []hLine, v int) {
				tmp := file + ".new"
				if err := os.WriteFile(tmp, hFileText(f), 0o600); err != nil {
					panic(err)
				}
				mt := base.Add(time.Duration(2*v) * time.Second)
				if err := os.Chtimes(tmp, mt, mt); err != nil {
					panic(err)
				}
				if err := os.Rename(tmp, file); err != nil {
					panic(err)
				}
			}
			// version 0: what htpasswd.New reads (no malformed line: nothing to hook yet)
			users := []hLine{}
			for k := 2 + r8.Intn(2); k > 0; k-- {
				users = append(users, mkUser(nextName(), pw8(1+r8.Intn(9))))
			}
			canary := mkUser(fmt.Sprintf("canary%dv0", h), pw8(6))
			init := layout(append(append([]hLine(nil), users...), canary), 0, "")
			install(init, 0)
			authName := []string{"mybasic", "staff"}[r8.Intn(2)]
			hs, err := auth.LoadAuthSchemes(map[string]config.AuthScheme{authName: {Name: authName, Type: "basic",
				Basic: config.BasicAuth{Realm: "r", File: file, Refresh: 10 * time.Millisecond}}})
			if err != nil {
				panic(err)
			}
			sp := &sharedProxy{}
			if h%3 == 1 {
				sp.redirect = redirectCodes[r8.Intn(len(redirectCodes))]
			}
			sp.tbl = mkTable(r8, "", "", authName, sp.redirect)
			sp.p = &proxy.HTTPProxy{
				Transport: rtFunc(func(req *http.Request) (*http.Response, error) {
					sp.hits++
					return &http.Response{StatusCode: 200, Proto: "HTTP/1.1", ProtoMajor: 1, ProtoMinor: 1, Header: http.Header{},
						Body: io.NopCloser(strings.NewReader("ok")), Request: req}, nil
				}),
				Lookup:      tableLookup(sp.tbl),
				AuthSchemes: hs,
			}
			doReq := func(header string) (int, int, bool) {
				before := sp.hits
				req := httptest.NewRequest("GET", "http://svc.example/", nil)
				req.RemoteAddr = "192.0.2.7:4711"
				if header != "" {
					req.Header.Set("Authorization", header)
				}
				rec := httptest.NewRecorder()
				sp.p.ServeHTTP(rec, req)
				return rec.Code, sp.hits - before, rec.Header().Get("Location") != ""
			}
			type reqStep struct {
				histLen            int
				phase, note, creds string
				header             string
				status, hits       int
				loc                bool
			}
			var hist, histNotes []string
			var steps []reqStep
			abandoned := ""
			var stuck []chan struct{}
			// send runs one request; inside the bad-line callback it runs on a goroutine of its own with
			// a timeout (the callback holds the standard logger's lock: a request that logs would block)
			send := func(inHook bool, phase, note, header string) {
				if abandoned != "" {
					return
				}
				var st, hi int
				var loc, pn bool
				var pv interface{}
				done := make(chan struct{})
				call := func() { defer close(done); pn, pv = vh.Recover(func() { st, hi, loc = doReq(header) }) }
				if inHook {
					go call()
					select {
					case <-done:
					case <-time.After(3 * time.Second):
						abandoned = "a request inside the bad-line callback blocked (it logs while the logger is held)"
						stuck = append(stuck, done)
						return
					}
				} else {
					call()
				}
				if pn {
					run.Violation(run.NextID(), fmt.Sprintf("ServeHTTP panicked: %v", pv), note)
					return
				}
				steps = append(steps, reqStep{histLen: len(hist), phase: phase, note: note, header: header, status: st, hits: hi, loc: loc})
			}
			pair := func(inHook bool, phase, note string, u hLine) {
				send(inHook, phase, fmt.Sprintf("%s %q/%q", note, u.user, u.pw), basicHeader(u.user, u.pw))
			}
			waitCanary := func(c hLine, want bool) bool {
				deadline := time.Now().Add(5 * time.Second)
				for {
					st, _, _ := doReq(basicHeader(c.user, c.pw))
					if (st == 200 || (sp.redirect != 0 && st == sp.redirect)) == want {
						return true
					}
					if time.Now().After(deadline) {
						return false
					}
					time.Sleep(2 * time.Millisecond)
				}
			}
			others := func(inHook bool, phase string, known []hLine) {
				if len(known) > 0 {
					u := known[r8.Intn(len(known))]
					switch r8.Intn(3) {
					case 0:
						send(inHook, phase, "wrong password for "+u.user, basicHeader(u.user, u.pw+"x"))
					case 1:
						send(inHook, phase, "unknown user with the password of "+u.user, basicHeader(u.user+"x", u.pw))
					default:
						send(inHook, phase, "empty password for "+u.user, basicHeader(u.user, ""))
					}
				}
				if r8.Intn(2) == 0 {
					send(inHook, phase, "no header", "")
				}
			}
			for _, u := range users {
				pair(false, "initial", "good login", u)
			}
			others(false, "initial", users)

			inForce := append([]hLine(nil), users...) // user lines of the content in force (canary excluded)
			last := append([]hLine(nil), users...)    // user lines of the content written last
			lastCanary := canary
			nVersions := 2 + r8.Intn(3)
			fileGone := false
			for v := 1; v <= nVersions && abandoned == ""; v++ {
				if v > 1 && v < nVersions && r8.Intn(4) == 0 && !fileGone {
					// the operator removes the file: the goroutine clears the credentials
					// (not twice in a row: there is nothing left to remove; removal / restoration
					// cycles are the business of class http/auth-reload-cycle, round8.go)
					fileGone = true
					hook.arm("", nil)
					if err := os.Remove(file); err != nil {
						panic(err)
					}
					hist, histNotes = append(hist, "HsRemove"), append(histNotes, fmt.Sprintf("v%d: file removed", v))
					if !waitCanary(lastCanary, false) {
						run.Violation(run.NextID(), "auth-reload: the credentials of a removed htpasswd file were still accepted 5 s after the removal", histNotes)
						abandoned = "violation"
						break
					}
					hist, histNotes = append(hist, "HsInForce"), append(histNotes, "cleared credentials seen in force")
					for _, u := range inForce {
						pair(false, "cleared", "pair of the removed file", u)
					}
					pair(false, "cleared", "canary of the removed file", lastCanary)
					others(false, "cleared", inForce)
					inForce = nil
					continue
				}
				// the next content: users removed, passwords changed, users kept, users added
				var next, removed, changedOld, changedNew, kept, added []hLine
				for i, u := range last {
					k := r8.Intn(3)
					if i == 0 {
						k = r8.Intn(2) // at least one user loses the old pair
					}
					switch k {
					case 0:
						removed = append(removed, u)
					case 1:
						nu := mkUser(u.user, u.pw+pw8(1+r8.Intn(3)))
						changedOld, changedNew, next = append(changedOld, u), append(changedNew, nu), append(next, nu)
					default:
						kept, next = append(kept, u), append(next, u)
					}
				}
				for k := r8.Intn(3); k > 0; k-- {
					nu := mkUser(nextName(), pw8(1+r8.Intn(9)))
					added, next = append(added, nu), append(next, nu)
				}
				canary := mkUser(fmt.Sprintf("canary%dv%d", h, v), pw8(6))
				nBad := []int{0, 1, 1, 2, 3}[r8.Intn(5)]
				marker := fmt.Sprintf("c12r-%d-%d-", h, v)
				content := layout(append(append([]hLine(nil), next...), canary), nBad, marker)
				hooksDone := make(chan struct{})
				seen := 0
				oldPairs := append(append(append([]hLine(nil), removed...), changedOld...), lastCanary)
				hook.arm(marker, func(tail string) {
					// runs in the refresh goroutine, inside ReloadFromReader's scanner loop
					hist, histNotes = append(hist, "HsBad"), append(histNotes, "bad-line callback "+tail)
					if len(inForce) > 0 || seen == 0 {
						pair(true, "window", "old pair while the new file is being read", oldPairs[r8.Intn(len(oldPairs))])
					}
					for k := r8.Intn(3); k > 0; k-- {
						all := append(append(append(append([]hLine(nil), changedNew...), added...), kept...), canary)
						pair(true, "window", "pair of the new file while it is being read", all[r8.Intn(len(all))])
					}
					if r8.Intn(2) == 0 {
						others(true, "window", append(append([]hLine(nil), last...), next...))
					}
					if seen++; seen == nBad {
						close(hooksDone)
					}
				})
				hist = append(hist, vh.App("HsWrite", coqHFile(content), vh.N(2*v)))
				histNotes = append(histNotes, fmt.Sprintf("v%d written: %d removed, %d changed, %d kept, %d added, %d malformed lines", v, len(removed), len(changedOld), len(kept), len(added), nBad))
				install(content, v)
				fileGone = false
				if nBad > 0 {
					select {
					case <-hooksDone:
					case <-time.After(5 * time.Second):
						hook.arm("", nil)
						if abandoned == "" {
							run.Violation(run.NextID(), "auth-reload: the refresh goroutine did not re-read the changed htpasswd file within 5 s (no bad-line callback)", histNotes)
							abandoned = "violation"
						}
					}
				}
				hook.arm("", nil)
				if abandoned != "" {
					break
				}
				if !waitCanary(canary, true) {
					run.Violation(run.NextID(), "auth-reload: the changed htpasswd file never came into force (its new user still rejected after 5 s)", histNotes)
					abandoned = "violation"
					break
				}
				hist, histNotes = append(hist, "HsInForce"), append(histNotes, fmt.Sprintf("v%d seen in force", v))
				var after []func()
				for _, u := range removed {
					u := u
					after = append(after, func() { pair(false, "in-force", "pair of a removed user", u) })
				}
				for _, u := range changedOld {
					u := u
					after = append(after, func() { pair(false, "in-force", "old password of a user whose password changed", u) })
				}
				for _, u := range changedNew {
					u := u
					after = append(after, func() { pair(false, "in-force", "new password", u) })
				}
				for _, u := range kept {
					u := u
					after = append(after, func() { pair(false, "in-force", "unchanged pair", u) })
				}
				for _, u := range added {
					u := u
					after = append(after, func() { pair(false, "in-force", "pair of a new user", u) })
				}
				oc := lastCanary
				after = append(after, func() { pair(false, "in-force", "pair of a removed user", oc) })
				r8.Shuffle(len(after), func(i, j int) { after[i], after[j] = after[j], after[i] })
				for _, f := range after {
					f()
				}
				others(false, "in-force", append(append([]hLine(nil), last...), next...))
				if len(removed)+len(changedOld) > 0 && r8.Intn(2) == 0 {
					time.Sleep(25 * time.Millisecond) // a few refresh periods later
					for _, u := range append(append([]hLine(nil), removed...), changedOld...) {
						pair(false, "in-force", "old pair again, some refresh periods later", u)
					}
				}
				inForce, last, lastCanary = next, next, canary
			}
			hook.arm("", nil)
			for _, d := range stuck {
				<-d
			}
			if abandoned != "" && abandoned != "violation" {
				run.Exclude("auth-reload: " + abandoned)
				continue
			}
			for i, st := range steps {
				creds, shown := coqCreds(st.header)
				class := "auth-reload/" + st.phase
				if sp.redirect != 0 {
					class += "+redirect"
				}
				run.Add("http/"+class, vh.App("CReload", vh.N(sp.redirect), vh.HxS(authName), coqHFile(init), vh.N(0), vh.List(hist[:st.histLen]), vh.N(i), creds,
					vh.N(st.status), vh.N(st.hits), vh.Bool(st.loc)),
					map[string]interface{}{"history": h, "auth": authName, "redirect": sp.redirect, "phase": st.phase, "request": st.note, "basic_auth": shown,
						"before": histNotes[:st.histLen], "requests_before": i, "status": st.status, "upstream_hits": st.hits})
			}
		}
		log.SetOutput(io.Discard)
	}

	// ---------------- 9. a SET of basic schemes behind ONE HTTPProxy ----------------
	// proxy.auth configures several schemes; every scheme has an htpasswd file of its own and a realm
	// that may well be the same for all of them.  One HTTPProxy, AuthSchemes from ONE call of the real
	// auth.LoadAuthSchemes, a table built by the real route.NewTable with one route per scheme (some
	// of them redirect routes), a route naming an unknown scheme and a route without auth option.
	// Users live in one scheme only, in two schemes with the same password, or in two schemes with
	// different passwords.  A history: a pair is presented on the other schemes' routes BEFORE anyone
	// logged in (cold), on its home route (accepted), then on every other route, on the home route
	// again; wrong passwords likewise; requests without credentials (the challenge names the realm of
	// the route's own scheme).  In one history out of three the schemes refresh and the operator
	// replaces the file of one of them in the middle (a user removed, a password changed, a user of
	// ANOTHER scheme added with that scheme's password), the harness waits for the new file's canary
	// user and goes on.  One CSchemes case per request carrying everything that happened before it;
	// the model replays the history on the machine of the whole set, the reference reads only the
	// route's own scheme's file.  The choices come from a source of their own.
	{
		r9 := rand.New(rand.NewSource(run.Seed*15485863 + 9))
		pw9 := func(n int) string {
			const cs = "abcdefghijklmnopqrstuvwxyzABCDEFGHIJKLMNOPQRSTUVWXYZ0123456789-_:!"
			b := make([]byte, n)
			for i := range b {
				b[i] = cs[r9.Intn(len(cs))]
			}
			return string(b)
		}
		mkUser := func(name, pw string) hLine {
			l := hLine{kind: 0, user: name, pw: pw}
			switch r9.Intn(3) {
			case 0:
				l.text = shaLine(name, pw)
			case 1:
				l.text = bcryptLine(name, pw)
			default:
				l.text = name + ":" + pw // AcceptPlain
			}
			return l
		}
		coqCreds := func(header string) (string, string) {
			req := &http.Request{Header: http.Header{}}
			if header != "" {
				req.Header.Set("Authorization", header)
			}
			u, pw, ok := req.BasicAuth()
			return fmt.Sprintf("{| c_ok := %s; c_user := %s; c_pw := %s |}", vh.Bool(ok), vh.HxS(u), vh.HxS(pw)), fmt.Sprintf("%q/%q ok=%v", u, pw, ok)
		}
		type setScheme struct {
			name, realm, file string
			init              []hLine // version 0
			cur               []hLine // user lines of the content in force (canary excluded)
			canary            hLine
			version           int
		}
		type setRoute struct {
			path, auth string
			redirect   int
		}
		for h := 0; h < run.Scale(12, 90); h++ {
			base := time.Now().Truncate(time.Second).Add(-time.Hour)
			pool := []string{"staff", "vault", "ops", "mybasic", "other", "Staff"}
			r9.Shuffle(len(pool), func(i, j int) { pool[i], pool[j] = pool[j], pool[i] })
			nS := 2 + r9.Intn(2)
			refresh := h%3 == 1
			scs := make([]*setScheme, nS)
			common := []string{"Restricted", "fabio", "", "a b", "staff", "Basic"}[r9.Intn(6)]
			mode := r9.Intn(5)
			for i := range scs {
				sc := &setScheme{name: pool[i], file: filepath.Join(dir, fmt.Sprintf("set%d_%d.htpasswd", h, i))}
				switch {
				case mode <= 2, mode == 3 && i < 2:
					sc.realm = common // the same explicit realm
				default:
					sc.realm = sc.name // what the configuration defaults to
				}
				scs[i] = sc
			}
			// the users
			people := []string{"alice", "bob", "carol", "dave", "erin", "root", "al", "x"}
			r9.Shuffle(len(people), func(i, j int) { people[i], people[j] = people[j], people[i] })
			nP := 3 + r9.Intn(3)
			users := make([][]hLine, nS)
			for k := 0; k < nP; k++ {
				home := k % nS
				pw := pw9(1 + r9.Intn(9))
				users[home] = append(users[home], mkUser(people[k], pw))
				other := (home + 1 + r9.Intn(nS-1)) % nS
				switch r9.Intn(4) {
				case 0: // the same pair in a second scheme
					users[other] = append(users[other], mkUser(people[k], pw))
				case 1: // the same user with another password in a second scheme
					users[other] = append(users[other], mkUser(people[k], pw+pw9(1+r9.Intn(2))))
				}
			}
			install := func(sc *setScheme, f []hLine) {
				tmp := sc.file + ".new"
				if err := os.WriteFile(tmp, hFileText(f), 0o600); err != nil {
					panic(err)
				}
				mt := base.Add(time.Duration(2*sc.version) * time.Second)
				if err := os.Chtimes(tmp, mt, mt); err != nil {
					panic(err)
				}
				if err := os.Rename(tmp, sc.file); err != nil {
					panic(err)
				}
			}
			cfgs := map[string]config.AuthScheme{}
			var cfgItems []string
			for i, sc := range scs {
				sc.cur = users[i]
				sc.canary = mkUser(fmt.Sprintf("canary%ds%dv0", h, i), pw9(6))
				sc.init = append(append([]hLine(nil), sc.cur...), sc.canary)
				r9.Shuffle(len(sc.init), func(a, b int) { sc.init[a], sc.init[b] = sc.init[b], sc.init[a] })
				if r9.Intn(3) == 0 {
					at := r9.Intn(len(sc.init) + 1)
					sc.init = append(sc.init[:at], append([]hLine{{kind: 2, text: ""}}, sc.init[at:]...)...)
				}
				install(sc, sc.init)
				b := config.BasicAuth{Realm: sc.realm, File: sc.file}
				if refresh {
					b.Refresh = 10 * time.Millisecond
				}
				cfgs[sc.name] = config.AuthScheme{Name: sc.name, Type: "basic", Basic: b}
				cfgItems = append(cfgItems, vh.Pair(vh.HxS(sc.name),
					fmt.Sprintf("{| bc_realm := %s; bc_file := %s; bc_mtime := 0%%N |}", vh.HxS(sc.realm), coqHFile(sc.init))))
			}
			hs, err := auth.LoadAuthSchemes(cfgs)
			if err != nil {
				panic(err)
			}
			// the table: one route per scheme, an unknown scheme, no auth option
			var routes []setRoute
			var text strings.Builder
			for i, sc := range scs {
				rt := setRoute{path: "/" + sc.name + "/", auth: sc.name}
				if (h+i)%4 == 3 {
					rt.redirect = redirectCodes[r9.Intn(len(redirectCodes))]
					fmt.Fprintf(&text, "route add svc%d %s https://redir.example/fixed opts \"auth=%s redirect=%d\"\n", i, rt.path, sc.name, rt.redirect)
				} else {
					fmt.Fprintf(&text, "route add svc%d %s http://127.0.0.1:%d/ opts \"auth=%s\"\n", i, rt.path, 9100+i, sc.name)
				}
				routes = append(routes, rt)
			}
			text.WriteString("route add svcu /nosuch/ http://127.0.0.1:9110/ opts \"auth=nosuch\"\n")
			text.WriteString("route add svco /open/ http://127.0.0.1:9111/\n")
			unknownRoute, openRoute := setRoute{path: "/nosuch/", auth: "nosuch"}, setRoute{path: "/open/"}
			tbl, err := route.NewTable(bytes.NewBufferString(text.String()))
			if err != nil {
				panic(err)
			}
			hits := 0
			p := &proxy.HTTPProxy{
				Transport: rtFunc(func(req *http.Request) (*http.Response, error) {
					hits++
					return &http.Response{StatusCode: 200, Proto: "HTTP/1.1", ProtoMajor: 1, ProtoMinor: 1, Header: http.Header{},
						Body: io.NopCloser(strings.NewReader("ok")), Request: req}, nil
				}),
				Lookup:      tableLookup(tbl),
				AuthSchemes: hs,
			}
			type obs struct {
				status, hits int
				loc          bool
				chal         string // "" = no WWW-Authenticate header
				hasChal      bool
				auth         string // t.AuthScheme of the target the real Lookup returned ("?" = none)
			}
			doReq := func(rt setRoute, header string) obs {
				before := hits
				req := httptest.NewRequest("GET", "http://svc.example"+rt.path+"x", nil)
				req.RemoteAddr = "192.0.2.7:4711"
				if header != "" {
					req.Header.Set("Authorization", header)
				}
				o := obs{auth: "?"}
				if t := p.Lookup(req); t != nil {
					o.auth = t.AuthScheme
				}
				rec := httptest.NewRecorder()
				p.ServeHTTP(rec, req)
				o.status, o.hits, o.loc = rec.Code, hits-before, rec.Header().Get("Location") != ""
				if vs := rec.Header().Values("Www-Authenticate"); len(vs) > 0 {
					o.hasChal = true
					v := strings.Join(vs, "\x00")
					if strings.HasPrefix(v, "Basic realm=\"") && strings.HasSuffix(v, "\"") && len(v) >= len("Basic realm=\"\"") {
						o.chal = v[len("Basic realm=\"") : len(v)-1]
					} else {
						o.chal = "?unexpected header: " + v
					}
				}
				return o
			}
			type reqStep struct {
				histLen     int
				rt          setRoute
				phase, note string
				header      string
				o           obs
			}
			var hist, histNotes []string
			var steps []reqStep
			broken := false
			send := func(rt setRoute, phase, note, header string) {
				if broken || len(steps) >= 44 {
					return
				}
				var o obs
				if pn, pv := vh.Recover(func() { o = doReq(rt, header) }); pn {
					run.Violation(run.NextID(), fmt.Sprintf("ServeHTTP panicked: %v", pv), note)
					broken = true
					return
				}
				if o.auth != rt.auth {
					run.Violation(run.NextID(), "scheme-set: the real Table.Lookup returned a target with another auth option than the route's", map[string]string{"route": rt.path, "want": rt.auth, "got": o.auth})
					broken = true
					return
				}
				steps = append(steps, reqStep{histLen: len(hist), rt: rt, phase: phase, note: note, header: header, o: o})
				creds, shown := coqCreds(header)
				hist = append(hist, vh.App("SsReq", vh.HxS(rt.auth), creds))
				histNotes = append(histNotes, fmt.Sprintf("%s %s -> %d", rt.path, shown, o.status))
			}
			pair := func(rt setRoute, phase, note string, u hLine) {
				send(rt, phase, fmt.Sprintf("%s %q/%q", note, u.user, u.pw), basicHeader(u.user, u.pw))
			}
			othersOf := func(i int) []setRoute {
				var l []setRoute
				for j, rt := range routes {
					if j != i {
						l = append(l, rt)
					}
				}
				r9.Shuffle(len(l), func(a, b int) { l[a], l[b] = l[b], l[a] })
				switch r9.Intn(4) {
				case 0:
					l = append(l, unknownRoute)
				case 1:
					l = append(l, openRoute)
				}
				return l
			}
			// one round: every user of every scheme (shuffled): home login, the same pair elsewhere, ...
			round := func(phase string) {
				type who struct {
					i int
					u hLine
				}
				var all []who
				for i, sc := range scs {
					for _, u := range sc.cur {
						all = append(all, who{i, u})
					}
				}
				r9.Shuffle(len(all), func(a, b int) { all[a], all[b] = all[b], all[a] })
				for k, w := range all {
					if k == 0 && r9.Intn(2) == 0 { // nobody has logged in with this pair yet
						pair(routes[(w.i+1)%nS], phase, "cold: pair of "+scs[w.i].name+" on another scheme's route", w.u)
					}
					pair(routes[w.i], phase, "home login", w.u)
					for _, rt := range othersOf(w.i) {
						pair(rt, phase, "pair accepted by "+scs[w.i].name+" on another route", w.u)
					}
					switch r9.Intn(4) {
					case 0:
						pair(routes[w.i], phase, "home login again", w.u)
					case 1:
						bad := hLine{user: w.u.user, pw: w.u.pw + "x"}
						pair(routes[w.i], phase, "wrong password at home", bad)
						pair(routes[(w.i+1)%nS], phase, "wrong password on another scheme's route", bad)
					case 2:
						send(routes[w.i], phase, "no credentials", "")
						send(routes[(w.i+1)%nS], phase, "no credentials", "")
					}
				}
				for _, rt := range append(append([]setRoute(nil), routes...), unknownRoute, openRoute) {
					if r9.Intn(3) == 0 {
						send(rt, phase, "no credentials", []string{"", "", "Bearer abc", "Basic !!!"}[r9.Intn(4)])
					}
				}
			}
			waitCanary := func(i int, c hLine) bool {
				deadline := time.Now().Add(5 * time.Second)
				for {
					o := doReq(routes[i], basicHeader(c.user, c.pw))
					if o.status == 200 || (routes[i].redirect != 0 && o.status == routes[i].redirect) {
						return true
					}
					if time.Now().After(deadline) {
						return false
					}
					time.Sleep(2 * time.Millisecond)
				}
			}
			round("initial")
			if refresh && !broken {
				// the operator replaces the file of ONE scheme
				i := r9.Intn(nS)
				sc := scs[i]
				var next []hLine
				for k, u := range sc.cur {
					c := r9.Intn(3)
					if k == 0 {
						c = r9.Intn(2)
					}
					switch c {
					case 0: // removed
					case 1:
						next = append(next, mkUser(u.user, u.pw+pw9(1+r9.Intn(2))))
					default:
						next = append(next, u)
					}
				}
				// a user of another scheme is added with that scheme's password
				j := (i + 1 + r9.Intn(nS-1)) % nS
				for _, u := range scs[j].cur {
					dup := false
					for _, x := range next {
						dup = dup || x.user == u.user
					}
					for _, x := range sc.cur {
						dup = dup || x.user == u.user
					}
					if !dup {
						next = append(next, mkUser(u.user, u.pw))
						break
					}
				}
				sc.version++
				canary := mkUser(fmt.Sprintf("canary%ds%dv%d", h, i, sc.version), pw9(6))
				content := append(append([]hLine(nil), next...), canary)
				r9.Shuffle(len(content), func(a, b int) { content[a], content[b] = content[b], content[a] })
				old := sc.cur
				install(sc, content)
				hist = append(hist, vh.App("SsFile", vh.HxS(sc.name), vh.App("HsWrite", coqHFile(content), vh.N(2*sc.version))))
				histNotes = append(histNotes, fmt.Sprintf("file of %s replaced (%d user lines)", sc.name, len(next)))
				if !waitCanary(i, canary) {
					run.Violation(run.NextID(), "scheme-set: the changed htpasswd file never came into force (its new user still rejected after 5 s)", histNotes)
					broken = true
				} else {
					hist = append(hist, vh.App("SsFile", vh.HxS(sc.name), "HsInForce"))
					histNotes = append(histNotes, fmt.Sprintf("new file of %s seen in force", sc.name))
					sc.cur, sc.canary = next, canary
					for _, u := range old {
						pair(routes[i], "after-replace", "pair of the replaced file at home", u)
						if r9.Intn(2) == 0 {
							pair(routes[(i+1)%nS], "after-replace", "pair of the replaced file on another scheme's route", u)
						}
					}
					round("after-replace")
				}
			}
			if broken {
				continue
			}
			cfgTerm := vh.List(cfgItems)
			for _, st := range steps {
				creds, shown := coqCreds(st.header)
				class := "scheme-set/" + st.phase
				if mode <= 2 {
					class += "+same-realm"
				}
				if st.rt.redirect != 0 {
					class += "+redirect"
				}
				chal := vh.None
				if st.o.hasChal {
					chal = vh.Some(vh.HxS(st.o.chal))
				}
				realms := map[string]string{}
				for _, sc := range scs {
					realms[sc.name] = sc.realm
				}
				run.Add("http/"+class, vh.App("CSchemes", vh.N(st.rt.redirect), cfgTerm, vh.List(hist[:st.histLen]), vh.HxS(st.rt.auth), creds,
					vh.N(st.o.status), vh.N(st.o.hits), vh.Bool(st.o.loc), chal),
					map[string]interface{}{"history": h, "realms": realms, "route": st.rt.path, "auth": st.rt.auth, "redirect": st.rt.redirect, "phase": st.phase,
						"request": st.note, "basic_auth": shown, "before": histNotes[:st.histLen], "status": st.o.status, "upstream_hits": st.o.hits, "challenge": st.o.chal})
			}
		}
	}

	// ---------------- 10. whole requests: every method, arbitrary header maps (gate.go) ----------------
	gateRequests(run, up, dir)

	// ---------------- 11. a tcp route with several targets; 12. a htpasswd file removed more than once (round8.go) ----------------
	tcpRoutes(run)
	reloadCycles(run, dir)

	run.Finish(preamble, run.Scale(140, 700))
}
