// Whole requests through the two gates (class http/any-request, case type CGate,
// Model/GateRequest.v): the property speaks about "a request" - not about a GET
// request with the three or four headers the other classes send.  Here the real
// HTTPProxy.ServeHTTP gets requests with every method (OPTIONS most often) and
// header maps with any number of further fields: the CORS preflight set (Origin,
// Access-Control-Request-Method, Access-Control-Request-Headers), websocket / h2c
// upgrades, SSE, forwarding headers of other spellings, credentials under other
// names (Proxy-Authorization, X-Authorization, cookies), several Authorization
// values, method overrides ... against routes with allow / deny rules and an auth
// option (two real basic schemes loaded by auth.LoadAuthSchemes, an unknown scheme,
// none), forwarding and redirect routes, looked up through the real Table.Lookup.
// The model reads RemoteAddr, the X-Forwarded-For values and the first
// Authorization value off the header map it is given; the reference knows what the
// generator put where.  No method and no header may open a gate.
package main

import (
	"fmt"
	"io"
	"math/rand"
	"net"
	"net/http"
	"net/http/httptest"
	"net/netip"
	"os"
	"path/filepath"
	"sort"
	"strconv"
	"strings"

	"github.com/fabiolb/fabio/auth"
	"github.com/fabiolb/fabio/config"
	"github.com/fabiolb/fabio/proxy"
	"github.com/fabiolb/fabio/route"

	"verifharness/internal/vh"
)

type gateScheme struct {
	name, realm string
	file        []hLine
}

func (s *gateScheme) has(u, pw string) bool {
	for _, l := range s.file {
		if l.kind == 0 && l.user == u && l.pw == pw {
			return true
		}
	}
	return false
}

// one generated request
type gateIn struct {
	g        ruleGen
	authName string
	redirect int
	method   string
	remote   string
	hdr      http.Header // the header map the handler receives (canonical keys)
	xff      []string    // the X-Forwarded-For field values the generator put into hdr
	credUser *hLine      // the pair the generator put into the FIRST Authorization value as Basic credentials (nil: none)
	credNote string
	kind     string
	note     string
}

var gateMethods = []string{"OPTIONS", "OPTIONS", "OPTIONS", "OPTIONS", "OPTIONS", "OPTIONS", "GET", "GET", "HEAD", "POST", "PUT", "PATCH", "DELETE",
	"CONNECT", "TRACE", "PROPFIND", "PURGE", "QUERY", "PRI", "options", "Options", "OPTIONS2", "get", "M-SEARCH"}

func gateRequests(run *vh.Run, up *upstream, dir string) {
	rg := rand.New(rand.NewSource(run.Seed*32452843 + 10))
	pw := func(n int) string {
		const cs = "abcdefghijklmnopqrstuvwxyzABCDEFGHIJKLMNOPQRSTUVWXYZ0123456789-_:!"
		b := make([]byte, n)
		for i := range b {
			b[i] = cs[rg.Intn(len(cs))]
		}
		return string(b)
	}
	mkUser := func(name, p string, enc int) hLine {
		l := hLine{kind: 0, user: name, pw: p}
		switch enc {
		case 0:
			l.text = shaLine(name, p)
		case 1:
			l.text = bcryptLine(name, p)
		default:
			l.text = name + ":" + p // AcceptPlain
		}
		return l
	}
	// two real basic schemes with htpasswd files of their own and the SAME realm; alice lives in both
	// with different passwords
	scs := []*gateScheme{
		{name: "staff", realm: "Restricted", file: []hLine{mkUser("alice", pw(8), 0), mkUser("bob", pw(10), 1), {kind: 2, text: ""}, mkUser("carol", pw(1), 2)}},
		{name: "vault", realm: "Restricted", file: []hLine{mkUser("root", pw(12), 0), mkUser("alice", pw(7), 2)}},
	}
	cfgs := map[string]config.AuthScheme{}
	var cfgItems []string
	byName := map[string]*gateScheme{}
	for _, sc := range scs {
		file := filepath.Join(dir, "gate-"+sc.name+".htpasswd")
		if err := os.WriteFile(file, hFileText(sc.file), 0o600); err != nil {
			panic(err)
		}
		cfgs[sc.name] = config.AuthScheme{Name: sc.name, Type: "basic", Basic: config.BasicAuth{Realm: sc.realm, File: file}}
		cfgItems = append(cfgItems, vh.Pair(vh.HxS(sc.name),
			fmt.Sprintf("{| bc_realm := %s; bc_file := %s; bc_mtime := 0%%N |}", vh.HxS(sc.realm), coqHFile(sc.file))))
		byName[sc.name] = sc
	}
	hs, err := auth.LoadAuthSchemes(cfgs)
	if err != nil {
		panic(err)
	}
	cfgTerm := vh.List(cfgItems)
	users := func(sc *gateScheme) []hLine {
		var us []hLine
		for _, l := range sc.file {
			if l.kind == 0 {
				us = append(us, l)
			}
		}
		return us
	}

	// ---- running one request ----
	add := func(in gateIn) {
		var all []string
		for k, vs := range in.hdr {
			all = append(append(all, k), vs...)
		}
		if !ascii(in.g.allow, in.g.deny, in.remote, in.authName, in.method) || !ascii(all...) {
			run.Exclude("non-ASCII request data")
			return
		}
		tb := newTables(run)
		tb.askRule(in.g.allow)
		tb.askRule(in.g.deny)
		ref := refParse(in.g.allow, in.g.deny)
		host, _, serr := net.SplitHostPort(in.remote)
		split := vh.None
		sem := map[string]*netip.Addr{}
		askSem := func(s string) {
			if a, err := netip.ParseAddr(s); err == nil {
				a = a.WithZone("").Unmap()
				sem[s] = &a
			} else {
				sem[s] = nil
			}
		}
		refAdmit := true
		if serr == nil {
			split = vh.Some(vh.HxS(host))
			tb.askIP(stripZone(host))
			askSem(host)
			for _, v := range in.xff { // the lines the generator made, not what the map says
				for _, e := range strings.Split(v, ",") {
					e = strings.TrimSpace(e)
					tb.askIP(stripZone(e))
					askSem(e)
				}
			}
			for _, a := range sem {
				if a != nil && !ref.admits(*a) {
					refAdmit = false
				}
			}
		}
		var semItems []string
		for _, k := range sortedKeys(sem) {
			v := vh.None
			if sem[k] != nil {
				v = vh.Some(coqCanon(*sem[k]))
			}
			semItems = append(semItems, vh.Pair(vh.HxS(k), v))
		}
		// by construction of the request
		refAuth := in.authName == ""
		if sc := byName[in.authName]; sc != nil && in.credUser != nil {
			refAuth = sc.has(in.credUser.user, in.credUser.pw)
		}
		// what net/http reads from each Authorization value that occurs
		var basicItems []string
		seenA := map[string]bool{}
		for _, a := range in.hdr["Authorization"] {
			if seenA[a] {
				continue
			}
			seenA[a] = true
			u, p, ok := (&http.Request{Header: http.Header{"Authorization": {a}}}).BasicAuth()
			basicItems = append(basicItems, vh.Pair(vh.HxS(a), fmt.Sprintf("{| c_ok := %s; c_user := %s; c_pw := %s |}", vh.Bool(ok), vh.HxS(u), vh.HxS(p))))
		}
		lookup := tableLookup(mkTable(rg, in.g.allow, in.g.deny, in.authName, in.redirect))
		rt := 0
		present := false
		p := &proxy.HTTPProxy{
			Transport: rtFunc(func(req *http.Request) (*http.Response, error) {
				rt++
				return &http.Response{StatusCode: 200, Proto: "HTTP/1.1", ProtoMajor: 1, ProtoMinor: 1, Header: http.Header{},
					Body: io.NopCloser(strings.NewReader("ok")), Request: req}, nil
			}),
			Lookup: func(req *http.Request) *route.Target {
				t := lookup(req)
				present = t != nil
				return t
			},
			AuthSchemes: hs,
		}
		req := httptest.NewRequest("GET", "http://svc.example/invoices/42", nil)
		req.Method = in.method
		req.RemoteAddr = in.remote
		var hdrItems []string
		keys := make([]string, 0, len(in.hdr))
		for k := range in.hdr {
			keys = append(keys, k)
		}
		sort.Strings(keys)
		shown := map[string][]string{}
		for _, k := range keys {
			vs := append([]string(nil), in.hdr[k]...)
			req.Header[k] = vs
			items := make([]string, len(vs))
			for i, v := range vs {
				items[i] = vh.HxS(v)
			}
			hdrItems = append(hdrItems, vh.Pair(vh.HxS(k), vh.List(items)))
			shown[k] = in.hdr[k]
		}
		rec := httptest.NewRecorder()
		w := &hijackRecorder{ResponseRecorder: rec}
		id := run.NextID()
		if pn, v := vh.Recover(func() { p.ServeHTTP(w, req) }); pn {
			run.Violation(id, fmt.Sprintf("ServeHTTP panicked: %v", v), map[string]interface{}{"method": in.method, "headers": shown})
			return
		}
		dials := up.hits()
		chal := vh.None
		chalShown := ""
		if vs := rec.Header().Values("Www-Authenticate"); len(vs) > 0 && !w.hijacked {
			v := strings.Join(vs, "\x00")
			if strings.HasPrefix(v, "Basic realm=\"") && strings.HasSuffix(v, "\"") && len(v) >= len("Basic realm=\"\"") {
				chalShown = v[len("Basic realm=\"") : len(v)-1]
			} else {
				chalShown = "?unexpected header: " + v
			}
			chal = vh.Some(vh.HxS(chalShown))
		}
		loc := rec.Header().Get("Location")
		class := "http/any-request/" + in.kind
		if in.redirect != 0 {
			class += "+redirect"
		}
		if w.hijacked {
			class += "+websocket"
		}
		q := fmt.Sprintf("{| q_method := %s; q_remote := %s; q_headers := %s |}", vh.HxS(in.method), vh.HxS(in.remote), vh.List(hdrItems))
		run.Add(class, vh.App("CGate", coqEnv(in.g.allow, in.g.deny, tb, &ref), vh.Bool(present), vh.N(in.redirect), vh.HxS(in.authName), cfgTerm,
			vh.List(basicItems), q, split, vh.List(semItems), vh.Bool(refAdmit), vh.Bool(refAuth),
			vh.N(rec.Code), vh.N(rt), vh.N(dials), vh.Bool(loc != ""), chal),
			map[string]interface{}{"method": in.method, "headers": shown, "remote": in.remote, "allow": in.g.allow, "deny": in.g.deny, "auth": in.authName,
				"redirect": in.redirect, "credentials": in.credNote, "note": in.note, "status": rec.Code, "round_trips": rt, "upstream_dials": dials,
				"location": loc, "challenge": chalShown, "ref_admit": refAdmit, "ref_auth": refAuth})
	}

	// ---- header material ----
	origins := []string{"https://app.example", "http://localhost:3000", "null", "https://evil.example", "*"}
	acrm := []string{"DELETE", "POST", "GET", "PUT", "OPTIONS", "get", "X"}
	acrh := []string{"authorization", "authorization, content-type", "x-requested-with", "*"}
	preflight := func(h http.Header, origin, method, headers bool) {
		if origin {
			h.Add("Origin", origins[rg.Intn(len(origins))])
		}
		if method {
			h.Add("Access-Control-Request-Method", acrm[rg.Intn(len(acrm))])
		}
		if headers {
			h.Add("Access-Control-Request-Headers", acrh[rg.Intn(len(acrh))])
		}
	}
	// single fields a client (or a proxy in front) may send; none of them is a credential or an
	// address the property lists
	singles := [][2]string{
		{"X-Forwarded-Proto", "https"}, {"X-Forwarded-Host", "internal.example"}, {"X-Forwarded-Port", "443"}, {"X-Forwarded-Prefix", "/x"},
		{"Forwarded", "for=10.0.0.1;proto=https;by=127.0.0.1"}, {"X-Real-Ip", "10.0.0.1"}, {"X-Real-Ip", "127.0.0.1"}, {"Client-Ip", "127.0.0.1"},
		{"True-Client-Ip", "10.1.2.3"}, {"X-Client-Ip", "10.1.2.3"}, {"X-Cluster-Client-Ip", "10.1.2.3"}, {"Cf-Connecting-Ip", "10.1.2.3"},
		{"X-Originating-Ip", "127.0.0.1"}, {"X-Remote-Ip", "127.0.0.1"}, {"X-Remote-Addr", "127.0.0.1"}, {"Via", "1.1 front"},
		{"Cookie", "session=abc; auth=1"}, {"X-Requested-With", "XMLHttpRequest"}, {"X-Http-Method-Override", "GET"}, {"X-Http-Method", "GET"},
		{"X-Method-Override", "OPTIONS"}, {"X-Original-Url", "/open/"}, {"X-Rewrite-Url", "/open/"}, {"X-Original-Method", "OPTIONS"},
		{"Content-Type", "application/json"}, {"Content-Type", "application/grpc"}, {"Content-Length", "0"}, {"User-Agent", "Mozilla/5.0"},
		{"Referer", "https://app.example/"}, {"Sec-Fetch-Mode", "cors"}, {"Sec-Fetch-Site", "cross-site"}, {"Sec-Fetch-Dest", "empty"},
		{"Accept", "*/*"}, {"Accept", "text/event-stream"}, {"Accept-Encoding", "gzip"}, {"Cache-Control", "no-cache"}, {"Pragma", "no-cache"},
		{"If-None-Match", "*"}, {"Range", "bytes=0-0"}, {"Expect", "100-continue"}, {"Te", "trailers"}, {"Max-Forwards", "0"},
		{"X-Auth-Token", "letmein"}, {"X-Api-Key", "letmein"}, {"X-Forwarded-User", "alice"}, {"X-Remote-User", "alice"}, {"Remote-User", "root"},
		{"X-Authenticated", "true"}, {"X-Authenticated-User", "alice"}, {"Authentication", "Basic YTpi"}, {"Www-Authenticate", "Basic realm=\"Restricted\""},
		{"Access-Control-Allow-Origin", "*"}, {"Access-Control-Allow-Credentials", "true"}, {"X-Health-Check", "1"}, {"X-Internal", "1"},
		{"X-Fabio-Auth", "skip"}, {"X-Skip-Auth", "1"}, {"Connection", "keep-alive"}, {"Connection", "close"}, {"Upgrade-Insecure-Requests", "1"},
		{"Dnt", "1"}, {"Priority", "u=1"}, {"Traceparent", "00-0af7651916cd43dd8448eb211c80319c-b7ad6b7169203331-01"}, {"X-Request-Id", "42"},
		{"X-B3-Traceid", "463ac35c9f6413ad"}, {"Uber-Trace-Id", "1:2:3:1"}, {"Origin", "https://app.example"}, {"Access-Control-Request-Method", "DELETE"},
	}
	extras := func(h http.Header, n int) {
		for i := 0; i < n; i++ {
			s := singles[rg.Intn(len(singles))]
			h.Add(s[0], s[1])
		}
	}
	upgrades := func(h http.Header) string {
		switch rg.Intn(6) {
		case 0, 1:
			h.Add("Upgrade", "websocket")
			h.Add("Connection", "Upgrade")
			h.Add("Sec-Websocket-Key", "dGhlIHNhbXBsZSBub25jZQ==")
			h.Add("Sec-Websocket-Version", "13")
			return "websocket upgrade"
		case 2:
			h.Add("Upgrade", "Websocket")
			h.Add("Connection", "Upgrade")
			return "Websocket upgrade"
		case 3:
			h.Add("Upgrade", "WebSocket")
			h.Add("Connection", "upgrade")
			return "WebSocket (not a spelling fabio dials for)"
		case 4:
			h.Add("Upgrade", "h2c")
			h.Add("Connection", "Upgrade, HTTP2-Settings")
			h.Add("Http2-Settings", "AAMAAABkAAQCAAAAAAIAAAAA")
			return "h2c upgrade"
		default:
			h.Add("Upgrade", "h2c")
			h.Add("Upgrade", "websocket") // Header.Get reads the first value
			h.Add("Connection", "Upgrade")
			return "two Upgrade values"
		}
	}
	// credentials: what goes where.  home = the scheme of the route (nil: the route names no
	// configured scheme: any user of any scheme is tried)
	type cred struct {
		note string
		set  func(h http.Header)
		user *hLine
	}
	genCred := func(home *gateScheme) cred {
		from := home
		if from == nil {
			from = scs[rg.Intn(len(scs))]
		}
		us := users(from)
		u := us[rg.Intn(len(us))]
		other := scs[0]
		if from == scs[0] {
			other = scs[1]
		}
		ou := users(other)[rg.Intn(len(users(other)))]
		basic := func(x hLine) string { return basicHeader(x.user, x.pw) }
		switch rg.Intn(16) {
		case 0, 1, 2, 3:
			return cred{note: "no Authorization field", set: func(http.Header) {}}
		case 4, 5:
			return cred{note: "right pair of " + from.name, set: func(h http.Header) { h.Add("Authorization", basic(u)) }, user: &u}
		case 6:
			x := hLine{user: u.user, pw: u.pw + "x"}
			return cred{note: "wrong password", set: func(h http.Header) { h.Add("Authorization", basic(x)) }, user: &x}
		case 7:
			x := hLine{user: "mallory", pw: u.pw}
			return cred{note: "unknown user", set: func(h http.Header) { h.Add("Authorization", basic(x)) }, user: &x}
		case 8:
			return cred{note: "pair of the other scheme (" + other.name + ")", set: func(h http.Header) { h.Add("Authorization", basic(ou)) }, user: &ou}
		case 9:
			v := []string{"Bearer abc", "Basic !!!", "Basic", "Negotiate YII=", "Digest username=\"" + u.user + "\"", "Basic " + u.user + ":" + u.pw}[rg.Intn(6)]
			return cred{note: "Authorization that is not a Basic pair: " + v, set: func(h http.Header) { h.Add("Authorization", v) }}
		case 10:
			return cred{note: "right pair under Proxy-Authorization only", set: func(h http.Header) { h.Add("Proxy-Authorization", basic(u)) }}
		case 11:
			k := []string{"X-Authorization", "Authorization2", "X-Forwarded-Authorization", "Authorization-Basic"}[rg.Intn(4)]
			return cred{note: "right pair under " + k + " only", set: func(h http.Header) { h.Add(k, basic(u)) }}
		case 12:
			x := hLine{user: u.user, pw: u.pw + "x"}
			return cred{note: "two Authorization values: wrong pair first, right pair second", set: func(h http.Header) {
				h.Add("Authorization", basic(x))
				h.Add("Authorization", basic(u))
			}, user: &x}
		case 13:
			return cred{note: "two Authorization values: right pair first, garbage second", set: func(h http.Header) {
				h.Add("Authorization", basic(u))
				h.Add("Authorization", "Bearer abc")
			}, user: &u}
		case 14:
			return cred{note: "right pair, scheme token in lower case", set: func(h http.Header) {
				h.Add("Authorization", "basic"+basic(u)[len("Basic"):])
			}, user: &u}
		default:
			x := hLine{user: u.user, pw: ""}
			return cred{note: "empty password", set: func(h http.Header) { h.Add("Authorization", basic(x)) }, user: &x}
		}
	}
	wellFormed := func() ruleGen {
		for {
			if g := genRule(rg); g.class == "allow" || g.class == "deny" {
				return g
			}
		}
	}
	authNames := []string{"staff", "staff", "staff", "vault", "vault", "nosuch", "Staff", "", ""}

	// ---- 1. random requests ----
	for i := 0; i < run.Scale(330, 2600); i++ {
		var g ruleGen
		switch k := rg.Intn(10); {
		case k < 4:
			g = ruleGen{class: "no-rule"}
		case k < 9:
			g = wellFormed()
		default:
			g = genRule(rg) // any text, malformed ones included
		}
		ref := refParse(g.allow, g.deny)
		cands := candidates(rg, &ref)
		var inA, outA []netip.Addr
		for _, a := range cands {
			if ref.admits(a) {
				inA = append(inA, a)
			} else {
				outA = append(outA, a)
			}
		}
		peer := pick(rg, cands)
		if len(inA) > 0 && rg.Intn(5) != 0 {
			peer = pick(rg, inA) // mostly admitted peers: the rest of the request decides
		}
		peerText := addrText(rg, peer)
		in := gateIn{g: g, kind: "random", hdr: http.Header{}, method: gateMethods[rg.Intn(len(gateMethods))],
			remote: net.JoinHostPort(peerText, strconv.Itoa(1+rg.Intn(65535))), authName: authNames[rg.Intn(len(authNames))]}
		if g.class == "no-rule" && in.authName == "" && rg.Intn(3) != 0 {
			in.authName = "staff"
		}
		if rg.Intn(4) == 0 {
			in.redirect = redirectCodes[rg.Intn(len(redirectCodes))]
		}
		if rg.Intn(40) == 0 {
			in.remote = []string{"1.2.3.4", "", "localhost:80", "[fe80::1%eth0]:1234"}[rg.Intn(4)]
		}
		var notes []string
		// X-Forwarded-For: none, clean, with a not-admitted address
		switch k := rg.Intn(10); {
		case k < 5:
		case k < 8 && len(inA) > 0:
			in.xff = []string{addrText(rg, pick(rg, inA)) + ", " + addrText(rg, pick(rg, inA))}
			if rg.Intn(3) == 0 {
				in.xff = append(in.xff, addrText(rg, pick(rg, inA)))
			}
		case len(outA) > 0:
			in.xff = []string{addrText(rg, pick(rg, cands)) + "," + addrText(rg, pick(rg, outA))}
			if rg.Intn(2) == 0 && len(inA) > 0 {
				in.xff = []string{addrText(rg, pick(rg, inA)), in.xff[0]}
			}
			notes = append(notes, "X-Forwarded-For lists a not-admitted address")
		}
		for _, v := range in.xff {
			in.hdr.Add("X-Forwarded-For", v)
		}
		// the header sets
		switch k := rg.Intn(20); {
		case k < 8:
			preflight(in.hdr, true, true, rg.Intn(2) == 0)
			notes = append(notes, "CORS preflight headers")
		case k < 10:
			preflight(in.hdr, rg.Intn(2) == 0, rg.Intn(2) == 0, rg.Intn(2) == 0)
		case k < 13:
			notes = append(notes, upgrades(in.hdr))
		}
		extras(in.hdr, []int{0, 0, 1, 2, 3, 5, 8}[rg.Intn(7)])
		c := genCred(byName[in.authName])
		c.set(in.hdr)
		in.credUser, in.credNote = c.user, c.note
		in.note = strings.Join(notes, "; ")
		add(in)
	}

	// ---- 2. the grid around the CORS preflight: method x header set x credentials x route ----
	alice := users(scs[0])[0]
	wrong := hLine{user: alice.user, pw: alice.pw + "x"}
	type gridRoute struct {
		g        ruleGen
		authName string
		remote   string
		xff      []string
		note     string
	}
	routes := []gridRoute{
		{authName: "staff", remote: "192.0.2.7:4711", note: "auth=staff"},
		{authName: "nosuch", remote: "192.0.2.7:4711", note: "auth=nosuch (not configured)"},
		{g: ruleGen{deny: "ip:6.6.6.6"}, authName: "staff", remote: "1.1.1.1:1", xff: []string{"8.8.8.8, 6.6.6.6"}, note: "auth=staff, deny rule, X-Forwarded-For lists the denied address"},
		{g: ruleGen{allow: "ip:10.0.0.0/8"}, remote: "8.8.8.8:53", note: "allow rule, peer outside, no auth option"},
		{g: ruleGen{allow: "ip:10.0.0.0/8"}, authName: "vault", remote: "10.1.2.3:99", note: "auth=vault, allow rule, peer inside"},
	}
	type hset struct {
		origin, method, headers bool
	}
	for _, m := range []string{"OPTIONS", "GET", "POST", "options"} {
		for _, hsx := range []hset{{true, true, false}, {true, true, true}, {true, false, false}, {false, true, false}, {false, false, false}} {
			for ci := 0; ci < 3; ci++ {
				for ri, rt := range routes {
					for _, redirect := range []int{0, 302} {
						if redirect != 0 && !(hsx.origin && hsx.method && !hsx.headers) {
							continue
						}
						if (m == "POST" || m == "options") && !(hsx.origin && hsx.method) {
							continue
						}
						in := gateIn{g: rt.g, kind: "preflight-grid", hdr: http.Header{}, method: m, remote: rt.remote, authName: rt.authName, xff: rt.xff, redirect: redirect,
							note: fmt.Sprintf("%s; Origin=%v Access-Control-Request-Method=%v Access-Control-Request-Headers=%v", rt.note, hsx.origin, hsx.method, hsx.headers)}
						for _, v := range rt.xff {
							in.hdr.Add("X-Forwarded-For", v)
						}
						preflight(in.hdr, hsx.origin, hsx.method, hsx.headers)
						switch ci {
						case 0:
							in.credNote = "no Authorization field"
						case 1:
							in.hdr.Add("Authorization", basicHeader(wrong.user, wrong.pw))
							in.credUser, in.credNote = &wrong, "wrong password"
						default:
							u := alice
							if rt.authName == "vault" {
								u = users(scs[1])[0]
							}
							in.hdr.Add("Authorization", basicHeader(u.user, u.pw))
							in.credUser, in.credNote = &u, "right pair"
						}
						_ = ri
						add(in)
					}
				}
			}
		}
	}
}
