package main

import (
	"fmt"
	"io"
	"net"
	"net/http"
	"net/http/httptest"
	"net/http/httputil"
	"net/url"
	"regexp"
	"strings"

	fgzip "github.com/fabiolb/fabio/proxy/gzip"
)

func get(h http.Handler, method, ae string) string {
	srv := httptest.NewServer(h)
	defer srv.Close()
	req, _ := http.NewRequest(method, srv.URL+"/", nil)
	if ae != "" {
		req.Header.Set("Accept-Encoding", ae)
	}
	cl := &http.Client{Transport: &http.Transport{DisableCompression: true}}
	resp, err := cl.Do(req)
	if err != nil {
		return "ERR " + err.Error()
	}
	defer resp.Body.Close()
	b, rerr := io.ReadAll(resp.Body)
	return fmt.Sprintf("status=%d CT=%q CE=%q CL=%q TE=%v Vary=%q len=%d readerr=%v", resp.StatusCode, resp.Header.Values("Content-Type"), resp.Header.Values("Content-Encoding"), resp.Header.Get("Content-Length"), resp.TransferEncoding, resp.Header.Values("Vary"), len(b), rerr)
}

func both(name string, inner http.Handler, re string, method string) {
	fmt.Println("==", name)
	fmt.Println("  bare :", get(inner, method, "gzip"))
	fmt.Println("  gzip :", get(fgzip.NewGzipHandler(inner, regexp.MustCompile(re)), method, "gzip"))
}

func main() {
	both("E1 CE br, no CT, implicit", http.HandlerFunc(func(w http.ResponseWriter, r *http.Request) {
		w.Header().Set("Content-Encoding", "br")
		w.Write([]byte("\x1b\x03\x00\xf8\x25hello brotli-ish"))
	}), `^text/`, "GET")
	both("E2 no CT, first chunk '<'", http.HandlerFunc(func(w http.ResponseWriter, r *http.Request) {
		w.Write([]byte("<"))
		w.Write([]byte("html><body>hi</body></html>"))
	}), `^image/`, "GET")
	both("E2b no CT, first chunk '<', matching text/", http.HandlerFunc(func(w http.ResponseWriter, r *http.Request) {
		w.Write([]byte("<"))
		w.Write([]byte("html><body>hi</body></html>"))
	}), `^text/plain`, "GET")
	both("E2c no CT, TE identity?", http.HandlerFunc(func(w http.ResponseWriter, r *http.Request) {
		w.Write([]byte{})
		w.Write([]byte("<html><body>hi</body></html>"))
	}), `^image/`, "GET")
	// E3: backend sends two Content-Encoding lines, first empty
	ln, _ := net.Listen("tcp", "127.0.0.1:0")
	go func() {
		for {
			c, err := ln.Accept()
			if err != nil {
				return
			}
			go func(c net.Conn) {
				buf := make([]byte, 4096)
				c.Read(buf)
				body := "BROTLI-BYTES-BROTLI-BYTES"
				fmt.Fprintf(c, "HTTP/1.1 200 OK\r\nContent-Type: text/html\r\nContent-Encoding: \r\nContent-Encoding: br\r\nContent-Length: %d\r\nConnection: close\r\n\r\n%s", len(body), body)
				c.Close()
			}(c)
		}
	}()
	u, _ := url.Parse("http://" + ln.Addr().String())
	rp := &httputil.ReverseProxy{Director: func(r *http.Request) { r.URL.Scheme, r.URL.Host = u.Scheme, u.Host }}
	both("E3 CE ['', 'br'] through ReverseProxy", rp, `^text/`, "GET")
	// E4: backend dies mid-body
	ln2, _ := net.Listen("tcp", "127.0.0.1:0")
	go func() {
		for {
			c, err := ln2.Accept()
			if err != nil {
				return
			}
			go func(c net.Conn) {
				buf := make([]byte, 4096)
				c.Read(buf)
				fmt.Fprintf(c, "HTTP/1.1 200 OK\r\nContent-Type: text/html\r\nContent-Length: 100000\r\n\r\n%s", strings.Repeat("<p>row</p>", 500))
				c.Close()
			}(c)
		}
	}()
	u2, _ := url.Parse("http://" + ln2.Addr().String())
	rp2 := &httputil.ReverseProxy{Director: func(r *http.Request) { r.URL.Scheme, r.URL.Host = u2.Scheme, u2.Host }}
	both("E4 backend dies mid-body through ReverseProxy", rp2, `^text/`, "GET")
	for _, code := range []int{204, 304} {
		c := code
		both(fmt.Sprintf("E5 %d with matching type", c), http.HandlerFunc(func(w http.ResponseWriter, r *http.Request) {
			w.Header().Set("Content-Type", "text/html")
			w.Header().Set("Etag", "\"x\"")
			w.WriteHeader(c)
		}), `^text/`, "GET")
	}
	both("E5 HEAD", http.HandlerFunc(func(w http.ResponseWriter, r *http.Request) {
		w.Header().Set("Content-Type", "text/html")
		w.Write([]byte(strings.Repeat("<p>row</p>", 50)))
	}), `^text/`, "HEAD")
	both("E5 HEAD explicit CL", http.HandlerFunc(func(w http.ResponseWriter, r *http.Request) {
		w.Header().Set("Content-Type", "text/html")
		w.Header().Set("Content-Length", "500")
		w.WriteHeader(200)
	}), `^text/`, "HEAD")
}
