// Correspondence harness for C07 (HTTP pass-through): runs the real
// proxy.HTTPProxy.ServeHTTP of /repo on requests parsed by net/http from raw
// bytes, with a recording http.RoundTripper (and, for a sample, a real
// loopback listener pair with fabio's own transport), and net/url itself on
// generated paths; writes the cases for the Coq model to judge.
package main

import (
	"bufio"
	"bytes"
	"compress/gzip"
	"context"
	"crypto/sha256"
	"crypto/tls"
	"encoding/pem"
	"errors"
	"fmt"
	"io"
	"math/rand"
	"net"
	"net/http"
	"net/http/httptest"
	"net/url"
	"os"
	"path/filepath"
	"sort"
	"strconv"
	"strings"
	"sync"
	"time"

	"github.com/fabiolb/fabio/config"
	"github.com/fabiolb/fabio/noroute"
	"github.com/fabiolb/fabio/proxy"
	"github.com/fabiolb/fabio/route"
	"github.com/fabiolb/fabio/transport"

	"verifharness/internal/vh"
)

const preamble = `From Coq Require Import List NArith ZArith String.
From Fabio Require Import Lib.Outcome Lib.Bytes Lib.Pack Model.UrlPathC07 Model.HttpFwd Model.NoRoutePage Check.C07.
Import ListNotations.
Local Open Scope N_scope.
`

var debug = os.Getenv("C07_DEBUG") != ""

// ---------- data ----------
type hdr struct{ K, V string }

type reqT struct {
	Method  string
	Target  string // raw request target as on the wire
	Proto   string
	Host    string // "" = no Host line (HTTP/1.0 only)
	Hdrs    []hdr  // wire order, names as sent
	Body    []byte
	Chunked bool
}

type optsT struct {
	Strip, Prepend, HostOpt string
	TScheme, THost, TQuery  string
}

type respT struct {
	Status int
	Hdrs   []hdr
	Body   []byte
}

type upObs struct {
	Method, Target, Host string
	Path, RawPath        string
	Hdrs                 []hdr
	Body                 []byte
}

func (q *reqT) wire(r *rand.Rand) []byte {
	var b bytes.Buffer
	fmt.Fprintf(&b, "%s %s %s\r\n", q.Method, q.Target, q.Proto)
	if q.Host != "" {
		fmt.Fprintf(&b, "Host: %s\r\n", q.Host)
	}
	for _, h := range q.Hdrs {
		fmt.Fprintf(&b, "%s: %s\r\n", h.K, h.V)
	}
	switch {
	case q.Chunked:
		b.WriteString("Transfer-Encoding: chunked\r\n\r\n")
		rest := q.Body
		for len(rest) > 0 {
			n := 1 + r.Intn(len(rest))
			if n > 9000 && r.Intn(2) == 0 {
				n = 1 + r.Intn(9000)
			}
			fmt.Fprintf(&b, "%x\r\n", n)
			b.Write(rest[:n])
			b.WriteString("\r\n")
			rest = rest[n:]
		}
		b.WriteString("0\r\n\r\n")
	case len(q.Body) > 0 || q.Method == "POST" || q.Method == "PUT":
		fmt.Fprintf(&b, "Content-Length: %d\r\n\r\n", len(q.Body))
		b.Write(q.Body)
	default:
		b.WriteString("\r\n")
	}
	return b.Bytes()
}

func flatten(h http.Header) []hdr {
	ks := make([]string, 0, len(h))
	for k := range h {
		ks = append(ks, k)
	}
	sort.Strings(ks)
	var out []hdr
	for _, k := range ks {
		for _, v := range h[k] {
			out = append(out, hdr{k, v})
		}
	}
	return out
}

// bodyRepr: short bodies literally, long ones as "sha256:<digest>:<len>"
// (the model treats the body as an opaque byte string: what must come out is
// what went in).
func bodyRepr(b []byte) []byte {
	if len(b) <= 40 {
		return b
	}
	s := sha256.Sum256(b)
	return []byte(fmt.Sprintf("sha256:%x:%d", s[:16], len(b)))
}

// ---------- Coq rendering ----------
func coqHdrs(hs []hdr) string {
	items := make([]string, len(hs))
	for i, h := range hs {
		items[i] = vh.Pair(vh.HxS(h.K), vh.HxS(h.V))
	}
	return vh.List(items)
}

func coqReq(q *reqT, host string, parsed []hdr) string {
	return fmt.Sprintf("{| rq_method := %s; rq_target := %s; rq_host := %s; rq_headers := %s; rq_body := %s |}",
		vh.HxS(q.Method), vh.HxS(q.Target), vh.HxS(host), coqHdrs(parsed), vh.Hx(bodyRepr(q.Body)))
}

func coqOpts(o *optsT) string {
	return fmt.Sprintf("{| ro_strip := %s; ro_prepend := %s; ro_host := %s; ro_thost := %s; ro_tquery := %s |}",
		vh.HxS(o.Strip), vh.HxS(o.Prepend), vh.HxS(o.HostOpt), vh.HxS(o.THost), vh.HxS(o.TQuery))
}

func coqResp(status int, hs []hdr, body []byte) string {
	return fmt.Sprintf("{| rs_status := %s; rs_headers := %s; rs_body := %s |}", vh.Z(int64(status)), coqHdrs(hs), vh.Hx(bodyRepr(body)))
}

func coqUp(u *upObs) string {
	if u == nil {
		return vh.None
	}
	return vh.Some(fmt.Sprintf("{| up_method := %s; up_target := %s; up_host := %s; up_headers := %s; up_body := %s |}",
		vh.HxS(u.Method), vh.HxS(u.Target), vh.HxS(u.Host), coqHdrs(u.Hdrs), vh.Hx(bodyRepr(u.Body))))
}

// ---------- the recording transport ----------
type recRT struct {
	got   *upObs
	calls int
	resp  *respT
	err   error // non-nil: the round trip fails with it
}

func (t *recRT) RoundTrip(r *http.Request) (*http.Response, error) {
	t.calls++
	o := &upObs{Method: r.Method, Target: r.URL.RequestURI(), Path: r.URL.Path, RawPath: r.URL.RawPath, Host: r.Host, Hdrs: flatten(r.Header)}
	if o.Host == "" {
		o.Host = r.URL.Host // what net/http's Request.write does
	}
	if r.Body != nil {
		o.Body, _ = io.ReadAll(r.Body)
	}
	t.got = o
	if t.err != nil {
		return nil, t.err
	}
	h := http.Header{}
	for _, kv := range t.resp.Hdrs {
		h.Add(kv.K, kv.V)
	}
	return &http.Response{StatusCode: t.resp.Status, Status: strconv.Itoa(t.resp.Status) + " X", Proto: "HTTP/1.1", ProtoMajor: 1, ProtoMinor: 1,
		Header: h, Body: io.NopCloser(bytes.NewReader(t.resp.Body)), ContentLength: int64(len(t.resp.Body)), Request: r}, nil
}

func mkTarget(o *optsT) *route.Target {
	raw := o.TScheme + "://" + o.THost + "/"
	if o.TQuery != "" {
		raw += "?" + o.TQuery
	}
	u, err := url.Parse(raw)
	if err != nil {
		panic(err)
	}
	return &route.Target{Service: "svc", URL: u, StripPath: o.Strip, PrependPath: o.Prepend, Host: o.HostOpt,
		Opts: map[string]string{"strip": o.Strip, "prepend": o.Prepend, "host": o.HostOpt}}
}

// ---------- generators ----------
var methods = []string{"GET", "GET", "GET", "POST", "POST", "PUT", "DELETE", "PATCH", "HEAD", "OPTIONS", "PROPFIND", "FOO", "M-SEARCH", "get", "REPORT"}

var plainSegs = []string{"a", "foo", "strip", "api", "v1", "users", "x.y", "~u", "a-b_c", "42", "index.html", "strip2", "stripped"}
var encSegs = []string{"a%2Fb", "%2F", "%25", "x%20y", "%C3%A9", "a+b", "p;q=1", "a:b", "@me", "%2f", "%41bc", "%7Euser", "a%3Fb", "a%23b", "%3B", "100%25",
	"!$&'()*,=", "[x]", "%E2%82%AC", "%00", "%FF", "a%2Fb%2Fc", "%2E%2E", "a=b&c"}
var oddSegs = []string{"^", "\"q\"", "{x}", "a|b", "\\", "`", "<b>", "\xc3\xa9", "caf\xc3\xa9%2Fx", "a^b%2Fc", "\xff", "x%2Fy{z}"}
var dotSegs = []string{".", "..", "", "...", ".a"}

func pick(r *rand.Rand, l []string) string { return l[r.Intn(len(l))] }

func genSeg(r *rand.Rand) string {
	switch x := r.Intn(20); {
	case x < 9:
		return pick(r, plainSegs)
	case x < 15:
		return pick(r, encSegs)
	case x < 17:
		return pick(r, oddSegs)
	case x < 19:
		return pick(r, dotSegs)
	default:
		n := 1 + r.Intn(6)
		var b []byte
		for i := 0; i < n; i++ {
			c := byte(0x21 + r.Intn(0x7e-0x21))
			switch c {
			case '%', '?', '#', ' ':
				b = append(b, fmt.Sprintf("%%%02X", 0x20+r.Intn(0x60))...)
			default:
				b = append(b, c)
			}
		}
		return string(b)
	}
}

func genPath(r *rand.Rand) string {
	n := r.Intn(5)
	if n == 0 {
		return "/"
	}
	segs := make([]string, n)
	for i := range segs {
		segs[i] = genSeg(r)
	}
	p := "/" + strings.Join(segs, "/")
	if r.Intn(5) == 0 {
		p += "/"
	}
	if r.Intn(25) == 0 {
		p = "/" + p
	}
	return p
}

var queries = []string{"", "", "", "?", "?q=1", "?a=1&a=2", "?x=%2F&y=a+b", "?a;b", "?a=?b", "?&", "?%zz", "?q=caf%C3%A9", "?a=1&b=&c", "?redirect=http://x/y?z=1", "?=", "?a=b?"}

var e2eNames = []string{"Accept", "Accept-Language", "Content-Type", "Cookie", "Authorization", "X-Custom-A", "X-Request-Id", "x-lower-case", "X-UPPER-CASE",
	"If-None-Match", "Cache-Control", "Range", "Referer", "Origin", "X-Trace_Id", "X-Num-123", "Accept-Encoding", "x-b3-traceid", "ETag", "X-Forwarded-Custom", "Via", "Content-Language", "Pragma", "X-Api.Key", "Dnt"}
var hdrVals = []string{"1", "text/html", "a, b", "*/*", "application/json; charset=utf-8", "bytes=0-10", "k=v; k2=v2", "Bearer abc.def", "\"etag\"", "W/\"x\"",
	"gzip", "gzip, deflate, br", "identity", "no-cache", "http://example.com/a?b=c", "caf\xc3\xa9", "x  y", "0", "a=b", ",", "text/event-stream"}

func genVal(r *rand.Rand) string {
	if r.Intn(4) != 0 {
		return pick(r, hdrVals)
	}
	n := 1 + r.Intn(24)
	b := make([]byte, n)
	for i := range b {
		b[i] = byte(0x21 + r.Intn(0x7e-0x21))
	}
	return string(b)
}

type hopKind int

func genHeaders(r *rand.Rand, wire bool) []hdr {
	var hs []hdr
	n := r.Intn(9)
	for i := 0; i < n; i++ {
		k := pick(r, e2eNames)
		hs = append(hs, hdr{k, genVal(r)})
		if r.Intn(5) == 0 { // repeated header, possibly in another case
			k2 := k
			if r.Intn(2) == 0 {
				k2 = strings.ToLower(k)
			}
			hs = append(hs, hdr{k2, genVal(r)})
		}
	}
	// User-Agent: absent, present, empty, repeated
	switch r.Intn(8) {
	case 0, 1, 2:
		hs = append(hs, hdr{"User-Agent", "curl/8.0"})
	case 3:
		hs = append(hs, hdr{"user-agent", "Mozilla/5.0 (X11; Linux) Gecko"})
	case 4:
		if true {
			hs = append(hs, hdr{"User-Agent", ""})
		}
	case 5:
		if true {
			hs = append(hs, hdr{"User-Agent", "a/1"}, hdr{"User-Agent", "b/2"})
		}
	}
	// hop-by-hop
	if r.Intn(3) == 0 {
		switch r.Intn(11) {
		case 0:
			if true {
				hs = append(hs, hdr{"Connection", "close"})
			}
		case 1:
			hs = append(hs, hdr{"Connection", "keep-alive"}, hdr{"Keep-Alive", "timeout=5"})
		case 2:
			hs = append(hs, hdr{"Connection", "X-Custom-A, x-request-id"}, hdr{"X-Custom-A", "listed"}, hdr{"X-Request-Id", "listed"})
		case 3:
			hs = append(hs, hdr{"Proxy-Authorization", "Basic Zm9v"})
		case 4:
			hs = append(hs, hdr{"Te", "trailers"})
		case 5:
			hs = append(hs, hdr{"TE", "gzip, Trailers"}, hdr{"Connection", "TE"})
		case 6:
			hs = append(hs, hdr{"Te", "gzip"})
		case 7:
			hs = append(hs, hdr{"Proxy-Connection", "keep-alive"})
		case 8:
			hs = append(hs, hdr{"Connection", " cookie ,,\tAccept"}, hdr{"Connection", "user-agent"})
		case 9:
			if true {
				hs = append(hs, hdr{"Upgrade", pick(r, []string{"foo", "h2c", "WebSocket", "websocket2", "TLS/1.0"})}, hdr{"Connection", pick(r, []string{"upgrade", "Upgrade", "keep-alive, Upgrade", "close"})})
			}
		case 10:
			if true {
				hs = append(hs, hdr{"Upgrade", "foo"}) // no Connection: upgrade -> not an upgrade request
			}
		}
	}
	if r.Intn(12) == 0 {
		hs = append(hs, hdr{"Accept", "text/event-stream"}) // SSE handler
	}
	r.Shuffle(len(hs), func(i, j int) { hs[i], hs[j] = hs[j], hs[i] })
	return hs
}

var respNames = []string{"Content-Type", "Set-Cookie", "Cache-Control", "ETag", "X-Upstream", "Location", "Vary", "Content-Encoding", "X-Frame-Options", "Server", "Last-Modified", "Content-Language", "Www-Authenticate", "X-Powered-By"}

func genResp(r *rand.Rand, method string, wire bool) *respT {
	rs := &respT{Status: []int{200, 200, 200, 201, 202, 204, 206, 301, 302, 304, 400, 401, 403, 404, 410, 418, 429, 500, 502, 503, 299, 599, 451}[r.Intn(23)]}
	n := r.Intn(6)
	for i := 0; i < n; i++ {
		k := pick(r, respNames)
		if k == "Content-Encoding" {
			rs.Hdrs = append(rs.Hdrs, hdr{k, pick(r, []string{"identity", "br", "x-custom"})})
			continue
		}
		rs.Hdrs = append(rs.Hdrs, hdr{k, genVal(r)})
		if k == "Set-Cookie" || r.Intn(6) == 0 {
			rs.Hdrs = append(rs.Hdrs, hdr{k, genVal(r)})
		}
	}
	if wire {
		rs.Hdrs = append(rs.Hdrs, hdr{"Content-Type", "application/x-test"})
	}
	gz := wire && r.Intn(4) == 0
	if r.Intn(4) == 0 {
		switch r.Intn(5) {
		case 0:
			rs.Hdrs = append(rs.Hdrs, hdr{"Connection", "close"})
		case 1:
			rs.Hdrs = append(rs.Hdrs, hdr{"Connection", "X-Upstream, keep-alive"}, hdr{"Keep-Alive", "timeout=3"}, hdr{"X-Upstream", "listed"})
		case 2:
			rs.Hdrs = append(rs.Hdrs, hdr{"Proxy-Authenticate", "Basic"})
		case 3:
			rs.Hdrs = append(rs.Hdrs, hdr{"Upgrade", "h2c"})
		case 4:
			rs.Hdrs = append(rs.Hdrs, hdr{"Te", "x"}, hdr{"Proxy-Connection", "x"})
		}
	}
	if method != "HEAD" && rs.Status != 204 && rs.Status != 304 {
		rs.Body = genBody(r)
		if gz && len(rs.Body) > 0 {
			// a really compressed reply: must reach the client compressed, byte for byte, with its
			// Content-Encoding (a transport that negotiated gzip on its own would unpack it)
			var keep []hdr
			for _, kv := range rs.Hdrs {
				if kv.K != "Content-Encoding" {
					keep = append(keep, kv)
				}
			}
			rs.Hdrs = append(keep, hdr{"Content-Encoding", "gzip"})
			var zb bytes.Buffer
			zw := gzip.NewWriter(&zb)
			zw.Write(bytes.Repeat(rs.Body[:min(len(rs.Body), 200)], 1+len(rs.Body)/200))
			zw.Close()
			rs.Body = zb.Bytes()
		}
	}
	return rs
}

func genBody(r *rand.Rand) []byte {
	var n int
	switch r.Intn(10) {
	case 0, 1, 2:
		n = 0
	case 3, 4, 5:
		n = 1 + r.Intn(40)
	case 6, 7:
		n = 41 + r.Intn(4000)
	case 8:
		n = []int{4095, 4096, 4097, 32768, 32769, 65536}[r.Intn(6)]
	default:
		n = r.Intn(65537)
	}
	b := make([]byte, n)
	r.Read(b)
	return b
}

func originPart(target string) string {
	if rest, ok := strings.CutPrefix(target, "http://"); ok {
		if i := strings.IndexAny(rest, "/?"); i >= 0 {
			return rest[i:]
		}
		return ""
	}
	return target
}

func decodedPath(target string) string {
	p, _, _ := strings.Cut(originPart(target), "?")
	d, err := url.PathUnescape(p)
	if err != nil {
		return p
	}
	return d
}

func genOpts(r *rand.Rand, target string) *optsT {
	o := &optsT{TScheme: "http", THost: pick(r, []string{"10.0.0.7:8080", "upstream.internal:9000", "127.0.0.1:5000", "backend"})}
	dp := decodedPath(target)
	if r.Intn(2) == 0 {
		switch r.Intn(9) {
		case 0, 1, 2: // a prefix of the decoded path at a segment boundary
			idx := []int{}
			for i := 1; i < len(dp); i++ {
				if dp[i] == '/' {
					idx = append(idx, i)
				}
			}
			if len(idx) > 0 {
				o.Strip = dp[:idx[r.Intn(len(idx))]]
			} else {
				o.Strip = dp
			}
		case 3: // a prefix that ends inside a segment
			if len(dp) > 2 {
				o.Strip = dp[:2+r.Intn(len(dp)-2)]
			}
		case 4: // the whole path
			o.Strip = dp
		case 5: // with the trailing slash
			if i := strings.Index(dp[1:], "/"); i >= 0 {
				o.Strip = dp[:i+2]
			} else {
				o.Strip = "/"
			}
		case 6: // not a prefix
			o.Strip = pick(r, []string{"/strip", "/other", "strip", "/a/b/c/d/e/f", "/A", "/Foo", "/API", "/Users", "/V1", strings.ToUpper(dp)})
		case 7: // prefix of the RAW path (still encoded): matches only if nothing was decoded
			p, _, _ := strings.Cut(originPart(target), "?")
			if len(p) > 1 {
				o.Strip = p[:1+r.Intn(len(p))]
			}
		case 8:
			o.Strip = "/"
		}
	}
	if strings.ContainsFunc(o.Strip, func(c rune) bool { return c < 0x20 || c == 0x7f }) {
		// a strip option with a control byte makes X-Forwarded-Prefix unsendable (a config
		// oddity, not a client input): keep it out of the generated configurations
		o.Strip = ""
	}
	if r.Intn(5) < 2 {
		o.Prepend = pick(r, []string{"/pre", "pre", "/pre/", "/p%20q", "/caf\xc3\xa9", "/a b", "/v2/api", "/", "x", "/q?r", "/a%2Fb", "/^"})
	}
	switch r.Intn(6) {
	case 0:
		o.HostOpt = "dst"
	case 1:
		o.HostOpt = pick(r, []string{"other.example.com", "h:8080", "DST", "dst.example.org"})
	}
	if r.Intn(3) == 0 {
		o.TQuery = pick(r, []string{"tq=1", "a=1&b=2", "x", "a=%20;b", "token=s3cr3t&", "t=?"})
	}
	return o
}

func genReq(r *rand.Rand, wire bool) *reqT {
	q := &reqT{Method: pick(r, methods), Proto: "HTTP/1.1", Host: pick(r, []string{"example.com", "example.com:8080", "www.Example.COM", "10.1.2.3", "[::1]:9999", "a.b.c.d.example.org"})}
	q.Target = genPath(r) + pick(r, queries)
	q.Hdrs = genHeaders(r, wire)
	if q.Method != "GET" && q.Method != "HEAD" || r.Intn(6) == 0 {
		q.Body = genBody(r)
		q.Chunked = r.Intn(3) == 0
	}
	if r.Intn(25) == 0 { // absolute-form request target
		q.Target = "http://" + pick(r, []string{"example.com", "abs.example.org:8080", "10.9.8.7"}) + q.Target
	}
	if len(q.Body) > 0 && r.Intn(12) == 0 {
		q.Hdrs = append(q.Hdrs, hdr{"Expect", "100-continue"})
	}
	if r.Intn(30) == 0 {
		q.Proto = "HTTP/1.0"
		q.Chunked = false
		if r.Intn(2) == 0 {
			q.Host = ""
		}
	}
	return q
}

// ---------- running the implementation (recorder mode) ----------
type result struct {
	parsed      []hdr // the request header as net/http parsed it (what ServeHTTP is given)
	host        string
	up          *upObs
	calls       int
	code        int
	clientHdrs  []hdr
	clientBody  []byte
	clientInfos []respT // informational responses the client saw before the final one (loopback only)
	panicked    bool
}

func parseReq(raw []byte) (*http.Request, error) {
	req, err := http.ReadRequest(bufio.NewReader(bytes.NewReader(raw)))
	if err != nil {
		return nil, err
	}
	req.RemoteAddr = "192.0.2.55:41234"
	return req, nil
}

const theUUID = "11111111-2222-3333-4444-555555555555"

func serve(raw []byte, lookup func(*http.Request) *route.Target, cfg config.Proxy, rs *respT, rtErr ...error) (*result, error) {
	req, err := parseReq(raw)
	if err != nil {
		return nil, err
	}
	res := &result{parsed: flatten(req.Header), host: req.Host}
	rt := &recRT{resp: rs}
	if len(rtErr) > 0 {
		rt.err = rtErr[0]
	}
	p := &proxy.HTTPProxy{Config: cfg, Transport: rt, Lookup: lookup, UUID: func() string { return theUUID }}
	w := httptest.NewRecorder()
	if pn, _ := vh.Recover(func() { p.ServeHTTP(w, req) }); pn {
		res.panicked = true
		return res, nil
	}
	res.up, res.calls = rt.got, rt.calls
	res.code = w.Code
	res.clientHdrs = flatten(w.Header())
	res.clientBody = w.Body.Bytes()
	return res, nil
}

// ---------- loopback mode: real listeners, fabio's own transport ----------
type loop struct {
	mu       sync.Mutex
	infos    []respT // informational (1xx) responses the upstream sends before the final one
	resp     *respT
	got      *upObs
	calls    int
	upLn     net.Listener
	fabLn    net.Listener
	tgt      *route.Target
	chunkRng *rand.Rand
	px       *proxy.HTTPProxy
	retries  int
}

// newLoop starts the loopback pair.  withTLS: the upstream is an HTTPS server (httptest's
// certificate, valid for 127.0.0.1 and example.com; made a trusted root for this process through
// SSL_CERT_FILE so that fabio's verifying transports accept it) and the proxy is wired exactly as
// main.go's newHTTPProxy wires it: Transport and InsecureTransport from transport.NewTransport,
// per-target transports from route.addTarget.
func newLoop(withTLS bool, certDir string) *loop {
	l := &loop{}
	var err error
	if l.upLn, err = net.Listen("tcp", "127.0.0.1:0"); err != nil {
		panic(err)
	}
	if l.fabLn, err = net.Listen("tcp", "127.0.0.1:0"); err != nil {
		panic(err)
	}
	up := &http.Server{Handler: http.HandlerFunc(func(w http.ResponseWriter, r *http.Request) {
		body, _ := io.ReadAll(r.Body)
		l.mu.Lock()
		l.calls++
		l.got = &upObs{Method: r.Method, Target: r.RequestURI, Host: r.Host, Hdrs: flatten(r.Header), Body: body}
		rs := l.resp
		infos := l.infos
		l.mu.Unlock()
		if up := r.Header.Get("Upgrade"); up == "websocket" || up == "Websocket" {
			// complete the handshake and end the tunnel: only the first bytes the upstream was sent matter here
			if hj, ok := w.(http.Hijacker); ok {
				if c, _, err := hj.Hijack(); err == nil {
					io.WriteString(c, "HTTP/1.1 101 Switching Protocols\r\nUpgrade: websocket\r\nConnection: Upgrade\r\n\r\n")
					c.Close()
				}
			}
			return
		}
		for _, in := range infos { // e.g. 103 Early Hints with Link headers, then the final response
			for _, kv := range in.Hdrs {
				w.Header().Add(kv.K, kv.V)
			}
			w.WriteHeader(in.Status)
			for _, kv := range in.Hdrs {
				w.Header().Del(kv.K)
			}
		}
		for _, kv := range rs.Hdrs {
			w.Header().Add(kv.K, kv.V)
		}
		rest := rs.Body
		if len(rest) > 0 && l.chunkRng.Intn(2) == 0 {
			w.Header().Set("Content-Length", strconv.Itoa(len(rest)))
		}
		w.WriteHeader(rs.Status)
		for len(rest) > 0 {
			n := 1 + l.chunkRng.Intn(len(rest))
			w.Write(rest[:n])
			if f, ok := w.(http.Flusher); ok && l.chunkRng.Intn(2) == 0 {
				f.Flush()
			}
			rest = rest[n:]
		}
	})}
	if withTLS {
		ts := httptest.NewUnstartedServer(up.Handler)
		ts.Listener.Close()
		ts.Listener = l.upLn
		ts.StartTLS()
		pemBytes := pem.EncodeToMemory(&pem.Block{Type: "CERTIFICATE", Bytes: ts.Certificate().Raw})
		cf := filepath.Join(certDir, "c07-upstream-root.pem")
		if err := os.WriteFile(cf, pemBytes, 0o644); err != nil {
			panic(err)
		}
		os.Setenv("SSL_CERT_FILE", cf) // read once, at the first verification in this process
		os.Setenv("SSL_CERT_DIR", certDir)
	} else {
		go up.Serve(l.upLn)
	}
	// main.go:232-233
	l.px = &proxy.HTTPProxy{Transport: transport.NewTransport(nil), InsecureTransport: transport.NewTransport(&tls.Config{InsecureSkipVerify: true}),
		Lookup: func(*http.Request) *route.Target {
			l.mu.Lock()
			defer l.mu.Unlock()
			return l.tgt
		}}
	go (&http.Server{Handler: l.px}).Serve(l.fabLn)
	return l
}

// tableTarget lets fabio's own route code (route.NewTable -> addTarget) build the target, so that
// the per-target transport is the one the product builds.
func tableTarget(scheme, addr, tquery string, opts map[string]string) (*route.Target, string, error) {
	var kv []string
	for _, k := range []string{"strip", "prepend", "host", "tlsskipverify", "proto", "allow", "deny", "auth", "redirect"} {
		if v := opts[k]; v != "" {
			kv = append(kv, k+"="+v)
		}
	}
	u := scheme + "://" + addr + "/"
	if tquery != "" {
		u += "?" + tquery
	}
	text := "route add svc / " + u
	if len(kv) > 0 {
		text += " opts \"" + strings.Join(kv, " ") + "\""
	}
	tbl, err := route.NewTable(bytes.NewBufferString(text))
	if err != nil {
		return nil, text, err
	}
	for _, rs := range tbl {
		for _, rt := range rs {
			if len(rt.Targets) > 0 {
				return rt.Targets[0], text, nil
			}
		}
	}
	return nil, text, fmt.Errorf("no target")
}

func gzipReply(rs *respT) {
	if len(rs.Body) == 0 {
		return
	}
	var keep []hdr
	for _, kv := range rs.Hdrs {
		if kv.K != "Content-Encoding" {
			keep = append(keep, kv)
		}
	}
	rs.Hdrs = append(keep, hdr{"Content-Encoding", "gzip"})
	var zb bytes.Buffer
	zw := gzip.NewWriter(&zb)
	zw.Write(bytes.Repeat(rs.Body[:min(len(rs.Body), 200)], 1+len(rs.Body)/200))
	zw.Close()
	rs.Body = zb.Bytes()
}

// roundTrip sends the request once more when no well-formed response came back: a failure that is
// a property of the code repeats itself, a hiccup of the (heavily shared) test machine does not.
// Retries are counted in the evidence notes.
func (l *loop) roundTrip(raw []byte, tgt *route.Target, rs *respT, method string, infos ...respT) (*result, error) {
	res, err := l.roundTripOnce(raw, tgt, rs, method, infos...)
	if err != nil {
		l.retries++
		time.Sleep(50 * time.Millisecond)
		res, err = l.roundTripOnce(raw, tgt, rs, method, infos...)
	}
	return res, err
}

func (l *loop) roundTripOnce(raw []byte, tgt *route.Target, rs *respT, method string, infos ...respT) (*result, error) {
	l.mu.Lock()
	l.resp, l.got, l.calls, l.tgt, l.infos = rs, nil, 0, tgt, infos
	l.mu.Unlock()
	c, err := net.Dial("tcp", l.fabLn.Addr().String())
	if err != nil {
		return nil, err
	}
	defer c.Close()
	c.SetDeadline(time.Now().Add(20 * time.Second))
	go c.Write(raw)
	br := bufio.NewReader(c)
	var seen []respT
	var resp *http.Response
	for {
		resp, err = http.ReadResponse(br, &http.Request{Method: method})
		if err != nil {
			return nil, err
		}
		if resp.StatusCode >= 100 && resp.StatusCode < 200 && resp.StatusCode != 101 && len(seen) < 8 {
			seen = append(seen, respT{Status: resp.StatusCode, Hdrs: flatten(resp.Header)})
			continue
		}
		break
	}
	body, err := io.ReadAll(resp.Body)
	if err != nil {
		return nil, err
	}
	l.mu.Lock()
	defer l.mu.Unlock()
	return &result{up: l.got, calls: l.calls, code: resp.StatusCode, clientHdrs: flatten(resp.Header), clientBody: body, clientInfos: seen}, nil
}

func sampleOf(q *reqT, o *optsT, res *result) map[string]interface{} {
	m := map[string]interface{}{"method": q.Method, "target": q.Target, "host": q.Host, "headers": len(q.Hdrs), "body_len": len(q.Body), "chunked": q.Chunked}
	if o != nil {
		m["strip"], m["prepend"], m["host_opt"], m["target_query"] = o.Strip, o.Prepend, o.HostOpt, o.TQuery
	}
	if res != nil && res.up != nil {
		m["upstream_target"], m["upstream_host"] = res.up.Target, res.up.Host
	}
	if res != nil {
		m["status"] = res.code
	}
	return m
}

func main() {
	run := vh.Start("C07")
	r := run.Rng

	// ---- 1. net/url itself against the model's transcription ----
	addUnesc := func(class, s string) {
		got, err := url.PathUnescape(s)
		impl := vh.Ok(vh.HxS(got))
		if err != nil {
			impl = vh.Err(1)
		}
		run.Add(class, vh.App("CUnesc", vh.HxS(s), impl), map[string]interface{}{"fn": "url.PathUnescape", "in": s, "out": got, "err": err != nil})
	}
	addParse := func(class, s string) {
		u, err := url.ParseRequestURI(s)
		impl := vh.Err(1)
		sm := map[string]interface{}{"fn": "url.ParseRequestURI", "in": s, "err": err != nil}
		abs := strings.HasPrefix(s, "http://") && strings.HasPrefix(originPart(s), "/")
		if err == nil {
			if !abs && (u.Scheme != "" || u.Opaque != "" || u.Host != "" || !strings.HasPrefix(s, "/")) {
				run.Exclude("request target neither in origin form nor in absolute form with a path")
				return
			}
			if abs && (u.Opaque != "" || u.User != nil) {
				run.Exclude("request target neither in origin form nor in absolute form with a path")
				return
			}
			impl = vh.Ok(fmt.Sprintf("(%s, %s, %s, %s, %s, %s)", vh.HxS(u.Path), vh.HxS(u.RawPath), vh.HxS(u.RawQuery), vh.Bool(u.ForceQuery), vh.HxS(u.EscapedPath()), vh.HxS(u.RequestURI())))
			sm["path"], sm["rawpath"], sm["request_uri"] = u.Path, u.RawPath, u.RequestURI()
		} else if !strings.HasPrefix(s, "/") && !abs {
			run.Exclude("request target neither in origin form nor in absolute form with a path")
			return
		}
		run.Add(class, vh.App("CParse", vh.HxS(s), impl), sm)
	}
	addEsc := func(class, path, rawpath, query string, force bool) {
		u := &url.URL{Scheme: "http", Host: "h:1", Path: path, RawPath: rawpath, RawQuery: query, ForceQuery: force}
		run.Add(class, vh.App("CEsc", vh.HxS(path), vh.HxS(rawpath), vh.HxS(query), vh.Bool(force), vh.HxS(u.EscapedPath()), vh.HxS(u.RequestURI()), vh.HxS(u.String())),
			map[string]interface{}{"fn": "URL.EscapedPath/RequestURI/String", "path": path, "rawpath": rawpath, "escaped": u.EscapedPath()})
	}
	for i := 0; i < run.Scale(250, 5000); i++ {
		p := genPath(r)
		addUnesc("url-unescape", p)
		addParse("url-parse", p+pick(r, queries))
		if r.Intn(6) == 0 {
			addParse("url-parse-absolute", "http://"+pick(r, []string{"example.com", "h:8080", "10.0.0.1", "[::1]:80", "a.b-c.d"})+genPath(r)+pick(r, queries))
		}
		d := decodedPath(p)
		switch r.Intn(4) {
		case 0:
			addEsc("url-escaped-path", d, p, pick(r, queries[3:])[1:], false)
		case 1:
			addEsc("url-escaped-path", d, "", "", r.Intn(2) == 0)
		case 2: // stale RawPath (what the director leaves behind after strip/prepend)
			addEsc("url-escaped-path-stale", "/pre"+d, p, "", false)
		case 3:
			addEsc("url-escaped-path-stale", d, genPath(r), "a=b", false)
		}
	}
	for _, s := range []string{"%", "%a", "%zz", "/%", "/a%2", "/a%2x", "/%g0", "/ok%41", "/a%", "/%%", "/%25%", "", "/", "//", "/a//b", "/./a/../b", "/*", "/a?b?c", "/a?", "/a??", "/?", "/?x?", "/a#frag", "/a%23b?x#y",
		"/a b", "/a\x7fb", "/a\x01", "/\xff\xfe", "/a;b,c", "/:", "/a:b/c", "/+", "/%2B", "/~", "/%7e", "/%7E", "/%C3%a9", "/[v6]", "/a^b", "/a^b%2Fc", "/{id}", "/a|b", "/a\\b", "/a`b", "/<>", "/\"x\""} {
		addUnesc("url-directed", s)
		if s != "" {
			addParse("url-directed", s)
		}
	}
	for i := 0; i < run.Scale(60, 1500); i++ { // random bytes, mostly printable, many '%'
		n := r.Intn(16)
		b := []byte{'/'}
		for k := 0; k < n; k++ {
			switch r.Intn(6) {
			case 0:
				b = append(b, '%')
			case 1:
				b = append(b, "0123456789abcdefABCDEFgG"[r.Intn(24)])
			case 2:
				b = append(b, byte(r.Intn(256)))
			default:
				b = append(b, byte(0x21+r.Intn(0x5e)))
			}
		}
		addUnesc("url-random", string(b))
		addParse("url-random", string(b))
	}

	// ---- 2. ServeHTTP with a recording transport ----
	// lookupOf, when set, supplies the Lookup function of the proxy (the real routing table);
	// otherwise the target is handed over directly
	var lookupOf func(o *optsT) func(*http.Request) *route.Target
	addFwd := func(class string, q *reqT, o *optsT, rs *respT) {
		raw := q.wire(r)
		tgt := mkTarget(o)
		lookup := func(*http.Request) *route.Target { return tgt }
		if lookupOf != nil {
			if lookup = lookupOf(o); lookup == nil {
				return
			}
		}
		res, err := serve(raw, lookup, config.Proxy{}, rs)
		if err != nil {
			run.Exclude("net/http rejects the request before fabio sees it")
			if debug {
				fmt.Fprintf(os.Stderr, "reject %q: %v\n", q.Target, err)
			}
			return
		}
		id := run.NextID()
		if res.panicked {
			run.Violation(id, "ServeHTTP panicked on a routed request", sampleOf(q, o, nil))
			return
		}
		if res.calls > 1 {
			run.Violation(id, "more than one upstream round trip for one request", sampleOf(q, o, res))
		}
		if debug {
			if res.up != nil {
				fmt.Fprintf(os.Stderr, "%s %q strip=%q prepend=%q -> %q path=%q raw=%q code=%d\n", q.Method, q.Target, o.Strip, o.Prepend, res.up.Target, res.up.Path, res.up.RawPath, res.code)
			}
		}
		run.Add(class, vh.App("CFwd", "false", coqOpts(o), coqReq(q, res.host, res.parsed), coqUp(res.up), coqResp(rs.Status, flattenList(rs.Hdrs), rs.Body), coqResp(res.code, res.clientHdrs, res.clientBody)),
			sampleOf(q, o, res))
	}
	nFwd := run.Scale(1300, 30000)
	for i := 0; i < nFwd; i++ {
		q := genReq(r, false)
		o := genOpts(r, q.Target)
		addFwd("forward", q, o, genResp(r, q.Method, false))
	}
	// the same through the REAL routing table (route.NewTable + Table.Lookup as main.go wires it):
	// what the lookup does to the request on its way is part of what the upstream receives.
	// Hosts in upper / mixed case, with the default port of the connection, another port, IPv6
	// literals; a host route and / or the catch-all; glob matching on and off.  Own random stream.
	{
		saved := r
		r = rand.New(rand.NewSource(run.Seed*7919 + 7))
		tblHosts := []string{"shop.example.com", "Shop.Example.COM", "SHOP.EXAMPLE.COM:80", "shop.example.com:80", "shop.example.com:8080",
			"shop.example.com:443", "Other.Example.ORG", "[::1]:80", "[2001:DB8::1]", "xn--Caf-dma.example", "shop.example.com."}
		gc := route.NewGlobCache(64)
		optOK := func(v string) bool {
			return !strings.ContainsAny(v, " \t\"\\") && !strings.ContainsFunc(v, func(c rune) bool { return c < 0x21 || c > 0x7e })
		}
		nTbl := run.Scale(220, 4000)
		for i := 0; i < nTbl; i++ {
			q := genReq(r, false)
			// origin-form targets only: with an absolute-form target net/http takes the host from the
			// request line, not from the Host header this class is about
			q.Target = originPart(q.Target)
			if q.Proto != "HTTP/1.0" || q.Host != "" {
				q.Host = tblHosts[r.Intn(len(tblHosts))]
			}
			o := genOpts(r, q.Target)
			if !optOK(o.Strip) || !optOK(o.Prepend) || !optOK(o.HostOpt) || !optOK(o.TQuery) {
				o.Strip, o.Prepend = "", ""
				if !optOK(o.HostOpt) {
					o.HostOpt = ""
				}
				if !optOK(o.TQuery) {
					o.TQuery = ""
				}
			}
			globOff := r.Intn(3) == 0
			hostRoute, catchAll := r.Intn(3) != 0, r.Intn(3) != 0
			if !hostRoute && !catchAll {
				catchAll = true
			}
			lookupOf = func(o *optsT) func(*http.Request) *route.Target {
				var kv []string
				for _, e := range [][2]string{{"strip", o.Strip}, {"prepend", o.Prepend}, {"host", o.HostOpt}} {
					if e[1] != "" {
						kv = append(kv, e[0]+"="+e[1])
					}
				}
				u := o.TScheme + "://" + o.THost + "/"
				if o.TQuery != "" {
					u += "?" + o.TQuery
				}
				opts := ""
				if len(kv) > 0 {
					opts = " opts \"" + strings.Join(kv, " ") + "\""
				}
				text := ""
				if hostRoute {
					text += "route add svc shop.example.com/ " + u + opts + "\nroute add svc other.example.org/ " + u + opts + "\n"
				}
				if catchAll {
					text += "route add svc / " + u + opts + "\n"
				}
				tbl, err := route.NewTable(bytes.NewBufferString(text))
				if err != nil {
					run.Exclude("route text of the through-table class rejected")
					return nil
				}
				return func(req *http.Request) *route.Target {
					return tbl.Lookup(req, "", route.Picker["rr"], route.Matcher["prefix"], gc, globOff)
				}
			}
			// a host the table does not know and no catch-all: the no-route answer, not this class's subject
			h := strings.ToLower(q.Host)
			known := strings.HasPrefix(h, "shop.example.com") && !strings.HasSuffix(h, ".") && !strings.HasSuffix(h, ":8080") && !strings.HasSuffix(h, ":443") || h == "other.example.org"
			if catchAll || (hostRoute && known) {
				addFwd("forward-through-table", q, o, genResp(r, q.Method, false))
			}
			lookupOf = nil
		}
		r = saved
	}
	// directed: every option combination on a fixed set of paths
	dirPaths := []string{"/strip/a%2Fb", "/strip/a/b", "/strip", "/strip/", "/stripped/x", "/strip%2Fa", "/a%2Fb/strip", "/", "/strip/%41", "/strip/a^b", "/str%69p/x", "/strip/x;y=1", "/strip//x", "/strip/../y", "/a^b%2Fc", "/caf\xc3\xa9"}
	for _, p := range dirPaths {
		for _, strip := range []string{"", "/strip", "/strip/", "/str", "/", p, "/a/b", "/Strip"} {
			for _, pre := range []string{"", "/pre", "pre", "/p q"} {
				for _, qs := range []string{"", "?", "?q=1"} {
					if strip == "" && pre != "" && qs != "" {
						continue
					}
					o := &optsT{Strip: strip, Prepend: pre, TScheme: "http", THost: "10.0.0.7:8080", TQuery: []string{"", "tq=1"}[r.Intn(2)], HostOpt: []string{"", "dst", "other"}[r.Intn(3)]}
					if strip == p {
						o.Strip = decodedPath(p)
					}
					q := &reqT{Method: "GET", Target: p + qs, Proto: "HTTP/1.1", Host: "example.com", Hdrs: []hdr{{"Accept", "*/*"}}}
					addFwd("forward-directed", q, o, &respT{Status: 200, Hdrs: []hdr{{"Content-Type", "text/plain"}}, Body: []byte("ok")})
				}
			}
		}
	}
	// host option x client host, query merge: all combinations
	for _, ho := range []string{"", "dst", "other.example.com", "Dst"} {
		for _, ch := range []string{"example.com", "example.com:8080", ""} {
			for _, tq := range []string{"", "tq=1", "a&b"} {
				for _, cq := range []string{"", "?", "?q=1", "?&"} {
					q := &reqT{Method: "GET", Target: "/x" + cq, Proto: "HTTP/1.1", Host: ch}
					if ch == "" {
						q.Proto = "HTTP/1.0"
					}
					addFwd("forward-host-query", q, &optsT{HostOpt: ho, TScheme: "http", THost: "10.0.0.7:8080", TQuery: tq}, &respT{Status: 204})
				}
			}
		}
	}

	// ---- 2b. a proxy configuration with a request-id header (set by fabio before routing) ----
	for i := 0; i < run.Scale(120, 1500); i++ {
		q := genReq(r, false)
		reqid := pick(r, []string{"X-Request-Id", "X-Request-Id", "X-Rid", "Etag"})
		if i%3 == 0 { // the client sends the header itself: it is overwritten by configuration
			q.Hdrs = append(q.Hdrs, hdr{strings.ToLower(reqid), "from-client"})
		}
		o := genOpts(r, q.Target)
		rs := genResp(r, q.Method, false)
		raw := q.wire(r)
		tgt := mkTarget(o)
		res, err := serve(raw, func(*http.Request) *route.Target { return tgt }, config.Proxy{RequestID: reqid}, rs)
		if err != nil {
			run.Exclude("net/http rejects the request before fabio sees it")
			continue
		}
		id := run.NextID()
		if res.panicked {
			run.Violation(id, "ServeHTTP panicked on a routed request", sampleOf(q, o, nil))
			continue
		}
		sm := sampleOf(q, o, res)
		sm["request_id_header"] = reqid
		run.Add("forward-requestid", vh.App("CFwdCfg", vh.HxS(reqid), vh.HxS(theUUID), coqOpts(o), coqReq(q, res.host, res.parsed), coqUp(res.up), coqResp(rs.Status, flattenList(rs.Hdrs), rs.Body), coqResp(res.code, res.clientHdrs, res.clientBody)), sm)
	}

	// ---- 2c. the other ways out of ServeHTTP: denied, not authorized, redirect (no round trip);
	//          failing round trips (status from the error) ----
	for i := 0; i < run.Scale(96, 1200); i++ {
		q := genReq(r, false)
		kind := 1 + i%8
		code := 0
		opts := map[string]string{"strip": pick(r, []string{"", "/strip"})}
		var rtErr []error
		switch kind {
		case 1:
			opts[pick(r, []string{"allow", "allow", "deny"})] = "ip:10.0.0.0/8"
			if _, ok := opts["deny"]; ok {
				opts["deny"] = "ip:192.0.2.0/24"
			}
		case 2:
			opts["auth"] = "no-such-scheme"
		case 3:
			code = []int{301, 302, 303, 307, 308}[r.Intn(5)]
			opts["redirect"] = strconv.Itoa(code)
		case 4:
			rtErr = []error{&net.OpError{Op: "dial", Net: "tcp", Err: errors.New("connection refused")}}
		case 5:
			rtErr = []error{os.ErrDeadlineExceeded}
		case 6:
			rtErr = []error{io.EOF}
		case 7:
			rtErr = []error{context.Canceled}
		case 8:
			rtErr = []error{errors.New("malformed HTTP response")}
		}
		tgt, text, err := tableTarget("http", "10.0.0.7:8080", "", opts)
		if err != nil {
			run.Violation(run.NextID(), "route text rejected: "+err.Error(), text)
			continue
		}
		res, err := serve(q.wire(r), func(req *http.Request) *route.Target {
			if kind == 3 {
				tgt.BuildRedirectURL(&url.URL{Scheme: "http", Host: req.Host, Path: req.URL.Path, RawQuery: req.URL.RawQuery})
			}
			return tgt
		}, config.Proxy{}, &respT{Status: 200, Body: []byte("never")}, rtErr...)
		if err != nil {
			run.Exclude("net/http rejects the request before fabio sees it")
			continue
		}
		id := run.NextID()
		if res.panicked {
			run.Violation(id, "ServeHTTP panicked", sampleOf(q, nil, nil))
			continue
		}
		sm := sampleOf(q, nil, res)
		sm["exit_kind"], sm["route"] = []string{"", "denied", "unauthorized", "redirect", "net error", "timeout", "EOF", "canceled", "other error"}[kind], text
		run.Add("serve-exit", vh.App("CExit", vh.N(kind), vh.Z(int64(code)), vh.Bool(res.calls > 0), vh.Z(int64(res.code))), sm)
	}

	// ---- 3. no route ----
	for i := 0; i < run.Scale(240, 4000); i++ {
		q := genReq(r, false)
		status := []int{0, 404, 503, 200, 99, 100, 999, 1000, -1, 418, 599, 302}[r.Intn(12)]
		// the page is configuration text written verbatim: bytes that mean something to a
		// formatter, a template engine or a C string must arrive as they are
		html := pick(r, []string{"", "", "<html>no route</html>", "x", strings.Repeat("<p>nothing here</p>\n", 50),
			"%", "%%", "%s", "%d", "%v%v", "100%", "<div style=\"width:100%;\">no route</div>", "<a href=\"/a%20b\">x</a>", "%!", "%!s(MISSING)", "50% off%",
			"a\x00b", "\x00", "caf\xc3\xa9 \xff\xfe", "line1\r\nline2\r\n\r\n", "{{.Path}} {{ \"x\" }}", "\\n \\x41 $1 ${HOME}",
			strings.Repeat("0123456789abcde%", 4096), strings.Repeat("%s", 20), "%[1]d %*d %#v %T %q %x %p %+v %c"})
		if i%12 == 0 {
			q.Method = []string{"GET", "HEAD", "POST"}[(i/12)%3]
			if q.Method == "POST" && len(q.Body) == 0 {
				q.Body = genBody(r)
			}
		}
		noroute.SetHTML(html)
		res, err := serve(q.wire(r), func(*http.Request) *route.Target { return nil }, config.Proxy{NoRouteStatus: status}, &respT{Status: 200})
		noroute.SetHTML("")
		if err != nil {
			run.Exclude("net/http rejects the request before fabio sees it")
			continue
		}
		id := run.NextID()
		if res.panicked {
			run.Violation(id, "ServeHTTP panicked on a request without route", sampleOf(q, nil, nil))
			continue
		}
		sm := sampleOf(q, nil, res)
		sm["noroute_status"], sm["html_len"] = status, len(html)
		run.Add("noroute", vh.App("CNoRoute", vh.Z(int64(status)), vh.Hx(bodyRepr([]byte(html))), vh.Bool(res.calls > 0), coqResp(res.code, res.clientHdrs, res.clientBody)), sm)
	}

	// ---- 4. loopback sample: real sockets, fabio's transport, what is on the wire ----
	lp := newLoop(false, run.Out)
	lp.chunkRng = rand.New(rand.NewSource(run.Seed + 7))
	for i := 0; i < run.Scale(160, 2500); i++ {
		q := genReq(r, true)
		if q.Method == "get" {
			q.Method = "GET"
		}
		o := genOpts(r, q.Target)
		o.THost = lp.upLn.Addr().String()
		rs := genResp(r, q.Method, true)
		if rs.Status == 304 { // net/http servers suppress Content-Type on 304 themselves
			var keep []hdr
			for _, kv := range rs.Hdrs {
				if kv.K != "Content-Type" {
					keep = append(keep, kv)
				}
			}
			rs.Hdrs = keep
		}
		raw := q.wire(r)
		pre, err := parseReq(raw)
		if err != nil {
			run.Exclude("net/http rejects the request before fabio sees it")
			continue
		}
		parsed, host := flatten(pre.Header), pre.Host
		res, err := lp.roundTrip(raw, mkTarget(o), rs, q.Method)
		id := run.NextID()
		if err != nil {
			run.Violation(id, "loopback: no well-formed response reached the client: "+err.Error(), sampleOf(q, o, nil))
			continue
		}
		if res.code == 400 && res.up == nil {
			run.Exclude("net/http server rejects the request before fabio sees it")
			continue
		}
		// the loopback upstream address differs from run to run: name it symbolically
		canon := func(s string) string { return strings.ReplaceAll(s, lp.upLn.Addr().String(), "upstream.test:80") }
		o2 := *o
		o2.THost = "upstream.test:80"
		if res.up != nil {
			res.up.Host = canon(res.up.Host)
			for k := range res.up.Hdrs {
				res.up.Hdrs[k].V = canon(res.up.Hdrs[k].V)
			}
		}
		sm := sampleOf(q, &o2, res)
		sm["wire"] = true
		sm["request_head"], sm["upstream_response"] = string(raw[:min(len(raw), 400)]), fmt.Sprintf("%d %v", rs.Status, rs.Hdrs)
		run.Add("forward-loopback", vh.App("CFwd", "true", coqOpts(&o2), coqReq(q, host, parsed), coqUp(res.up), coqResp(rs.Status, flattenList(rs.Hdrs), rs.Body), coqResp(res.code, res.clientHdrs, res.clientBody)), sm)
	}

	// ---- 5. loopback: informational (1xx) responses before the final one ----
	// the upstream answers 0-2 times with 103 Early Hints / 102 Processing (Link headers), then with
	// the final status; the client must see the same informational responses and the same final
	// status, headers and body (httputil.ReverseProxy forwards 1xx through the ResponseWriter
	// fabio wraps: every WriteHeader call must reach the client's connection)
	finals := []int{200, 201, 204, 301, 304, 404, 500, 503}
	for i := 0; i < run.Scale(96, 1200); i++ {
		q := genReq(r, true)
		q.Method = pick(r, []string{"GET", "GET", "POST", "PUT", "DELETE"})
		o := genOpts(r, q.Target)
		o.THost = lp.upLn.Addr().String()
		rs := genResp(r, q.Method, true)
		rs.Status = finals[(i/3)%len(finals)]
		if rs.Status == 204 || rs.Status == 304 {
			rs.Body = nil
		}
		if rs.Status == 304 {
			var keep []hdr
			for _, kv := range rs.Hdrs {
				if kv.K != "Content-Type" {
					keep = append(keep, kv)
				}
			}
			rs.Hdrs = keep
		}
		var infos []respT
		for k := 0; k < i%3; k++ {
			in := respT{Status: []int{103, 103, 102}[r.Intn(3)]}
			for n := 1 + r.Intn(2); n > 0; n-- {
				in.Hdrs = append(in.Hdrs, hdr{"Link", fmt.Sprintf("</style%d.css>; rel=preload; as=style", r.Intn(100))})
			}
			if r.Intn(3) == 0 {
				in.Hdrs = append(in.Hdrs, hdr{"X-Hint", genVal(r)})
			}
			infos = append(infos, in)
		}
		raw := q.wire(r)
		pre, err := parseReq(raw)
		if err != nil {
			run.Exclude("net/http rejects the request before fabio sees it")
			continue
		}
		parsed, host := flatten(pre.Header), pre.Host
		res, err := lp.roundTrip(raw, mkTarget(o), rs, q.Method, infos...)
		id := run.NextID()
		if err != nil {
			run.Violation(id, "loopback: no well-formed response reached the client: "+err.Error(), sampleOf(q, o, nil))
			continue
		}
		if res.code == 400 && res.up == nil {
			run.Exclude("net/http server rejects the request before fabio sees it")
			continue
		}
		canon := func(s string) string { return strings.ReplaceAll(s, lp.upLn.Addr().String(), "upstream.test:80") }
		o2 := *o
		o2.THost = "upstream.test:80"
		if res.up != nil {
			res.up.Host = canon(res.up.Host)
			for k := range res.up.Hdrs {
				res.up.Hdrs[k].V = canon(res.up.Hdrs[k].V)
			}
		}
		coqInfos := func(l []respT) string {
			items := make([]string, len(l))
			for k, in := range l {
				items[k] = coqResp(in.Status, flattenList(in.Hdrs), nil)
			}
			return vh.List(items)
		}
		sm := sampleOf(q, &o2, res)
		sm["wire"], sm["upstream_1xx"], sm["client_1xx"], sm["upstream_status"] = true, len(infos), len(res.clientInfos), rs.Status
		run.Add("forward-loopback-1xx", vh.App("CFwd1xx", coqOpts(&o2), coqReq(q, host, parsed), coqUp(res.up), coqInfos(infos), coqResp(rs.Status, flattenList(rs.Hdrs), rs.Body),
			coqInfos(res.clientInfos), coqResp(res.code, res.clientHdrs, res.clientBody)), sm)
	}
	// ---- 6. websocket upgrade: the request line the upstream connection is sent ----
	for i := 0; i < run.Scale(120, 1500); i++ {
		q := genReq(r, true)
		q.Method, q.Body, q.Chunked = "GET", nil, false
		p, qs, hasQ := strings.Cut(originPart(q.Target), "?")
		if i%2 == 0 {
			p = pick(r, []string{"/strip/a%2Fb", "/strip/%41", "/a%2Fb", "/str%69p/a%2Fb", "/strip%2Fx", "/ws/a%2Fb/c", "/strip/x%20y", "/a^b%2Fc", "/strip/!$&'()*,="})
		}
		q.Target = p
		if hasQ {
			q.Target += "?" + qs
		}
		var hs []hdr
		for _, kv := range q.Hdrs {
			switch strings.ToLower(kv.K) {
			case "connection", "upgrade", "te", "keep-alive", "proxy-connection":
			default:
				hs = append(hs, kv)
			}
		}
		q.Hdrs = append(hs, hdr{"Upgrade", pick(r, []string{"websocket", "websocket", "Websocket"})}, hdr{"Connection", "Upgrade"}, hdr{"Sec-WebSocket-Key", "dGhlIHNhbXBsZSBub25jZQ=="}, hdr{"Sec-WebSocket-Version", "13"})
		o := genOpts(r, q.Target)
		if i%2 == 0 {
			o.Strip = pick(r, []string{"", "/strip", "/strip", "/a", "/ws"})
			o.Prepend = pick(r, []string{"", "", "/pre", "pre", "/a b"})
		}
		o.THost = lp.upLn.Addr().String()
		raw := q.wire(r)
		pre, err := parseReq(raw)
		if err != nil {
			run.Exclude("net/http rejects the request before fabio sees it")
			continue
		}
		parsed, host := flatten(pre.Header), pre.Host
		res, err := lp.roundTrip(raw, mkTarget(o), &respT{Status: 200}, "GET")
		id := run.NextID()
		if err != nil {
			run.Violation(id, "loopback websocket: no well-formed response reached the client: "+err.Error(), sampleOf(q, o, nil))
			continue
		}
		if res.code == 400 && res.up == nil {
			run.Exclude("net/http server rejects the request before fabio sees it")
			continue
		}
		o2 := *o
		o2.THost = "upstream.test:80"
		upc := vh.None
		if res.up != nil {
			res.up.Host = strings.ReplaceAll(res.up.Host, lp.upLn.Addr().String(), "upstream.test:80")
			upc = vh.Some(fmt.Sprintf("(%s, %s, %s)", vh.HxS(res.up.Method), vh.HxS(res.up.Target), vh.HxS(res.up.Host)))
		}
		sm := sampleOf(q, &o2, res)
		sm["websocket"] = true
		run.Add("websocket-loopback", vh.App("CWs", coqOpts(&o2), coqReq(q, host, parsed), upc), sm)
	}
	// ---- 7. HTTPS upstream over real sockets: every transport fabio selects between ----
	// default (p.Transport), tlsskipverify=true (p.InsecureTransport), host=<name> on https (the
	// per-target transport route.addTarget builds); targets built by fabio's own route code.
	lt := newLoop(true, run.Out)
	lt.chunkRng = rand.New(rand.NewSource(run.Seed + 11))
	checkTr := func(which string, rt http.RoundTripper) {
		tr, ok := rt.(*http.Transport)
		if !ok || tr == nil {
			return
		}
		if !tr.DisableCompression {
			run.Violation(run.NextID(), "transport configuration: "+which+" negotiates compression on its own (DisableCompression not set): the upstream is sent an Accept-Encoding the client did not send and gzip replies are unpacked", map[string]interface{}{"transport": which})
		}
	}
	checkTr("HTTPProxy.Transport (main.go: transport.NewTransport(nil))", lt.px.Transport)
	checkTr("HTTPProxy.InsecureTransport (main.go: transport.NewTransport(InsecureSkipVerify))", lt.px.InsecureTransport)
	selections := []struct {
		name string
		opts map[string]string
	}{
		{"default", map[string]string{}},
		{"default-dst", map[string]string{"host": "dst"}},
		{"insecure", map[string]string{"tlsskipverify": "true"}},
		{"sni", map[string]string{"host": "example.com"}},
		{"sni-insecure", map[string]string{"host": "example.com", "tlsskipverify": "true"}},
		{"sni-other-name", map[string]string{"host": "other.example.org", "tlsskipverify": "true"}},
	}
	for i := 0; i < run.Scale(144, 1800); i++ {
		sel := selections[i%len(selections)]
		q := genReq(r, true)
		if q.Method == "get" {
			q.Method = "GET"
		}
		if (i/len(selections))%2 == 0 { // a client that names no encoding and no range
			var hs []hdr
			for _, kv := range q.Hdrs {
				if k := strings.ToLower(kv.K); k != "accept-encoding" && k != "range" {
					hs = append(hs, kv)
				}
			}
			q.Hdrs = hs
		} else if i%4 == 1 {
			q.Hdrs = append(q.Hdrs, hdr{"Accept-Encoding", pick(r, []string{"gzip", "br", "gzip, deflate", "identity"})})
		}
		opts := map[string]string{"strip": pick(r, []string{"", "", "/strip", "/api", "/a"}), "prepend": pick(r, []string{"", "", "/pre"})}
		for k, v := range sel.opts {
			opts[k] = v
		}
		tq := pick(r, []string{"", "", "tq=1"})
		tgt, text, err := tableTarget("https", lt.upLn.Addr().String(), tq, opts)
		if err != nil {
			run.Violation(run.NextID(), "route text rejected: "+err.Error(), text)
			continue
		}
		if tgt.Transport != nil {
			checkTr("Target.Transport (route.addTarget, opts "+sel.name+")", tgt.Transport)
		}
		o := &optsT{Strip: tgt.StripPath, Prepend: tgt.PrependPath, HostOpt: tgt.Host, TScheme: "https", THost: lt.upLn.Addr().String(), TQuery: tq}
		rs := genResp(r, q.Method, true)
		if rs.Status == 304 {
			var keep []hdr
			for _, kv := range rs.Hdrs {
				if kv.K != "Content-Type" {
					keep = append(keep, kv)
				}
			}
			rs.Hdrs = keep
		}
		if i%3 != 2 && q.Method != "HEAD" && rs.Status != 204 && rs.Status != 304 {
			if len(rs.Body) == 0 {
				rs.Body = []byte("0123456789abcdef0123456789abcdef")
			}
			gzipReply(rs)
		}
		raw := q.wire(r)
		pre, err := parseReq(raw)
		if err != nil {
			run.Exclude("net/http rejects the request before fabio sees it")
			continue
		}
		parsed, host := flatten(pre.Header), pre.Host
		res, err := lt.roundTrip(raw, tgt, rs, q.Method)
		id := run.NextID()
		if err != nil {
			run.Violation(id, "loopback (https upstream, "+sel.name+"): no well-formed response reached the client: "+err.Error(), sampleOf(q, o, nil))
			continue
		}
		if res.code == 400 && res.up == nil {
			run.Exclude("net/http server rejects the request before fabio sees it")
			continue
		}
		canon := func(s string) string { return strings.ReplaceAll(s, lt.upLn.Addr().String(), "upstream.test:80") }
		o2 := *o
		o2.THost = "upstream.test:80"
		if res.up != nil {
			res.up.Host = canon(res.up.Host)
			for k := range res.up.Hdrs {
				res.up.Hdrs[k].V = canon(res.up.Hdrs[k].V)
			}
		}
		sm := sampleOf(q, &o2, res)
		sm["wire"], sm["https_upstream"], sm["transport"], sm["route"] = true, true, sel.name, strings.ReplaceAll(text, lt.upLn.Addr().String(), "upstream.test:80")
		sm["upstream_body_len"], sm["client_body_len"] = len(rs.Body), len(res.clientBody)
		run.Add("forward-loopback-https-"+sel.name, vh.App("CFwd", "true", coqOpts(&o2), coqReq(q, host, parsed), coqUp(res.up), coqResp(rs.Status, flattenList(rs.Hdrs), rs.Body), coqResp(res.code, res.clientHdrs, res.clientBody)), sm)
	}
	run.Notes["loopback_retries"] = lp.retries + lt.retries

	// ---- 9. the no-route page configured at run time: real watchNoRouteHTML + newHTTPProxy (package main) ----
	repo := os.Getenv("VERIF_REPO")
	if repo == "" {
		repo = "/repo"
	}
	genNoRouteHistories(run, repo)
	os.Remove(filepath.Join(run.Out, "c07-upstream-root.pem"))
	run.Finish(preamble, run.Scale(130, 400))
}

// flattenList canonicalises a header list the way http.Header + flatten does
// (canonical names, sorted by name, value order kept per name).
func flattenList(hs []hdr) []hdr {
	h := http.Header{}
	for _, kv := range hs {
		h.Add(kv.K, kv.V)
	}
	return flatten(h)
}
