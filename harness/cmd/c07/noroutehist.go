package main

// Class noroute-history: the no-route page as it is configured at run time.  main.go's
// watchNoRouteHTML carries every value the registry backend delivers on its WatchNoRouteHTML
// channel into the noroute store the proxy reads per request.  The driver /repo/verif_c07_test.go
// (package main, built with `go test -tags verif -c`) runs the REAL watchNoRouteHTML against a
// scripted registry.Backend and serves requests through the proxy built by the REAL newHTTPProxy;
// the jobs are consecutive pieces of ONE history of that watcher (started once, as main() does): the
// page is set, replaced, delivered again unchanged, removed, set again, with requests that have no
// route in between; what a piece starts from is the page the registry delivered last before it
// (nothing = "" for the first piece: a fresh process).  Model: Model/NoRoutePage.v (nr_run); specification:
// every request receives the configured status and the last page delivered before it (empty after
// a removal), and the table's only upstream is never contacted.

import (
	"encoding/json"
	"fmt"
	"math/rand"
	"os"
	"os/exec"
	"path/filepath"
	"strings"

	"verifharness/internal/vh"
)

type nrStep struct {
	Kind                 int    // 0 delivery, 1 request
	Page                 []byte `json:",omitempty"`
	Method, Host, Target string `json:",omitempty"`
	Body                 []byte `json:",omitempty"`
}

type nrJob struct {
	Status int
	Wire   bool
	Steps  []nrStep
}

type nrObs struct {
	Status int
	Hdrs   [][2]string
	Body   []byte
	Hits   int
	Panic  string
}

type nrRes struct {
	Err     string
	History []nrStep
	Obs     []nrObs
}

var nrPages = []string{
	"<html>first page</html>", "<html>second page</html>", "x", "y", " ", "0", "<html>first page</html> ",
	"<p>no route</p>\n", "100%", "%s", "a\x00b", "caf\xc3\xa9 \xff\xfe", "line1\r\nline2\r\n\r\n", "{{.Path}}",
	"Unset", "<!-- removed -->", "<html>page A</html>", "<html>page B</html>", strings.Repeat("<p>nothing here</p>\n", 50), strings.Repeat("0123456789abcde%", 4096),
}

func nrShort(b []byte) string {
	if len(b) > 48 {
		return fmt.Sprintf("%q... (%d bytes)", b[:32], len(b))
	}
	return fmt.Sprintf("%q", b)
}

func genNoRouteHistories(run *vh.Run, repo string) {
	r := rand.New(rand.NewSource(run.Seed*104729 + 7))
	type jobT struct {
		class string
		j     nrJob
	}
	var jobs []jobT

	genReq := func(wire bool) nrStep {
		methods := []string{"GET", "GET", "GET", "POST", "PUT", "DELETE", "OPTIONS", "PATCH", "PURGE"}
		if !wire {
			methods = append(methods, "HEAD")
		}
		st := nrStep{Kind: 1, Method: methods[r.Intn(len(methods))]}
		st.Host = []string{"unknown.example.com", "other.test:8080", "Known.Example.ORG", "known.example.com.evil.test", "127.0.0.1:9999", "x"}[r.Intn(6)]
		st.Target = []string{"/", "/some/path", "/a%2Fb?x=1&y", "/known.example.com/", "/index.html?", "/caf%C3%A9", "//double", "/very/" + strings.Repeat("long/", 30)}[r.Intn(8)]
		if st.Method == "POST" || st.Method == "PUT" || st.Method == "PATCH" {
			st.Body = make([]byte, r.Intn(200))
			r.Read(st.Body)
		}
		return st
	}
	statuses := func(wire bool) int {
		if wire {
			// a final status with a body on a real connection
			return []int{0, 404, 503, 200, 418, 599, 1000, -1, 999, 99, 410}[r.Intn(11)]
		}
		return []int{0, 404, 503, 200, 99, 100, 999, 1000, -1, 418, 599, 302}[r.Intn(12)]
	}

	// directed histories: D = deliver, "" = removal; a request follows every delivery unless marked
	type dstep struct {
		page string
		req  bool
	}
	directed := []struct {
		init  string
		steps []dstep
	}{
		// the life cycle: nothing yet / set / replace / remove / set the first again / remove again
		{"", []dstep{{"", true}, {nrPages[0], true}, {nrPages[1], true}, {"", true}, {nrPages[0], true}, {"", true}}},
		// a page is in the store when the watcher starts and the first thing delivered is the removal
		{nrPages[0], []dstep{{"", true}}},
		{nrPages[0], []dstep{{"", true}, {"", true}, {nrPages[0], true}}},
		// the same page delivered again, then removed
		{"", []dstep{{"x", true}, {"x", true}, {"", true}, {"", true}, {"x", true}}},
		{"x", []dstep{{"x", true}, {"", true}}},
		// several deliveries between two requests
		{"", []dstep{{"x", false}, {"y", false}, {"", true}}},
		{"", []dstep{{"x", false}, {"", false}, {"y", true}, {"", false}, {"x", false}, {"", true}}},
		// a page that extends / is cut from the former one, a blank page, a big page
		{"", []dstep{{nrPages[0], true}, {nrPages[6], true}, {nrPages[0], true}, {" ", true}, {"", true}}},
		{"", []dstep{{nrPages[len(nrPages)-1], true}, {"", true}, {nrPages[len(nrPages)-2], true}, {nrPages[len(nrPages)-1], true}, {"", true}}},
		// a page replaced by one of the same length
		{"", []dstep{{"<html>page A</html>", true}, {"<html>page B</html>", true}, {"", true}, {"x", true}, {"y", true}, {"", true}}},
		// pages whose text is about being unset
		{"", []dstep{{"Unset", true}, {"", true}, {"<!-- removed -->", true}, {"", true}}},
		// only removals, only one page (what the static, file and custom backends deliver)
		{"", []dstep{{"", true}, {"", true}}},
		{"", []dstep{{nrPages[7], true}}},
	}
	for di, d := range directed {
		for _, wire := range []bool{false, true} {
			st := []int{503, 404, 0, 200}[(di+map[bool]int{false: 0, true: 1}[wire])%4]
			j := nrJob{Status: st, Wire: wire}
			if len(jobs) == 0 {
				j.Steps = append(j.Steps, genReq(wire)) // the fresh process, before anything is delivered
			}
			// what the piece starts from
			j.Steps = append(j.Steps, nrStep{Kind: 0, Page: []byte(d.init)})
			if di%3 == 0 {
				j.Steps = append(j.Steps, genReq(wire))
			}
			for _, s := range d.steps {
				j.Steps = append(j.Steps, nrStep{Kind: 0, Page: []byte(s.page)})
				if s.req {
					j.Steps = append(j.Steps, genReq(wire))
				}
			}
			jobs = append(jobs, jobT{"noroute-history-directed", j})
		}
	}

	// random histories
	cur := ""
	for i := 0; i < run.Scale(110, 1500); i++ {
		wire := r.Intn(3) == 0
		j := nrJob{Status: statuses(wire), Wire: wire}
		var used []string
		n := 3 + r.Intn(12)
		for k := 0; k < n; k++ {
			if r.Intn(5) < 2 {
				j.Steps = append(j.Steps, genReq(wire))
				continue
			}
			var p string
			switch x := r.Intn(10); {
			case x < 3:
				p = "" // removal
			case x < 4:
				p = cur // the registry reports what it reported before
			case x < 6 && len(used) > 0:
				p = used[r.Intn(len(used))] // an earlier page again
			default:
				p = nrPages[r.Intn(len(nrPages))]
			}
			if p != "" {
				used = append(used, p)
			}
			cur = p
			j.Steps = append(j.Steps, nrStep{Kind: 0, Page: []byte(p)})
		}
		j.Steps = append(j.Steps, genReq(wire))
		jobs = append(jobs, jobT{"noroute-history", j})
	}

	// build and run the driver
	dir, err := os.MkdirTemp("", "c07hist")
	if err != nil {
		panic(err)
	}
	defer os.RemoveAll(dir)
	bin := filepath.Join(dir, "fabio.test")
	cmd := exec.Command("go", "test", "-tags", "verif", "-c", "-o", bin, ".")
	cmd.Dir = repo
	if out, err := cmd.CombinedOutput(); err != nil {
		run.Violation(run.NextID(), "cannot build the no-route page driver (go test -tags verif -c in "+repo+"): "+err.Error(), string(out))
		return
	}
	in := make([]nrJob, len(jobs))
	for i := range jobs {
		in[i] = jobs[i].j
	}
	inF, outF := filepath.Join(dir, "in.json"), filepath.Join(dir, "out.json")
	b, _ := json.Marshal(in)
	os.WriteFile(inF, b, 0o644)
	c := exec.Command(bin, "-test.run", "TestVerifC07$", "-test.count=1", "-test.timeout=5m")
	c.Dir = repo
	c.Env = append(os.Environ(), "VERIF_C07_IN="+inF, "VERIF_C07_OUT="+outF)
	outb, rerr := c.CombinedOutput()
	var results []nrRes
	ob, ferr := os.ReadFile(outF)
	if rerr != nil || ferr != nil || json.Unmarshal(ob, &results) != nil || len(results) != len(jobs) {
		tail := string(outb)
		if len(tail) > 1500 {
			tail = tail[len(tail)-1500:]
		}
		run.Violation(run.NextID(), "the no-route page driver (TestVerifC07 in package main) failed or died", tail)
		return
	}

	lastDelivered := []byte{} // by the registry, over all pieces so far
	for i, jt := range jobs {
		res := results[i]
		init := lastDelivered
		var hist []interface{}
		steps := make([]string, 0, len(res.History))
		nreq := 0
		for _, s := range res.History {
			if s.Kind == 0 {
				steps = append(steps, vh.App("NrPage", vh.Hx(bodyRepr(s.Page))))
				hist = append(hist, "deliver "+nrShort(s.Page))
				lastDelivered = s.Page
			} else {
				steps = append(steps, vh.App("NrReq", vh.App("rq", vh.HxS(s.Method), vh.HxS(s.Target), vh.HxS(s.Host), vh.Hx(bodyRepr(s.Body)))))
				got := "?"
				if nreq < len(res.Obs) {
					got = fmt.Sprintf("%d %s upstream_hits=%d", res.Obs[nreq].Status, nrShort(res.Obs[nreq].Body), res.Obs[nreq].Hits)
				}
				hist = append(hist, fmt.Sprintf("%s %s Host: %s -> %s", s.Method, s.Target, s.Host, got))
				nreq++
			}
		}
		sm := map[string]interface{}{"noroute_status": jt.j.Status, "delivered_last_before": nrShort(init), "wire": jt.j.Wire, "history": hist}
		id := run.NextID()
		if res.Err != "" {
			run.Violation(id, "no-route page history: the driver could not complete it: "+res.Err, sm)
			continue
		}
		if nreq != len(res.Obs) {
			run.Violation(id, "no-route page history: the driver reported a different number of requests and responses", sm)
			continue
		}
		obs := make([]string, len(res.Obs))
		panicked := false
		for k, o := range res.Obs {
			if o.Panic != "" {
				panicked = true
				sm["panic"] = o.Panic
			}
			hs := make([]hdr, len(o.Hdrs))
			for hi, kv := range o.Hdrs {
				hs[hi] = hdr{kv[0], kv[1]}
			}
			obs[k] = vh.App("ob", vh.Bool(o.Hits > 0), vh.Z(int64(o.Status)), coqHdrs(hs), vh.Hx(bodyRepr(o.Body)))
		}
		if panicked {
			run.Violation(id, "ServeHTTP panicked on a request without route", sm)
			continue
		}
		run.Add(jt.class, vh.App("CNoRouteHist", vh.Bool(jt.j.Wire), vh.Z(int64(jt.j.Status)), vh.Hx(bodyRepr(init)), vh.List(steps), vh.List(obs)), sm)
	}
}
