// C08, header LINES to wire: the client writes header lines (empty and blank values, repeated
// names, odd casing) on a real connection to a net/http server in front of the real HTTPProxy;
// the proxy forwards through the REAL forwarding path -- httputil.ReverseProxy with a real
// http.Transport, or fabio's websocket handler -- to an upstream on a loopback socket which
// records the header lines it READS.  Observed twice: the header map net/http handed to fabio
// (against Model/HeaderLines.v parse_lines) and the managed headers at the upstream's end of the
// wire (against serve_lines).  The same header maps are also run through the recording-transport
// class and the addHeaders hook.  All random choices come from a source of this file's own.
package main

import (
	"bufio"
	"bytes"
	"crypto/tls"
	"fmt"
	"math/rand"
	"net"
	"net/http"
	"net/url"
	"sync"
	"time"

	"github.com/fabiolb/fabio/config"
	"github.com/fabiolb/fabio/proxy"
	"github.com/fabiolb/fabio/route"

	"verifharness/internal/vh"
)

// wireUpstream is the upstream's end of the wire: one request per connection, read with
// http.ReadRequest exactly as it arrives; answers 101 to a websocket upgrade, 200 otherwise.
type wireUpstream struct {
	ln  net.Listener
	got chan *wsObs
	mu  sync.Mutex
	sts []string // Strict-Transport-Security lines of the upstream's own 200 response
}

func newWireUpstream() *wireUpstream {
	ln, err := net.Listen("tcp", "127.0.0.1:0")
	if err != nil {
		panic(err)
	}
	u := &wireUpstream{ln: ln, got: make(chan *wsObs, 16)}
	go func() {
		for {
			c, err := ln.Accept()
			if err != nil {
				return
			}
			go func(c net.Conn) {
				defer c.Close()
				c.SetDeadline(time.Now().Add(5 * time.Second))
				req, err := http.ReadRequest(bufio.NewReader(c))
				if err != nil {
					u.got <- nil
					c.Write([]byte("HTTP/1.1 400 Bad Request\r\nContent-Length: 0\r\nConnection: close\r\n\r\n"))
					return
				}
				u.got <- &wsObs{hdr: req.Header, host: req.Host}
				if up := req.Header.Get("Upgrade"); up == "websocket" || up == "Websocket" {
					c.Write([]byte("HTTP/1.1 101 Switching Protocols\r\nUpgrade: websocket\r\nConnection: Upgrade\r\n\r\n"))
					return
				}
				var b bytes.Buffer
				b.WriteString("HTTP/1.1 200 OK\r\nContent-Type: text/plain\r\nContent-Length: 0\r\nConnection: close\r\n")
				u.mu.Lock()
				for _, v := range u.sts {
					b.WriteString("Strict-Transport-Security: " + v + "\r\n")
				}
				u.mu.Unlock()
				b.WriteString("\r\n")
				c.Write(b.Bytes())
			}(c)
		}
	}()
	return u
}

// wireServe sends raw over a fresh connection to the front; the real HTTPProxy behind it
// forwards with a real http.Transport (or the websocket handler) to up.
func wireServe(f *realFront, raw []byte, tlsMax uint16, cfg config.Proxy, t *targetT, up *wireUpstream) realResult {
	var res realResult
	tr := &http.Transport{DisableKeepAlives: true}
	defer tr.CloseIdleConnections()
	tgt := &route.Target{URL: &url.URL{Scheme: "http", Host: t.URLHost}, Host: t.HostOpt, StripPath: t.Strip}
	p := &proxy.HTTPProxy{Config: cfg, Transport: tr, UUID: func() string { return theUUID },
		Lookup: func(*http.Request) *route.Target { return tgt }}
	up.mu.Lock()
	up.sts = t.UpSTS
	up.mu.Unlock()
	done := make(chan struct{})
	f.mu.Lock()
	f.h = http.HandlerFunc(func(w http.ResponseWriter, r *http.Request) {
		defer close(done)
		q := &reqT{RemoteAddr: r.RemoteAddr, Host: r.Host, Proto: r.Proto, Hdr: r.Header.Clone()}
		if q.Hdr == nil {
			q.Hdr = http.Header{}
		}
		if r.TLS != nil {
			q.TLS = &tlsT{Version: r.TLS.Version, Cipher: r.TLS.CipherSuite}
		}
		res.seen = q
		if pn, _ := vh.Recover(func() { p.ServeHTTP(w, r) }); pn {
			res.panicked = true
		}
	})
	f.mu.Unlock()
	for len(up.got) > 0 {
		<-up.got
	}
	var c net.Conn
	var err error
	if f.isTLS {
		c, err = tls.Dial("tcp", f.ln.Addr().String(), &tls.Config{InsecureSkipVerify: true, MinVersion: tls.VersionTLS12, MaxVersion: tlsMax,
			CipherSuites: []uint16{tls.TLS_ECDHE_ECDSA_WITH_AES_128_GCM_SHA256}})
	} else {
		c, err = net.Dial("tcp", f.ln.Addr().String())
	}
	if err != nil {
		panic(err)
	}
	defer c.Close()
	c.SetDeadline(time.Now().Add(5 * time.Second))
	if _, err := c.Write(raw); err != nil {
		return res
	}
	resp, err := http.ReadResponse(bufio.NewReader(c), nil)
	if err == nil {
		res.code = resp.StatusCode
		res.sts = resp.Header["Strict-Transport-Security"]
	}
	c.Close()
	select {
	case <-done:
	case <-time.After(3 * time.Second):
		if res.seen != nil {
			panic("handler did not finish")
		}
		return res // the server answered itself
	}
	if res.panicked {
		res.coq = vh.Panic
		return res
	}
	select {
	case o := <-up.got:
		if o != nil {
			res.up, res.uhost = o.hdr, o.host
			if res.uhost == t.URLHost { // the run-dependent loopback address
				res.uhost = t.CoqURLHost
			}
		}
	case <-time.After(2 * time.Second):
	}
	if res.up == nil {
		res.coq = vh.Err(0)
		return res
	}
	res.coq = vh.Ok(vh.Pair(coqHdr(res.up), coqStrList(res.sts)))
	return res
}

// one header line as written: name, and the bytes between ':' and CRLF
type rawLine struct{ Name, Raw string }

func coqLines(ls []rawLine) string {
	items := make([]string, len(ls))
	for i, l := range ls {
		items[i] = vh.Pair(s(l.Name), s(l.Raw))
	}
	return vh.List(items)
}

func renderLines(proto, host string, ls []rawLine) []byte {
	var b bytes.Buffer
	b.WriteString("GET /foo/bar?x=1 " + proto + "\r\nHost: " + host + "\r\n")
	for _, l := range ls {
		b.WriteString(l.Name + ":" + l.Raw + "\r\n")
	}
	b.WriteString("\r\n")
	return b.Bytes()
}

var blanks = []string{" ", "  ", "\t", " \t "}

// genLines: the X-Forwarded-For lines follow pattern pat (0..7); the other managed headers are
// forged now and then, with empty values too.
func genLines(rw *rand.Rand, cfg *config.Proxy, mode, pat int) []rawLine {
	var ls []rawLine
	add := func(name, v string) {
		lead := pick(rw, []string{"", " ", " ", "  ", " \t"})
		trail := pick(rw, []string{"", "", " ", "\t"})
		ls = append(ls, rawLine{randCase(rw, name), lead + v + trail})
	}
	bare := func(name, raw string) { ls = append(ls, rawLine{randCase(rw, name), raw}) }
	xff := "X-Forwarded-For"
	switch pat {
	case 0: // one line, nothing after the colon
		bare(xff, "")
	case 1: // one line, blanks only
		bare(xff, pick(rw, blanks))
	case 2: // two or three empty / blank lines
		for i := 2 + rw.Intn(2); i > 0; i-- {
			bare(xff, pick(rw, append([]string{"", ""}, blanks...)))
		}
	case 3: // an empty line, then a prior hop
		bare(xff, pick(rw, []string{"", " "}))
		add(xff, pick(rw, ips))
	case 4: // a prior hop, then an empty line
		add(xff, pick(rw, ips))
		bare(xff, pick(rw, []string{"", " "}))
	case 5: // absent
	case 6: // one prior hop
		add(xff, pick(rw, ips))
	case 7: // three lines, each empty, blank or a hop
		for i := 0; i < 3; i++ {
			if rw.Intn(3) == 0 {
				add(xff, pick(rw, ips))
			} else {
				bare(xff, pick(rw, append([]string{""}, blanks...)))
			}
		}
	}
	p := func() bool { return rw.Intn(100) < 30 }
	if rw.Intn(2) == 0 {
		add("Accept", "*/*")
	}
	if p() {
		add("X-Real-Ip", pick(rw, []string{"", "", "6.6.6.6"}))
		if rw.Intn(3) == 0 {
			add("X-Real-Ip", pick(rw, ips))
		}
	}
	if p() {
		add("X-Forwarded-Proto", pick(rw, []string{"", "", "https", "http"}))
	}
	if p() {
		add("X-Forwarded-Port", pick(rw, []string{"", "8080"}))
	}
	if p() {
		add("X-Forwarded-Host", pick(rw, []string{"", "evil.example"}))
	}
	if p() {
		add("Forwarded", pick(rw, []string{"", "", "for=9.9.9.9", "for=9.9.9.9; proto=https"}))
	}
	if cfg.ClientIPHeader != "" && p() {
		add(cfg.ClientIPHeader, pick(rw, []string{"", "6.6.6.6"}))
	}
	if cfg.TLSHeader != "" && p() {
		add(cfg.TLSHeader, pick(rw, []string{"", cfg.TLSHeaderValue, "true"}))
	}
	if cfg.RequestID != "" && p() {
		add(cfg.RequestID, pick(rw, []string{"", "forged-id"}))
	}
	if mode >= modeWS {
		add("Upgrade", pick(rw, []string{"websocket", "websocket", "Websocket"}))
		add("Connection", "Upgrade")
	}
	if rw.Intn(4) == 0 { // hop-by-hop naming of X-Forwarded-For next to the empty lines
		add("Connection", pick(rw, []string{"X-Forwarded-For", "x-forwarded-for, X-Real-Ip", "keep-alive", "keep-alive , x-forwarded-for"}))
	}
	rw.Shuffle(len(ls), func(a, b int) { ls[a], ls[b] = ls[b], ls[a] })
	return ls
}

var xffPatterns = []string{"empty", "blank", "several-empty", "empty-then-hop", "hop-then-empty", "absent", "hop", "mixed"}

func runLineClasses(run *vh.Run, ws *wsUpstream, plainFront, tlsFront *realFront,
	addCase func(string, config.Proxy, *reqT, string),
	serveCase func(string, config.Proxy, *reqT, *targetT)) {
	rw := rand.New(rand.NewSource(run.Seed*7919 + 8))
	up := newWireUpstream()
	defer up.ln.Close()
	wireHosts := []string{"example.com", "example.com:8080", "[::1]:8443", "[2001:db8::2]", "[fe80::1%25eth0]:443", "Example.COM", "1.2.3.4:0080"}
	for i := 0; i < run.Scale(192, 1280); i++ {
		cfg := genCfg(rw)
		pat := i % 8
		mode := (i / 8) % 4
		if (i/32)%3 == 1 && cfg.ClientIPHeader == "" { // now and then X-Forwarded-For itself as client-IP header
			cfg.ClientIPHeader = pick(rw, []string{"X-Forwarded-For", "x-forwarded-for", "X-Client-Ip"})
		}
		front, tlsMax := plainFront, uint16(0)
		if mode == modeTLS || mode == modeWSS {
			front, tlsMax = tlsFront, []uint16{tls.VersionTLS12, tls.VersionTLS13}[(i/32)%2]
		}
		ls := genLines(rw, &cfg, mode, pat)
		host := pick(rw, wireHosts)
		t := &targetT{URLHost: up.ln.Addr().String(), CoqURLHost: "loopback-upstream", Strip: pick(rw, []string{"", "", "/foo"})}
		if mode < modeWS && rw.Intn(5) == 0 {
			t.UpSTS = [][]string{{"max-age=99"}, {"max-age=1; preload", "max-age=2"}}[rw.Intn(2)]
		}
		switch rw.Intn(6) {
		case 0:
			t.HostOpt = "dst"
		case 1:
			t.HostOpt = pick(rw, []string{"backend.internal", "backend.internal:8500"})
		}
		res := wireServe(front, renderLines("HTTP/1.1", host, ls), tlsMax, cfg, t, up)
		if res.seen == nil {
			run.Exclude(fmt.Sprintf("net/http server answered %d itself", res.code))
			continue
		}
		if res.panicked {
			run.Violation(run.NextID(), "ServeHTTP panicked (header lines, real transport)", project(res.seen.Hdr, &cfg))
		}
		var written []string
		for _, l := range ls {
			written = append(written, l.Name+":"+l.Raw)
		}
		// 1. what net/http made of the lines
		run.Add("lines-parse", vh.App("CLines", coqLines(ls), coqHdr(res.seen.Hdr)),
			map[string]interface{}{"fn": "http.Server (ReadMIMEHeader)", "xff_pattern": xffPatterns[pat], "lines": written, "header": res.seen.Hdr})
		// 2. the upstream's end of the wire
		class := "wire-" + modeNames[mode]
		run.Add(class, vh.App("CWire", coqCfg(&cfg), coqTarget(t), s(theUUID), coqReq(res.seen), coqLines(ls), res.coq, s(res.uhost), coqStrList(t.UpSTS)),
			map[string]interface{}{"fn": "http.Server -> HTTPProxy.ServeHTTP -> http.Transport / ws handler -> upstream socket", "xff_pattern": xffPatterns[pat], "cfg": cfgSample(&cfg), "lines": written,
				"remote_host_part": func() string { h, _ := peerOf(res.seen.RemoteAddr); return h }(), "host": res.seen.Host, "tls": res.seen.TLS, "host_opt": t.HostOpt,
				"client": project(res.seen.Hdr, &cfg), "upstream": project(res.up, &cfg), "upstream_host": res.uhost, "sts": res.sts, "upstream_sts": t.UpSTS, "status": res.code})
		// 3. the same header map through ReverseProxy with the recording transport / the websocket
		//    handler with the scripted client connection, and through addHeaders on its own
		t2 := &targetT{HostOpt: t.HostOpt, URLHost: "upstream.internal:9000", CoqURLHost: "upstream.internal:9000", Strip: t.Strip, UpSTS: t.UpSTS}
		if mode >= modeWS {
			t2.URLHost, t2.CoqURLHost = ws.ln.Addr().String(), "loopback-upstream"
		}
		serveCase("serve-xff-lines", cfg, res.seen, t2)
		addCase("add-xff-lines", cfg, res.seen, t.Strip)
	}
	run.Notes["header_lines"] = "raw header lines (empty / blank X-Forwarded-For values) -> net/http server -> HTTPProxy -> real http.Transport or websocket handler -> loopback upstream reading the lines"
}
