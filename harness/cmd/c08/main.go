// Correspondence harness for C08 (forwarding headers): runs the real addHeaders /
// addResponseHeaders / scheme / localPort of /repo through the verif hook, and the
// real HTTPProxy.ServeHTTP end to end (recording http.RoundTripper behind the real
// httputil.ReverseProxy for plain requests, a loopback upstream behind the real
// websocket handler for upgrades), on generated client header maps (forged copies of
// every managed header, repeated values, odd casing) x {plain, TLS, websocket} x
// configurations, and writes the cases for the Coq model to judge.
package main

import (
	"bufio"
	"bytes"
	"crypto/ecdsa"
	"crypto/elliptic"
	crand "crypto/rand"
	"crypto/tls"
	"crypto/x509"
	"crypto/x509/pkix"
	"math/big"
	"fmt"
	"math/rand"
	"net"
	"net/http"
	"net/http/httptest"
	"net/textproto"
	"net/url"
	"sort"
	"strings"
	"sync"
	"time"

	"github.com/fabiolb/fabio/config"
	"github.com/fabiolb/fabio/proxy"
	"github.com/fabiolb/fabio/route"

	"verifharness/internal/vh"
)

const preamble = `From Coq Require Import String List NArith ZArith Bool.
From Fabio Require Import Lib.Outcome Lib.Bytes Lib.Pack Model.Headers Model.HeadersSpec Model.HeaderLines Model.HeadersRouted Check.C08.
Import ListNotations.
Local Open Scope N_scope.
`

// ---------- Coq writers ----------
// strings repeat a lot (header names, addresses): intern them as Coq definitions in
// the preamble?  No: shards are independent files; short strings are cheap enough.
func s(x string) string { return vh.HxS(x) }

func coqStrList(l []string) string {
	items := make([]string, len(l))
	for i, v := range l {
		items[i] = s(v)
	}
	return vh.List(items)
}

func coqHdr(h http.Header) string {
	keys := make([]string, 0, len(h))
	for k := range h {
		keys = append(keys, k)
	}
	sort.Strings(keys)
	items := make([]string, len(keys))
	for i, k := range keys {
		items[i] = vh.Pair(s(k), coqStrList(h[k]))
	}
	return vh.List(items)
}

type tlsT struct {
	Version, Cipher uint16
}

type reqT struct {
	RemoteAddr string
	Host       string
	TLS        *tlsT
	Proto      string
	Hdr        http.Header
}

func peerOf(remote string) (string, bool) {
	h, _, err := net.SplitHostPort(remote)
	return h, err == nil
}

func coqReq(q *reqT) string {
	peer := vh.None
	if p, ok := peerOf(q.RemoteAddr); ok {
		peer = vh.Some(s(p))
	}
	t := vh.None
	if q.TLS != nil {
		t = vh.Some(vh.Pair(vh.N(int(q.TLS.Version)), vh.N(int(q.TLS.Cipher))))
	}
	return fmt.Sprintf("{| r_peer := %s; r_host := %s; r_tls := %s; r_proto := %s; r_hdr := %s |}",
		peer, s(q.Host), t, s(q.Proto), coqHdr(q.Hdr))
}

func coqCfg(c *config.Proxy) string {
	return fmt.Sprintf("{| c_clientip := %s; c_tlsheader := %s; c_tlsvalue := %s; c_localip := %s; c_reqid := %s; c_sts_maxage := %s; c_sts_sub := %s; c_sts_preload := %s |}",
		s(c.ClientIPHeader), s(c.TLSHeader), s(c.TLSHeaderValue), s(c.LocalIP), s(c.RequestID),
		vh.Z(int64(c.STSHeader.MaxAge)), vh.Bool(c.STSHeader.Subdomains), vh.Bool(c.STSHeader.Preload))
}

func (q *reqT) httpRequest() *http.Request {
	r := httptest.NewRequest("GET", "http://placeholder.invalid/foo/bar?x=1", nil)
	r.Host = q.Host
	r.RemoteAddr = q.RemoteAddr
	r.Proto = q.Proto
	r.TLS = nil
	if q.TLS != nil {
		r.TLS = &tls.ConnectionState{Version: q.TLS.Version, CipherSuite: q.TLS.Cipher}
	}
	r.Header = q.Hdr.Clone()
	if r.Header == nil {
		r.Header = http.Header{}
	}
	return r
}

// ---------- generators ----------
func pick(r *rand.Rand, l []string) string { return l[r.Intn(len(l))] }

// randCase re-cases a header name the way a client might write it; the server (and
// Header.Add here) canonicalises it.
func randCase(r *rand.Rand, k string) string {
	switch r.Intn(4) {
	case 0:
		return strings.ToLower(k)
	case 1:
		return strings.ToUpper(k)
	case 2:
		b := []byte(k)
		for i := range b {
			if r.Intn(2) == 0 {
				b[i] = byte(strings.ToUpper(string(b[i]))[0])
			} else {
				b[i] = byte(strings.ToLower(string(b[i]))[0])
			}
		}
		return string(b)
	}
	return k
}

var ips = []string{"1.2.3.4", "10.0.0.7", "203.0.113.9", "2001:db8::1", "127.0.0.1", "6.6.6.6", "unknown", "192.168.0.1, 10.1.1.1"}
var remotes = []string{"1.2.3.4:5555", "10.0.0.7:80", "[2001:db8::1]:443", "203.0.113.9:61000", "127.0.0.1:1", "6.6.6.6:6"}
var badRemotes = []string{"1.2.3.4", "", "[::1", "1.2.3.4:5:6", "::1:80"}
var hosts = []string{"example.com", "example.com:8080", "www.foo.org:443", "a:1", "a:", ":80", "", "foo", "[::1]:8443", "[2001:db8::2]", "Example.COM:80", "h:80:90", "bar.example:0",
	// IPv6 literals with / without port, with zone; several colons without brackets; stray brackets
	"[2001:db8::2]:443", "[fe80::1%eth0]:8080", "[fe80::1%25eth0]", "::1", "2001:db8::2", "a:b:c", "[::1]:", "[::1", "::1]:80", "[a]b:1", "x[y]:1", "[]:80", "[::1]:80:90", "[::1]]:80", "host:", "1.2.3.4:0080"}
var clientIPHeaders = []string{"", "", "X-Client-Ip", "x-client-ip", "X-CLIENT-IP", "Client-Ip", "X-Forwarded-For", "x-forwarded-for", "X-FORWARDED-FOR", "X-Real-Ip", "x-real-ip", "X-Real-IP", "True-Client-Ip", "cf-connecting-ip"}
var tlsHeaders = []string{"", "", "X-Tls", "x-tls", "X-Forwarded-Ssl", "Secure", "X-SSL"}
var tlsValues = []string{"true", "on", "1", "", "https"}
var reqIDs = []string{"", "", "", "X-Request-Id", "x-request-id"}
var fwds = []string{"for=9.9.9.9; proto=https", "for=9.9.9.9;proto=http;by=1.1.1.1", "for=9.9.9.9", "proto=wss", "proto=", "by=x; proto=ws; for=y", "for=\"[2001:db8::9]\"; proto=https; proto=http", "", "PROTO=https", "xproto=http;proto=ftp;"}
var protos = []string{"http", "https", "ws", "wss", "ftp", "", "HTTPS"}
var upgrades = []string{"websocket", "Websocket", "WebSocket", "WEBSOCKET", "h2c", "", "websocket "}
var oddConfigs = []string{"Forwarded", "X-Forwarded-Proto", "X-Forwarded-Host", "x-forwarded-port", "X-Forwarded-Prefix", "bad name", "X Real Ip", "é"}

func genCfg(r *rand.Rand) config.Proxy {
	c := config.Proxy{}
	c.ClientIPHeader = pick(r, clientIPHeaders)
	c.TLSHeader = pick(r, tlsHeaders)
	if c.TLSHeader != "" || r.Intn(4) == 0 {
		c.TLSHeaderValue = pick(r, tlsValues)
	}
	if r.Intn(3) == 0 {
		c.LocalIP = pick(r, []string{"192.168.1.1", "10.9.9.9", "2001:db8::ff"})
	}
	c.RequestID = pick(r, reqIDs)
	c.STSHeader.MaxAge = []int{0, 0, -1, 1, 31536000, 1<<31 - 1, 1 << 31, 1<<32 + 5, 86400, 10}[r.Intn(10)]
	c.STSHeader.Subdomains = r.Intn(2) == 0
	c.STSHeader.Preload = r.Intn(2) == 0
	return c
}

const (
	modePlain = iota
	modeTLS
	modeWS
	modeWSS
)

var modeNames = []string{"plain", "tls", "ws", "wss"}

func genTLS(r *rand.Rand) *tlsT {
	return &tlsT{
		Version: []uint16{0, 0x0300, 0x0301, 0x0302, 0x0303, 0x0304, 0x0304, 0x7f1c}[r.Intn(8)],
		Cipher:  []uint16{0, 0x1301, 0x1302, 0xc02f, 0x009c, 0xcca8}[r.Intn(6)],
	}
}

// genHdr builds a client header map.  forge = probability (in %) with which each
// managed header is forged by the client.
func genHdr(r *rand.Rand, cfg *config.Proxy, mode int, forge int) http.Header {
	h := http.Header{}
	add := func(k, v string) { h.Add(randCase(r, k), v) }
	if r.Intn(2) == 0 {
		add("Accept", "*/*")
	}
	if r.Intn(3) == 0 {
		add("User-Agent", "curl/8")
	}
	p := func() bool { return r.Intn(100) < forge }
	if p() {
		for i := 1 + r.Intn(3); i > 0; i-- {
			add("X-Forwarded-For", pick(r, ips))
		}
	}
	if p() {
		switch r.Intn(5) {
		case 0:
			add("X-Real-Ip", "")
		case 1:
			add("X-Real-Ip", "")
			add("X-Real-Ip", pick(r, ips))
		case 2:
			add("X-Real-Ip", pick(r, ips))
			add("X-Real-Ip", pick(r, ips))
		default:
			add("X-Real-Ip", pick(r, ips))
		}
	}
	if p() {
		add("X-Forwarded-Proto", pick(r, protos))
		if r.Intn(4) == 0 {
			add("X-Forwarded-Proto", pick(r, protos))
		}
	}
	if p() {
		add("X-Forwarded-Port", pick(r, []string{"80", "443", "8080", "", "0", "99999"}))
	}
	if p() {
		add("X-Forwarded-Host", pick(r, []string{"evil.example", "example.com", "", "internal:8500"}))
	}
	if p() {
		add("Forwarded", pick(r, fwds))
		if r.Intn(4) == 0 {
			add("Forwarded", pick(r, fwds))
		}
	}
	if p() {
		add("X-Forwarded-Prefix", pick(r, []string{"/evil", "", "/a/b"}))
	}
	if cfg.ClientIPHeader != "" && p() {
		for i := 1 + r.Intn(2); i > 0; i-- {
			add(cfg.ClientIPHeader, pick(r, ips))
		}
	}
	if cfg.TLSHeader != "" && p() {
		add(cfg.TLSHeader, pick(r, append([]string{cfg.TLSHeaderValue, "false", ""}, tlsValues...)))
		if r.Intn(3) == 0 {
			add(cfg.TLSHeader, cfg.TLSHeaderValue)
		}
	}
	if cfg.RequestID != "" && p() {
		add(cfg.RequestID, "forged-id")
	}
	if r.Intn(8) == 0 {
		add("Strict-Transport-Security", "max-age=1")
	}
	switch mode {
	case modeWS, modeWSS:
		if r.Intn(4) == 0 {
			add("Upgrade", "Websocket")
		} else {
			add("Upgrade", "websocket")
		}
		add("Connection", pick(r, []string{"Upgrade", "upgrade", "keep-alive, Upgrade"}))
	default:
		if r.Intn(6) == 0 {
			add("Upgrade", pick(r, upgrades[2:]))
			if r.Intn(2) == 0 {
				add("Connection", "Upgrade")
			}
		}
	}
	// Connection naming managed headers (hop-by-hop abuse) and harmless tokens
	if r.Intn(100) < forge/2 {
		names := []string{"X-Real-Ip", "X-Forwarded-For", "X-Forwarded-Proto", "X-Forwarded-Port", "X-Forwarded-Host", "Forwarded", "close", "keep-alive", "X-Other", "x-real-ip", " X-Real-Ip ", ""}
		if cfg.ClientIPHeader != "" {
			names = append(names, cfg.ClientIPHeader, strings.ToLower(cfg.ClientIPHeader))
		}
		if cfg.TLSHeader != "" {
			names = append(names, cfg.TLSHeader, strings.ToUpper(cfg.TLSHeader))
		}
		if r.Intn(2) == 0 {
			var toks []string
			for i := 1 + r.Intn(3); i > 0; i-- {
				toks = append(toks, pick(r, names))
			}
			add("Connection", strings.Join(toks, pick(r, []string{",", ", ", " ,"})))
		} else {
			// several values, random case and blanks
			for i := 1 + r.Intn(3); i > 0; i-- {
				add("Connection", connValue(r, names, 1+r.Intn(4)))
			}
		}
	} else if r.Intn(5) == 0 {
		add("Connection", pick(r, []string{"close", "keep-alive", "Keep-Alive, TE"}))
	}
	return h
}


// connValue builds one Connection header value out of n tokens drawn from names, in random
// case, with random blanks around tokens and separators, now and then an empty token.
func connValue(r *rand.Rand, names []string, n int) string {
	var toks []string
	for i := 0; i < n; i++ {
		t := randCase(r, pick(r, names))
		switch r.Intn(6) {
		case 0:
			t = " " + t
		case 1:
			t = t + " "
		case 2:
			t = "\t" + t + "  "
		}
		if r.Intn(10) == 0 {
			toks = append(toks, pick(r, []string{"", " "}))
		}
		toks = append(toks, t)
	}
	return strings.Join(toks, ",")
}

func managedNames(cfg *config.Proxy) []string {
	names := []string{"X-Real-Ip", "X-Forwarded-For", "X-Forwarded-Proto", "X-Forwarded-Port", "X-Forwarded-Host", "X-Forwarded-Prefix", "Forwarded"}
	if cfg.ClientIPHeader != "" {
		names = append(names, cfg.ClientIPHeader)
	}
	if cfg.TLSHeader != "" {
		names = append(names, cfg.TLSHeader)
	}
	return names
}

func genReq(r *rand.Rand, cfg *config.Proxy, mode int, forge int) *reqT {
	q := &reqT{RemoteAddr: pick(r, remotes), Host: pick(r, hosts), Proto: pick(r, []string{"HTTP/1.1", "HTTP/1.1", "HTTP/1.0", "HTTP/2.0", ""})}
	if mode == modeTLS || mode == modeWSS {
		q.TLS = genTLS(r)
	}
	q.Hdr = genHdr(r, cfg, mode, forge)
	return q
}

// ---------- hook level ----------
func implAdd(q *reqT, cfg config.Proxy, strip string) (string, http.Header) {
	r := q.httpRequest()
	var err error
	if p, _ := vh.Recover(func() { err = proxy.VerifAddHeaders(r, cfg, strip) }); p {
		return vh.Panic, nil
	}
	if err != nil {
		return vh.Err(0), nil
	}
	return vh.Ok(coqHdr(r.Header)), r.Header
}

// ---------- end to end ----------
type recordingTransport struct {
	mu   sync.Mutex
	got  []http.Header
	host []string // req.Host as handed to the transport
	sts  []string // Strict-Transport-Security values the "upstream" puts on its own response
}

func (t *recordingTransport) RoundTrip(req *http.Request) (*http.Response, error) {
	t.mu.Lock()
	// the header map exactly as httputil.ReverseProxy hands it to the transport
	cp := http.Header{}
	for k, v := range req.Header {
		if v == nil {
			cp[k] = nil
		} else {
			cp[k] = append([]string(nil), v...)
		}
	}
	t.got = append(t.got, cp)
	t.host = append(t.host, req.Host)
	t.mu.Unlock()
	rh := http.Header{"Content-Type": {"text/plain"}}
	if len(t.sts) > 0 {
		rh["Strict-Transport-Security"] = append([]string(nil), t.sts...)
	}
	return &http.Response{StatusCode: 200, Status: "200 OK", Proto: "HTTP/1.1", ProtoMajor: 1, ProtoMinor: 1,
		Header: rh, Body: http.NoBody, Request: req}, nil
}

// loopback upstream for the websocket handler (it dials with net.Dial itself)
type wsObs struct {
	hdr  http.Header
	host string
}

type wsUpstream struct {
	ln  net.Listener
	got chan *wsObs
}

func newWSUpstream() *wsUpstream {
	ln, err := net.Listen("tcp", "127.0.0.1:0")
	if err != nil {
		panic(err)
	}
	u := &wsUpstream{ln: ln, got: make(chan *wsObs, 16)}
	go func() {
		for {
			c, err := ln.Accept()
			if err != nil {
				return
			}
			go func(c net.Conn) {
				defer c.Close()
				c.SetDeadline(time.Now().Add(5 * time.Second))
				req, err := http.ReadRequest(bufio.NewReader(c))
				if err != nil {
					u.got <- nil
					c.Write([]byte("HTTP/1.1 400 Bad Request\r\n\r\n"))
					return
				}
				u.got <- &wsObs{hdr: req.Header, host: req.Host}
				c.Write([]byte("HTTP/1.1 101 Switching Protocols\r\nUpgrade: websocket\r\nConnection: Upgrade\r\n\r\n"))
			}(c)
		}
	}()
	return u
}

// client side of a hijacked connection: swallows what fabio writes, EOF on close
type sinkConn struct {
	closed chan struct{}
	once   sync.Once
}

func (c *sinkConn) Read(p []byte) (int, error)  { <-c.closed; return 0, net.ErrClosed }
func (c *sinkConn) Write(p []byte) (int, error) { return len(p), nil }
func (c *sinkConn) Close() error                { c.once.Do(func() { close(c.closed) }); return nil }
func (c *sinkConn) LocalAddr() net.Addr         { return &net.TCPAddr{IP: net.IPv4(127, 0, 0, 1), Port: 9999} }
func (c *sinkConn) RemoteAddr() net.Addr        { return &net.TCPAddr{IP: net.IPv4(127, 0, 0, 2), Port: 5555} }
func (c *sinkConn) SetDeadline(time.Time) error { return nil }
func (c *sinkConn) SetReadDeadline(time.Time) error {
	return nil
}
func (c *sinkConn) SetWriteDeadline(time.Time) error { return nil }

type hijackRecorder struct {
	*httptest.ResponseRecorder
	conn *sinkConn
}

func (h *hijackRecorder) Hijack() (net.Conn, *bufio.ReadWriter, error) {
	h.conn = &sinkConn{closed: make(chan struct{})}
	return h.conn, bufio.NewReadWriter(bufio.NewReader(h.conn), bufio.NewWriter(h.conn)), nil
}

type targetT struct {
	HostOpt    string
	URLHost    string // what the real code dials / puts into the url
	CoqURLHost string // what the case says (the loopback port of the websocket upstream is run-dependent; the model reads t_url_host only for host=dst, which websocket cases never use)
	Strip      string
	UpSTS      []string // Strict-Transport-Security values of the upstream's own response (plain path only)
}

func coqTarget(t *targetT) string {
	return fmt.Sprintf("{| t_host := %s; t_url_host := %s; t_strip := %s |}", s(t.HostOpt), s(t.CoqURLHost), s(t.Strip))
}

const theUUID = "11111111-2222-3333-4444-555555555555"

// implServe runs the real HTTPProxy.ServeHTTP.  up = header map at the upstream,
// nil when the upstream was not contacted.
func implServe(q *reqT, cfg config.Proxy, t *targetT, ws *wsUpstream) (coq string, up http.Header, sts []string, code int, uhost string) {
	tr := &recordingTransport{sts: t.UpSTS}
	tgt := &route.Target{URL: &url.URL{Scheme: "http", Host: t.URLHost}, Host: t.HostOpt, StripPath: t.Strip}
	p := &proxy.HTTPProxy{Config: cfg, Transport: tr, UUID: func() string { return theUUID },
		Lookup: func(*http.Request) *route.Target { return tgt }}
	w := &hijackRecorder{ResponseRecorder: httptest.NewRecorder()}
	r := q.httpRequest()
	// drain stale observations
	for len(ws.got) > 0 {
		<-ws.got
	}
	if pn, _ := vh.Recover(func() { p.ServeHTTP(w, r) }); pn {
		return vh.Panic, nil, nil, 0, ""
	}
	sts = w.Header()["Strict-Transport-Security"]
	code = w.Code
	tr.mu.Lock()
	if len(tr.got) > 0 {
		up, uhost = tr.got[0], tr.host[0]
	}
	tr.mu.Unlock()
	if up == nil {
		select {
		case o := <-ws.got:
			if o != nil {
				up, uhost = o.hdr, o.host
				if uhost == t.URLHost { // Request.Write fell back to r.URL.Host: run-dependent loopback port
					uhost = t.CoqURLHost
				}
			}
		default:
		}
	}
	if up == nil {
		return vh.Err(0), nil, sts, code, ""
	}
	return vh.Ok(vh.Pair(coqHdr(up), coqStrList(sts))), up, sts, code, uhost
}


// ---------- real connections: net/http server (plain and TLS listener on loopback) in front of
// HTTPProxy, driven by a raw-bytes client.  r.TLS, r.RemoteAddr, r.Host, r.Proto and the
// canonicalisation / merging of header lines come from net/http, not from the harness. ----------
type realFront struct {
	ln    net.Listener
	isTLS bool
	mu    sync.Mutex
	h     http.Handler
}

func selfSigned() tls.Certificate {
	key, err := ecdsa.GenerateKey(elliptic.P256(), crand.Reader)
	if err != nil {
		panic(err)
	}
	tmpl := &x509.Certificate{SerialNumber: big.NewInt(1), Subject: pkix.Name{CommonName: "c08.test"},
		NotBefore: time.Now().Add(-time.Hour), NotAfter: time.Now().Add(24 * time.Hour),
		KeyUsage: x509.KeyUsageDigitalSignature, ExtKeyUsage: []x509.ExtKeyUsage{x509.ExtKeyUsageServerAuth}, DNSNames: []string{"c08.test"}}
	der, err := x509.CreateCertificate(crand.Reader, tmpl, tmpl, &key.PublicKey, key)
	if err != nil {
		panic(err)
	}
	return tls.Certificate{Certificate: [][]byte{der}, PrivateKey: key}
}

func newRealFront(isTLS bool) *realFront {
	ln, err := net.Listen("tcp", "127.0.0.1:0")
	if err != nil {
		panic(err)
	}
	f := &realFront{isTLS: isTLS}
	if isTLS {
		ln = tls.NewListener(ln, &tls.Config{Certificates: []tls.Certificate{selfSigned()}, NextProtos: []string{"http/1.1"}})
	}
	f.ln = ln
	srv := &http.Server{Handler: http.HandlerFunc(func(w http.ResponseWriter, r *http.Request) {
		f.mu.Lock()
		h := f.h
		f.mu.Unlock()
		h.ServeHTTP(w, r)
	}), ReadHeaderTimeout: 5 * time.Second}
	go srv.Serve(ln)
	return f
}

type realResult struct {
	seen    *reqT // the request as net/http handed it to fabio; nil: the server answered itself (400 ...)
	coq     string
	up      http.Header
	sts     []string
	code    int
	uhost   string
	panicked bool
}

// realServe sends raw over a fresh connection to the front and lets the real HTTPProxy serve it.
func realServe(f *realFront, raw []byte, tlsMax uint16, cfg config.Proxy, t *targetT, ws *wsUpstream) realResult {
	var res realResult
	tr := &recordingTransport{sts: t.UpSTS}
	tgt := &route.Target{URL: &url.URL{Scheme: "http", Host: t.URLHost}, Host: t.HostOpt, StripPath: t.Strip}
	p := &proxy.HTTPProxy{Config: cfg, Transport: tr, UUID: func() string { return theUUID },
		Lookup: func(*http.Request) *route.Target { return tgt }}
	done := make(chan struct{})
	f.mu.Lock()
	f.h = http.HandlerFunc(func(w http.ResponseWriter, r *http.Request) {
		defer close(done)
		q := &reqT{RemoteAddr: r.RemoteAddr, Host: r.Host, Proto: r.Proto, Hdr: r.Header.Clone()}
		if q.Hdr == nil {
			q.Hdr = http.Header{}
		}
		if r.TLS != nil {
			q.TLS = &tlsT{Version: r.TLS.Version, Cipher: r.TLS.CipherSuite}
		}
		res.seen = q
		if pn, _ := vh.Recover(func() { p.ServeHTTP(w, r) }); pn {
			res.panicked = true
		}
	})
	f.mu.Unlock()
	for len(ws.got) > 0 {
		<-ws.got
	}
	var c net.Conn
	var err error
	if f.isTLS {
		c, err = tls.Dial("tcp", f.ln.Addr().String(), &tls.Config{InsecureSkipVerify: true, MinVersion: tls.VersionTLS12, MaxVersion: tlsMax,
			CipherSuites: []uint16{tls.TLS_ECDHE_ECDSA_WITH_AES_128_GCM_SHA256}})
	} else {
		c, err = net.Dial("tcp", f.ln.Addr().String())
	}
	if err != nil {
		panic(err)
	}
	defer c.Close()
	c.SetDeadline(time.Now().Add(5 * time.Second))
	if _, err := c.Write(raw); err != nil {
		return res
	}
	resp, err := http.ReadResponse(bufio.NewReader(c), nil)
	if err == nil {
		res.code = resp.StatusCode
		res.sts = resp.Header["Strict-Transport-Security"]
	}
	c.Close()
	select {
	case <-done:
	case <-time.After(3 * time.Second):
		if res.seen != nil {
			panic("handler did not finish")
		}
		return res // the server answered itself
	}
	if res.panicked {
		res.coq = vh.Panic
		return res
	}
	tr.mu.Lock()
	if len(tr.got) > 0 {
		res.up, res.uhost = tr.got[0], tr.host[0]
	}
	tr.mu.Unlock()
	if res.up == nil {
		select {
		case o := <-ws.got:
			if o != nil {
				res.up, res.uhost = o.hdr, o.host
				if res.uhost == t.URLHost {
					res.uhost = t.CoqURLHost
				}
			}
		default:
		}
	}
	if res.up == nil {
		res.coq = vh.Err(0)
		return res
	}
	res.coq = vh.Ok(vh.Pair(coqHdr(res.up), coqStrList(res.sts)))
	return res
}

// rawRequest renders a request the way a client may write it: header names in random case,
// repeated lines, optional blanks around values.
func rawRequest(r *rand.Rand, proto string, host *string, lines [][2]string) []byte {
	var b bytes.Buffer
	b.WriteString("GET /foo/bar?x=1 " + proto + "\r\n")
	if host != nil {
		b.WriteString(randCase(r, "Host") + ": " + *host + "\r\n")
	}
	for _, l := range lines {
		sep := pick(r, []string{": ", ":", ":  ", ": \t"})
		b.WriteString(randCase(r, l[0]) + sep + l[1] + pick(r, []string{"", "", " "}) + "\r\n")
	}
	b.WriteString("\r\n")
	return b.Bytes()
}

func project(h http.Header, cfg *config.Proxy) map[string][]string {
	out := map[string][]string{}
	keys := []string{"X-Forwarded-For", "X-Real-Ip", "X-Forwarded-Proto", "X-Forwarded-Port", "X-Forwarded-Host", "X-Forwarded-Prefix", "Forwarded", "Upgrade", "Connection"}
	for _, k := range []string{cfg.ClientIPHeader, cfg.TLSHeader, cfg.RequestID} {
		if k != "" {
			keys = append(keys, textproto.CanonicalMIMEHeaderKey(k))
		}
	}
	for _, k := range keys {
		if v, ok := h[k]; ok {
			out[k] = v
		}
	}
	return out
}

func cfgSample(c *config.Proxy) map[string]interface{} {
	return map[string]interface{}{"clientip": c.ClientIPHeader, "tlsheader": c.TLSHeader, "tlsvalue": c.TLSHeaderValue, "localip": c.LocalIP, "requestid": c.RequestID,
		"sts": fmt.Sprintf("%d/%v/%v", c.STSHeader.MaxAge, c.STSHeader.Subdomains, c.STSHeader.Preload)}
}

func main() {
	run := vh.Start("C08")
	r := run.Rng
	ws := newWSUpstream()
	defer ws.ln.Close()

	// 0. textproto.CanonicalMIMEHeaderKey against canon_key
	canonIn := append([]string{}, clientIPHeaders...)
	canonIn = append(canonIn, tlsHeaders...)
	canonIn = append(canonIn, oddConfigs...)
	canonIn = append(canonIn, "x-forwarded-for", "X--a", "-x", "a-", "x_y-z", "a1-b2", "ETag", "www-authenticate", "x-!#$%&'*+.^_`|~-ok", "a(b", "a:b", "a\tb", "\x7f", "a\x80", "té", "x-ÿ")
	for i := 0; i < run.Scale(60, 600); i++ {
		n := 1 + r.Intn(14)
		b := make([]byte, n)
		al := "abcXYZ019-_.! :(/é\x00~|"
		for j := range b {
			b[j] = al[r.Intn(len(al))]
		}
		canonIn = append(canonIn, string(b))
	}
	for _, k := range canonIn {
		run.Add("canonical-key", vh.App("CCanon", s(k), s(textproto.CanonicalMIMEHeaderKey(k))), map[string]interface{}{"fn": "CanonicalMIMEHeaderKey", "key": k})
	}

	// 1. scheme / localPort through the hook
	for i := 0; i < run.Scale(220, 3000); i++ {
		cfg := config.Proxy{}
		mode := r.Intn(4)
		q := genReq(r, &cfg, mode, 45)
		if i%9 == 0 { // every Forwarded form alone
			q.Hdr.Del("X-Forwarded-Proto")
			q.Hdr.Set("Forwarded", fwds[(i/9)%len(fwds)])
		}
		req := q.httpRequest()
		var got string
		if pn, _ := vh.Recover(func() { got = proxy.VerifScheme(req) }); pn {
			run.Violation(run.NextID(), "scheme panicked", project(q.Hdr, &cfg))
			continue
		}
		run.Add("scheme", vh.App("CScheme", coqHdr(q.Hdr), vh.Bool(q.TLS != nil), s(got)),
			map[string]interface{}{"fn": "scheme", "mode": modeNames[mode], "hdr": project(q.Hdr, &cfg), "impl": got})
	}
	portHosts := append([]string{}, hosts...)
	portHosts = append(portHosts, "x:", ":", "::", "a:b:c", "host:65535", "0:0")
	// random Host values over the alphabet that matters to host:port syntax
	for i := 0; i < run.Scale(120, 1500); i++ {
		n := r.Intn(10)
		b := make([]byte, n)
		al := "a1:[]%.:]:[-"
		for j := range b {
			b[j] = al[r.Intn(len(al))]
		}
		h := string(b)
		if r.Intn(3) == 0 {
			h = "[" + h + "]" + pick(r, []string{"", ":80", ":", ":8443", ":a:b"})
		}
		portHosts = append(portHosts, h)
	}
	// net.SplitHostPort itself against the model of it
	for _, h := range append(append([]string{}, portHosts...), append(remotes, badRemotes...)...) {
		host, port, err := net.SplitHostPort(h)
		impl := vh.None
		if err == nil {
			impl = vh.Some(vh.Pair(s(host), s(port)))
		}
		run.Add("split-host-port", vh.App("CSplit", s(h), impl), map[string]interface{}{"fn": "net.SplitHostPort", "hostport": h, "host": host, "port": port, "err": err != nil})
	}
	for _, h := range portHosts {
		for _, t := range []bool{false, true} {
			q := &reqT{RemoteAddr: "1.2.3.4:5", Host: h, Hdr: http.Header{}}
			if t {
				q.TLS = &tlsT{Version: 0x0303}
			}
			req := q.httpRequest()
			var got string
			if pn, _ := vh.Recover(func() { got = proxy.VerifLocalPort(req) }); pn {
				run.Violation(run.NextID(), "localPort panicked", h)
				continue
			}
			run.Add("local-port", vh.App("CPort", s(h), vh.Bool(t), s(got)), map[string]interface{}{"fn": "localPort", "host": h, "tls": t, "impl": got})
		}
	}

	// 2. addResponseHeaders
	for _, ma := range []int{0, -1, 1, 10, 31536000, 1<<31 - 1, 1 << 31, 1<<32 + 5, -1 << 31, 1<<31 + 7} {
		for k := 0; k < 8; k++ {
			cfg := config.Proxy{}
			cfg.STSHeader = config.STSHeader{MaxAge: ma, Subdomains: k&1 != 0, Preload: k&2 != 0}
			q := &reqT{RemoteAddr: "1.2.3.4:5", Host: "a", Hdr: http.Header{}}
			if k&4 != 0 {
				q.TLS = genTLS(r)
			}
			w := httptest.NewRecorder()
			if r.Intn(3) == 0 { // a value already on the response is replaced, not appended to
				w.Header().Add("Strict-Transport-Security", "max-age=7")
				w.Header().Add("Strict-Transport-Security", "max-age=8")
				if q.TLS == nil || ma <= 0 {
					w.Header().Del("Strict-Transport-Security")
				}
			}
			if pn, _ := vh.Recover(func() { _ = proxy.VerifAddResponseHeaders(w, q.httpRequest(), cfg) }); pn {
				run.Violation(run.NextID(), "addResponseHeaders panicked", ma)
				continue
			}
			got := w.Header()["Strict-Transport-Security"]
			run.Add("response-headers", vh.App("CResp", coqCfg(&cfg), vh.Bool(q.TLS != nil), coqStrList(got)),
				map[string]interface{}{"fn": "addResponseHeaders", "maxage": ma, "sub": k&1 != 0, "preload": k&2 != 0, "tls": q.TLS != nil, "impl": got})
		}
	}

	// 3. addHeaders through the hook
	addCase := func(class string, cfg config.Proxy, q *reqT, strip string) {
		impl, after := implAdd(q, cfg, strip)
		if impl == vh.Panic {
			run.Violation(run.NextID(), "addHeaders panicked", project(q.Hdr, &cfg))
		}
		run.Add(class, vh.App("CAdd", coqCfg(&cfg), s(strip), coqReq(q), impl),
			map[string]interface{}{"fn": "addHeaders", "cfg": cfgSample(&cfg), "remote": q.RemoteAddr, "host": q.Host, "tls": q.TLS, "strip": strip,
				"client": project(q.Hdr, &cfg), "after": project(after, &cfg)})
	}
	for i := 0; i < run.Scale(1000, 12000); i++ {
		cfg := genCfg(r)
		mode := r.Intn(4)
		q := genReq(r, &cfg, mode, []int{0, 30, 60, 90}[r.Intn(4)])
		strip := pick(r, []string{"", "", "/foo", "/"})
		addCase("add-"+modeNames[mode], cfg, q, strip)
	}
	// directed: every ClientIPHeader spelling x forged copy x mode
	for _, cih := range clientIPHeaders[1:] {
		for mode := 0; mode < 4; mode++ {
			cfg := genCfg(r)
			cfg.ClientIPHeader = cih
			q := genReq(r, &cfg, mode, 20)
			q.Hdr.Add(cih, "6.6.6.6")
			q.Hdr.Add(cih, "7.7.7.7")
			addCase("add-clientip-forged", cfg, q, "")
		}
	}
	// directed: TLS header on/off x forged x tls
	for _, th := range tlsHeaders[2:] {
		for mode := 0; mode < 4; mode++ {
			for _, forgedV := range []string{"", "true", "x"} {
				cfg := genCfg(r)
				cfg.TLSHeader, cfg.TLSHeaderValue = th, "true"
				q := genReq(r, &cfg, mode, 10)
				q.Hdr.Del(th)
				if forgedV != "" {
					q.Hdr.Add(strings.ToLower(th), forgedV)
				}
				addCase("add-tlsheader-forged", cfg, q, "")
			}
		}
	}
	// directed: X-Forwarded-For present-with-nil (what the stdlib treats as "do not populate"), websocket
	for i := 0; i < 6; i++ {
		cfg := genCfg(r)
		q := genReq(r, &cfg, modeWS+i%2, 30)
		q.Hdr.Set("Upgrade", "websocket")
		q.Hdr["X-Forwarded-For"] = nil
		addCase("add-xff-nil", cfg, q, "")
	}
	// bad RemoteAddr
	for _, ra := range badRemotes {
		cfg := genCfg(r)
		q := genReq(r, &cfg, r.Intn(4), 40)
		q.RemoteAddr = ra
		addCase("add-bad-remoteaddr", cfg, q, "")
	}
	q0 := &reqT{RemoteAddr: ":80", Host: "a", Proto: "HTTP/1.1", Hdr: http.Header{}}
	addCase("add-empty-peer", config.Proxy{ClientIPHeader: "X-Client-Ip"}, q0, "")
	// configurations whose header names collide with managed ones (model must agree; no clause is judged)
	for _, name := range oddConfigs {
		for k := 0; k < 3; k++ {
			cfg := genCfg(r)
			switch k {
			case 0:
				cfg.ClientIPHeader = name
			case 1:
				cfg.TLSHeader, cfg.TLSHeaderValue = name, "true"
			case 2:
				cfg.ClientIPHeader, cfg.TLSHeader = "X-Same", "x-same"
			}
			mode := r.Intn(4)
			addCase("add-odd-config", cfg, genReq(r, &cfg, mode, 50), "")
		}
	}

	// 4. end to end through HTTPProxy.ServeHTTP
	serveCase := func(class string, cfg config.Proxy, q *reqT, t *targetT) {
		impl, up, sts, code, uhost := implServe(q, cfg, t, ws)
		if impl == vh.Panic {
			run.Violation(run.NextID(), "ServeHTTP panicked", project(q.Hdr, &cfg))
		}
		run.Add(class, vh.App("CServe", coqCfg(&cfg), coqTarget(t), s(theUUID), coqReq(q), impl, s(uhost), coqStrList(t.UpSTS), "false"),
			map[string]interface{}{"fn": "HTTPProxy.ServeHTTP", "cfg": cfgSample(&cfg), "remote": q.RemoteAddr, "host": q.Host, "tls": q.TLS, "host_opt": t.HostOpt, "strip": t.Strip,
				"client": project(q.Hdr, &cfg), "upstream": project(up, &cfg), "upstream_host": uhost, "sts": sts, "upstream_sts": t.UpSTS, "status": code})
	}
	genTarget := func(mode int) *targetT {
		t := &targetT{URLHost: "upstream.internal:9000", CoqURLHost: "upstream.internal:9000", Strip: pick(r, []string{"", "", "", "/foo"})}
		if mode == modeWS || mode == modeWSS {
			t.URLHost, t.CoqURLHost = ws.ln.Addr().String(), "loopback-upstream"
		} else if r.Intn(5) == 0 {
			// the upstream's own response carries Strict-Transport-Security (passed through, not fabio's)
			t.UpSTS = [][]string{{"max-age=99"}, {"max-age=1; preload", "max-age=2"}}[r.Intn(2)]
		}
		switch r.Intn(6) {
		case 0:
			// host=dst on websocket too: since 7dd13e1 the rewritten Host no longer reaches a managed header,
			// and the run-dependent loopback address is mapped to CoqURLHost where the upstream Host is observed
			t.HostOpt = "dst"
		case 1:
			t.HostOpt = pick(r, []string{"backend.internal", "backend.internal:8500", "other:1"})
		case 2:
			t.HostOpt = q0.Host // no-op rewrite to some fixed name
		}
		return t
	}
	for i := 0; i < run.Scale(1400, 15000); i++ {
		cfg := genCfg(r)
		mode := []int{modePlain, modePlain, modeTLS, modeTLS, modeWS, modeWSS}[r.Intn(6)]
		q := genReq(r, &cfg, mode, []int{0, 30, 60, 90}[r.Intn(4)])
		t := genTarget(mode)
		if (mode == modeWS || mode == modeWSS) && q.Hdr.Get("Upgrade") != "websocket" && q.Hdr.Get("Upgrade") != "Websocket" {
			// (a managed header named Upgrade cannot be configured here; defensive)
			run.Exclude("websocket mode without websocket upgrade")
			continue
		}
		serveCase("serve-"+modeNames[mode], cfg, q, t)
	}
	// directed: every Upgrade spelling with and without a forged X-Forwarded-For.  "websocket" and
	// "Websocket" go to the websocket handler (addHeaders must append the peer: F-C08-2, repaired by
	// afbb806); "WebSocket", "WEBSOCKET", ... go through httputil.ReverseProxy, which appends it.
	for i := 0; i < run.Scale(40, 320); i++ {
		cfg := genCfg(r)
		sp := []string{"Websocket", "websocket", "WebSocket", "WEBSOCKET"}[(i/2)%4]
		mode := []int{modeWS, modeWSS}[i%2]
		if sp != "Websocket" && sp != "websocket" {
			mode = []int{modePlain, modeTLS}[i%2] // stub transport behind ReverseProxy
		}
		q := genReq(r, &cfg, mode, 30)
		q.Hdr.Set("Upgrade", sp)
		if q.Hdr.Get("Connection") == "" {
			q.Hdr.Set("Connection", "Upgrade")
		}
		if i%3 == 0 {
			q.Hdr.Del("X-Forwarded-For")
		} else if q.Hdr.Get("X-Forwarded-For") == "" {
			q.Hdr.Add("X-Forwarded-For", "6.6.6.6")
		}
		serveCase("serve-upgrade-spelling", cfg, q, genTarget(mode))
		addCase("add-upgrade-spelling", cfg, q, "")
	}
	for i := 0; i < run.Scale(40, 300); i++ {
		cfg := genCfg(r)
		mode := i % 4
		q := genReq(r, &cfg, mode, 20)
		q.Hdr.Del("X-Forwarded-Host")
		q.Hdr.Del("X-Forwarded-Port")
		t := genTarget(mode)
		t.HostOpt = pick(r, []string{"backend.internal", "backend.internal:8500", "dst"})
		serveCase("serve-host-option", cfg, q, t)
	}
	// live class: the client names managed headers in Connection (F-C08-4, repaired by 216337c:
	// addHeaders removes such tokens, so ReverseProxy's hop-by-hop deletion drops nothing fabio set).
	// Token case / blanks / empty tokens / several values / only-managed values / X-Forwarded-For
	// tokens (not unlisted unless it is the configured client-IP header; the peer must still be last).
	for i := 0; i < run.Scale(160, 1500); i++ {
		cfg := genCfg(r)
		if cfg.ClientIPHeader == "" && i%3 != 0 {
			cfg.ClientIPHeader = pick(r, clientIPHeaders[2:])
		}
		mode := i % 4 // websocket requests too: Connection is rewritten there as well, nothing is dropped
		q := genReq(r, &cfg, mode, 20)
		up := q.Hdr.Values("Upgrade")
		q.Hdr.Del("Connection")
		managed := managedNames(&cfg)
		mixed := append(append([]string{}, managed...), "close", "keep-alive", "X-Other", "TE", "Upgrade", "X-Forwarded-For")
		switch i % 6 {
		case 0: // one value, only managed tokens: the header disappears
			q.Hdr.Add("Connection", connValue(r, managed, 1+r.Intn(3)))
		case 1: // managed and unmanaged tokens in one value
			q.Hdr.Add("Connection", connValue(r, mixed, 2+r.Intn(4)))
		case 2: // several values, one of them only managed (dropped), the others kept verbatim
			q.Hdr.Add("Connection", connValue(r, []string{"close", "keep-alive", "X-Other"}, 1+r.Intn(2)))
			q.Hdr.Add("Connection", connValue(r, managed, 1+r.Intn(2)))
			q.Hdr.Add("Connection", connValue(r, mixed, 1+r.Intn(3)))
		case 3: // nothing managed listed: header must stay untouched (blanks and all)
			q.Hdr.Add("Connection", connValue(r, []string{"close", "keep-alive", "X-Other", "X-Forwarded-For", "x-forwarded-for"}, 1+r.Intn(3)))
		case 4: // X-Forwarded-For named together with a forged X-Forwarded-For
			q.Hdr.Add("Connection", connValue(r, []string{"X-Forwarded-For", "X-Real-Ip", "keep-alive"}, 1+r.Intn(3)))
			if q.Hdr.Get("X-Forwarded-For") == "" {
				q.Hdr.Add("X-Forwarded-For", "6.6.6.6")
			}
		case 5: // the same name repeated, empty value among the values
			n := pick(r, managed)
			q.Hdr.Add("Connection", n+","+strings.ToLower(n)+" , "+strings.ToUpper(n))
			q.Hdr.Add("Connection", "")
		}
		if mode >= modeWS {
			q.Hdr.Add("Connection", "Upgrade")
		} else if len(up) > 0 && r.Intn(2) == 0 {
			q.Hdr.Add("Connection", "upgrade")
		}
		serveCase("serve-connection-lists-managed", cfg, q, genTarget(mode))
		addCase("add-connection-lists-managed", cfg, q, pick(r, []string{"", "/foo"}))
	}
	// live class: X-Real-Ip (any spelling) as the configured client-IP header with a forged
	// X-Real-Ip (F-C08-3, repaired by 35aa11b)
	for i := 0; i < run.Scale(48, 400); i++ {
		cfg := genCfg(r)
		cfg.ClientIPHeader = []string{"X-Real-Ip", "x-real-ip", "X-Real-IP", "X-REAL-IP"}[i%4]
		mode := (i / 4) % 4
		q := genReq(r, &cfg, mode, 20)
		q.Hdr.Del("X-Real-Ip")
		switch (i / 16) % 3 {
		case 0:
			q.Hdr.Add("X-Real-Ip", "6.6.6.6")
		case 1:
			q.Hdr.Add("x-real-ip", "6.6.6.6")
			q.Hdr.Add("X-REAL-IP", "7.7.7.7")
		}
		serveCase("serve-clientip-xrealip", cfg, q, genTarget(mode))
		addCase("add-clientip-xrealip", cfg, q, "")
	}
	for i := 0; i < run.Scale(12, 60); i++ {
		cfg := genCfg(r)
		mode := i % 4
		q := genReq(r, &cfg, mode, 30)
		q.Hdr["X-Forwarded-For"] = nil
		serveCase("serve-xff-nil", cfg, q, genTarget(mode))
	}
	for _, ra := range badRemotes {
		cfg := genCfg(r)
		mode := r.Intn(4)
		q := genReq(r, &cfg, mode, 40)
		q.RemoteAddr = ra
		serveCase("serve-bad-remoteaddr", cfg, q, genTarget(mode))
	}
	// live class (OPEN findings F-C08-6 / F-C08-7): the client sends ONLY Forwarded, or ONLY
	// X-Forwarded-Proto, on plain and on TLS connections, with values that agree / disagree with the
	// connection, with and without a proto= item
	for i := 0; i < run.Scale(96, 800); i++ {
		cfg := genCfg(r)
		mode := i % 4
		q := genReq(r, &cfg, mode, 10)
		q.Hdr.Del("Forwarded")
		q.Hdr.Del("X-Forwarded-Proto")
		class := "forwarded-only"
		if (i/4)%2 == 0 {
			q.Hdr.Add(randCase(r, "Forwarded"), pick(r, []string{"for=9.9.9.9; proto=https", "for=9.9.9.9;proto=http", "proto=wss", "proto=ws;by=x", "for=9.9.9.9", "by=1.1.1.1;for=x", "proto=", "PROTO=https", "for=a;xproto=https", "proto=ftp; for=b"}))
		} else {
			class = "xfp-only"
			q.Hdr.Add(randCase(r, "X-Forwarded-Proto"), pick(r, []string{"https", "http", "ws", "wss", "ftp", "HTTPS"}))
		}
		serveCase("serve-"+class, cfg, q, genTarget(mode))
		addCase("add-"+class, cfg, q, "")
	}

	// real connections: net/http server on a loopback listener (plain, TLS 1.2 / 1.3) in front of the
	// real HTTPProxy, raw-bytes client: duplicated and differently-cased header lines, IPv6 Host values,
	// HTTP/1.0 without Host, websocket upgrades, upstream responses with their own STS
	plainFront, tlsFront := newRealFront(false), newRealFront(true)
	defer plainFront.ln.Close()
	defer tlsFront.ln.Close()
	realHosts := []string{"example.com", "example.com:8080", "[::1]:8443", "[2001:db8::2]", "[fe80::1%25eth0]:443", "a:b:c", "host:", ":80", "Example.COM", "1.2.3.4:0080"}
	for i := 0; i < run.Scale(160, 1500); i++ {
		cfg := genCfg(r)
		mode := []int{modePlain, modeTLS, modePlain, modeTLS, modeWS, modeWSS}[i%6]
		front, tlsMax := plainFront, uint16(0)
		if mode == modeTLS || mode == modeWSS {
			front, tlsMax = tlsFront, []uint16{tls.VersionTLS12, tls.VersionTLS13}[(i/6)%2]
		}
		gen := genHdr(r, &cfg, mode, []int{30, 60, 90}[r.Intn(3)])
		var lines [][2]string
		keys := make([]string, 0, len(gen))
		for k := range gen {
			keys = append(keys, k)
		}
		sort.Strings(keys)
		for _, k := range keys {
			for _, v := range gen[k] {
				if k == "Upgrade" && mode < modeWS && strings.EqualFold(strings.TrimSpace(v), "websocket") && len(strings.TrimSpace(v)) == 9 && (strings.TrimSpace(v) == "websocket" || strings.TrimSpace(v) == "Websocket") {
					v = "h2c" // the server trims blanks: "websocket " would take the websocket path, whose upstream only exists in ws modes
				}
				lines = append(lines, [2]string{k, v})
			}
		}
		r.Shuffle(len(lines), func(a, b int) { lines[a], lines[b] = lines[b], lines[a] })
		host := pick(r, realHosts)
		proto, hp := "HTTP/1.1", &host
		if i%17 == 0 && mode < modeWS {
			proto, hp = "HTTP/1.0", nil // no Host line at all: r.Host == ""
		}
		t := genTarget(mode)
		res := realServe(front, rawRequest(r, proto, hp, lines), tlsMax, cfg, t, ws)
		if res.seen == nil {
			run.Exclude(fmt.Sprintf("net/http server answered %d itself", res.code))
			continue
		}
		if res.panicked {
			run.Violation(run.NextID(), "ServeHTTP panicked (real connection)", project(res.seen.Hdr, &cfg))
		}
		run.Add("real-"+modeNames[mode], vh.App("CServe", coqCfg(&cfg), coqTarget(t), s(theUUID), coqReq(res.seen), res.coq, s(res.uhost), coqStrList(t.UpSTS), "true"),
			map[string]interface{}{"fn": "http.Server -> HTTPProxy.ServeHTTP", "cfg": cfgSample(&cfg), "remote_host_part": func() string { h, _ := peerOf(res.seen.RemoteAddr); return h }(), "host": res.seen.Host, "tls": res.seen.TLS, "proto": res.seen.Proto, "host_opt": t.HostOpt,
				"client": project(res.seen.Hdr, &cfg), "upstream": project(res.up, &cfg), "upstream_host": res.uhost, "sts": res.sts, "upstream_sts": t.UpSTS, "status": res.code})
	}
	// header LINES with empty / blank X-Forwarded-For values, to the upstream's end of the wire
	// through a real http.Transport / the websocket handler (lines.go; a rand source of its own)
	runLineClasses(run, ws, plainFront, tlsFront, addCase, serveCase)
	// the same forwarding paths behind the REAL routing stage: Table.Lookup of a route.NewTable table,
	// AccessDeniedHTTP, Authorized (routed.go; a rand source of its own)
	runRoutedClasses(run, ws, plainFront, tlsFront)
	run.Notes["websocket_upstream"] ="loopback listener, one connection per websocket case"
	run.Notes["real_connections"] = "net/http server on loopback (plain and TLS), raw-bytes client; r.TLS / RemoteAddr / Host / header canonicalisation from net/http"
	run.Finish(preamble, run.Scale(140, 600))
}
