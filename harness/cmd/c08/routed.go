// C08, THROUGH THE ROUTING STAGE: HTTPProxy.Lookup is the real Table.Lookup of a routing table
// built by route.NewTable from route commands -- several hosts, glob host patterns, redirect
// routes in front of a fall-through route (a redirect to the request's own URL is skipped and
// the next host is tried), allow= / deny= rules (AccessDeniedHTTP reads the client's
// X-Forwarded-For lines), auth=, host= and strip= options -- wired exactly as main.go wires it,
// followed by the real AccessDeniedHTTP / Authorized of the picked target.  The request is
// snapshotted as the client sent it BEFORE ServeHTTP runs; the decision the routing stage took
// (no route / denied / unauthorized / redirect / target) is observed and passed to the model
// (Model/HeadersRouted.v serve_routed), which says what the upstream must be told about the
// client's own request.  Two forwarding paths: in process (recording transport behind
// httputil.ReverseProxy / scripted hijack for websocket) with peers from the address pool, and
// real connections (net/http server, raw-bytes client, real http.Transport / websocket handler,
// loopback upstream reading the lines).  All random choices come from a source of this file's own.
package main

import (
	"bufio"
	"bytes"
	"crypto/tls"
	"fmt"
	"io"
	"log"
	"math/rand"
	"net"
	"net/http"
	"net/http/httptest"
	"strings"
	"time"

	"github.com/fabiolb/fabio/auth"
	"github.com/fabiolb/fabio/proxy"
	"github.com/fabiolb/fabio/route"

	"verifharness/internal/vh"
)

// tokAuth: the auth scheme "tok" of the routed classes (reads the Authorization header only)
type tokAuth struct{}

func (tokAuth) Authorized(r *http.Request, w http.ResponseWriter) bool {
	return r.Header.Get("Authorization") == "Bearer ok"
}

// lookupRec is HTTPProxy.Lookup as main.go builds it, recording what the table returned.
type lookupRec struct {
	tbl     route.Table
	gc      *route.GlobCache
	globOff bool
	picker  string
	called  bool
	picked  *route.Target
}

func (l *lookupRec) fn(r *http.Request) *route.Target {
	t := l.tbl.Lookup(r, r.Header.Get("trace"), route.Picker[l.picker], route.Matcher["prefix"], l.gc, l.globOff)
	l.called, l.picked = true, t
	return t
}

// decide reads the routing stage's decision off what was observed.
func decide(l *lookupRec, contacted bool, code int, loop string) (coq, name string) {
	t := l.picked
	switch {
	case t == nil:
		return "DNoRoute", "no-route"
	case !contacted && code == http.StatusForbidden:
		return "DDenied", "denied"
	case !contacted && code == http.StatusUnauthorized:
		return "DUnauthorized", "unauthorized"
	case !contacted && t.RedirectCode != 0:
		return "DRedirect", "redirect"
	}
	uh := ""
	if t.URL != nil {
		uh = t.URL.Host
	}
	if uh == loop {
		uh = "loopback-upstream"
	}
	return "(DProxy " + coqTarget(&targetT{HostOpt: t.Host, CoqURLHost: uh, Strip: t.StripPath}) + ")", "proxy"
}

var routedShapes = []string{"access", "host-access", "redirect-fallthrough", "multi-host"}
var routedHosts = []string{"shop.example.com", "shop.example.com:443", "shop.example.com:80", "SHOP.Example.com:443", "api.example.com:8080",
	"api.example.com", "other.org", "other.org:443", "other.org:80", "unrouted.test:443", "example.com:80"}
var routedPatterns = []string{"*", "shop.example.com", "shop.example.com:443", "*.example.com", "*.example.com:443", "other.org", "*:80", "*:443", "*.org:80"}

// accessOpt: an allow= / deny= option for a client at peer (admitting or denying it, or depending
// on the elements of its X-Forwarded-For)
func accessOpt(rr *rand.Rand, peer string, k int) string {
	wide := "0.0.0.0/0"
	if strings.Contains(peer, ":") {
		wide = "::/0"
	}
	switch k % 9 {
	case 0:
		return "allow=ip:" + peer
	case 1:
		return "allow=ip:192.0.2.0/24,ip:" + peer
	case 2:
		return "deny=ip:192.0.2.0/24"
	case 3:
		return "allow=ip:" + wide
	case 4:
		return "deny=ip:6.6.6.6" // denied iff the client's X-Forwarded-For names 6.6.6.6
	case 5:
		return "deny=ip:" + peer
	case 6:
		return "allow=ip:192.0.2.0/24"
	case 7:
		return "allow=ip:" + wide + ",ip:2001:db8::/32,ip:10.0.0.0/8"
	}
	return "deny=ip:198.51.100.7,ip:192.0.2.9"
}

func proxyOpts(rr *rand.Rand, access string) string {
	var o []string
	if access != "" {
		o = append(o, access)
	}
	switch rr.Intn(6) {
	case 0:
		o = append(o, "host=dst")
	case 1:
		o = append(o, "host="+pick(rr, []string{"backend.internal", "backend.internal:8500"}))
	}
	if rr.Intn(4) == 0 {
		o = append(o, "strip=/foo")
	}
	if rr.Intn(10) == 0 {
		o = append(o, "auth=tok")
	}
	if len(o) == 0 {
		return ""
	}
	return " opts \"" + strings.Join(o, " ") + "\""
}

// genTable writes the route commands of one table.  upstream = host:port every proxy route points to.
func genTable(rr *rand.Rand, shape int, upstream, peer, reqHost string, k int) string {
	var b strings.Builder
	norm := strings.ToLower(reqHost)
	bare := strings.TrimSuffix(strings.TrimSuffix(norm, ":443"), ":80")
	hostPat := func() string {
		switch rr.Intn(5) {
		case 0:
			return norm
		case 1:
			return bare
		}
		return pick(rr, routedPatterns)
	}
	proxyRoute := func(svc, pat, access string) {
		fmt.Fprintf(&b, "route add %s %s/ http://%s/%s\n", svc, pat, upstream, proxyOpts(rr, access))
	}
	redirectRoute := func(pat string) {
		to := pick(rr, []string{"https://$host$path", "https://$host$path", "http://$host$path", "https://$host/foo/bar", "https://shop.example.com$path", "https://elsewhere.test/"})
		fmt.Fprintf(&b, "route add tohttps %s/ %s opts \"redirect=%s\"\n", pat, to, pick(rr, []string{"301", "302", "308"}))
	}
	switch shape {
	case 0: // one host-less route with access rules
		proxyRoute("app", "", accessOpt(rr, peer, k))
		if rr.Intn(4) == 0 { // a second service on the same route: two targets, the picker chooses
			proxyRoute("app2", "", accessOpt(rr, peer, k+3))
		}
	case 1: // a host route with access rules, in front of an open (or absent) host-less one
		proxyRoute("guarded", hostPat(), accessOpt(rr, peer, k))
		if rr.Intn(3) != 0 {
			proxyRoute("app", "", "")
		}
	case 2: // redirect route on a host pattern, host-less route behind it
		redirectRoute(hostPat())
		acc := ""
		if rr.Intn(2) == 0 {
			acc = accessOpt(rr, peer, k)
		}
		if rr.Intn(6) != 0 {
			proxyRoute("app", "", acc)
		}
	default: // several hosts: redirects, guarded and open routes, host-less fall-back
		pats := append([]string{}, routedPatterns...)
		rr.Shuffle(len(pats), func(i, j int) { pats[i], pats[j] = pats[j], pats[i] })
		pats = append(pats[:2+rr.Intn(3)], norm, bare)
		seen := map[string]bool{}
		for i, p := range pats {
			if seen[p] || (p == norm || p == bare) && rr.Intn(2) == 0 {
				continue
			}
			seen[p] = true
			switch rr.Intn(3) {
			case 0:
				redirectRoute(p)
			case 1:
				proxyRoute(fmt.Sprintf("svc%d", i), p, accessOpt(rr, peer, k+i))
			default:
				proxyRoute(fmt.Sprintf("svc%d", i), p, "")
			}
		}
		if rr.Intn(4) != 0 {
			proxyRoute("app", "", "")
		}
	}
	return b.String()
}

// routedTweak shapes the client's request for the routing stage: Host with / without the default
// port, X-Forwarded-For naming only the peer / foreign hops, X-Forwarded-Proto agreeing or not.
func routedTweak(rr *rand.Rand, q *reqT, peer string, i int) {
	q.Host = routedHosts[rr.Intn(len(routedHosts))]
	switch i % 7 {
	case 0:
		q.Hdr.Del("X-Forwarded-For")
	case 1:
		q.Hdr["X-Forwarded-For"] = []string{peer}
	case 2:
		q.Hdr["X-Forwarded-For"] = []string{peer, peer}
	case 3:
		q.Hdr["X-Forwarded-For"] = []string{peer + ", " + peer}
	case 4:
		q.Hdr["X-Forwarded-For"] = []string{pick(rr, []string{"6.6.6.6", "10.0.0.7", "192.0.2.1"}), peer}
	case 5:
		q.Hdr["X-Forwarded-For"] = []string{peer, pick(rr, []string{"6.6.6.6", "unknown", "203.0.113.9, " + peer})}
	}
	switch (i / 7) % 4 {
	case 0:
		q.Hdr.Del("X-Forwarded-Proto")
	case 1:
		q.Hdr["X-Forwarded-Proto"] = []string{"https"}
	case 2:
		q.Hdr["X-Forwarded-Proto"] = []string{"http"}
	}
	if rr.Intn(3) != 0 { // mostly let fabio supply host and port
		q.Hdr.Del("X-Forwarded-Host")
		q.Hdr.Del("X-Forwarded-Port")
	}
	if rr.Intn(8) == 0 {
		q.Hdr["Authorization"] = []string{pick(rr, []string{"Bearer ok", "Bearer no"})}
	}
}

// frontServe sends raw over a fresh connection to the front; p serves it.  collect returns what
// the upstream received (nil: not contacted).
func frontServe(f *realFront, raw []byte, tlsMax uint16, p *proxy.HTTPProxy, collect func(code int) (http.Header, string)) realResult {
	var res realResult
	done := make(chan struct{})
	f.mu.Lock()
	f.h = http.HandlerFunc(func(w http.ResponseWriter, r *http.Request) {
		defer close(done)
		q := &reqT{RemoteAddr: r.RemoteAddr, Host: r.Host, Proto: r.Proto, Hdr: r.Header.Clone()}
		if q.Hdr == nil {
			q.Hdr = http.Header{}
		}
		if r.TLS != nil {
			q.TLS = &tlsT{Version: r.TLS.Version, Cipher: r.TLS.CipherSuite}
		}
		res.seen = q
		if pn, _ := vh.Recover(func() { p.ServeHTTP(w, r) }); pn {
			res.panicked = true
		}
	})
	f.mu.Unlock()
	var c net.Conn
	var err error
	if f.isTLS {
		c, err = tls.Dial("tcp", f.ln.Addr().String(), &tls.Config{InsecureSkipVerify: true, MinVersion: tls.VersionTLS12, MaxVersion: tlsMax,
			CipherSuites: []uint16{tls.TLS_ECDHE_ECDSA_WITH_AES_128_GCM_SHA256}})
	} else {
		c, err = net.Dial("tcp", f.ln.Addr().String())
	}
	if err != nil {
		panic(err)
	}
	defer c.Close()
	c.SetDeadline(time.Now().Add(5 * time.Second))
	if _, err := c.Write(raw); err != nil {
		return res
	}
	resp, err := http.ReadResponse(bufio.NewReader(c), nil)
	if err == nil {
		res.code = resp.StatusCode
		res.sts = resp.Header["Strict-Transport-Security"]
	}
	c.Close()
	select {
	case <-done:
	case <-time.After(3 * time.Second):
		if res.seen != nil {
			panic("handler did not finish")
		}
		return res // the server answered itself
	}
	if res.panicked {
		res.coq = vh.Panic
		return res
	}
	res.up, res.uhost = collect(res.code)
	if res.up == nil {
		res.coq = vh.Err(0)
		return res
	}
	res.coq = vh.Ok(vh.Pair(coqHdr(res.up), coqStrList(res.sts)))
	return res
}

func runRoutedClasses(run *vh.Run, ws *wsUpstream, plainFront, tlsFront *realFront) {
	rr := rand.New(rand.NewSource(run.Seed*7927 + 9))
	oldLog := log.Writer()
	log.SetOutput(io.Discard) // the route package logs every access decision
	defer log.SetOutput(oldLog)
	schemes := map[string]auth.AuthScheme{"tok": tokAuth{}}
	gc := route.NewGlobCache(1000)

	newLookup := func(text string) *lookupRec {
		tbl, err := route.NewTable(bytes.NewBufferString(text))
		if err != nil {
			panic(fmt.Sprintf("routed: table does not parse: %v\n%s", err, text))
		}
		return &lookupRec{tbl: tbl, gc: gc, globOff: rr.Intn(6) == 0, picker: pick(rr, []string{"rr", "rnd"})}
	}

	// ---- A. in process: peers from the address pool ----
	for i := 0; i < run.Scale(420, 4200); i++ {
		cfg := genCfg(rr)
		mode := []int{modePlain, modeTLS, modePlain, modeTLS, modeWS, modeWSS}[rr.Intn(6)]
		shape := i % len(routedShapes)
		q := genReq(rr, &cfg, mode, []int{0, 30, 60}[rr.Intn(3)])
		peer, _ := peerOf(q.RemoteAddr)
		routedTweak(rr, q, peer, i/len(routedShapes))
		upstream, loop := "upstream.internal:9000", ""
		if mode >= modeWS {
			upstream, loop = ws.ln.Addr().String(), ws.ln.Addr().String()
		}
		text := genTable(rr, shape, upstream, peer, q.Host, i/len(routedShapes)+i/29)
		lk := newLookup(text)
		var upSTS []string
		if mode < modeWS && rr.Intn(5) == 0 {
			upSTS = [][]string{{"max-age=99"}, {"max-age=1; preload", "max-age=2"}}[rr.Intn(2)]
		}
		tr := &recordingTransport{sts: upSTS}
		p := &proxy.HTTPProxy{Config: cfg, Transport: tr, UUID: func() string { return theUUID }, Lookup: lk.fn, AuthSchemes: schemes}
		w := &hijackRecorder{ResponseRecorder: httptest.NewRecorder()}
		r := q.httpRequest() // a copy: q stays the request as the client sent it
		for len(ws.got) > 0 {
			<-ws.got
		}
		pn, _ := vh.Recover(func() { p.ServeHTTP(w, r) })
		var up http.Header
		uhost := ""
		tr.mu.Lock()
		if len(tr.got) > 0 {
			up, uhost = tr.got[0], tr.host[0]
		}
		tr.mu.Unlock()
		if up == nil && !pn {
			select {
			case o := <-ws.got:
				if o != nil {
					up, uhost = o.hdr, o.host
				}
			default:
			}
		}
		if loop != "" && uhost == loop {
			uhost = "loopback-upstream"
		}
		sts := w.Header()["Strict-Transport-Security"]
		impl := vh.Err(0)
		switch {
		case pn:
			impl = vh.Panic
			run.Violation(run.NextID(), "ServeHTTP panicked (routed)", project(q.Hdr, &cfg))
		case up != nil:
			impl = vh.Ok(vh.Pair(coqHdr(up), coqStrList(sts)))
		}
		d, dname := decide(lk, up != nil, w.Code, loop)
		run.Add("routed-"+routedShapes[shape], vh.App("CRouted", coqCfg(&cfg), d, s(theUUID), coqReq(q), impl, s(uhost), coqStrList(upSTS), "false"),
			map[string]interface{}{"fn": "HTTPProxy.ServeHTTP with Lookup = route.NewTable(...).Lookup", "table": strings.Split(strings.TrimSpace(text), "\n"), "decision": dname,
				"cfg": cfgSample(&cfg), "mode": modeNames[mode], "remote": q.RemoteAddr, "host": q.Host, "tls": q.TLS, "glob_disabled": lk.globOff,
				"client": project(q.Hdr, &cfg), "upstream": project(up, &cfg), "upstream_host": uhost, "sts": sts, "upstream_sts": upSTS, "status": w.Code})
	}

	// ---- B. real connections, real transport: the peer is the loopback address ----
	wup := newWireUpstream()
	defer wup.ln.Close()
	loop := wup.ln.Addr().String()
	const peer = "127.0.0.1"
	for i := 0; i < run.Scale(168, 1400); i++ {
		cfg := genCfg(rr)
		mode := i % 4
		shape := (i / 4) % len(routedShapes)
		front, tlsMax := plainFront, uint16(0)
		if mode == modeTLS || mode == modeWSS {
			front, tlsMax = tlsFront, []uint16{tls.VersionTLS12, tls.VersionTLS13}[(i/16)%2]
		}
		// header lines: the client's X-Forwarded-For names only the peer (one line, two lines, one
		// list), foreign hops, nothing; X-Forwarded-Proto agreeing / disagreeing / absent
		var ls []rawLine
		add := func(name, v string) {
			ls = append(ls, rawLine{randCase(rr, name), pick(rr, []string{"", " ", "  "}) + v + pick(rr, []string{"", "", " "})})
		}
		xffPat := (i / 16) % 6
		switch xffPat {
		case 1:
			add("X-Forwarded-For", peer)
		case 2:
			add("X-Forwarded-For", peer)
			add("X-Forwarded-For", peer)
		case 3:
			add("X-Forwarded-For", peer+" , "+peer)
		case 4:
			add("X-Forwarded-For", pick(rr, []string{"6.6.6.6", "10.0.0.7"}))
			add("X-Forwarded-For", peer)
		case 5:
			add("X-Forwarded-For", peer+", "+pick(rr, []string{"6.6.6.6", "unknown"}))
		}
		switch rr.Intn(4) {
		case 0:
			add("X-Forwarded-Proto", "https")
		case 1:
			add("X-Forwarded-Proto", "http")
		}
		if rr.Intn(2) == 0 {
			add("Accept", "*/*")
		}
		if rr.Intn(6) == 0 {
			add("X-Real-Ip", pick(rr, []string{"6.6.6.6", ""}))
		}
		if rr.Intn(6) == 0 {
			add("X-Forwarded-Host", "evil.example")
		}
		if rr.Intn(6) == 0 {
			add("Forwarded", pick(rr, []string{"for=9.9.9.9", "for=9.9.9.9; proto=https"}))
		}
		if cfg.ClientIPHeader != "" && rr.Intn(4) == 0 {
			add(cfg.ClientIPHeader, "6.6.6.6")
		}
		if rr.Intn(8) == 0 {
			add("Authorization", pick(rr, []string{"Bearer ok", "Bearer no"}))
		}
		if mode >= modeWS {
			add("Upgrade", pick(rr, []string{"websocket", "websocket", "Websocket"}))
			add("Connection", "Upgrade")
		}
		rr.Shuffle(len(ls), func(a, b int) { ls[a], ls[b] = ls[b], ls[a] })
		host := routedHosts[rr.Intn(len(routedHosts))]
		text := genTable(rr, shape, loop, peer, host, i/16+i/5)
		lk := newLookup(text)
		var upSTS []string
		if mode < modeWS && rr.Intn(5) == 0 {
			upSTS = [][]string{{"max-age=99"}, {"max-age=1; preload", "max-age=2"}}[rr.Intn(2)]
		}
		wup.mu.Lock()
		wup.sts = upSTS
		wup.mu.Unlock()
		tr := &http.Transport{DisableKeepAlives: true}
		p := &proxy.HTTPProxy{Config: cfg, Transport: tr, UUID: func() string { return theUUID }, Lookup: lk.fn, AuthSchemes: schemes}
		for len(wup.got) > 0 {
			<-wup.got
		}
		res := frontServe(front, renderLines("HTTP/1.1", host, ls), tlsMax, p, func(code int) (http.Header, string) {
			wait := 2 * time.Second
			if lk.picked == nil || code/100 == 3 || code/100 == 4 || code == 500 {
				wait = 20 * time.Millisecond // fabio answered itself (an upstream answers 200 / 101 here)
			}
			select {
			case o := <-wup.got:
				if o != nil {
					return o.hdr, o.host
				}
			case <-time.After(wait):
			}
			return nil, ""
		})
		tr.CloseIdleConnections()
		if res.seen == nil {
			run.Exclude(fmt.Sprintf("net/http server answered %d itself", res.code))
			continue
		}
		if res.panicked {
			run.Violation(run.NextID(), "ServeHTTP panicked (routed, real connection)", project(res.seen.Hdr, &cfg))
		}
		if res.uhost == loop {
			res.uhost = "loopback-upstream"
		}
		var written []string
		for _, l := range ls {
			written = append(written, l.Name+":"+l.Raw)
		}
		d, dname := decide(lk, res.up != nil, res.code, loop)
		run.Add("routed-wire-"+routedShapes[shape], vh.App("CRoutedWire", coqCfg(&cfg), d, s(theUUID), coqReq(res.seen), coqLines(ls), res.coq, s(res.uhost), coqStrList(upSTS)),
			map[string]interface{}{"fn": "http.Server -> HTTPProxy.ServeHTTP (Lookup = real table) -> http.Transport / ws handler -> upstream socket", "table": strings.Split(strings.TrimSpace(text), "\n"),
				"decision": dname, "cfg": cfgSample(&cfg), "mode": modeNames[mode], "lines": written, "host": res.seen.Host, "tls": res.seen.TLS, "glob_disabled": lk.globOff,
				"client": project(res.seen.Hdr, &cfg), "upstream": project(res.up, &cfg), "upstream_host": res.uhost, "sts": res.sts, "upstream_sts": upSTS, "status": res.code})
	}
	run.Notes["routing_stage"] = "HTTPProxy.Lookup = Table.Lookup of a route.NewTable table (hosts, globs, redirect + fall-through, allow=/deny=, auth=, host=, strip=); the request is snapshotted before ServeHTTP, the routing decision is observed"
}
