// Correspondence harness for C10 (SNI extraction): runs the real
// clientHelloBufferSize / readServerName / SNIProxy.ServeTCP of /repo and the
// crypto/tls server-side parser on generated ClientHellos, truncations and
// corruptions, and writes the cases for the Coq model to judge.
package main

import (
	"bytes"
	"crypto/ecdsa"
	"crypto/elliptic"
	crand "crypto/rand"
	"crypto/tls"
	"crypto/x509"
	"crypto/x509/pkix"
	"errors"
	"fmt"
	"io"
	"math/big"
	"math/rand"
	"net"
	"net/url"
	"strings"
	"sync"
	"time"

	gkm "github.com/go-kit/kit/metrics"

	"github.com/fabiolb/fabio/proxy/tcp"
	"github.com/fabiolb/fabio/route"

	"verifharness/internal/vh"
)

const preamble = `From Coq Require Import List NArith String.
From Fabio Require Import Lib.Outcome Lib.Bytes Lib.Pack Model.ClientHello Check.C10.
Import ListNotations.
Local Open Scope N_scope.
`

// ---------- scripted connection ----------
type scriptConn struct {
	segs [][]byte
	out  bytes.Buffer
}

func (c *scriptConn) Read(p []byte) (int, error) {
	for len(c.segs) > 0 && len(c.segs[0]) == 0 {
		c.segs = c.segs[1:]
	}
	if len(c.segs) == 0 {
		return 0, io.EOF
	}
	n := copy(p, c.segs[0])
	c.segs[0] = c.segs[0][n:]
	return n, nil
}
func (c *scriptConn) Write(p []byte) (int, error)      { return c.out.Write(p) }
func (c *scriptConn) Close() error                     { return nil }
func (c *scriptConn) LocalAddr() net.Addr              { return &net.TCPAddr{IP: net.IPv4(127, 0, 0, 1), Port: 443} }
func (c *scriptConn) RemoteAddr() net.Addr             { return &net.TCPAddr{IP: net.IPv4(127, 0, 0, 2), Port: 5555} }
func (c *scriptConn) SetDeadline(time.Time) error      { return nil }
func (c *scriptConn) SetReadDeadline(time.Time) error  { return nil }
func (c *scriptConn) SetWriteDeadline(time.Time) error { return nil }

// ---------- crypto/tls as the reference ----------
var errStop = errors.New("stop")

// tlsServerName feeds one TLS record to a crypto/tls server and reports the
// ServerName its ClientHelloInfo carries; ok=false when crypto/tls rejected
// the hello before calling GetConfigForClient.
func tlsServerName(record []byte) (name string, ok bool) {
	c := &scriptConn{segs: [][]byte{append([]byte(nil), record...)}}
	cfg := &tls.Config{GetConfigForClient: func(chi *tls.ClientHelloInfo) (*tls.Config, error) {
		name, ok = chi.ServerName, true
		return nil, errStop
	}}
	_ = tls.Server(c, cfg).Handshake()
	return
}

// realHello lets a crypto/tls client write its ClientHello into a pipe and
// returns the first record.
func realHello(cfg *tls.Config) []byte {
	c1, c2 := net.Pipe()
	go func() {
		_ = tls.Client(c1, cfg).Handshake()
		c1.Close()
	}()
	defer c2.Close()
	hdr := make([]byte, 5)
	c2.SetReadDeadline(time.Now().Add(5 * time.Second))
	if _, err := io.ReadFull(c2, hdr); err != nil {
		return nil
	}
	n := int(hdr[3])<<8 | int(hdr[4])
	body := make([]byte, n)
	if _, err := io.ReadFull(c2, body); err != nil {
		return nil
	}
	return append(hdr, body...)
}

// selfSigned makes the certificate of the throw-away TLS server used to complete handshakes.
func selfSigned() (tls.Certificate, error) {
	key, err := ecdsa.GenerateKey(elliptic.P256(), crand.Reader)
	if err != nil {
		return tls.Certificate{}, err
	}
	tmpl := &x509.Certificate{SerialNumber: big.NewInt(1), Subject: pkix.Name{CommonName: "verif"},
		NotBefore: time.Now().Add(-time.Hour), NotAfter: time.Now().Add(24 * time.Hour),
		KeyUsage: x509.KeyUsageDigitalSignature, ExtKeyUsage: []x509.ExtKeyUsage{x509.ExtKeyUsageServerAuth}}
	der, err := x509.CreateCertificate(crand.Reader, tmpl, tmpl, &key.PublicKey, key)
	if err != nil {
		return tls.Certificate{}, err
	}
	return tls.Certificate{Certificate: [][]byte{der}, PrivateKey: key}, nil
}

// resumedHello completes one handshake between a crypto/tls client and server (so that the
// client's session cache holds a ticket / PSK) and returns the ClientHello the same client
// configuration writes next: it carries a session_ticket (TLS 1.2) or pre_shared_key and
// psk_key_exchange_modes (TLS 1.3) extension.
func resumedHello(cert tls.Certificate, cfg *tls.Config) []byte {
	scfg := &tls.Config{Certificates: []tls.Certificate{cert}, MinVersion: cfg.MinVersion, MaxVersion: cfg.MaxVersion, NextProtos: cfg.NextProtos}
	// loopback TCP, not net.Pipe: with an unbuffered pipe two alerts written at the same
	// time block each other until the deadline
	ln, err := net.Listen("tcp", "127.0.0.1:0")
	if err != nil {
		return nil
	}
	defer ln.Close()
	c1, err := net.Dial("tcp", ln.Addr().String())
	if err != nil {
		return nil
	}
	c2, err := ln.Accept()
	if err != nil {
		c1.Close()
		return nil
	}
	done := make(chan struct{})
	go func() {
		defer close(done)
		s := tls.Server(c2, scfg)
		s.SetDeadline(time.Now().Add(5 * time.Second))
		if s.Handshake() == nil {
			s.Write([]byte{1})
			io.Copy(io.Discard, s)
		}
		c2.Close()
	}()
	c := tls.Client(c1, cfg)
	c.SetDeadline(time.Now().Add(5 * time.Second))
	if err := c.Handshake(); err != nil {
		c1.Close()
		<-done
		return nil
	}
	buf := make([]byte, 1)
	c.Read(buf) // lets a TLS 1.3 client process NewSessionTicket
	c.Close()
	c1.Close()
	<-done
	return realHello(cfg)
}

var labels = []string{"a", "www", "api", "foo", "bar-baz", "x1", "xn--bcher-kva", "EXAMPLE", "Test", "svc", "internal", "very-long-label-0123456789-0123456789-0123456789-0123456789ab"}
var tlds = []string{"com", "org", "io", "local", "example", "co.uk"}

func randHost(r *rand.Rand) string {
	n := 1 + r.Intn(4)
	parts := make([]string, 0, n+1)
	for i := 0; i < n; i++ {
		parts = append(parts, labels[r.Intn(len(labels))])
	}
	parts = append(parts, tlds[r.Intn(len(tlds))])
	return strings.Join(parts, ".")
}

func randTLSConfig(r *rand.Rand) *tls.Config {
	cfg := &tls.Config{InsecureSkipVerify: true}
	switch r.Intn(10) {
	case 0: // no SNI
	case 1:
		cfg.ServerName = "192.0.2.7" // IP literal: crypto/tls omits the extension
	default:
		cfg.ServerName = randHost(r)
	}
	vers := []uint16{tls.VersionTLS10, tls.VersionTLS11, tls.VersionTLS12, tls.VersionTLS13}
	lo := r.Intn(4)
	hi := lo + r.Intn(4-lo)
	cfg.MinVersion, cfg.MaxVersion = vers[lo], vers[hi]
	if r.Intn(2) == 0 {
		protos := []string{"h2", "http/1.1", "grpc-exp", "spdy/3", "acme-tls/1"}
		r.Shuffle(len(protos), func(i, j int) { protos[i], protos[j] = protos[j], protos[i] })
		cfg.NextProtos = protos[:1+r.Intn(len(protos))]
	}
	if r.Intn(3) == 0 {
		all := tls.CipherSuites()
		k := 1 + r.Intn(len(all))
		for _, cs := range all[:k] {
			cfg.CipherSuites = append(cfg.CipherSuites, cs.ID)
		}
	}
	switch r.Intn(4) {
	case 0:
		cfg.CurvePreferences = []tls.CurveID{tls.X25519}
	case 1:
		cfg.CurvePreferences = []tls.CurveID{tls.X25519MLKEM768, tls.X25519, tls.CurveP256}
	case 2:
		cfg.CurvePreferences = []tls.CurveID{tls.CurveP384, tls.CurveP521}
	}
	if r.Intn(3) == 0 {
		cfg.ClientSessionCache = tls.NewLRUClientSessionCache(4)
	}
	return cfg
}

// ---------- the AST of Model.ClientHello and an independent Go encoder ----------
type ext struct {
	Type int
	Data []byte
}
type sniEntry struct {
	Type int
	Name []byte
}
// what one server_name extension holds: entries, then stray bytes inside the list that do
// not form an entry
type sniGen struct {
	Entries []sniEntry
	Junk    []byte
}
type hello struct {
	VersHi, VersLo int
	Random         []byte
	Session        []byte
	Ciphers        []byte
	Compress       []byte
	Exts           []ext
	HasExts        bool
	SNI            []sniEntry // the entries inside the server_name extension when there is exactly one (used by fudged)
	HasSNI         bool
	SNIs           []sniGen // the content of every server_name extension, in order
}

func (h *hello) clone() *hello {
	c := *h
	c.Exts = append([]ext(nil), h.Exts...)
	c.SNI = append([]sniEntry(nil), h.SNI...)
	c.SNIs = append([]sniGen(nil), h.SNIs...)
	return &c
}

func be16(n int) []byte { return []byte{byte(n >> 8), byte(n)} }

func encSNI(l []sniEntry) []byte {
	var body []byte
	for _, e := range l {
		body = append(body, byte(e.Type))
		body = append(body, be16(len(e.Name))...)
		body = append(body, e.Name...)
	}
	return append(be16(len(body)), body...)
}

func encSNIGen(g sniGen) []byte {
	body := encSNI(g.Entries)[2:]
	body = append(body, g.Junk...)
	return append(be16(len(body)), body...)
}

// parseSNI splits the data of a server_name extension into entries and the unparseable rest;
// ok=false when the 16-bit list length does not match (not representable as a sniGen).
func parseSNI(data []byte) (g sniGen, ok bool) {
	if len(data) < 2 || int(data[0])<<8|int(data[1]) != len(data)-2 {
		return g, false
	}
	rest := data[2:]
	for len(rest) > 0 {
		if len(rest) < 3 {
			break
		}
		nl := int(rest[1])<<8 | int(rest[2])
		if len(rest) < 3+nl {
			break
		}
		g.Entries = append(g.Entries, sniEntry{Type: int(rest[0]), Name: append([]byte(nil), rest[3:3+nl]...)})
		rest = rest[3+nl:]
	}
	g.Junk = append([]byte(nil), rest...)
	return g, true
}

// setSNIs recomputes SNIs / SNI / HasSNI from the extension list.
func (h *hello) setSNIs() bool {
	h.SNIs, h.SNI, h.HasSNI = nil, nil, false
	for _, e := range h.Exts {
		if e.Type != 0 {
			continue
		}
		g, ok := parseSNI(e.Data)
		if !ok {
			return false
		}
		h.SNIs = append(h.SNIs, g)
	}
	if len(h.SNIs) == 1 && len(h.SNIs[0].Junk) == 0 && len(h.SNIs[0].Entries) > 0 {
		h.SNI, h.HasSNI = h.SNIs[0].Entries, true
	}
	return true
}

// parseHello is the harness's own reader of a handshake message into the AST (used on real
// crypto/tls hellos); it shares no code with fabio's parser.  ok=false: not representable.
func parseHello(hs []byte) (*hello, bool) {
	if len(hs) < 4 || hs[0] != 1 || int(hs[1])<<16|int(hs[2])<<8|int(hs[3]) != len(hs)-4 {
		return nil, false
	}
	b := hs[4:]
	take := func(k int) ([]byte, bool) {
		if k < 0 || len(b) < k {
			return nil, false
		}
		x := b[:k]
		b = b[k:]
		return append([]byte(nil), x...), true
	}
	h := &hello{}
	v, ok := take(2)
	if !ok {
		return nil, false
	}
	h.VersHi, h.VersLo = int(v[0]), int(v[1])
	if h.Random, ok = take(32); !ok {
		return nil, false
	}
	l, ok := take(1)
	if !ok {
		return nil, false
	}
	if h.Session, ok = take(int(l[0])); !ok {
		return nil, false
	}
	if l, ok = take(2); !ok {
		return nil, false
	}
	if h.Ciphers, ok = take(int(l[0])<<8 | int(l[1])); !ok {
		return nil, false
	}
	if l, ok = take(1); !ok {
		return nil, false
	}
	if h.Compress, ok = take(int(l[0])); !ok {
		return nil, false
	}
	if len(b) == 0 {
		return h, true
	}
	h.HasExts = true
	if l, ok = take(2); !ok || int(l[0])<<8|int(l[1]) != len(b) {
		return nil, false
	}
	for len(b) > 0 {
		hd, ok := take(4)
		if !ok {
			return nil, false
		}
		d, ok := take(int(hd[2])<<8 | int(hd[3]))
		if !ok {
			return nil, false
		}
		h.Exts = append(h.Exts, ext{Type: int(hd[0])<<8 | int(hd[1]), Data: d})
	}
	if !h.setSNIs() {
		return nil, false
	}
	return h, true
}

func (h *hello) body() []byte {
	var b []byte
	b = append(b, byte(h.VersHi), byte(h.VersLo))
	b = append(b, h.Random...)
	b = append(b, byte(len(h.Session)))
	b = append(b, h.Session...)
	b = append(b, be16(len(h.Ciphers))...)
	b = append(b, h.Ciphers...)
	b = append(b, byte(len(h.Compress)))
	b = append(b, h.Compress...)
	if h.HasExts {
		var eb []byte
		for _, e := range h.Exts {
			eb = append(eb, be16(e.Type)...)
			eb = append(eb, be16(len(e.Data))...)
			eb = append(eb, e.Data...)
		}
		b = append(b, be16(len(eb))...)
		b = append(b, eb...)
	}
	return b
}

func (h *hello) handshake() []byte {
	b := h.body()
	return append([]byte{1, byte(len(b) >> 16), byte(len(b) >> 8), byte(len(b))}, b...)
}

// fudged encodes h with exactly one length field off by delta (field names
// below); everything else, including the enclosing lengths, stays as the true
// encoding has it.  These are the inputs on which a missing or off-by-one
// bounds check in the parser shows.
var fudgeFields = []string{"session", "ciphers", "compress", "extblock", "extlen", "snilist", "sniname", "handshake"}

func (h *hello) fudged(field string, delta int, r *rand.Rand) []byte {
	clamp := func(n, max int) int {
		if n < 0 {
			return 0
		}
		if n > max {
			return max
		}
		return n
	}
	f := func(name string, n, max int) int {
		if name == field {
			return clamp(n+delta, max)
		}
		return n
	}
	var b []byte
	b = append(b, byte(h.VersHi), byte(h.VersLo))
	b = append(b, h.Random...)
	b = append(b, byte(f("session", len(h.Session), 255)))
	b = append(b, h.Session...)
	b = append(b, be16(f("ciphers", len(h.Ciphers), 65535))...)
	b = append(b, h.Ciphers...)
	b = append(b, byte(f("compress", len(h.Compress), 255)))
	b = append(b, h.Compress...)
	if h.HasExts {
		var eb []byte
		target := -1
		if field == "extlen" && len(h.Exts) > 0 {
			target = r.Intn(len(h.Exts))
		}
		for i, e := range h.Exts {
			data := e.Data
			if e.Type == 0 && h.HasSNI && (field == "snilist" || field == "sniname") {
				var body []byte
				tn := r.Intn(len(h.SNI))
				for k, se := range h.SNI {
					body = append(body, byte(se.Type))
					n := len(se.Name)
					if field == "sniname" && k == tn {
						n = clamp(n+delta, 65535)
					}
					body = append(body, be16(n)...)
					body = append(body, se.Name...)
				}
				data = append(be16(f("snilist", len(body), 65535)), body...)
			}
			eb = append(eb, be16(e.Type)...)
			n := len(data)
			if i == target {
				n = clamp(n+delta, 65535)
			}
			eb = append(eb, be16(n)...)
			eb = append(eb, data...)
		}
		b = append(b, be16(f("extblock", len(eb), 65535))...)
		b = append(b, eb...)
	}
	n := f("handshake", len(b), 1<<24-1)
	return append([]byte{1, byte(n >> 16), byte(n >> 8), byte(n)}, b...)
}

// record wraps hs in one handshake record.  fabio ignores the record version; crypto/tls
// accepts any first-record version below 0x1000.
var recRng *rand.Rand
var recVersions = [][2]byte{{3, 1}, {3, 1}, {3, 1}, {3, 3}, {3, 3}, {3, 0}, {3, 2}, {3, 4}, {2, 0}, {0, 0}, {15, 255}}

func record(hs []byte) []byte {
	v := recVersions[recRng.Intn(len(recVersions))]
	return append([]byte{22, v[0], v[1], byte(len(hs) >> 8), byte(len(hs))}, hs...)
}

func randBytes(r *rand.Rand, n int) []byte {
	b := make([]byte, n)
	r.Read(b)
	return b
}

// plausible bodies for extensions crypto/tls validates, so that the reference
// accepts most generated hellos
func extBody(r *rand.Rand, typ int) []byte {
	switch typ {
	case 10: // supported_groups
		return append(be16(4), 0, 29, 0, 23)
	case 11: // ec_point_formats
		return []byte{1, 0}
	case 13: // signature_algorithms
		return append(be16(4), 4, 3, 8, 4)
	case 16: // ALPN
		return append(be16(3), 2, 'h', '2')
	case 43: // supported_versions
		return []byte{2, 3, 4}
	case 23, 18, 35: // extended master secret, SCT, session ticket: empty is fine
		return nil
	case 21: // padding
		return make([]byte, r.Intn(300))
	case 0xff01:
		return []byte{0}
	default:
		return randBytes(r, r.Intn(40))
	}
}

func genBase(r *rand.Rand, forceExts bool) *hello {
	h := &hello{VersHi: 3, VersLo: 1 + r.Intn(3), Random: randBytes(r, 32)}
	h.Session = randBytes(r, []int{0, 32, r.Intn(33)}[r.Intn(3)])
	nc := 1 + r.Intn(20)
	for i := 0; i < nc; i++ {
		ids := []uint16{0x1301, 0x1302, 0x1303, 0xc02b, 0xc02f, 0xc02c, 0xc030, 0xcca9, 0xcca8, 0xc013, 0xc014, 0x009c, 0x009d, 0x002f, 0x0035, 0x0a0a, 0x00ff}
		id := ids[r.Intn(len(ids))]
		h.Ciphers = append(h.Ciphers, byte(id>>8), byte(id))
	}
	h.Compress = []byte{0}
	if !forceExts && r.Intn(12) == 0 {
		return h // no extension block at all
	}
	h.HasExts = true
	pool := []int{10, 11, 13, 16, 43, 23, 18, 35, 21, 0xff01, 0x0a0a, 0x1a1a, 17513, 65037, 27, 45}
	r.Shuffle(len(pool), func(i, j int) { pool[i], pool[j] = pool[j], pool[i] })
	k := r.Intn(len(pool))
	for _, t := range pool[:k] {
		e := ext{Type: t, Data: extBody(r, t)}
		if t == 45 {
			e.Data = []byte{1, 1}
		}
		h.Exts = append(h.Exts, e)
	}
	return h
}

// insertSNI adds a server_name extension holding g at a random position.
func (h *hello) insertSNI(r *rand.Rand, g sniGen) {
	h.HasExts = true
	pos := r.Intn(len(h.Exts) + 1)
	e := ext{Type: 0, Data: encSNIGen(g)}
	h.Exts = append(h.Exts[:pos], append([]ext{e}, h.Exts[pos:]...)...)
	if !h.setSNIs() {
		panic("harness: generated server_name data does not parse back")
	}
}

func otherEntries(r *rand.Rand) []sniEntry {
	var l []sniEntry
	for i := r.Intn(3); i > 0 && r.Intn(4) == 0; i-- {
		l = append(l, sniEntry{Type: 1 + r.Intn(200), Name: randBytes(r, 1+r.Intn(20))})
	}
	return l
}

func genHello(r *rand.Rand) *hello {
	h := genBase(r, false)
	if h.HasExts && r.Intn(6) != 0 {
		// non-host_name entries before / after the single host_name entry; crypto/tls
		// skips them (it requires them to be non-empty)
		l := otherEntries(r)
		l = append(l, sniEntry{Type: 0, Name: []byte(randHost(r))})
		l = append(l, otherEntries(r)...)
		h.insertSNI(r, sniGen{Entries: l})
	}
	return h
}

// names a client can put on the wire and a router must not choke on: bytes >= 0x80, NUL,
// trailing / leading dot, upper case, blanks, very long
func oddName(r *rand.Rand) []byte {
	base := randHost(r)
	switch r.Intn(12) {
	case 0:
		return []byte(base + ".")
	case 1:
		return []byte("." + base)
	case 2:
		return []byte(base + "\x00")
	case 3:
		return []byte("a\x00" + base)
	case 4:
		return []byte("b\xc3\xbccher." + base)
	case 5:
		return append([]byte(base), 0x80, 0xff)
	case 6:
		return []byte(strings.ToUpper(base))
	case 7:
		return []byte(" " + base + " ")
	case 8:
		return []byte(strings.Repeat("a", 250+r.Intn(10)) + "." + base)
	case 9:
		return []byte(strings.Repeat("x.", 300+r.Intn(400)) + base)
	case 10:
		return []byte(".")
	default:
		return randBytes(r, 1+r.Intn(30))
	}
}

func coqHello(h *hello) string {
	exts := vh.None
	if h.HasExts {
		items := make([]string, len(h.Exts))
		for i, e := range h.Exts {
			items[i] = fmt.Sprintf("{| ext_type := %s; ext_data := %s |}", vh.N(e.Type), vh.Hx(e.Data))
		}
		exts = vh.Some(vh.List(items))
	}
	return fmt.Sprintf("{| h_vers_hi := %s; h_vers_lo := %s; h_random := %s; h_session := %s; h_ciphers := %s; h_compress := %s; h_exts := %s |}",
		vh.N(h.VersHi), vh.N(h.VersLo), vh.Hx(h.Random), vh.Hx(h.Session), vh.Hx(h.Ciphers), vh.Hx(h.Compress), exts)
}

func coqSNIs(h *hello) string {
	gens := make([]string, len(h.SNIs))
	for k, g := range h.SNIs {
		items := make([]string, len(g.Entries))
		for i, e := range g.Entries {
			items[i] = fmt.Sprintf("{| sn_type := %s; sn_name := %s |}", vh.N(e.Type), vh.Hx(e.Name))
		}
		gens[k] = vh.Pair(vh.List(items), vh.Hx(g.Junk))
	}
	return vh.List(gens)
}

// ---------- running the implementation ----------
func bufKind(err error) int {
	s := err.Error()
	switch {
	case strings.HasPrefix(s, "At least 9 bytes"):
		return 1
	case strings.HasPrefix(s, "Not a TLS handshake"):
		return 2
	case strings.HasPrefix(s, "Invalid TLS record length"):
		return 3
	case strings.HasPrefix(s, "Not a client hello"):
		return 4
	case strings.HasPrefix(s, "Invalid client hello length"):
		return 5
	}
	return 99
}

func implBuf(data []byte) string {
	var n int
	var err error
	if p, _ := vh.Recover(func() { n, err = tcp.VerifClientHelloBufferSize(data) }); p {
		return vh.Panic
	}
	if err != nil {
		return vh.Err(bufKind(err))
	}
	if n < 0 {
		return vh.Err(98)
	}
	return vh.Ok(vh.N(n))
}

func implRead(msg []byte) (string, string) {
	var name string
	var ok bool
	if p, _ := vh.Recover(func() { name, ok = tcp.VerifReadServerName(msg) }); p {
		return vh.Panic, "panic"
	}
	if !ok {
		return vh.Err(0), "reject"
	}
	return vh.Ok(vh.HxS(name)), name
}

// recCounter records every Add: the first one on a target's RxCounter is the number of bytes
// ServeTCP had buffered and wrote to the upstream before tunnelling (sni_proxy.go:129-141).
type recCounter struct {
	mu   sync.Mutex
	adds []float64
}

func (c *recCounter) With(...string) gkm.Counter { return c }
func (c *recCounter) Add(d float64) {
	c.mu.Lock()
	c.adds = append(c.adds, d)
	c.mu.Unlock()
}

// a loopback upstream that swallows what it is sent and sends nothing
var upstreamAddr string

func startUpstream() {
	ln, err := net.Listen("tcp", "127.0.0.1:0")
	if err != nil {
		panic(err)
	}
	upstreamAddr = ln.Addr().String()
	go func() {
		for {
			c, err := ln.Accept()
			if err != nil {
				return
			}
			go func() { io.Copy(io.Discard, c); c.Close() }()
		}
	}()
}

// implStream runs the real SNIProxy.ServeTCP on a scripted connection; the observables are
// the host handed to Lookup (routing decision input) and the number of bytes buffered
// before routing (-1: not routed / not observed).
func implStream(segs [][]byte) (string, int) {
	called, host := false, ""
	rx := &recCounter{}
	p := &tcp.SNIProxy{DialTimeout: 5 * time.Second, Lookup: func(h string) *route.Target {
		called, host = true, h
		return &route.Target{URL: &url.URL{Host: upstreamAddr}, RxCounter: rx}
	}}
	cp := make([][]byte, len(segs))
	for i := range segs {
		cp[i] = append([]byte(nil), segs[i]...)
	}
	if pn, _ := vh.Recover(func() { _ = p.ServeTCP(&scriptConn{segs: cp}) }); pn {
		return vh.Panic, -1
	}
	if !called {
		return vh.Err(0), -1
	}
	rx.mu.Lock()
	defer rx.mu.Unlock()
	n := -1
	if len(rx.adds) > 0 {
		n = int(rx.adds[0])
	}
	return vh.Ok(vh.HxS(host)), n
}

func coqOptN(n int) string {
	if n < 0 {
		return vh.None
	}
	return vh.Some(vh.N(n))
}

func segment(r *rand.Rand, b []byte) [][]byte {
	var segs [][]byte
	for len(b) > 0 {
		n := 1 + r.Intn(len(b))
		if r.Intn(3) == 0 && n > 12 {
			n = 1 + r.Intn(12)
		}
		segs = append(segs, b[:n])
		b = b[n:]
	}
	return segs
}

func main() {
	run := vh.Start("C10")
	r := run.Rng
	recRng = r
	startUpstream()

	tlsCoqOf := func(rec []byte) (string, string, bool) {
		tlsName, tlsOK := tlsServerName(rec)
		if tlsOK {
			return vh.Some(vh.HxS(tlsName)), tlsName, true
		}
		return vh.None, "", false
	}
	addRead := func(class string, rec []byte, note string) {
		if len(rec) < 5 {
			rec = append(rec, make([]byte, 5-len(rec))...)
		}
		msg := rec[5:]
		impl, got := implRead(msg)
		tlsCoq, tlsName, tlsOK := tlsCoqOf(rec)
		run.Add(class, vh.App("CRead", vh.Hx(msg), impl, tlsCoq),
			map[string]interface{}{"fn": "readServerName", "msg_len": len(msg), "impl": got, "tls_ok": tlsOK, "tls_name": tlsName, "note": note, "msg_hex_prefix": fmt.Sprintf("%x", msg[:min(len(msg), 48)])})
	}
	addBuf := func(class string, data []byte) {
		run.Add(class, vh.App("CBuf", vh.Hx(data), implBuf(data)),
			map[string]interface{}{"fn": "clientHelloBufferSize", "data_hex": fmt.Sprintf("%x", data[:min(len(data), 16)]), "len": len(data)})
	}
	// accepted streams (routed by the real code) are kept for the truncation class
	type routed struct {
		stream []byte
		n      int
	}
	var routedStreams []routed
	addStream := func(class string, stream []byte) {
		segs := segment(r, stream)
		tlsCoq, _, _ := tlsCoqOf(stream)
		impl, n := implStream(segs)
		if n >= 0 {
			routedStreams = append(routedStreams, routed{append([]byte(nil), stream...), n})
		}
		run.Add(class, vh.App("CStream", vh.Hx(stream), impl, coqOptN(n), tlsCoq),
			map[string]interface{}{"fn": "SNIProxy.ServeTCP", "stream_len": len(stream), "segments": len(segs), "consumed": n})
	}
	// a hello as an AST: readServerName on the harness's encoding of it, crypto/tls on the
	// same bytes in one record; the Coq side re-encodes, checks well-formedness and judges
	// by the RFC reference computed from h.SNIs
	var corpus [][]byte
	addHello := func(class string, h *hello, note string) bool {
		hs := h.handshake()
		if len(hs) > 16384 {
			return false
		}
		rec := record(hs)
		impl, got := implRead(hs)
		tlsCoq, tlsName, tlsOK := tlsCoqOf(rec)
		run.Add(class, vh.App("CHello", coqHello(h), coqSNIs(h), vh.Hx(hs), impl, tlsCoq),
			map[string]interface{}{"fn": "readServerName", "exts": len(h.Exts), "sni_exts": len(h.SNIs), "impl": got, "tls_ok": tlsOK, "tls_name": tlsName, "note": note})
		corpus = append(corpus, rec)
		return true
	}
	host := func() sniEntry { return sniEntry{Type: 0, Name: []byte(randHost(r))} }

	// 1. real ClientHellos written by crypto/tls clients
	cert, certErr := selfSigned()
	var realCorpus [][]byte
	nReal := run.Scale(120, 3000)
	for i := 0; i < nReal; i++ {
		cfg := randTLSConfig(r)
		var rec []byte
		resumed := false
		if certErr == nil && i%4 == 0 && cfg.ServerName != "" {
			// complete a handshake first so that the hello carries a session ticket / PSK
			cfg.ClientSessionCache = tls.NewLRUClientSessionCache(4)
			rec = resumedHello(cert, cfg)
			resumed = rec != nil
		}
		if rec == nil {
			rec = realHello(cfg)
		}
		if rec == nil {
			run.Exclude("crypto/tls client produced no hello")
			continue
		}
		class := "real-hello"
		if resumed {
			class = "real-hello-resumed"
			has := false
			if h, ok := parseHello(rec[5:]); ok {
				for _, e := range h.Exts {
					if (e.Type == 35 && len(e.Data) > 0) || e.Type == 41 {
						has = true
					}
				}
			}
			if !has {
				run.Exclude("resumed hello carries no ticket / PSK")
				class = "real-hello"
			}
		}
		corpus = append(corpus, rec)
		realCorpus = append(realCorpus, rec)
		addRead(class, rec, fmt.Sprintf("sni=%q min=%x max=%x alpn=%v", cfg.ServerName, cfg.MinVersion, cfg.MaxVersion, cfg.NextProtos))
		addBuf("real-hello-buf", rec[:min(len(rec), 9+r.Intn(8))])
		if i%3 == 0 || resumed {
			extra := randBytes(r, r.Intn(40))
			addStream(class+"-stream", append(append([]byte(nil), rec...), extra...))
		}
	}

	// 1a. the same real hellos read into the AST by the harness's own reader: they must lie in
	// the theorems' domain (Coq re-encodes to the same bytes, wf_hello_b holds); then with the
	// server_name part altered in the ways RFC 6066 / 8446 forbid
	for i, rec := range realCorpus {
		if i%2 != 0 {
			continue
		}
		h, ok := parseHello(rec[5:])
		if !ok {
			run.Violation(run.NextID(), "harness: a crypto/tls ClientHello is not the encoding of a hello AST", fmt.Sprintf("%x", rec))
			continue
		}
		addHello("real-hello-ast", h, "unchanged")
		if len(h.SNIs) != 1 || len(h.SNIs[0].Entries) != 1 {
			continue
		}
		name := h.SNIs[0].Entries[0].Name
		var sniPos int
		for k, e := range h.Exts {
			if e.Type == 0 {
				sniPos = k
			}
		}
		m := h.clone()
		note := ""
		switch r.Intn(5) {
		case 0: // a second server_name extension right after the first
			e := ext{Type: 0, Data: encSNIGen(sniGen{Entries: []sniEntry{host()}})}
			m.Exts = append(m.Exts[:sniPos+1], append([]ext{e}, m.Exts[sniPos+1:]...)...)
			note = "second server_name extension"
		case 1: // ... before it
			e := ext{Type: 0, Data: encSNIGen(sniGen{Entries: []sniEntry{host()}})}
			m.Exts = append(m.Exts[:sniPos], append([]ext{e}, m.Exts[sniPos:]...)...)
			note = "server_name extension inserted before the original"
		case 2:
			m.Exts[sniPos] = ext{Type: 0, Data: encSNIGen(sniGen{Entries: []sniEntry{{Type: 0, Name: append(append([]byte(nil), name...), '.')}}})}
			note = "trailing dot"
		case 3:
			m.Exts[sniPos] = ext{Type: 0, Data: encSNIGen(sniGen{Entries: []sniEntry{{Type: 0, Name: name}, host()}})}
			note = "second host_name"
		case 4:
			m.Exts[sniPos] = ext{Type: 0, Data: encSNIGen(sniGen{Entries: []sniEntry{{Type: 0, Name: oddName(r)}}})}
			note = "odd name"
		}
		if !m.setSNIs() {
			panic("harness: altered server_name data does not parse back")
		}
		addHello("real-hello-ast-altered", m, note)
	}

	// 2. hellos generated from the AST (padding, GREASE, unknown extensions, SNI lists)
	nAst := run.Scale(250, 6000)
	for i := 0; i < nAst; i++ {
		h := genHello(r)
		if !addHello("ast-hello", h, "") {
			continue
		}
		if i%4 == 0 {
			addStream("ast-hello-stream", append(record(h.handshake()), randBytes(r, r.Intn(30))...))
		}
	}

	// 2d. the server_name extension in every shape, the rest of the hello valid
	// (i) two server_name extensions, each with / without a host_name entry
	for i := 0; i < run.Scale(48, 800); i++ {
		h := genBase(r, true)
		for k := 0; k < 2; k++ {
			withHost := (i>>k)&1 == 1
			var l []sniEntry
			if withHost {
				l = append(otherEntries(r), host())
			} else if r.Intn(2) == 0 {
				l = []sniEntry{{Type: 1 + r.Intn(200), Name: randBytes(r, 1+r.Intn(10))}}
			}
			h.insertSNI(r, sniGen{Entries: l})
		}
		if i%8 >= 4 { // a third one now and then
			h.insertSNI(r, sniGen{Entries: []sniEntry{host()}})
		}
		addHello("dup-sni", h, fmt.Sprintf("combo=%d", i%4))
	}
	// (ii) lists with two or more host_name entries (first wins in the code), other entries around
	for i := 0; i < run.Scale(40, 600); i++ {
		h := genBase(r, true)
		l := otherEntries(r)
		for k := 2 + r.Intn(2); k > 0; k-- {
			l = append(l, host())
			if r.Intn(3) == 0 {
				l = append(l, sniEntry{Type: 1 + r.Intn(200), Name: randBytes(r, 1+r.Intn(10))})
			}
		}
		h.insertSNI(r, sniGen{Entries: l})
		addHello("multi-host", h, fmt.Sprintf("entries=%d", len(l)))
	}
	// (iii) empty list, zero-length names, odd names, stray bytes inside the list
	for i := 0; i < run.Scale(96, 1200); i++ {
		h := genBase(r, true)
		var g sniGen
		class := ""
		switch i % 8 {
		case 0:
			class = "sni-empty-list"
		case 1:
			class = "sni-empty-name"
			g.Entries = []sniEntry{{Type: 0, Name: nil}}
			if r.Intn(2) == 0 {
				g.Entries = append(g.Entries, host())
			}
		case 2:
			class = "sni-empty-name"
			g.Entries = []sniEntry{{Type: 1 + r.Intn(200), Name: nil}, host()}
		case 3, 4, 5:
			class = "sni-odd-name"
			g.Entries = append(otherEntries(r), sniEntry{Type: 0, Name: oddName(r)})
		case 6:
			class = "sni-junk"
			g.Entries = []sniEntry{host()}
			g.Junk = randBytes(r, 1+r.Intn(8))
		case 7:
			class = "sni-junk"
			g.Entries = otherEntries(r)
			g.Junk = randBytes(r, 1+r.Intn(2))
		}
		// canonical form: whatever of the stray bytes parses as entries is entries
		g, _ = parseSNI(encSNIGen(g))
		h.insertSNI(r, g)
		if addHello(class, h, "") && i%3 == 0 {
			addStream(class+"-stream", append(record(h.handshake()), randBytes(r, r.Intn(20))...))
		}
	}

	// 2a. large hellos (long ALPN lists, PSKs, post-quantum key shares, padding): records
	// beyond bufio's default 4096-byte buffer, up to the 16 KiB record limit, through the
	// whole SNIProxy path and through the parser
	for i := 0; i < run.Scale(36, 600); i++ {
		h := genHello(r)
		h.HasExts = true
		base := len(h.handshake()) + 5
		targets := []int{4091, 4096, 4097, 4101, 8192, 16384 + 5, 16384 + 4, 4000 + r.Intn(12000), 4000 + r.Intn(12000)}
		want := targets[i%len(targets)]
		pad := want - base - 4
		if pad < 0 {
			pad = 0
		}
		e := ext{Type: 21, Data: make([]byte, pad)}
		pos := r.Intn(len(h.Exts) + 1)
		h.Exts = append(h.Exts[:pos], append([]ext{e}, h.Exts[pos:]...)...)
		hs := h.handshake()
		if len(hs) > 16384 {
			continue
		}
		rec := record(hs)
		addStream("large-hello-stream", append(append([]byte(nil), rec...), randBytes(r, r.Intn(30))...))
		if i%3 == 0 {
			addRead("large-hello", rec, fmt.Sprintf("record=%d", len(rec)))
		}
	}

	// 2e. a record longer than the handshake message it carries (hl + 4 < rl): the rest of the
	// record is not consumed; and a hello spread over two records: never routed
	for i := 0; i < run.Scale(40, 600); i++ {
		h := genHello(r)
		hs := h.handshake()
		slack := []int{1, 2, 4, 5, 100, 1 + r.Intn(2000)}[i%6]
		if len(hs)+slack > 16384 {
			continue
		}
		var tail []byte
		if i%2 == 0 {
			tail = randBytes(r, slack)
		} else {
			tail = make([]byte, slack)
		}
		rl := len(hs) + slack
		stream := append([]byte{22, 3, 1, byte(rl >> 8), byte(rl)}, hs...)
		stream = append(stream, tail...)
		stream = append(stream, randBytes(r, r.Intn(20))...)
		addStream("slack-record-stream", stream)
	}
	for i := 0; i < run.Scale(48, 600); i++ {
		var hs []byte
		if i%2 == 0 && len(realCorpus) > 0 {
			hs = realCorpus[r.Intn(len(realCorpus))][5:]
		} else {
			hs = genHello(r).handshake()
		}
		cut := []int{1, 2, 3, 4, 5, 43, len(hs) - 1, 4 + r.Intn(len(hs)-4)}[i%8]
		stream := append(record(hs[:cut]), record(hs[cut:])...)
		stream = append(stream, randBytes(r, r.Intn(20))...)
		segs := segment(r, stream)
		tlsCoq, tlsName, tlsOK := tlsCoqOf(stream)
		impl, _ := implStream(segs)
		run.Add("fragmented-stream", vh.App("CFrag", vh.Hx(stream), impl, tlsCoq),
			map[string]interface{}{"fn": "SNIProxy.ServeTCP", "first_fragment": cut, "handshake_len": len(hs), "tls_ok": tlsOK, "tls_name": tlsName})
	}

	// 2c. truncation at (and one byte around) every structural boundary of the message: the
	// end of each fixed part, of each vector and of each extension.  A missing bounds check
	// before reading the next length byte shows only when the input ends exactly there.
	for i := 0; i < run.Scale(14, 300); i++ {
		h := genHello(r)
		if i%2 == 0 {
			h.Session = randBytes(r, []int{0, 1, 32}[r.Intn(3)])
		}
		hs := h.handshake()
		var bounds []int
		off := 4 + 2 + 32 // handshake header, version, random
		bounds = append(bounds, 4, 6, off)
		off += 1 + len(h.Session)
		bounds = append(bounds, off-len(h.Session), off)
		off += 2
		bounds = append(bounds, off)
		off += len(h.Ciphers)
		bounds = append(bounds, off)
		off += 1
		bounds = append(bounds, off)
		off += len(h.Compress)
		bounds = append(bounds, off)
		if h.HasExts {
			off += 2
			bounds = append(bounds, off)
			for _, e := range h.Exts {
				bounds = append(bounds, off+2, off+4)
				if e.Type == 0 && len(e.Data) >= 5 {
					bounds = append(bounds, off+4+2, off+4+3, off+4+5)
				}
				off += 4 + len(e.Data)
				bounds = append(bounds, off)
			}
		}
		seen := map[int]bool{}
		for _, b := range bounds {
			for _, d := range []int{-1, 0, 1} {
				n := b + d
				if n < 0 || n > len(hs) || seen[n] {
					continue
				}
				seen[n] = true
				addRead("boundary-truncated", record(hs[:n]), fmt.Sprintf("cut=%d of %d", n, len(hs)))
			}
		}
	}

	// 2b. one length field off by a small delta, for every field
	for i := 0; i < run.Scale(40, 800); i++ {
		h := genHello(r)
		if i%2 == 0 { // make sure the SNI entry is the last thing in the message half of the time
			h.HasExts = true
			var keep []ext
			for _, e := range h.Exts {
				if e.Type != 0 && len(keep) < 2 {
					keep = append(keep, e)
				}
			}
			l := []sniEntry{host()}
			h.Exts = append(keep, ext{Type: 0, Data: encSNI(l)})
			h.setSNIs()
		}
		for _, field := range fudgeFields {
			for _, delta := range []int{-2, -1, 1, 2} {
				hs := h.fudged(field, delta, r)
				if len(hs) > 16384 {
					continue
				}
				addRead("length-fudge", record(hs), fmt.Sprintf("%s%+d", field, delta))
			}
		}
	}

	// 3. malformed: truncations, corruptions of single bytes, spliced garbage
	nMal := run.Scale(700, 20000)
	for i := 0; i < nMal && len(corpus) > 0; i++ {
		rec := append([]byte(nil), corpus[r.Intn(len(corpus))]...)
		switch r.Intn(6) {
		case 0, 1: // truncate anywhere
			rec = rec[:r.Intn(len(rec)+1)]
			addRead("truncated", rec, "")
		case 2, 3: // corrupt one byte, biased to the first 120 bytes where the length fields are
			pos := r.Intn(len(rec))
			if r.Intn(2) == 0 {
				pos = r.Intn(min(len(rec), 120))
			}
			rec[pos] = byte(r.Intn(256))
			addRead("corrupted", rec, fmt.Sprintf("pos=%d", pos))
		case 4: // corrupt a byte in the 9-byte header and size it
			rec[r.Intn(9)] = []byte{0, 1, 22, 3, 4, 0x40, 0x41, 0xff, byte(r.Intn(256))}[r.Intn(9)]
			addBuf("corrupted-header", rec[:min(len(rec), 9+r.Intn(4))])
			addStream("corrupted-stream", rec)
		case 5: // truncated / corrupted stream through the proxy
			rec = rec[:r.Intn(len(rec)+1)]
			addStream("truncated-stream", rec)
		}
	}

	// 3a. the truncation clause on the real path: every strict prefix of what ServeTCP consumed
	// of an accepted stream must be rejected (and a prefix that is not strict is still routed)
	for i := 0; i < run.Scale(60, 1000) && len(routedStreams) > 0; i++ {
		rs := routedStreams[r.Intn(len(routedStreams))]
		ks := []int{rs.n - 1, rs.n - 2, 9, 10, 8, 5 + r.Intn(rs.n-5), r.Intn(rs.n), rs.n, min(rs.n+1, len(rs.stream))}
		k := ks[i%len(ks)]
		if k < 0 {
			k = 0
		}
		full, fulln := implStream(segment(r, rs.stream))
		cut, _ := implStream(segment(r, rs.stream[:k]))
		run.Add("prefix-of-consumed", vh.App("CTrunc", vh.Hx(rs.stream), vh.N(k), full, coqOptN(fulln), cut),
			map[string]interface{}{"fn": "SNIProxy.ServeTCP", "stream_len": len(rs.stream), "consumed": fulln, "cut": k})
	}

	// 4. short and random inputs
	for i := 0; i < run.Scale(80, 2000); i++ {
		b := randBytes(r, r.Intn(60))
		addBuf("random-buf", b)
		addRead("random-read", append([]byte{22, 3, 1, 0, byte(len(b))}, b...), "")
	}
	// 5. header boundary values, exhaustively on the interesting bytes
	for _, rl := range []int{0, 1, 3, 4, 5, 16383, 16384, 16385, 65535} {
		for _, hl := range []int{0, 1, rl - 5, rl - 4, rl - 3, 16380, 16381, 1 << 16, 1<<24 - 1} {
			if hl < 0 {
				continue
			}
			for _, t := range []byte{22, 23} {
				for _, ht := range []byte{1, 2} {
					addBuf("boundary-header", []byte{t, 3, 1, byte(rl >> 8), byte(rl), ht, byte(hl >> 16), byte(hl >> 8), byte(hl)})
				}
			}
		}
	}

	// 6. ServeTCP's own decision (Model/SniServe.v) on streams that are too small to be a
	// ClientHello and on the smallest ones that are: the branches of ServeTCP AFTER the parser
	// ("unable to parse client hello", "server_name missing") run on a buffer of 10 bytes and
	// up, so anything there that touches data[i] without a length check panics only on records
	// this short.  A random source of its own: the classes above keep their inputs.
	tr := rand.New(rand.NewSource(run.Seed*7919 + 10))
	addServe := func(class string, stream []byte, note string) {
		segs := segment(tr, stream)
		tlsCoq, _, _ := tlsCoqOf(stream)
		impl, n := implStream(segs)
		run.Add(class, vh.App("CServe", vh.Hx(stream), impl, coqOptN(n), tlsCoq),
			map[string]interface{}{"fn": "SNIProxy.ServeTCP", "stream_hex": fmt.Sprintf("%x", stream[:min(len(stream), 64)]), "stream_len": len(stream), "segments": len(segs), "consumed": n, "impl": impl, "note": note})
	}
	hsStream := func(rl, hl int, body []byte) []byte {
		v := recVersions[tr.Intn(len(recVersions))]
		s := []byte{22, v[0], v[1], byte(rl >> 8), byte(rl), 1, byte(hl >> 16), byte(hl >> 8), byte(hl)}
		return append(s, body...)
	}
	tinyBody := func(n int) []byte {
		switch tr.Intn(3) {
		case 0:
			return make([]byte, n)
		case 1:
			return bytes.Repeat([]byte{0xff}, n)
		}
		return randBytes(tr, n)
	}
	// (i) every handshake length 0..6 (thorough: 0..12) x record length exact / one more /
	// the smallest legal 5.. / one too small / 2^14, the body complete; for the exact record
	// every truncation 0..len, for the others the cuts around the ends; with bytes behind
	for hl := 0; hl <= run.Scale(6, 12); hl++ {
		seenRl := map[int]bool{}
		for k, rl := range []int{hl + 4, hl + 5, 5, hl + 3, 16384, hl + 4 + 1 + tr.Intn(300)} {
			if rl < 0 || seenRl[rl] {
				continue
			}
			seenRl[rl] = true
			full := hsStream(rl, hl, tinyBody(hl))
			note := fmt.Sprintf("hl=%d rl=%d", hl, rl)
			if k == 0 {
				for cut := 0; cut <= len(full); cut++ {
					addServe("tiny-record-stream", full[:cut], fmt.Sprintf("%s cut=%d of %d", note, cut, len(full)))
				}
			} else {
				seenCut := map[int]bool{}
				for _, cut := range []int{9, len(full) - 1, len(full)} {
					if !seenCut[cut] {
						seenCut[cut] = true
						addServe("tiny-record-stream", full[:cut], fmt.Sprintf("%s cut=%d of %d", note, cut, len(full)))
					}
				}
			}
			addServe("tiny-record-stream", append(append([]byte(nil), full...), randBytes(tr, 1+tr.Intn(40))...), note+" +following bytes")
		}
	}
	// the smallest hello bodies that parse, as byte strings written down here (not through the
	// AST encoder): 38 bytes = version, random, three empty vectors; then one cipher suite and the
	// null compression; an empty extension block; a server_name extension with the name "a"
	minBody := func(sid int, ciphers, comp bool, exts []byte, hasExts bool) []byte {
		b := []byte{3, 3}
		b = append(b, randBytes(tr, 32)...)
		b = append(b, byte(sid))
		b = append(b, randBytes(tr, sid)...)
		if ciphers {
			b = append(b, 0, 2, 0x13, 0x01)
		} else {
			b = append(b, 0, 0)
		}
		if comp {
			b = append(b, 1, 0)
		} else {
			b = append(b, 0)
		}
		if hasExts {
			b = append(b, be16(len(exts))...)
			b = append(b, exts...)
		}
		return b
	}
	sniA := []byte{0, 0, 0, 6, 0, 4, 0, 0, 1, 'a'}
	// (ii) every handshake length 7..60 with the body complete: alternately random bytes and the
	// first hl bytes of a valid hello body (every field so far consistent, the message just ends)
	for hl := 7; hl <= 60; hl++ {
		reps := 1
		if hl >= 36 && hl <= 44 {
			reps = 2
		}
		for k := 0; k < reps*run.Scale(1, 4); k++ {
			var body []byte
			if (hl+k)%2 == 0 {
				body = randBytes(tr, hl)
			} else {
				body = append(minBody(0, true, true, sniA, true), make([]byte, 60)...)[:hl]
			}
			rl := hl + 4
			if tr.Intn(3) == 0 {
				rl += 1 + tr.Intn(50)
			}
			s := hsStream(rl, hl, body)
			addServe("short-hello-stream", append(s, randBytes(tr, tr.Intn(30))...), fmt.Sprintf("hl=%d rl=%d", hl, rl))
		}
	}
	// (iii) the smallest hellos: complete (the 38-byte one takes the "server_name missing" branch
	// on a 47-byte buffer, the one with the name "a" is the smallest routed), the last one / two
	// bytes missing, the handshake length one less / one more than the body
	type minimal struct {
		note string
		body []byte
	}
	for rep := 0; rep < run.Scale(1, 6); rep++ {
		for _, m := range []minimal{
			{"38 bytes: all vectors empty", minBody(0, false, false, nil, false)},
			{"one cipher suite, null compression", minBody(0, true, true, nil, false)},
			{"empty extension block", minBody(0, true, true, nil, true)},
			{"all vectors empty + empty extension block", minBody(0, false, false, nil, true)},
			{"session id of 1", minBody(1, true, true, nil, false)},
			{"session id of 32", minBody(32, true, true, nil, false)},
			{"server_name a", minBody(0, true, true, sniA, true)},
			{"server_name a, vectors empty", minBody(0, false, false, sniA, true)},
		} {
			hl := len(m.body)
			full := hsStream(hl+4, hl, m.body)
			addServe("minimal-hello-stream", append(append([]byte(nil), full...), randBytes(tr, tr.Intn(20))...), m.note)
			addServe("minimal-hello-stream", full[:len(full)-1], m.note+", last byte missing")
			addServe("minimal-hello-stream", full[:len(full)-2], m.note+", last two bytes missing")
			addServe("minimal-hello-stream", append(hsStream(hl+4, hl-1, m.body), randBytes(tr, tr.Intn(20))...), m.note+", handshake length one less")
			addServe("minimal-hello-stream", append(hsStream(hl+5, hl+1, m.body), byte(tr.Intn(256))), m.note+", handshake length one more, one byte follows")
		}
	}
	run.Finish(preamble, run.Scale(120, 400))
}
