// Correspondence harness for C10 (SNI extraction): runs the real
// clientHelloBufferSize / readServerName / SNIProxy.ServeTCP of /repo and the
// crypto/tls server-side parser on generated ClientHellos, truncations and
// corruptions, and writes the cases for the Coq model to judge.
package main

import (
	"bytes"
	"crypto/tls"
	"errors"
	"fmt"
	"io"
	"math/rand"
	"net"
	"strings"
	"time"

	"github.com/fabiolb/fabio/proxy/tcp"
	"github.com/fabiolb/fabio/route"

	"verifharness/internal/vh"
)

const preamble = `From Coq Require Import List NArith String.
From Fabio Require Import Lib.Outcome Lib.Bytes Lib.Pack Model.ClientHello Check.C10.
Import ListNotations.
Local Open Scope N_scope.
`

// ---------- scripted connection ----------
type scriptConn struct {
	segs [][]byte
	out  bytes.Buffer
}

func (c *scriptConn) Read(p []byte) (int, error) {
	for len(c.segs) > 0 && len(c.segs[0]) == 0 {
		c.segs = c.segs[1:]
	}
	if len(c.segs) == 0 {
		return 0, io.EOF
	}
	n := copy(p, c.segs[0])
	c.segs[0] = c.segs[0][n:]
	return n, nil
}
func (c *scriptConn) Write(p []byte) (int, error)      { return c.out.Write(p) }
func (c *scriptConn) Close() error                     { return nil }
func (c *scriptConn) LocalAddr() net.Addr              { return &net.TCPAddr{IP: net.IPv4(127, 0, 0, 1), Port: 443} }
func (c *scriptConn) RemoteAddr() net.Addr             { return &net.TCPAddr{IP: net.IPv4(127, 0, 0, 2), Port: 5555} }
func (c *scriptConn) SetDeadline(time.Time) error      { return nil }
func (c *scriptConn) SetReadDeadline(time.Time) error  { return nil }
func (c *scriptConn) SetWriteDeadline(time.Time) error { return nil }

// ---------- crypto/tls as the reference ----------
var errStop = errors.New("stop")

// tlsServerName feeds one TLS record to a crypto/tls server and reports the
// ServerName its ClientHelloInfo carries; ok=false when crypto/tls rejected
// the hello before calling GetConfigForClient.
func tlsServerName(record []byte) (name string, ok bool) {
	c := &scriptConn{segs: [][]byte{append([]byte(nil), record...)}}
	cfg := &tls.Config{GetConfigForClient: func(chi *tls.ClientHelloInfo) (*tls.Config, error) {
		name, ok = chi.ServerName, true
		return nil, errStop
	}}
	_ = tls.Server(c, cfg).Handshake()
	return
}

// realHello lets a crypto/tls client write its ClientHello into a pipe and
// returns the first record.
func realHello(cfg *tls.Config) []byte {
	c1, c2 := net.Pipe()
	go func() {
		_ = tls.Client(c1, cfg).Handshake()
		c1.Close()
	}()
	defer c2.Close()
	hdr := make([]byte, 5)
	c2.SetReadDeadline(time.Now().Add(5 * time.Second))
	if _, err := io.ReadFull(c2, hdr); err != nil {
		return nil
	}
	n := int(hdr[3])<<8 | int(hdr[4])
	body := make([]byte, n)
	if _, err := io.ReadFull(c2, body); err != nil {
		return nil
	}
	return append(hdr, body...)
}

var labels = []string{"a", "www", "api", "foo", "bar-baz", "x1", "xn--bcher-kva", "EXAMPLE", "Test", "svc", "internal", "very-long-label-0123456789-0123456789-0123456789-0123456789ab"}
var tlds = []string{"com", "org", "io", "local", "example", "co.uk"}

func randHost(r *rand.Rand) string {
	n := 1 + r.Intn(4)
	parts := make([]string, 0, n+1)
	for i := 0; i < n; i++ {
		parts = append(parts, labels[r.Intn(len(labels))])
	}
	parts = append(parts, tlds[r.Intn(len(tlds))])
	return strings.Join(parts, ".")
}

func randTLSConfig(r *rand.Rand) *tls.Config {
	cfg := &tls.Config{InsecureSkipVerify: true}
	switch r.Intn(10) {
	case 0: // no SNI
	case 1:
		cfg.ServerName = "192.0.2.7" // IP literal: crypto/tls omits the extension
	default:
		cfg.ServerName = randHost(r)
	}
	vers := []uint16{tls.VersionTLS10, tls.VersionTLS11, tls.VersionTLS12, tls.VersionTLS13}
	lo := r.Intn(4)
	hi := lo + r.Intn(4-lo)
	cfg.MinVersion, cfg.MaxVersion = vers[lo], vers[hi]
	if r.Intn(2) == 0 {
		protos := []string{"h2", "http/1.1", "grpc-exp", "spdy/3", "acme-tls/1"}
		r.Shuffle(len(protos), func(i, j int) { protos[i], protos[j] = protos[j], protos[i] })
		cfg.NextProtos = protos[:1+r.Intn(len(protos))]
	}
	if r.Intn(3) == 0 {
		all := tls.CipherSuites()
		k := 1 + r.Intn(len(all))
		for _, cs := range all[:k] {
			cfg.CipherSuites = append(cfg.CipherSuites, cs.ID)
		}
	}
	switch r.Intn(4) {
	case 0:
		cfg.CurvePreferences = []tls.CurveID{tls.X25519}
	case 1:
		cfg.CurvePreferences = []tls.CurveID{tls.X25519MLKEM768, tls.X25519, tls.CurveP256}
	case 2:
		cfg.CurvePreferences = []tls.CurveID{tls.CurveP384, tls.CurveP521}
	}
	if r.Intn(3) == 0 {
		cfg.ClientSessionCache = tls.NewLRUClientSessionCache(4)
	}
	return cfg
}

// ---------- the AST of Model.ClientHello and an independent Go encoder ----------
type ext struct {
	Type int
	Data []byte
}
type sniEntry struct {
	Type int
	Name []byte
}
type hello struct {
	VersHi, VersLo int
	Random         []byte
	Session        []byte
	Ciphers        []byte
	Compress       []byte
	Exts           []ext
	HasExts        bool
	SNI            []sniEntry // the entries inside the (single) server_name extension
	HasSNI         bool
}

func be16(n int) []byte { return []byte{byte(n >> 8), byte(n)} }

func encSNI(l []sniEntry) []byte {
	var body []byte
	for _, e := range l {
		body = append(body, byte(e.Type))
		body = append(body, be16(len(e.Name))...)
		body = append(body, e.Name...)
	}
	return append(be16(len(body)), body...)
}

func (h *hello) body() []byte {
	var b []byte
	b = append(b, byte(h.VersHi), byte(h.VersLo))
	b = append(b, h.Random...)
	b = append(b, byte(len(h.Session)))
	b = append(b, h.Session...)
	b = append(b, be16(len(h.Ciphers))...)
	b = append(b, h.Ciphers...)
	b = append(b, byte(len(h.Compress)))
	b = append(b, h.Compress...)
	if h.HasExts {
		var eb []byte
		for _, e := range h.Exts {
			eb = append(eb, be16(e.Type)...)
			eb = append(eb, be16(len(e.Data))...)
			eb = append(eb, e.Data...)
		}
		b = append(b, be16(len(eb))...)
		b = append(b, eb...)
	}
	return b
}

func (h *hello) handshake() []byte {
	b := h.body()
	return append([]byte{1, byte(len(b) >> 16), byte(len(b) >> 8), byte(len(b))}, b...)
}

// fudged encodes h with exactly one length field off by delta (field names
// below); everything else, including the enclosing lengths, stays as the true
// encoding has it.  These are the inputs on which a missing or off-by-one
// bounds check in the parser shows.
var fudgeFields = []string{"session", "ciphers", "compress", "extblock", "extlen", "snilist", "sniname", "handshake"}

func (h *hello) fudged(field string, delta int, r *rand.Rand) []byte {
	clamp := func(n, max int) int {
		if n < 0 {
			return 0
		}
		if n > max {
			return max
		}
		return n
	}
	f := func(name string, n, max int) int {
		if name == field {
			return clamp(n+delta, max)
		}
		return n
	}
	var b []byte
	b = append(b, byte(h.VersHi), byte(h.VersLo))
	b = append(b, h.Random...)
	b = append(b, byte(f("session", len(h.Session), 255)))
	b = append(b, h.Session...)
	b = append(b, be16(f("ciphers", len(h.Ciphers), 65535))...)
	b = append(b, h.Ciphers...)
	b = append(b, byte(f("compress", len(h.Compress), 255)))
	b = append(b, h.Compress...)
	if h.HasExts {
		var eb []byte
		target := -1
		if field == "extlen" && len(h.Exts) > 0 {
			target = r.Intn(len(h.Exts))
		}
		for i, e := range h.Exts {
			data := e.Data
			if e.Type == 0 && h.HasSNI && (field == "snilist" || field == "sniname") {
				var body []byte
				tn := r.Intn(len(h.SNI))
				for k, se := range h.SNI {
					body = append(body, byte(se.Type))
					n := len(se.Name)
					if field == "sniname" && k == tn {
						n = clamp(n+delta, 65535)
					}
					body = append(body, be16(n)...)
					body = append(body, se.Name...)
				}
				data = append(be16(f("snilist", len(body), 65535)), body...)
			}
			eb = append(eb, be16(e.Type)...)
			n := len(data)
			if i == target {
				n = clamp(n+delta, 65535)
			}
			eb = append(eb, be16(n)...)
			eb = append(eb, data...)
		}
		b = append(b, be16(f("extblock", len(eb), 65535))...)
		b = append(b, eb...)
	}
	n := f("handshake", len(b), 1<<24-1)
	return append([]byte{1, byte(n >> 16), byte(n >> 8), byte(n)}, b...)
}

func record(hs []byte) []byte {
	return append([]byte{22, 3, 1, byte(len(hs) >> 8), byte(len(hs))}, hs...)
}

func randBytes(r *rand.Rand, n int) []byte {
	b := make([]byte, n)
	r.Read(b)
	return b
}

// plausible bodies for extensions crypto/tls validates, so that the reference
// accepts most generated hellos
func extBody(r *rand.Rand, typ int) []byte {
	switch typ {
	case 10: // supported_groups
		return append(be16(4), 0, 29, 0, 23)
	case 11: // ec_point_formats
		return []byte{1, 0}
	case 13: // signature_algorithms
		return append(be16(4), 4, 3, 8, 4)
	case 16: // ALPN
		return append(be16(3), 2, 'h', '2')
	case 43: // supported_versions
		return []byte{2, 3, 4}
	case 23, 18, 35: // extended master secret, SCT, session ticket: empty is fine
		return nil
	case 21: // padding
		return make([]byte, r.Intn(300))
	case 0xff01:
		return []byte{0}
	default:
		return randBytes(r, r.Intn(40))
	}
}

func genHello(r *rand.Rand) *hello {
	h := &hello{VersHi: 3, VersLo: 1 + r.Intn(3), Random: randBytes(r, 32)}
	h.Session = randBytes(r, []int{0, 32, r.Intn(33)}[r.Intn(3)])
	nc := 1 + r.Intn(20)
	for i := 0; i < nc; i++ {
		ids := []uint16{0x1301, 0x1302, 0x1303, 0xc02b, 0xc02f, 0xc02c, 0xc030, 0xcca9, 0xcca8, 0xc013, 0xc014, 0x009c, 0x009d, 0x002f, 0x0035, 0x0a0a, 0x00ff}
		id := ids[r.Intn(len(ids))]
		h.Ciphers = append(h.Ciphers, byte(id>>8), byte(id))
	}
	h.Compress = []byte{0}
	if r.Intn(12) == 0 {
		return h // no extension block at all
	}
	h.HasExts = true
	pool := []int{10, 11, 13, 16, 43, 23, 18, 35, 21, 0xff01, 0x0a0a, 0x1a1a, 17513, 65037, 27, 45}
	r.Shuffle(len(pool), func(i, j int) { pool[i], pool[j] = pool[j], pool[i] })
	k := r.Intn(len(pool))
	for _, t := range pool[:k] {
		e := ext{Type: t, Data: extBody(r, t)}
		if t == 45 {
			e.Data = []byte{1, 1}
		}
		h.Exts = append(h.Exts, e)
	}
	if r.Intn(6) != 0 {
		h.HasSNI = true
		// non-host_name entries before / after the single host_name entry; crypto/tls
		// skips them (it requires them to be non-empty)
		for i := r.Intn(3); i > 0 && r.Intn(4) == 0; i-- {
			h.SNI = append(h.SNI, sniEntry{Type: 1 + r.Intn(200), Name: randBytes(r, 1+r.Intn(20))})
		}
		h.SNI = append(h.SNI, sniEntry{Type: 0, Name: []byte(randHost(r))})
		for i := r.Intn(3); i > 0 && r.Intn(4) == 0; i-- {
			h.SNI = append(h.SNI, sniEntry{Type: 1 + r.Intn(200), Name: randBytes(r, 1+r.Intn(20))})
		}
		pos := r.Intn(len(h.Exts) + 1)
		e := ext{Type: 0, Data: encSNI(h.SNI)}
		h.Exts = append(h.Exts[:pos], append([]ext{e}, h.Exts[pos:]...)...)
	}
	return h
}

func coqHello(h *hello) string {
	exts := vh.None
	if h.HasExts {
		items := make([]string, len(h.Exts))
		for i, e := range h.Exts {
			items[i] = fmt.Sprintf("{| ext_type := %s; ext_data := %s |}", vh.N(e.Type), vh.Hx(e.Data))
		}
		exts = vh.Some(vh.List(items))
	}
	return fmt.Sprintf("{| h_vers_hi := %s; h_vers_lo := %s; h_random := %s; h_session := %s; h_ciphers := %s; h_compress := %s; h_exts := %s |}",
		vh.N(h.VersHi), vh.N(h.VersLo), vh.Hx(h.Random), vh.Hx(h.Session), vh.Hx(h.Ciphers), vh.Hx(h.Compress), exts)
}

func coqSNI(h *hello) string {
	if !h.HasSNI {
		return vh.None
	}
	items := make([]string, len(h.SNI))
	for i, e := range h.SNI {
		items[i] = fmt.Sprintf("{| sn_type := %s; sn_name := %s |}", vh.N(e.Type), vh.Hx(e.Name))
	}
	return vh.Some(vh.List(items))
}

// ---------- running the implementation ----------
func bufKind(err error) int {
	s := err.Error()
	switch {
	case strings.HasPrefix(s, "At least 9 bytes"):
		return 1
	case strings.HasPrefix(s, "Not a TLS handshake"):
		return 2
	case strings.HasPrefix(s, "Invalid TLS record length"):
		return 3
	case strings.HasPrefix(s, "Not a client hello"):
		return 4
	case strings.HasPrefix(s, "Invalid client hello length"):
		return 5
	}
	return 99
}

func implBuf(data []byte) string {
	var n int
	var err error
	if p, _ := vh.Recover(func() { n, err = tcp.VerifClientHelloBufferSize(data) }); p {
		return vh.Panic
	}
	if err != nil {
		return vh.Err(bufKind(err))
	}
	if n < 0 {
		return vh.Err(98)
	}
	return vh.Ok(vh.N(n))
}

func implRead(msg []byte) (string, string) {
	var name string
	var ok bool
	if p, _ := vh.Recover(func() { name, ok = tcp.VerifReadServerName(msg) }); p {
		return vh.Panic, "panic"
	}
	if !ok {
		return vh.Err(0), "reject"
	}
	return vh.Ok(vh.HxS(name)), name
}

// implStream runs the real SNIProxy.ServeTCP on a scripted connection; the
// observable is the host handed to Lookup (routing decision input).
func implStream(segs [][]byte) string {
	called, host := false, ""
	p := &tcp.SNIProxy{Lookup: func(h string) *route.Target { called, host = true, h; return nil }}
	cp := make([][]byte, len(segs))
	for i := range segs {
		cp[i] = append([]byte(nil), segs[i]...)
	}
	if pn, _ := vh.Recover(func() { _ = p.ServeTCP(&scriptConn{segs: cp}) }); pn {
		return vh.Panic
	}
	if !called {
		return vh.Err(0)
	}
	return vh.Ok(vh.HxS(host))
}

func segment(r *rand.Rand, b []byte) [][]byte {
	var segs [][]byte
	for len(b) > 0 {
		n := 1 + r.Intn(len(b))
		if r.Intn(3) == 0 && n > 12 {
			n = 1 + r.Intn(12)
		}
		segs = append(segs, b[:n])
		b = b[n:]
	}
	return segs
}

func main() {
	run := vh.Start("C10")
	r := run.Rng

	addRead := func(class string, rec []byte, note string) {
		if len(rec) < 5 {
			rec = append(rec, make([]byte, 5-len(rec))...)
		}
		msg := rec[5:]
		impl, got := implRead(msg)
		tlsName, tlsOK := tlsServerName(rec)
		tlsCoq := vh.None
		if tlsOK {
			tlsCoq = vh.Some(vh.HxS(tlsName))
		}
		run.Add(class, vh.App("CRead", vh.Hx(msg), impl, tlsCoq),
			map[string]interface{}{"fn": "readServerName", "msg_len": len(msg), "impl": got, "tls_ok": tlsOK, "tls_name": tlsName, "note": note, "msg_hex_prefix": fmt.Sprintf("%x", msg[:min(len(msg), 48)])})
	}
	addBuf := func(class string, data []byte) {
		run.Add(class, vh.App("CBuf", vh.Hx(data), implBuf(data)),
			map[string]interface{}{"fn": "clientHelloBufferSize", "data_hex": fmt.Sprintf("%x", data[:min(len(data), 16)]), "len": len(data)})
	}
	addStream := func(class string, stream []byte) {
		segs := segment(r, stream)
		tlsName, tlsOK := tlsServerName(stream)
		tlsCoq := vh.None
		if tlsOK {
			tlsCoq = vh.Some(vh.HxS(tlsName))
		}
		run.Add(class, vh.App("CStream", vh.Hx(stream), implStream(segs), tlsCoq),
			map[string]interface{}{"fn": "SNIProxy.ServeTCP", "stream_len": len(stream), "segments": len(segs)})
	}

	// 1. real ClientHellos written by crypto/tls clients
	var corpus [][]byte
	nReal := run.Scale(120, 3000)
	for i := 0; i < nReal; i++ {
		cfg := randTLSConfig(r)
		rec := realHello(cfg)
		if rec == nil {
			run.Exclude("crypto/tls client produced no hello")
			continue
		}
		corpus = append(corpus, rec)
		addRead("real-hello", rec, fmt.Sprintf("sni=%q min=%x max=%x alpn=%v", cfg.ServerName, cfg.MinVersion, cfg.MaxVersion, cfg.NextProtos))
		addBuf("real-hello-buf", rec[:min(len(rec), 9+r.Intn(8))])
		if i%3 == 0 {
			extra := randBytes(r, r.Intn(40))
			addStream("real-hello-stream", append(append([]byte(nil), rec...), extra...))
		}
	}

	// 2. hellos generated from the AST (padding, GREASE, unknown extensions, SNI lists)
	nAst := run.Scale(250, 6000)
	for i := 0; i < nAst; i++ {
		h := genHello(r)
		hs := h.handshake()
		rec := record(hs)
		if len(hs) > 16384 {
			continue
		}
		corpus = append(corpus, rec)
		impl, got := implRead(hs)
		tlsName, tlsOK := tlsServerName(rec)
		tlsCoq := vh.None
		if tlsOK {
			tlsCoq = vh.Some(vh.HxS(tlsName))
		}
		want := ""
		for _, e := range h.SNI {
			if e.Type == 0 {
				want = string(e.Name)
				break
			}
		}
		run.Add("ast-hello", vh.App("CHello", coqHello(h), coqSNI(h), vh.Hx(hs), impl, tlsCoq),
			map[string]interface{}{"fn": "readServerName", "exts": len(h.Exts), "has_sni": h.HasSNI, "sni_entries": len(h.SNI), "want": want, "impl": got, "tls_ok": tlsOK, "tls_name": tlsName})
		if i%4 == 0 {
			addStream("ast-hello-stream", append(append([]byte(nil), rec...), randBytes(r, r.Intn(30))...))
		}
	}

	// 2a. large hellos (long ALPN lists, PSKs, post-quantum key shares, padding): records
	// beyond bufio's default 4096-byte buffer, up to the 16 KiB record limit, through the
	// whole SNIProxy path and through the parser
	for i := 0; i < run.Scale(36, 600); i++ {
		h := genHello(r)
		h.HasExts = true
		base := len(record(h.handshake()))
		targets := []int{4091, 4096, 4097, 4101, 8192, 16384 + 5, 16384 + 4, 4000 + r.Intn(12000), 4000 + r.Intn(12000)}
		want := targets[i%len(targets)]
		pad := want - base - 4
		if pad < 0 {
			pad = 0
		}
		e := ext{Type: 21, Data: make([]byte, pad)}
		pos := r.Intn(len(h.Exts) + 1)
		h.Exts = append(h.Exts[:pos], append([]ext{e}, h.Exts[pos:]...)...)
		hs := h.handshake()
		if len(hs) > 16384 {
			continue
		}
		rec := record(hs)
		addStream("large-hello-stream", append(append([]byte(nil), rec...), randBytes(r, r.Intn(30))...))
		if i%3 == 0 {
			addRead("large-hello", rec, fmt.Sprintf("record=%d", len(rec)))
		}
	}

	// 2c. truncation at (and one byte around) every structural boundary of the message: the
	// end of each fixed part, of each vector and of each extension.  A missing bounds check
	// before reading the next length byte shows only when the input ends exactly there.
	for i := 0; i < run.Scale(14, 300); i++ {
		h := genHello(r)
		if i%2 == 0 {
			h.Session = randBytes(r, []int{0, 1, 32}[r.Intn(3)])
		}
		hs := h.handshake()
		var bounds []int
		off := 4 + 2 + 32 // handshake header, version, random
		bounds = append(bounds, 4, 6, off)
		off += 1 + len(h.Session)
		bounds = append(bounds, off-len(h.Session), off)
		off += 2
		bounds = append(bounds, off)
		off += len(h.Ciphers)
		bounds = append(bounds, off)
		off += 1
		bounds = append(bounds, off)
		off += len(h.Compress)
		bounds = append(bounds, off)
		if h.HasExts {
			off += 2
			bounds = append(bounds, off)
			for _, e := range h.Exts {
				bounds = append(bounds, off+2, off+4)
				if e.Type == 0 && len(e.Data) >= 5 {
					bounds = append(bounds, off+4+2, off+4+3, off+4+5)
				}
				off += 4 + len(e.Data)
				bounds = append(bounds, off)
			}
		}
		seen := map[int]bool{}
		for _, b := range bounds {
			for _, d := range []int{-1, 0, 1} {
				n := b + d
				if n < 0 || n > len(hs) || seen[n] {
					continue
				}
				seen[n] = true
				addRead("boundary-truncated", record(hs[:n]), fmt.Sprintf("cut=%d of %d", n, len(hs)))
			}
		}
	}

	// 2b. one length field off by a small delta, for every field
	for i := 0; i < run.Scale(40, 800); i++ {
		h := genHello(r)
		if i%2 == 0 { // make sure the SNI entry is the last thing in the message half of the time
			h.HasExts, h.HasSNI = true, true
			h.SNI = []sniEntry{{Type: 0, Name: []byte(randHost(r))}}
			h.Exts = append(h.Exts[:min(len(h.Exts), r.Intn(3))], ext{Type: 0, Data: encSNI(h.SNI)})
		}
		for _, field := range fudgeFields {
			for _, delta := range []int{-2, -1, 1, 2} {
				hs := h.fudged(field, delta, r)
				if len(hs) > 16384 {
					continue
				}
				addRead("length-fudge", record(hs), fmt.Sprintf("%s%+d", field, delta))
			}
		}
	}

	// 3. malformed: truncations, corruptions of single bytes, spliced garbage
	nMal := run.Scale(700, 20000)
	for i := 0; i < nMal && len(corpus) > 0; i++ {
		rec := append([]byte(nil), corpus[r.Intn(len(corpus))]...)
		switch r.Intn(6) {
		case 0, 1: // truncate anywhere
			rec = rec[:r.Intn(len(rec)+1)]
			addRead("truncated", rec, "")
		case 2, 3: // corrupt one byte, biased to the first 120 bytes where the length fields are
			pos := r.Intn(len(rec))
			if r.Intn(2) == 0 {
				pos = r.Intn(min(len(rec), 120))
			}
			rec[pos] = byte(r.Intn(256))
			addRead("corrupted", rec, fmt.Sprintf("pos=%d", pos))
		case 4: // corrupt a byte in the 9-byte header and size it
			rec[r.Intn(9)] = []byte{0, 1, 22, 3, 4, 0x40, 0x41, 0xff, byte(r.Intn(256))}[r.Intn(9)]
			addBuf("corrupted-header", rec[:min(len(rec), 9+r.Intn(4))])
			addStream("corrupted-stream", rec)
		case 5: // truncated / corrupted stream through the proxy
			rec = rec[:r.Intn(len(rec)+1)]
			addStream("truncated-stream", rec)
		}
	}
	// 4. short and random inputs
	for i := 0; i < run.Scale(80, 2000); i++ {
		b := randBytes(r, r.Intn(60))
		addBuf("random-buf", b)
		addRead("random-read", append([]byte{22, 3, 1, 0, byte(len(b))}, b...), "")
	}
	// 5. header boundary values, exhaustively on the interesting bytes
	for _, rl := range []int{0, 1, 3, 4, 5, 16383, 16384, 16385, 65535} {
		for _, hl := range []int{0, 1, rl - 5, rl - 4, rl - 3, 16380, 16381, 1 << 16, 1<<24 - 1} {
			if hl < 0 {
				continue
			}
			for _, t := range []byte{22, 23} {
				for _, ht := range []byte{1, 2} {
					addBuf("boundary-header", []byte{t, 3, 1, byte(rl >> 8), byte(rl), ht, byte(hl >> 16), byte(hl >> 8), byte(hl)})
				}
			}
		}
	}
	run.Finish(preamble, run.Scale(120, 400))
}
