// Correspondence harness for C06 (concurrent requests do not influence each
// other's routing).  Runs the real route.Table.Lookup / rrPicker / GlobCache.Get
// and proxy.HTTPProxy.ServeHTTP of /repo
//   - under FORCED schedules (the Lookup function handed to HTTPProxy calls the
//     real Table.Lookup and then parks on a channel), replaying schedules of the
//     Coq interleaving model deterministically;
//   - sequentially (glob cache histories, round-robin cycles, lookups) against the
//     model;
//   - under stress with the race detector (the binary is built with -race and
//     re-executes itself with GORACE=log_path=...): every race report becomes a
//     violation named after the two functions that touched the location.
package main

import (
	"bytes"
	"fmt"
	"io"
	"math/big"
	"math/rand"
	"net"
	"net/http"
	"net/http/httptest"
	"os"
	"path/filepath"
	"runtime"
	"runtime/debug"
	"sort"
	"strconv"
	"strings"
	"sync"
	"sync/atomic"
	"syscall"
	"time"

	"github.com/gobwas/glob"

	"github.com/fabiolb/fabio/config"
	"github.com/fabiolb/fabio/proxy"
	"github.com/fabiolb/fabio/admin/api"
	"github.com/fabiolb/fabio/route"

	"verifharness/internal/vh"
)

const preamble = `From Coq Require Import List NArith String.
From Fabio Require Import Lib.Outcome Lib.Bytes Lib.Pack Model.Interleave Model.GlobCacheC06 Model.Access Check.C06.
Import ListNotations.
`

const fabioPrefix = "github.com/fabiolb/fabio/"

// ---------- race detector plumbing (same scheme as C17) ----------
func raceReexec() {
	if !raceEnabled || os.Getenv("C06_RACE_CHILD") != "" {
		return
	}
	out := ""
	for i, a := range os.Args {
		if (a == "-out" || a == "--out") && i+1 < len(os.Args) {
			out = os.Args[i+1]
		} else if strings.HasPrefix(a, "-out=") {
			out = a[5:]
		}
	}
	exe, err := os.Executable()
	if out == "" || err != nil {
		return
	}
	os.MkdirAll(out, 0o755)
	old, _ := filepath.Glob(filepath.Join(out, "race.*"))
	for _, f := range old {
		os.Remove(f)
	}
	env := append(os.Environ(), "C06_RACE_CHILD=1", "GORACE=log_path="+filepath.Join(out, "race")+" halt_on_error=0 exitcode=0 history_size=3")
	syscall.Exec(exe, os.Args, env)
}

// topFrame returns the innermost function of a race-report stack that belongs to fabio
// (or, failing that, the innermost frame at all), without the module prefix.
func topFrame(block []string) string {
	first := ""
	for _, l := range block {
		if strings.HasPrefix(l, "  ") && !strings.HasPrefix(l, "      ") {
			fn := strings.TrimSpace(l)
			if i := strings.LastIndex(fn, "("); i > 0 {
				fn = fn[:i]
			}
			if first == "" {
				first = fn
			}
			if strings.HasPrefix(fn, fabioPrefix) {
				return strings.TrimPrefix(fn, fabioPrefix)
			}
		}
	}
	return first
}

// raceSignature turns one report into "write in F vs read|write in G".
func raceSignature(rep string) string {
	lines := strings.Split(rep, "\n")
	type acc struct {
		write bool
		fn    string
	}
	var accs []acc
	for i := 0; i < len(lines) && len(accs) < 2; i++ {
		l := lines[i]
		low := strings.ToLower(l)
		if strings.Contains(low, " at 0x") && strings.Contains(low, "by ") && (strings.Contains(low, "read") || strings.Contains(low, "write")) {
			j := i + 1
			for j < len(lines) && strings.TrimSpace(lines[j]) != "" {
				j++
			}
			accs = append(accs, acc{strings.Contains(low, "write"), topFrame(lines[i+1 : j])})
			i = j
		}
	}
	if len(accs) < 2 {
		return "unparsed report"
	}
	a, b := accs[0], accs[1]
	// the write first; two writes in name order
	if (!a.write && b.write) || (a.write == b.write && b.fn < a.fn) {
		a, b = b, a
	}
	kind := func(w bool) string {
		if w {
			return "write"
		}
		return "read"
	}
	return kind(a.write) + " in " + a.fn + " vs " + kind(b.write) + " in " + b.fn
}

func raceReports(run *vh.Run) {
	files, _ := filepath.Glob(filepath.Join(run.Out, "race.*"))
	n := 0
	sigs := map[string]int{}
	first := map[string]string{}
	for _, f := range files {
		b, _ := os.ReadFile(f)
		for _, rep := range strings.Split(string(b), "==================") {
			if !strings.Contains(rep, "DATA RACE") {
				continue
			}
			n++
			s := raceSignature(rep)
			sigs[s]++
			if _, ok := first[s]; !ok {
				first[s] = rep
			}
		}
		os.Remove(f)
	}
	for _, s := range vh.SortedKeys(sigs) {
		run.Violation(-1, "data race: "+s+" (race detector, concurrent lookups)", map[string]interface{}{"reports": sigs[s], "first_report": first[s]})
	}
	run.Notes["race_detector"] = raceEnabled
	run.Notes["race_reports"] = n
	run.Notes["race_signatures"] = sigs
}

// ---------- helpers ----------
// guarded runs f and returns the recovered value and the innermost fabio frame of the panic.
func guarded(f func()) (val interface{}, where string) {
	defer func() {
		if v := recover(); v != nil {
			val = v
			st := strings.Split(string(debug.Stack()), "\n")
			seenPanic := false
			for _, l := range st {
				if strings.HasPrefix(l, "panic(") {
					seenPanic = true
					continue
				}
				if seenPanic && strings.HasPrefix(l, fabioPrefix) {
					where = strings.TrimPrefix(l, fabioPrefix)
					if i := strings.LastIndex(where, "("); i > 0 {
						where = where[:i]
					}
					break
				}
			}
			if where == "" {
				where = "?"
			}
		}
	}()
	f()
	return
}

type stubRT struct{}

func (stubRT) RoundTrip(req *http.Request) (*http.Response, error) {
	return &http.Response{StatusCode: 200, Status: "200 OK", Proto: "HTTP/1.1", ProtoMajor: 1, ProtoMinor: 1,
		Header: http.Header{"X-Upstream": {req.URL.Host}}, Body: io.NopCloser(strings.NewReader("ok")), Request: req}, nil
}

func mustTable(text string) route.Table {
	t, err := route.NewTable(bytes.NewBufferString(text))
	if err != nil {
		panic("harness table does not parse: " + err.Error() + "\n" + text)
	}
	return t
}

func newReq(host, path, remote string) *http.Request {
	r := httptest.NewRequest("GET", "http://"+host+path, nil)
	r.Host = host
	r.RemoteAddr = remote
	return r
}

var rrPick, prefixMatch = route.Picker["rr"], route.Matcher["prefix"]
var rndPick = route.Picker["rnd"]

// ---------- redirect templates: the URL as written in the route and the pieces of the Location ----------
type tmplT struct {
	url    string
	pieces []string // hole = the $path hole, slash = the "/" the route has in front of it
}

const hole, slash, hhole = "<HOLE>", "<SLASH>", "<HOSTHOLE>"

// rq is one request: URL path and Host header.
type rq struct{ path, host string }

// own is the Location the request with this path and Host must get.
func (t tmplT) own(path, host string) string {
	s := ""
	for i, pc := range t.pieces {
		switch {
		case pc == hhole:
			s += host
		case pc == hole:
			s += path
		case pc == slash && i+1 < len(t.pieces) && t.pieces[i+1] == hole:
		case pc == slash:
			s += "/"
		default:
			s += pc
		}
	}
	return s
}

var tmpls = []tmplT{
	{"http://new.example/$path", []string{"http://new.example", slash, hole}},
	{"http://new.example/base/$path", []string{"http://new.example/base", slash, hole}},
	{"https://new.example$path", []string{"https://new.example", hole}},
	{"http://new.example/fixed", []string{"http://new.example/fixed"}},
	{"http://new.example/", []string{"http://new.example/"}},
	{"https://$host/welcome", []string{"https://", hhole, "/welcome"}},
	{"https://$host/", []string{"https://", hhole, "/"}},
	{"https://$host/$path", []string{"https://", hhole, slash, hole}},
	{"http://$host.mirror.example/m/$path", []string{"http://", hhole, ".mirror.example/m", slash, hole}},
	// $path in the middle of the path (BuildRedirectURL substitutes it wherever it stands)
	{"http://new.example/docs/$path/index.html", []string{"http://new.example/docs", slash, hole, "/index.html"}},
	{"http://new.example/v$path/end", []string{"http://new.example/v", hole, "/end"}},
	{"https://$host/m/$path/tail", []string{"https://", hhole, "/m", slash, hole, "/tail"}},
}

func (t tmplT) coq() string {
	items := make([]string, len(t.pieces))
	for i, p := range t.pieces {
		if p == hole {
			items[i] = "Hole"
		} else if p == slash {
			items[i] = "Slash"
		} else if p == hhole {
			items[i] = "HHole"
		} else {
			items[i] = "(Lit " + vh.HxS(p) + ")"
		}
	}
	return vh.List(items)
}

func natList(xs []int) string {
	items := make([]string, len(xs))
	for i, x := range xs {
		items[i] = strconv.Itoa(x)
	}
	return "[" + strings.Join(items, ";") + "]"
}

func strList(xs []string) string {
	items := make([]string, len(xs))
	for i, x := range xs {
		items[i] = vh.HxS(x)
	}
	return vh.List(items)
}

func randPath(r *rand.Rand, tag string) string {
	segs := []string{"a", "bb", "img", "v1", "x-y", "Z_9", "api"}
	p := "/" + tag
	for k := r.Intn(3); k > 0; k-- {
		p += "/" + segs[r.Intn(len(segs))]
	}
	return p
}

// ---------- A. forced schedules on the real HTTPProxy ----------
type ev struct {
	th     int
	lookup bool
}

// runForced replays the coarse schedule evs (lookup / rest-of-ServeHTTP per thread) on a fresh
// table with one redirect route and returns every client's Location (outcome term).
func rqList(reqs []rq) string {
	items := make([]string, len(reqs))
	for i, q := range reqs {
		items[i] = vh.Pair(vh.HxS(q.path), vh.HxS(q.host))
	}
	return vh.List(items)
}

func rqHuman(reqs []rq) []string {
	out := make([]string, len(reqs))
	for i, q := range reqs {
		out[i] = q.host + q.path
	}
	return out
}

// runSerialLookup keeps ONE table across a serial history of requests and reads, after every
// Table.Lookup, the redirect URL the returned target carries (what ServeHTTP would send).
func runSerialLookup(t tmplT, reqs []rq) (impl []string, human []string) {
	tbl := mustTable(`route add rsvc / ` + t.url + ` opts "redirect=302"`)
	gc := route.NewGlobCache(8)
	for _, q := range reqs {
		var tg *route.Target
		pv, _ := guarded(func() { tg = tbl.Lookup(newReq(q.host, q.path, "10.0.0.1:1000"), "", rrPick, prefixMatch, gc, false) })
		switch {
		case pv != nil:
			impl, human = append(impl, vh.Panic), append(human, fmt.Sprint("panic: ", pv))
		case tg != nil && tg.RedirectCode != 0 && tg.RedirectURL != nil:
			loc := tg.RedirectURL.String()
			impl, human = append(impl, vh.Ok(vh.HxS(loc))), append(human, loc)
		default:
			impl, human = append(impl, vh.Err(0)), append(human, "no redirect target")
		}
	}
	return
}

func runForced(t tmplT, reqs []rq, evs []ev) (impl []string, human []string) {
	tbl := mustTable(`route add rsvc / ` + t.url + ` opts "redirect=302"`)
	gc := route.NewGlobCache(8)
	n := len(reqs)
	start := make([]chan struct{}, n)
	cont := make([]chan struct{}, n)
	done := make([]chan struct{}, n)
	looked := make(chan int)
	for i := range start {
		start[i], cont[i], done[i] = make(chan struct{}), make(chan struct{}), make(chan struct{})
	}
	p := &proxy.HTTPProxy{Config: config.Proxy{}, Transport: stubRT{}, Lookup: func(req *http.Request) *route.Target {
		who, _ := strconv.Atoi(req.Header.Get("X-Verif-Who"))
		<-start[who]
		tg := tbl.Lookup(req, "", rrPick, prefixMatch, gc, false)
		looked <- who
		<-cont[who]
		return tg
	}}
	recs := make([]*httptest.ResponseRecorder, n)
	panics := make([]interface{}, n)
	for i := 0; i < n; i++ {
		recs[i] = httptest.NewRecorder()
		req := newReq(reqs[i].host, reqs[i].path, "10.0.0.1:1000")
		req.Header.Set("X-Verif-Who", strconv.Itoa(i))
		go func(i int, req *http.Request) {
			panics[i], _ = guarded(func() { p.ServeHTTP(recs[i], req) })
			close(done[i])
		}(i, req)
	}
	for _, e := range evs {
		if e.lookup {
			start[e.th] <- struct{}{}
			<-looked
		} else {
			cont[e.th] <- struct{}{}
			<-done[e.th]
		}
	}
	impl = make([]string, n)
	human = make([]string, n)
	for i := 0; i < n; i++ {
		loc := recs[i].Header().Get("Location")
		switch {
		case panics[i] != nil:
			impl[i], human[i] = vh.Panic, fmt.Sprint("panic: ", panics[i])
		case recs[i].Code == 302 && loc != "":
			impl[i], human[i] = vh.Ok(vh.HxS(loc)), loc
		default:
			impl[i], human[i] = vh.Err(0), fmt.Sprintf("status %d", recs[i].Code)
		}
	}
	return
}

func forcedCases(run *vh.Run) {
	r := run.Rng
	fineOf := func(evs []ev) (fine []int, hs []string) {
		for _, e := range evs {
			if e.lookup {
				fine = append(fine, e.th, e.th, e.th, e.th)
				hs = append(hs, fmt.Sprintf("L%d", e.th))
			} else {
				fine = append(fine, e.th)
				hs = append(hs, fmt.Sprintf("R%d", e.th))
			}
		}
		return
	}
	emit := func(class string, t tmplT, reqs []rq, evs []ev) {
		impl, human := runForced(t, reqs, evs)
		fine, hs := fineOf(evs)
		run.Add(class, vh.App("CRedir", t.coq(), rqList(reqs), natList(fine), vh.List(impl)),
			map[string]interface{}{"template": t.url, "requests": rqHuman(reqs), "schedule": strings.Join(hs, " "), "locations": human})
	}
	L, R := func(i int) ev { return ev{i, true} }, func(i int) ev { return ev{i, false} }
	serialEvs := func(n int) []ev {
		var evs []ev
		for i := 0; i < n; i++ {
			evs = append(evs, L(i), R(i))
		}
		return evs
	}
	A, B := rq{"/from-A", "old.example"}, rq{"/from-B", "old.example"}
	A2, B2 := rq{"/from-A", "a.example.com"}, rq{"/from-B", "b.example.org"}
	for _, t := range tmpls {
		// the witness schedule of redirect_cross_talk_refuted: A looks up, B looks up, A continues
		emit("redirect-forced-witness", t, []rq{A, B}, []ev{L(0), L(1), R(0), R(1)})
		emit("redirect-forced-witness", t, []rq{A, B}, []ev{L(1), L(0), R(0), R(1)})
		emit("redirect-forced-witness", t, []rq{A2, B2}, []ev{L(0), L(1), R(0), R(1)})
		// serial
		emit("redirect-forced-serial", t, []rq{A, B}, serialEvs(2))
		emit("redirect-forced-serial", t, []rq{{"/only", "old.example"}}, serialEvs(1))
		// same request twice: no observable cross-talk
		emit("redirect-forced-samepath", t, []rq{{"/same", "old.example"}, {"/same", "old.example"}}, []ev{L(0), L(1), R(0), R(1)})
	}
	hostPool := []string{"a.example.com", "b.example.org", "A.Example.COM", "c.test:8080", "old.example", "xn--e1afmkfd.example"}
	randReq := func(k int) rq { return rq{randPath(r, fmt.Sprintf("t%d", k)), hostPool[r.Intn(len(hostPool))]} }
	// ONE table kept across a serial history of 3-8 requests with varying hosts and paths, through the
	// real ServeHTTP and through Table.Lookup alone: every answer must be the one the same request
	// gets on a fresh table (no cross-request effect even without concurrency)
	for _, t := range tmpls {
		for rep := 0; rep < run.Scale(3, 40); rep++ {
			n := 3 + r.Intn(6)
			reqs := make([]rq, n)
			for k := range reqs {
				reqs[k] = randReq(k)
				if k > 0 && r.Intn(5) == 0 {
					reqs[k].path = reqs[k-1].path // same path, other host
				}
				if k > 0 && r.Intn(5) == 0 {
					reqs[k].host = reqs[k-1].host // same host, other path
				}
			}
			evs := serialEvs(n)
			fine, hs := fineOf(evs)
			if rep%2 == 0 {
				emit("redirect-serial-history-servehttp", t, reqs, evs)
			} else {
				impl, human := runSerialLookup(t, reqs)
				run.Add("redirect-serial-history-lookup", vh.App("CRedir", t.coq(), rqList(reqs), natList(fine), vh.List(impl)),
					map[string]interface{}{"template": t.url, "requests": rqHuman(reqs), "schedule": strings.Join(hs, " "), "locations": human})
			}
		}
	}
	for i := 0; i < run.Scale(60, 1500); i++ {
		t := tmpls[r.Intn(len(tmpls))]
		n := 2 + r.Intn(3)
		reqs := make([]rq, n)
		for k := range reqs {
			reqs[k] = randReq(k)
			if k > 0 && r.Intn(6) == 0 {
				reqs[k] = reqs[0]
			}
		}
		// a random interleaving in which every thread's lookup precedes its continuation
		state := make([]int, n)
		var evs []ev
		for len(evs) < 2*n {
			k := r.Intn(n)
			if state[k] < 2 {
				evs = append(evs, ev{k, state[k] == 0})
				state[k]++
			}
		}
		emit("redirect-forced-random", t, reqs, evs)
	}
}

// ---------- C. glob cache, sequential histories ----------
var globProbes = []string{"", "a", "a.b", "x.a.com", "y.z.a.com", "abc", "axc", "x.com", "y.com", "foo.bar", "h1.example", "q.h1.example", "[", "{a"}

func sameGlob(g glob.Glob, pattern string) bool {
	ref, err := glob.Compile(pattern)
	if err != nil || g == nil {
		return false
	}
	for _, p := range globProbes {
		if g.Match(p) != ref.Match(p) {
			return false
		}
	}
	return true
}

var goodPats = []string{"*.a.com", "a?c", "{x,y}.com", "foo.bar", "*.h1.example", "*", "a*", "*.b.*", "[ab].c", "h?.example", "x.y.z", "*.*.com"}
var badPats = []string{"[", "{a", "a[", "[a-"}

func globSeq(run *vh.Run, class string, size int, calls []string) {
	c := route.NewGlobCache(size)
	var impl, human, callTerms []string
	for _, p := range calls {
		_, cerr := glob.Compile(p)
		callTerms = append(callTerms, vh.Pair(vh.HxS(p), vh.Bool(cerr == nil)))
		var g glob.Glob
		var err error
		pv, _ := guarded(func() { g, err = c.Get(p) })
		switch {
		case pv != nil:
			impl, human = append(impl, vh.Panic), append(human, p+" -> panic")
		case err != nil:
			impl, human = append(impl, vh.Err(1)), append(human, p+" -> error")
		case sameGlob(g, p):
			impl, human = append(impl, vh.Ok(vh.HxS(p))), append(human, p+" -> ok")
		default:
			impl, human = append(impl, vh.Ok(vh.HxS("<a glob that is not Compile(pattern)>"))), append(human, p+" -> WRONG GLOB")
		}
	}
	l, h, n, keys := c.VerifC06State()
	sort.Strings(keys)
	run.Add(class, vh.App("CGlobSeq", strconv.Itoa(size), vh.List(callTerms), vh.List(impl), strList(l), strconv.Itoa(h), strconv.Itoa(n), strList(keys)),
		map[string]interface{}{"size": size, "calls": human, "l": l, "h": h, "n": n, "keys": keys})
}

func globSeqCases(run *vh.Run) {
	r := run.Rng
	for size := 1; size <= 5; size++ {
		// fill exactly, one more, two full turns of the ring, re-request an evicted and a kept one
		var calls []string
		for i := 0; i < 2*size+2; i++ {
			calls = append(calls, goodPats[i%len(goodPats)])
		}
		globSeq(run, "glob-seq-directed", size, calls[:size])
		globSeq(run, "glob-seq-directed", size, calls[:size+1])
		globSeq(run, "glob-seq-directed", size, calls)
		globSeq(run, "glob-seq-directed", size, append(append([]string{}, calls...), calls[0], calls[len(calls)-1], calls[1]))
		globSeq(run, "glob-seq-directed", size, []string{"a*", "a*", "[", "a*", "[", "{a"})
	}
	for i := 0; i < run.Scale(110, 4000); i++ {
		size := 1 + r.Intn(6)
		pool := 1 + r.Intn(len(goodPats))
		n := 3 + r.Intn(40)
		calls := make([]string, n)
		for k := range calls {
			if r.Intn(9) == 0 {
				calls[k] = badPats[r.Intn(len(badPats))]
			} else {
				calls[k] = goodPats[r.Intn(pool)]
			}
		}
		globSeq(run, "glob-seq-random", size, calls)
	}
}

// ---------- D. glob cache, concurrent Gets on a fresh cache ----------
func globConcCases(run *vh.Run) {
	r := run.Rng
	type key struct{ size, threads, n, keys, panics, wrong int }
	seen := map[key]int{}
	var order []key
	type linCase struct {
		term   string
		sample interface{}
	}
	linSeen := map[string]bool{}
	var linCases []linCase
	rounds := run.Scale(1000, 40000)
	for i := 0; i < rounds; i++ {
		size := []int{1, 2, 3, 4}[r.Intn(4)]
		threads := 1
		if i%10 != 0 {
			threads = 2 + r.Intn(5)
		}
		per := 1 + r.Intn(2)
		c := route.NewGlobCache(size)
		// bring the cache to n = size-1 so that the concurrent Gets meet at the boundary
		for k := 0; k < size-1; k++ {
			c.Get(fmt.Sprintf("pre%d.*", k))
		}
		var wg sync.WaitGroup
		var panics, wrong int64
		startc := make(chan struct{})
		for g := 0; g < threads; g++ {
			wg.Add(1)
			go func(g int) {
				defer wg.Done()
				<-startc
				for k := 0; k < per; k++ {
					pat := fmt.Sprintf("g%dk%d.*", g, k)
					var gl glob.Glob
					var err error
					pv, _ := guarded(func() { gl, err = c.Get(pat) })
					if pv != nil {
						atomic.AddInt64(&panics, 1)
					} else if err != nil || !gl.Match(fmt.Sprintf("g%dk%d.x", g, k)) || gl.Match("zzz") {
						atomic.AddInt64(&wrong, 1)
					}
				}
			}(g)
		}
		close(startc)
		wg.Wait()
		// the state right after the concurrent Gets must be the result of SOME serial order of them
		if per == 1 && threads >= 2 && threads <= 5 && panics == 0 {
			l1, h1, n1, k1 := c.VerifC06State()
			sort.Strings(k1)
			var pre, pats []string
			for k := 0; k < size-1; k++ {
				pre = append(pre, fmt.Sprintf("pre%d.*", k))
			}
			for g := 0; g < threads; g++ {
				pats = append(pats, fmt.Sprintf("g%dk0.*", g))
			}
			term := vh.App("CGlobLin", strconv.Itoa(size), strList(pre), strList(pats), strList(l1), strconv.Itoa(h1), strconv.Itoa(n1), strList(k1))
			if !linSeen[term] && len(linSeen) < run.Scale(40, 400) {
				linSeen[term] = true
				linCases = append(linCases, linCase{term, map[string]interface{}{"size": size, "goroutines": threads, "l": l1, "h": h1, "n": n1, "keys": k1}})
			}
		}
		// afterwards, alone: more misses than the ring has slots
		for k := 0; k < 2*size+3; k++ {
			pat := fmt.Sprintf("after%d.*", k)
			var gl glob.Glob
			var err error
			pv, _ := guarded(func() { gl, err = c.Get(pat) })
			if pv != nil {
				panics++
			} else if err != nil || !gl.Match(fmt.Sprintf("after%d.x", k)) {
				wrong++
			}
		}
		_, _, n, keys := c.VerifC06State()
		k := key{size, threads, n, len(keys), int(panics), int(wrong)}
		if seen[k] == 0 {
			order = append(order, k)
		}
		seen[k]++
	}
	for _, k := range order {
		class := "glob-conc"
		if k.threads == 1 {
			class = "glob-conc-control-1-goroutine"
		}
		run.Add(class, vh.App("CGlobConc", strconv.Itoa(k.size), strconv.Itoa(k.threads), strconv.Itoa(k.n), strconv.Itoa(k.keys), strconv.Itoa(k.panics), strconv.Itoa(k.wrong)),
			map[string]interface{}{"size": k.size, "goroutines": k.threads, "n_after": k.n, "map_entries_after": k.keys, "recovered_panics": k.panics, "wrong_results": k.wrong, "rounds_with_this_outcome": seen[k]})
	}
	for _, lc := range linCases {
		run.Add("glob-conc-linearisation", lc.term, lc.sample)
	}
	run.Notes["glob_conc_rounds"] = rounds
}

// ---------- E/F. round robin ----------
type rrTable struct {
	name string
	text string
}

var rrTables = []rrTable{
	{"equal-2", "route add a rr.example/ http://a.internal:80/\nroute add b rr.example/ http://b.internal:80/"},
	{"equal-3", "route add a rr.example/ http://a.internal:80/\nroute add b rr.example/ http://b.internal:80/\nroute add c rr.example/ http://c.internal:80/"},
	{"equal-5", "route add a rr.example/ http://a.internal:80/\nroute add b rr.example/ http://b.internal:80/\nroute add c rr.example/ http://c.internal:80/\nroute add d rr.example/ http://d.internal:80/\nroute add e rr.example/ http://e.internal:80/"},
	{"weighted-25-75", "route add a rr.example/ http://a.internal:80/ weight 0.25\nroute add b rr.example/ http://b.internal:80/"},
	{"weighted-10-20-70", "route add a rr.example/ http://a.internal:80/ weight 0.1\nroute add b rr.example/ http://b.internal:80/ weight 0.2\nroute add c rr.example/ http://c.internal:80/"},
	// registered in an order that is neither the order of the names nor of the URLs, options out of order
	{"equal-4-unordered", "route add m rr.example/ http://m.internal:80/ opts \"z=1 a=2\"\nroute add c rr.example/ http://z.internal:80/\nroute add x rr.example/ http://a.internal:80/\nroute add a rr.example/ http://k.internal:80/ opts \"strip=/s host=dst\""},
}

func rrRoute(tbl route.Table) *route.Route { return tbl["rr.example"][0] }

// targetIndex identifies the target a lookup returned among the targets of a route.  Since fix ddf101c a
// redirect target is returned as a per-request copy: it shares the *url.URL of the target it was copied from.
func targetIndex(rt *route.Route, t *route.Target) int {
	for i, x := range rt.Targets {
		if x == t {
			return i
		}
	}
	if t != nil && t.RedirectCode != 0 {
		for i, x := range rt.Targets {
			if x.URL == t.URL && x.Service == t.Service {
				return i
			}
		}
	}
	return -1
}

func rrCases(run *vh.Run) {
	r := run.Rng
	gc := route.NewGlobCache(16)
	for _, rt := range rrTables {
		for rep := 0; rep < run.Scale(3, 20); rep++ {
			tbl := mustTable(rt.text)
			ro := rrRoute(tbl)
			ring := ro.VerifC06Ring()
			var c0 uint64
			switch rep {
			case 0:
				c0 = 0
			case 1:
				c0 = ^uint64(0) - uint64(r.Intn(len(ring)+2)) // the cursor wraps during the run
			default:
				c0 = r.Uint64() >> uint(r.Intn(64))
			}
			ro.VerifC06SetCursor(c0)
			k := 2*len(ring) + r.Intn(len(ring)+1)
			if len(ring) > 100 {
				k = 150 + r.Intn(200)
			}
			// targets are identified by what they were when the round began; on odd repetitions the
			// table is published and READ in the middle of the round (admin API route listing with and
			// without ?raw, Table.String, Table.Dump): a reader is no lookup and must not move anything
			before := &route.Route{Targets: append([]*route.Target{}, ro.Targets...)}
			impl := make([]int, k)
			for i := range impl {
				if rep%2 == 1 && (i == k/3 || i == 2*k/3) {
					route.SetTable(tbl)
					(&api.RoutesHandler{}).ServeHTTP(httptest.NewRecorder(), httptest.NewRequest("GET", "/api/routes"+[]string{"", "?raw"}[i%2], nil))
					_ = tbl.String()
					_ = tbl.Dump()
				}
				impl[i] = targetIndex(before, tbl.Lookup(newReq("rr.example", "/", "10.0.0.1:1"), "", rrPick, prefixMatch, gc, false))
				if impl[i] < 0 {
					run.Violation(run.NextID(), "round-robin lookup returned a target that is not on the route", rt.name)
					impl[i] = 0
				}
			}
			run.Add("rr-seq-"+rt.name, vh.App("CRRSeq", natList(ring), vh.N64(c0), strconv.Itoa(k), natList(impl), vh.N64(ro.VerifC06Cursor())),
				map[string]interface{}{"table": rt.name, "ring_len": len(ring), "cursor": c0, "picks": k, "first_targets": impl[:min(12, k)]})
		}
	}
	// concurrent: G goroutines x per lookups on one route
	for _, rt := range rrTables {
		for _, G := range []int{1, 2, 4, 8} {
			for rep := 0; rep < run.Scale(2, 12); rep++ {
				if G == 1 && rep > 0 {
					continue
				}
				tbl := mustTable(rt.text)
				ro := rrRoute(tbl)
				ring := ro.VerifC06Ring()
				if len(ring) > 100 && !run.Thorough() && (rep > 0 || G == 2 || G == 8) {
					continue // a 10000-slot ring is a big term: few of them in the quick tier
				}
				cycles := 3 + r.Intn(3)
				total := cycles * len(ring)
				if len(ring) > 100 {
					total = len(ring)
				}
				total = (total + G - 1) / G * G
				per := total / G
				c0 := uint64(r.Intn(3 * len(ring)))
				if rep == 1 && len(ring) <= 100 {
					c0 = ^uint64(0) - uint64(r.Intn(total)) // the uint64 cursor wraps during the run
				}
				ro.VerifC06SetCursor(c0)
				counts := make([][]int, G)
				bad := int64(0)
				var wg sync.WaitGroup
				startc := make(chan struct{})
				for g := 0; g < G; g++ {
					counts[g] = make([]int, len(ro.Targets))
					wg.Add(1)
					go func(g int) {
						defer wg.Done()
						req := newReq("rr.example", "/", "10.0.0.1:1")
						<-startc
						for i := 0; i < per; i++ {
							ti := targetIndex(ro, tbl.Lookup(req, "", rrPick, prefixMatch, gc, false))
							if ti < 0 {
								atomic.AddInt64(&bad, 1)
							} else {
								counts[g][ti]++
							}
						}
					}(g)
				}
				close(startc)
				wg.Wait()
				sum := make([]int, len(ro.Targets))
				for g := range counts {
					for t, c := range counts[g] {
						sum[t] += c
					}
				}
				if bad > 0 {
					run.Violation(run.NextID(), "concurrent round-robin lookup returned a target that is not on the route", rt.name)
				}
				class := "rr-conc-" + rt.name
				if G == 1 {
					class = "rr-conc-control-1-goroutine"
				}
				run.Add(class, vh.App("CRRConc", natList(ring), vh.N64(c0), strconv.Itoa(G), strconv.Itoa(per), natList(sum), vh.N64(ro.VerifC06Cursor())),
					map[string]interface{}{"table": rt.name, "ring_len": len(ring), "goroutines": G, "picks_each": per, "cursor": c0, "picks_per_target": sum, "cursor_after": ro.VerifC06Cursor()})
			}
		}
	}
}

// ---------- F1b. rr lookups while many tables are installed: exact shares PER TABLE ----------
// G goroutines look up one (host, path) through route.GetTable() while a writer installs tables in
// quick succession, all containing that route with k equal targets.  Every target is registered
// with its table's generation before the table is published, so each pick is attributed to the
// table that served it.  Per generation: the picks must be the next n values of that table's
// cursor, which starts at 0 (a table is immutable after SetTable except for its own cursors).
type genTarget struct{ gen, idx int }

func rrPerTable(run *vh.Run) {
	gc := route.NewGlobCache(16)
	type outcome struct {
		k      int
		counts string
		n      int
		cursor uint64
	}
	seen := map[outcome]int{}
	sample := map[outcome][]int{}
	totalGens, servedGens := 0, 0
	rings := map[int][]int{}
	for _, k := range []int{2, 3, -2} { // -2: two targets with weights 0.25 / 0.75 (a 10000-slot ring)
		var lines []string
		weighted := k < 0
		if weighted {
			k = -k
		}
		for j := 0; j < k; j++ {
			w := ""
			if weighted && j == 0 {
				w = " weight 0.25"
			}
			lines = append(lines, fmt.Sprintf("route add s%d gen.example/ http://t%d.internal:80/%s", j, j, w))
		}
		text := strings.Join(lines, "\n")
		nGen := run.Scale(700, 6000)
		if weighted {
			nGen = run.Scale(40, 400) // few, long-lived generations: every case carries the 10000-slot ring
		}
		G := 8
		var reg sync.Map // *route.Target -> genTarget
		routes := make([]*route.Route, 0, nGen)
		install := func(gen int) {
			tbl := mustTable(text)
			ro := tbl["gen.example"][0]
			for i, t := range ro.Targets {
				reg.Store(t, genTarget{gen, i})
			}
			routes = append(routes, ro)
			route.SetTable(tbl)
		}
		install(0)
		counts := make([][][]int, G) // goroutine, generation, target
		stop := make(chan struct{})
		var wg sync.WaitGroup
		var bad int64
		for g := 0; g < G; g++ {
			counts[g] = make([][]int, nGen)
			wg.Add(1)
			go func(g int) {
				defer wg.Done()
				req := newReq("gen.example", "/", "10.0.0.1:1")
				for {
					select {
					case <-stop:
						return
					default:
					}
					tg := route.GetTable().Lookup(req, "", rrPick, prefixMatch, gc, false)
					v, ok := reg.Load(tg)
					if !ok {
						atomic.AddInt64(&bad, 1)
						continue
					}
					gt := v.(genTarget)
					if counts[g][gt.gen] == nil {
						counts[g][gt.gen] = make([]int, k)
					}
					counts[g][gt.gen][gt.idx]++
				}
			}(g)
		}
		for gen := 1; gen < nGen; gen++ {
			install(gen)
			if gen%4 == 0 {
				runtime.Gosched()
			}
			if gen%64 == 0 {
				time.Sleep(200 * time.Microsecond)
			}
			if weighted {
				time.Sleep(3 * time.Millisecond)
			}
		}
		time.Sleep(2 * time.Millisecond)
		close(stop)
		wg.Wait()
		route.SetTable(mustTable(""))
		if bad > 0 {
			run.Violation(run.NextID(), "rr lookup during table replacement returned a target of no installed table", nil)
		}
		kk := k
		if weighted {
			kk = -k
		}
		rings[kk] = routes[0].VerifC06Ring()
		for gen, ro := range routes {
			if fmt.Sprint(ro.VerifC06Ring()) != fmt.Sprint(rings[kk]) {
				run.Violation(run.NextID(), "tables built from the same text have different rings", nil)
			}
			sum := make([]int, k)
			n := 0
			for g := 0; g < G; g++ {
				for t, c := range counts[g][gen] {
					sum[t] += c
					n += c
				}
			}
			totalGens++
			if n > 0 {
				servedGens++
			}
			o := outcome{kk, natList(sum), n, ro.VerifC06Cursor()}
			seen[o]++
			sample[o] = sum
		}
	}
	// distinct outcomes become cases; the ones whose counts are not within 1 of each other or whose cursor
	// is not the number of picks first, so that the cap never hides them (the verdict is Coq's)
	var outs []outcome
	for o := range seen {
		outs = append(outs, o)
	}
	odd := func(o outcome) bool {
		mn, mx := 1<<30, 0
		for _, c := range sample[o] {
			if c < mn {
				mn = c
			}
			if c > mx {
				mx = c
			}
		}
		return (o.k > 0 && mx-mn > 1) || uint64(o.n) != o.cursor
	}
	sort.Slice(outs, func(i, j int) bool {
		if odd(outs[i]) != odd(outs[j]) {
			return odd(outs[i])
		}
		if outs[i].k != outs[j].k {
			return outs[i].k < outs[j].k
		}
		if outs[i].n != outs[j].n {
			return outs[i].n > outs[j].n
		}
		return outs[i].counts < outs[j].counts
	})
	perK := map[int]int{}
	for _, o := range outs {
		limit := run.Scale(40, 400)
		if o.k < 0 {
			limit = run.Scale(5, 40)
		}
		if perK[o.k] >= limit && !(odd(o) && perK[o.k] < 10*limit) {
			continue
		}
		perK[o.k]++
		ring := rings[o.k] // the route's real ring, read through the hook
		class := fmt.Sprintf("rr-per-table-%d-targets", o.k)
		if o.k < 0 {
			class = "rr-per-table-weighted-25-75"
		}
		run.Add(class, vh.App("CRRTable", natList(ring), vh.N64(0), strconv.Itoa(o.n), o.counts, vh.N64(o.cursor)),
			map[string]interface{}{"targets": o.k, "picks_served_by_this_table": o.n, "picks_per_target": sample[o], "cursor_after": o.cursor, "tables_with_this_outcome": seen[o]})
	}
	run.Notes["rr_per_table_generations"] = totalGens
	run.Notes["rr_per_table_generations_that_served_lookups"] = servedGens
	run.Notes["rr_per_table_distinct_outcomes"] = len(outs)
}

// ---------- F2. the random picker (default strategy) under concurrency ----------
var rndTables = append(append([]rrTable{}, rrTables...),
	rrTable{"weighted-100-0", "route add a rr.example/ http://a.internal:80/ weight 1\nroute add b rr.example/ http://b.internal:80/"},
	rrTable{"weighted-1-99", "route add a rr.example/ http://a.internal:80/ weight 0.01\nroute add b rr.example/ http://b.internal:80/"})

func rndCases(run *vh.Run) {
	gc := route.NewGlobCache(16)
	worst := 0.0
	for _, rt := range rndTables {
		for _, G := range []int{1, 8, 12} {
			if G == 12 && !run.Thorough() && len(rt.name) > 9 { // the weighted tables: big ring terms
				continue
			}
			tbl := mustTable(rt.text)
			ro := rrRoute(tbl)
			ring := ro.VerifC06Ring()
			per := run.Scale(2500, 40000)
			counts := make([][]int, G)
			var panics, foreign int64
			var pmu sync.Mutex
			pmsgs := map[string]int{}
			var wg sync.WaitGroup
			startc := make(chan struct{})
			for g := 0; g < G; g++ {
				counts[g] = make([]int, len(ro.Targets))
				wg.Add(1)
				go func(g int) {
					defer wg.Done()
					req := newReq("rr.example", "/", "10.0.0.1:1")
					<-startc
					for i := 0; i < per; i++ {
						var tg *route.Target
						pv, where := guarded(func() { tg = tbl.Lookup(req, "", rndPick, prefixMatch, gc, false) })
						if pv != nil {
							atomic.AddInt64(&panics, 1)
							pmu.Lock()
							pmsgs[fmt.Sprintf("lookup with the random picker panicked under concurrency in %s: %v", where, pv)]++
							pmu.Unlock()
							continue
						}
						if ti := targetIndex(ro, tg); ti < 0 {
							atomic.AddInt64(&foreign, 1)
						} else {
							counts[g][ti]++
						}
					}
				}(g)
			}
			close(startc)
			wg.Wait()
			sum := make([]int, len(ro.Targets))
			for g := range counts {
				for t, c := range counts[g] {
					sum[t] += c
				}
			}
			for _, m := range vh.SortedKeys(pmsgs) {
				run.Violation(run.NextID(), m, map[string]interface{}{"table": rt.name, "goroutines": G, "times": pmsgs[m]})
			}
			// share sanity: a note, not a verdict
			slots := make([]int, len(ro.Targets))
			for _, t := range ring {
				if t >= 0 {
					slots[t]++
				}
			}
			for t := range sum {
				want := float64(slots[t]) / float64(len(ring))
				got := float64(sum[t]) / float64(G*per)
				if d := got - want; d > worst {
					worst = d
				} else if -d > worst {
					worst = -d
				}
			}
			class := "rnd-conc-" + rt.name
			if G == 1 {
				class = "rnd-conc-control-1-goroutine"
			}
			run.Add(class, vh.App("CRndConc", natList(ring), strconv.Itoa(G), strconv.Itoa(per), natList(sum), strconv.Itoa(int(panics)), strconv.Itoa(int(foreign))),
				map[string]interface{}{"table": rt.name, "ring_len": len(ring), "goroutines": G, "lookups_each": per, "picks_per_target": sum, "recovered_panics": panics, "foreign_targets": foreign})
		}
	}
	run.Notes["rnd_worst_share_deviation"] = worst
}

// ---------- G. sequential lookups against the lookup model ----------
func lookupCases(run *vh.Run) {
	r := run.Rng
	gc := route.NewGlobCache(4)
	// a redirect to the request's own URL: Table.Lookup picks a target of the route and then skips it
	selfT := tmplT{"http://$host/$path", []string{"http://", hhole, slash, hole}}
	lkTmpls := append(append([]tmplT{}, tmpls...), selfT, selfT)
	tmplByHost := map[string]tmplT{}
	for i := 0; i < run.Scale(16, 240); i++ {
		// hosts: disjoint by construction (distinct second-level names), so that at most one
		// pattern matches a request and the visiting order is [that host; ""]
		nh := 2 + r.Intn(4)
		var lines []string
		hosts := []string{}
		for h := 0; h < nh; h++ {
			name := fmt.Sprintf("d%d.example", h)
			if r.Intn(2) == 0 {
				name = "*." + name
			}
			hosts = append(hosts, name)
		}
		hosts = append(hosts, "")
		svc := 0
		directed := i%4 == 0 // every fourth table: self-redirect routes with two targets on the host routes
		for _, h := range hosts {
			for _, p := range []string{"/", "/a", "/a/b", "/img"} {
				if r.Intn(3) == 0 && !(directed && p == "/") {
					continue
				}
				kind := r.Intn(4)
				if directed && p == "/" {
					kind = 1
					if h != "" {
						kind = 0
					}
				}
				switch kind {
				case 0:
					t := lkTmpls[r.Intn(len(lkTmpls))]
					nt := 1 + r.Intn(2)
					if directed && p == "/" {
						t, nt = selfT, 2
					}
					tmplByHost[h+p] = t
					for k := 0; k < nt; k++ { // several services redirecting to the same template: a ring of redirect targets
						lines = append(lines, fmt.Sprintf(`route add s%d %s%s %s opts "redirect=302"`, svc, h, p, t.url))
						svc++
					}
				default:
					nt := 1 + r.Intn(3)
					for k := 0; k < nt; k++ {
						w := ""
						if nt > 1 && k == 0 && r.Intn(2) == 0 {
							w = " weight 0.3"
						}
						lines = append(lines, fmt.Sprintf("route add s%d %s%s http://s%d.internal:80/%s", svc, h, p, svc, w))
						svc++
					}
					delete(tmplByHost, h+p)
				}
			}
		}
		if len(lines) == 0 {
			continue
		}
		tbl := mustTable(strings.Join(lines, "\n"))
		for q := 0; q < 6; q++ {
			hi := r.Intn(len(hosts))
			if directed && q < 4 {
				hi = r.Intn(nh) // a host whose "/" route redirects to the request's own URL
			}
			reqHost := strings.Replace(hosts[hi], "*", []string{"x", "www", "a.b"}[r.Intn(3)], 1)
			if hosts[hi] == "" || (r.Intn(8) == 0 && !(directed && q < 4)) {
				reqHost = "nowhere.test"
			}
			path := []string{"/", "/a", "/a/b/c", "/ab", "/img/x.png", "/zzz", "/a/b"}[r.Intn(7)]
			// candidates in visiting order
			var cand []string
			for _, h := range hosts {
				if h == "" {
					continue
				}
				if g, err := glob.Compile(strings.ToLower(h)); err == nil && g.Match(strings.ToLower(reqHost)) {
					if _, ok := tbl[strings.ToLower(h)]; ok {
						cand = append(cand, h)
					}
				}
			}
			if len(cand) > 1 {
				run.Exclude("lookup case with more than one matching host pattern")
				continue
			}
			cand = append(cand, "")
			cursor := uint64(r.Intn(20000))
			setAll := func(f func(ro *route.Route) uint64) {
				for _, rts := range tbl {
					for _, ro := range rts {
						ro.VerifC06SetCursor(f(ro))
					}
				}
			}
			// identify the answer among the candidate hosts' routes
			answer := func(tg *route.Target) (term, human string, ans *route.Route) {
				if tg == nil {
					return vh.None, "no route", nil
				}
				for ci, h := range cand {
					for ri, ro := range tbl[strings.ToLower(h)] {
						if ti := targetIndex(ro, tg); ti >= 0 {
							loc := vh.None
							if tg.RedirectCode != 0 && tg.RedirectURL != nil {
								loc = vh.Some(vh.HxS(tg.RedirectURL.String()))
							}
							return vh.Some(fmt.Sprintf("(%d, %d, %d, %s)", ci, ri, ti, loc)), fmt.Sprintf("host %q route %s target %d", h, ro.Path, ti), ro
						}
					}
				}
				return vh.Some("(99, 99, 99, None)"), "a target outside the candidate hosts", nil
			}
			badRing := false
			var hostTerms []string
			for _, h := range cand {
				var rts []string
				for _, ro := range tbl[strings.ToLower(h)] {
					red := vh.None
					if len(ro.Targets) > 0 && ro.Targets[0].RedirectCode != 0 {
						red = vh.Some(tmplByHost[h+ro.Path].coq())
					}
					ring := ro.VerifC06Ring()
					for _, x := range ring {
						if x < 0 {
							badRing = true
						}
					}
					rts = append(rts, fmt.Sprintf("{| r_path := %s; r_ntargets := %d; r_ring := %s; r_redirect := %s |}",
						vh.HxS(ro.Path), len(ro.Targets), natList(ring), red))
				}
				hostTerms = append(hostTerms, vh.List(rts))
			}
			if badRing {
				run.Exclude("lookup case with an empty ring slot")
				continue
			}
			cursorsOf := func() string {
				var rows []string
				for _, h := range cand {
					var row []string
					for _, ro := range tbl[strings.ToLower(h)] {
						row = append(row, vh.N64(ro.VerifC06Cursor()))
					}
					rows = append(rows, vh.List(row))
				}
				return vh.List(rows)
			}
			// run 1: every cursor = cursor, the shared cache
			setAll(func(*route.Route) uint64 { return cursor })
			var tg *route.Target
			pv, _ := guarded(func() { tg = tbl.Lookup(newReq(reqHost, path, "10.0.0.1:1"), "", rrPick, prefixMatch, gc, false) })
			if pv != nil {
				run.Violation(run.NextID(), fmt.Sprint("Table.Lookup panicked: ", pv), map[string]interface{}{"table": lines, "host": reqHost, "path": path})
				continue
			}
			impl, human, ans := answer(tg)
			after := cursorsOf()
			// run 2: the answering route's cursor as before, every other route's cursor different; another cache
			// (tiny, already full of other patterns)
			setAll(func(ro *route.Route) uint64 {
				if ro == ans {
					return cursor
				}
				return uint64(r.Intn(50000)) + 1
			})
			others := cursorsOf()
			gc2 := route.NewGlobCache(2)
			gc2.Get("junk1.*")
			gc2.Get("junk2.*")
			var tg2 *route.Target
			pv, _ = guarded(func() { tg2 = tbl.Lookup(newReq(reqHost, path, "10.0.0.1:1"), "", rrPick, prefixMatch, gc2, false) })
			if pv != nil {
				run.Violation(run.NextID(), fmt.Sprint("Table.Lookup panicked: ", pv), map[string]interface{}{"table": lines, "host": reqHost, "path": path})
				continue
			}
			impl2, human2, _ := answer(tg2)
			class := "lookup-seq"
			if directed {
				class = "lookup-seq-self-redirect-tables"
			}
			run.Add(class, vh.App("CLookup", vh.List(hostTerms), vh.HxS(path), vh.HxS(reqHost), vh.HxS("http"), vh.N64(cursor), after, others, impl, impl2),
				map[string]interface{}{"table": lines, "host": reqHost, "path": path, "cursor": cursor, "answer": human, "answer_with_other_cursors_and_cache": human2})
		}
	}
}

// ---------- B/H. mixed stress with table replacement ----------
type answer struct {
	status   int
	location string
	upstream string
}

type stressReq struct {
	host, path, remote string
	rnd                bool // looked up with the random picker (the default strategy) instead of rr
	redirect           int // index into tmpls, -1 otherwise
	allowed            map[answer]bool
}

func stressTable() (string, []tmplT) {
	var b strings.Builder
	used := []tmplT{tmpls[0], tmpls[1]}
	b.WriteString(`route add red0 red0.example/ ` + used[0].url + ` opts "redirect=302"` + "\n")
	b.WriteString(`route add red1 red1.example/ ` + used[1].url + ` opts "redirect=302"` + "\n")
	for i := 0; i < 12; i++ {
		fmt.Fprintf(&b, "route add g%d *.h%d.example/ http://g%d.internal:80/\n", i, i, i)
	}
	b.WriteString("route add wa w.example/ http://wa.internal:80/ weight 0.25\nroute add wb w.example/ http://wb.internal:80/\n")
	b.WriteString("route add e1 e.example/ http://e1.internal:80/\nroute add e2 e.example/ http://e2.internal:80/\nroute add e3 e.example/ http://e3.internal:80/\n")
	b.WriteString(`route add acc acc.example/ http://acc.internal:80/ opts "allow=ip:10.0.0.0/8"` + "\n")
	b.WriteString("route add fb /fb http://fb.internal:80/\n")
	return b.String(), used
}

func serve(p *proxy.HTTPProxy, q *stressReq) (answer, interface{}, string) {
	rec := httptest.NewRecorder()
	req := newReq(q.host, q.path, q.remote)
	if q.rnd {
		req.Header.Set("X-Verif-Pick", "rnd")
	}
	pv, where := guarded(func() { p.ServeHTTP(rec, req) })
	if pv != nil {
		return answer{}, pv, where
	}
	return answer{rec.Code, rec.Header().Get("Location"), rec.Header().Get("X-Upstream")}, nil, ""
}

func stress(run *vh.Run) {
	r := run.Rng
	text, used := stressTable()
	G := 8
	// the requests of every goroutine (own redirect paths so that a foreign Location is recognisable)
	reqs := make([][]*stressReq, G)
	for g := 0; g < G; g++ {
		for k := 0; k < 3; k++ {
			reqs[g] = append(reqs[g], &stressReq{host: "red0.example", path: randPath(r, fmt.Sprintf("g%dr%d", g, k)), remote: "10.0.0.1:1", redirect: 0})
			reqs[g] = append(reqs[g], &stressReq{host: "red1.example", path: randPath(r, fmt.Sprintf("g%dq%d", g, k)), remote: "10.0.0.1:1", redirect: 1})
		}
		for k := 0; k < 6; k++ {
			reqs[g] = append(reqs[g], &stressReq{host: fmt.Sprintf("n%d.h%d.example", g, r.Intn(12)), path: "/x", remote: "10.0.0.1:1", redirect: -1})
		}
		reqs[g] = append(reqs[g],
			&stressReq{host: "w.example", path: "/", remote: "10.0.0.1:1", redirect: -1},
			&stressReq{host: "e.example", path: "/p", remote: "10.0.0.1:1", redirect: -1},
			&stressReq{host: "acc.example", path: "/", remote: "10.9.8.7:1", redirect: -1},
			&stressReq{host: "acc.example", path: "/", remote: "192.168.1.1:1", redirect: -1},
			&stressReq{host: "nowhere.test", path: "/fb/1", remote: "10.0.0.1:1", redirect: -1},
			&stressReq{host: "nowhere.test", path: "/none", remote: "10.0.0.1:1", redirect: -1})
	}
	for g := range reqs {
		for _, q := range reqs[g] {
			q.rnd = g%2 == 1 // every other goroutine looks up with the random picker
		}
	}
	// sequential answers on a private table and cache (a cache big enough to stay out of the way)
	{
		tbl := mustTable(text)
		gc := route.NewGlobCache(64)
		p := &proxy.HTTPProxy{Config: config.Proxy{}, Transport: stubRT{}, Lookup: func(req *http.Request) *route.Target {
			return tbl.Lookup(req, "", rrPick, prefixMatch, gc, false)
		}}
		for g := range reqs {
			for _, q := range reqs[g] {
				q.allowed = map[answer]bool{}
				for k := 0; k < 8; k++ { // covers every target of the rr routes (ring 10000: 25/75 spread evenly)
					a, pv, _ := serve(p, q)
					if pv != nil {
						run.Violation(run.NextID(), fmt.Sprint("sequential request panicked: ", pv), q.host+q.path)
						continue
					}
					q.allowed[a] = true
				}
			}
		}
	}
	// the concurrent run: shared cache smaller than the number of host patterns, active table replaced all the time
	route.SetTable(mustTable(text))
	gc := route.NewGlobCache(4)
	p := &proxy.HTTPProxy{Config: config.Proxy{}, Transport: stubRT{}, Lookup: func(req *http.Request) *route.Target {
		pick := rrPick
		if req.Header.Get("X-Verif-Pick") == "rnd" {
			pick = rndPick
		}
		return route.GetTable().Lookup(req, "", pick, prefixMatch, gc, false)
	}}
	dur := time.Duration(run.Scale(3, 60)) * time.Second
	stop := make(chan struct{})
	var wg sync.WaitGroup
	var swaps int64
	wg.Add(1)
	go func() {
		defer wg.Done()
		for {
			select {
			case <-stop:
				return
			default:
			}
			route.SetTable(mustTable(text))
			atomic.AddInt64(&swaps, 1)
			time.Sleep(200 * time.Microsecond)
		}
	}()
	type mism struct {
		q   *stressReq
		got answer
	}
	type pan struct{ where, val string }
	var mu sync.Mutex
	redirSeen := map[string]int{} // own path + "\x00" + location
	redirKey := map[string]mism{}
	var others []mism
	panics := map[pan]int{}
	var served int64
	for g := 0; g < G; g++ {
		wg.Add(1)
		go func(g int) {
			defer wg.Done()
			rr := rand.New(rand.NewSource(run.Seed*1000 + int64(g)))
			for {
				select {
				case <-stop:
					return
				default:
				}
				q := reqs[g][rr.Intn(len(reqs[g]))]
				a, pv, where := serve(p, q)
				atomic.AddInt64(&served, 1)
				if pv != nil {
					mu.Lock()
					panics[pan{where, fmt.Sprint(pv)}]++
					mu.Unlock()
					continue
				}
				if q.redirect >= 0 && a.status == 302 {
					k := q.path + "\x00" + a.location
					mu.Lock()
					if redirSeen[k] == 0 {
						redirKey[k] = mism{q, a}
					}
					redirSeen[k]++
					mu.Unlock()
					continue
				}
				if !q.allowed[a] {
					mu.Lock()
					if len(others) < 50 {
						others = append(others, mism{q, a})
					}
					mu.Unlock()
				}
				if rr.Intn(64) == 0 {
					runtime.Gosched()
				}
			}
		}(g)
	}
	time.Sleep(dur)
	close(stop)
	wg.Wait()
	route.SetTable(mustTable(""))

	// redirect answers become cases (own, foreign, or unfilled Location): at most 25 own + 60 foreign
	keys := make([]string, 0, len(redirKey))
	for k := range redirKey {
		keys = append(keys, k)
	}
	sort.Strings(keys)
	nOwn, nForeign, foreignTotal := 0, 0, 0
	for _, k := range keys {
		m := redirKey[k]
		t := used[m.q.redirect]
		own := t.own(m.q.path, m.q.host)
		isOwn := m.got.location == own
		if !isOwn {
			foreignTotal += redirSeen[k]
		}
		if (isOwn && nOwn >= 25) || (!isOwn && nForeign >= 60) {
			continue
		}
		if isOwn {
			nOwn++
		} else {
			nForeign++
		}
		var oth []string
		for g := range reqs {
			for _, q := range reqs[g] {
				if q.redirect == m.q.redirect && q != m.q {
					oth = append(oth, q.path)
				}
			}
		}
		run.Add("redirect-stress", vh.App("CRedirStress", t.coq(), vh.HxS(m.q.path), strList(oth), vh.HxS(m.got.location)),
			map[string]interface{}{"template": t.url, "own_path": m.q.path, "location": m.got.location, "times": redirSeen[k]})
	}
	for _, m := range others {
		run.Violation(-1, fmt.Sprintf("concurrent request answered differently from every sequential answer: %s%s from %s -> status %d upstream %q location %q",
			m.q.host, m.q.path, m.q.remote, m.got.status, m.got.upstream, m.got.location), nil)
	}
	pk := make([]pan, 0, len(panics))
	for k := range panics {
		pk = append(pk, k)
	}
	sort.Slice(pk, func(i, j int) bool { return pk[i].where+pk[i].val < pk[j].where+pk[j].val })
	for _, k := range pk {
		run.Violation(-1, fmt.Sprintf("request panicked under concurrency in %s: %s", k.where, k.val), map[string]interface{}{"times": panics[k]})
	}
	_, _, n, mkeys := gc.VerifC06State()
	run.Notes["stress_seconds"] = dur.Seconds()
	run.Notes["stress_requests"] = served
	run.Notes["stress_table_replacements"] = swaps
	run.Notes["stress_foreign_locations"] = foreignTotal
	run.Notes["stress_glob_cache_size_4_n_after"] = n
	run.Notes["stress_glob_cache_size_4_map_entries_after"] = len(mkeys)
	run.Notes["extra_evaluations"] = served
	// the shared cache of the mixed stress must be within its bound (panics are reported above)
	run.Add("glob-conc-stress", vh.App("CGlobConc", "4", strconv.Itoa(G), strconv.Itoa(n), strconv.Itoa(len(mkeys)), "0", "0"),
		map[string]interface{}{"size": 4, "goroutines": G, "n_after": n, "map_entries_after": len(mkeys), "where": "mixed stress"})
}

func min(a, b int) int {
	if a < b {
		return a
	}
	return b
}

// ---------- H. access decisions of requests sharing a peer or an X-Forwarded-For list ----------
func bigN(b []byte) string { return new(big.Int).SetBytes(b).String() + "%N" }

func coqOptIP(ip net.IP) string {
	switch len(ip) {
	case 0:
		return vh.None
	case 4:
		return vh.Some("(IP4 " + bigN(ip) + ")")
	case 16:
		return vh.Some("(IP16 " + bigN(ip) + ")")
	}
	panic("coqOptIP: length")
}

func coqNets(l []*net.IPNet) string {
	items := make([]string, len(l))
	for i, n := range l {
		ones, bits := n.Mask.Size()
		ip := coqOptIP(n.IP)
		items[i] = fmt.Sprintf("{| n_ip := %s; n_ones := %s; n_m16 := %s |}", ip[6:len(ip)-1], vh.N(ones), vh.Bool(bits == 128))
	}
	return vh.List(items)
}

func stripZone(s string) string {
	if i := strings.IndexByte(s, '%'); i >= 0 {
		return s[:i]
	}
	return s
}

type accReq struct {
	remote string
	xff    []string
}

var accRules = []string{
	"allow=ip:10.0.0.0/8,ip:192.168.1.5",
	"deny=ip:203.0.113.0/24,ip:198.51.100.7",
	"allow=ip:2001:db8::/32,ip:10.0.0.0/8",
	"deny=ip:fe80::/10,ip:2001:db8:bad::/48,ip:172.16.0.0/12",
}
var accPeers = []string{"10.0.0.1:4000", "203.0.113.9:555", "192.168.1.5:1", "[2001:db8::1]:443", "[fe80::1%eth0]:80", "198.51.100.7:9", "172.20.1.1:80"}
var accElems = []string{"10.1.2.3", "203.0.113.77", "172.16.0.9", "2001:db8::5", "2001:db8:bad::1", "fe80::2", "198.51.100.7", " 10.9.9.9", "garbage", "192.168.1.5", "8.8.8.8", "::ffff:203.0.113.5"}

func accessCases(run *vh.Run) {
	r := run.Rng
	randXFF := func() []string {
		var vals []string
		for h := r.Intn(3); h > 0; h-- {
			var el []string
			for k := 1 + r.Intn(3); k > 0; k-- {
				el = append(el, accElems[r.Intn(len(accElems))])
			}
			vals = append(vals, strings.Join(el, []string{", ", ","}[r.Intn(2)]))
		}
		return vals
	}
	serveOne := func(p *proxy.HTTPProxy, q accReq) (denied bool, pv interface{}) {
		rec := httptest.NewRecorder()
		req := newReq("acc.example", "/", q.remote)
		for _, v := range q.xff {
			req.Header.Add("X-Forwarded-For", v)
		}
		pv, _ = guarded(func() { p.ServeHTTP(rec, req) })
		return rec.Code == 403, pv
	}
	for i := 0; i < run.Scale(48, 1200); i++ {
		rule := accRules[i%len(accRules)]
		n := 3 + r.Intn(6)
		reqs := make([]accReq, n)
		shape := []string{"same-peer", "same-xff", "mixed"}[(i/len(accRules))%3]
		peer, xff := accPeers[r.Intn(len(accPeers))], randXFF()
		for k := range reqs {
			switch shape {
			case "same-peer": // one front proxy, different client lists
				reqs[k] = accReq{peer, randXFF()}
			case "same-xff": // the same client list through different peers
				reqs[k] = accReq{accPeers[r.Intn(len(accPeers))], xff}
			default:
				reqs[k] = accReq{accPeers[r.Intn(len(accPeers))], randXFF()}
			}
		}
		for _, conc := range []bool{false, true} {
			tbl := mustTable(`route add acc acc.example/ http://acc.internal:80/ opts "` + rule + `"`)
			gc := route.NewGlobCache(8)
			p := &proxy.HTTPProxy{Config: config.Proxy{}, Transport: stubRT{}, Lookup: func(req *http.Request) *route.Target {
				return tbl.Lookup(req, "", rrPick, prefixMatch, gc, false)
			}}
			tg := tbl["acc.example"][0].Targets[0]
			allow, deny, keys, other := route.VerifAccessRules(tg)
			if other != 0 {
				run.Exclude("access rule map with foreign entries")
				continue
			}
			ra, rd := vh.None, vh.None
			for _, k := range keys {
				if k == "allow:ip" {
					ra = vh.Some(coqNets(allow))
				} else if k == "deny:ip" {
					rd = vh.Some(coqNets(deny))
				}
			}
			impl := make([]bool, n)
			if conc {
				var wg sync.WaitGroup
				startc := make(chan struct{})
				for k := range reqs {
					wg.Add(1)
					go func(k int) {
						defer wg.Done()
						<-startc
						var pv interface{}
						impl[k], pv = serveOne(p, reqs[k])
						if pv != nil {
							impl[k] = true
						}
					}(k)
				}
				close(startc)
				wg.Wait()
			} else {
				for k := range reqs {
					var pv interface{}
					impl[k], pv = serveOne(p, reqs[k])
					if pv != nil {
						run.Violation(run.NextID(), fmt.Sprint("request with access rules panicked: ", pv), reqs[k].remote)
					}
				}
			}
			ipTab := map[string]string{"": vh.None}
			spTab := map[string]string{}
			var reqTerms, implTerms, human []string
			for k, q := range reqs {
				host, _, err := net.SplitHostPort(q.remote)
				if err != nil {
					spTab[q.remote] = vh.None
				} else {
					spTab[q.remote] = vh.Some(vh.HxS(host))
					ipTab[stripZone(host)] = coqOptIP(net.ParseIP(stripZone(host)))
				}
				for _, x := range strings.Split(strings.Join(q.xff, ","), ",") {
					t := stripZone(strings.TrimSpace(x))
					ipTab[t] = coqOptIP(net.ParseIP(t))
				}
				reqTerms = append(reqTerms, vh.Pair(vh.HxS(q.remote), strList(q.xff)))
				implTerms = append(implTerms, vh.Bool(impl[k]))
				human = append(human, fmt.Sprintf("%s xff=%q -> denied=%v", q.remote, q.xff, impl[k]))
			}
			var ipItems, spItems []string
			for _, k := range sortedStrKeys(ipTab) {
				ipItems = append(ipItems, vh.Pair(vh.HxS(k), ipTab[k]))
			}
			for _, k := range sortedStrKeys(spTab) {
				spItems = append(spItems, vh.Pair(vh.HxS(k), spTab[k]))
			}
			class := "access-history-" + shape
			if conc {
				class += "-concurrent"
			} else {
				class += "-sequential"
			}
			run.Add(class, vh.App("CAccess", fmt.Sprintf("{| r_allow := %s; r_deny := %s |}", ra, rd), vh.List(ipItems), vh.List(spItems), vh.List(reqTerms), vh.Bool(conc), vh.List(implTerms)),
				map[string]interface{}{"rule": rule, "history": human, "concurrent": conc})
		}
	}
}

func sortedStrKeys(m map[string]string) []string {
	ks := make([]string, 0, len(m))
	for k := range m {
		ks = append(ks, k)
	}
	sort.Strings(ks)
	return ks
}

// phase runs one part of the harness under a watchdog: real fabio code that blocks for ever (a mutex
// that is never released, a lookup that never returns) must end the run with a violation instead of
// hanging it until the driver's timeout.
func phase(run *vh.Run, name string, f func(*vh.Run)) {
	done := make(chan struct{})
	go func() { f(run); close(done) }()
	limit := time.Duration(run.Scale(450, 1800)) * time.Second
	select {
	case <-done:
	case <-time.After(limit):
		run.Violation(-1, fmt.Sprintf("harness phase %q did not finish within %v: a call into fabio blocks for ever (lookups deadlocked?)", name, limit), nil)
		raceReports(run)
		run.Finish(preamble, run.Scale(38, 200))
		os.Exit(0)
	}
}

func main() {
	raceReexec()
	run := vh.Start("C06")
	phase(run, "forced schedules and serial histories", forcedCases)
	phase(run, "glob cache, sequential histories", globSeqCases)
	phase(run, "round robin", rrCases)
	phase(run, "round robin per table generation", rrPerTable)
	phase(run, "random picker", rndCases)
	phase(run, "sequential lookups", lookupCases)
	phase(run, "access decisions", accessCases)
	phase(run, "glob cache, concurrent", globConcCases)
	phase(run, "mixed stress", stress)
	raceReports(run)
	run.Finish(preamble, run.Scale(38, 200))
}
