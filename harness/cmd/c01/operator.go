// Round 7 of property C01: quoted values are data.
//
//   - hashTagHistories: registry histories whose plain service tags / routing-tag options carry a
//     blank followed by '#' (classes svc-hash-tags, e2e-svc-hash-tags, installed-svc-hash-tags);
//   - partO: the operator's manual overrides given as COMMANDS (Model/OperatorText.v opcmd): the
//     harness renders them, stores the text in the fake KV store, the real watchKV pushes it, the
//     real watchBackend installs the table; the expected table is read off the commands
//     (class installed-svc-with-operator-cmds, case CE2EO).
//
// Every random choice of this file comes from sources of its own, so the inputs of the older
// classes do not change.
package main

import (
	"fmt"
	"math/rand"
	"strings"
	"sync"
	"time"

	"github.com/fabiolb/fabio/config"
	"github.com/fabiolb/fabio/registry/consul"
	"github.com/hashicorp/consul/api"

	"verifharness/internal/vh"
)

// plain service tags: every one is copied between the quotes of tags "..."
var hashPlainTags = []string{"build #42", "x #", " #lead", "a # b # c", "rel#3 #4", "# only", "v1", "blue"}

// routing tags; what follows the route is copied between the quotes of opts "..."
var hashRouteTags = []string{"urlprefix-/shop", "urlprefix-/shop note=x #1", "urlprefix-h.com/cart #frag",
	"urlprefix-/pay strip=/pay # tail", "urlprefix-:7443 proto=tcp #tcp", "urlprefix-/foo"}

func hashTagHistories(run *vh.Run, add func(class string, strict bool, monitors int, states []regState)) {
	r := rand.New(rand.NewSource(run.Seed*7919 + 101))
	n := run.Scale(8, 80)
	okc := func(in inst, st string) *api.HealthCheck { return svcCheck(in, "service:"+in.sid, st) }
	for i := 0; i < n; i++ {
		tagsFor := func(k int) []string {
			var tags []string
			tags = append(tags, hashRouteTags[r.Intn(len(hashRouteTags))])
			if r.Intn(3) == 0 {
				tags = append(tags, hashRouteTags[r.Intn(len(hashRouteTags))])
			}
			for j, m := 0, r.Intn(3); j < m; j++ {
				tags = append(tags, hashPlainTags[r.Intn(len(hashPlainTags))])
			}
			if k == 0 { // directed: each plain tag / routing tag of the pools in turn
				tags = append(tags, hashPlainTags[i%len(hashPlainTags)], hashRouteTags[i%len(hashRouteTags)])
			}
			r.Shuffle(len(tags), func(a, b int) { tags[a], tags[b] = tags[b], tags[a] })
			return tags
		}
		insts := []inst{
			{node: "n1", sid: "s1", name: "shop", addr: "10.0.0.1", port: 8081},
			{node: "n2", sid: "s2", name: "shop", addr: "10.0.0.2", port: 8082},
			{node: "n3", sid: "s3", name: "cart", addr: "10.0.0.3", port: 8083},
		}
		for k := range insts {
			insts[k].tags = tagsFor(k)
		}
		status := []string{"passing", "passing", "passing"}
		mk := func() regState {
			cp := append([]inst{}, insts...)
			var cs []*api.HealthCheck
			for k, in := range cp {
				cs = append(cs, okc(in, status[k]))
			}
			return regState{insts: cp, checks: cs}
		}
		states := []regState{mk()}
		for k, m := 0, 2+r.Intn(3); k < m; k++ {
			switch r.Intn(3) {
			case 0: // re-registration with other tags
				j := r.Intn(len(insts))
				insts[j].tags = tagsFor(j)
			default:
				j := r.Intn(len(insts))
				if status[j] == "passing" {
					status[j] = "critical"
				} else {
					status[j] = "passing"
				}
			}
			states = append(states, mk())
		}
		add("svc-hash-tags", i%2 == 1, r.Intn(3), states)
	}
}

// ---------- the operator's commands ----------

type opCmd struct {
	kind          string // add, del, deltags, weight, note, blank
	svc, src, dst string
	w             string
	tags, opts    []string
	text          string
}

func quotedClause(kw string, vals []string, sep string) string {
	if len(vals) == 0 {
		return ""
	}
	return " " + kw + " \"" + strings.Join(vals, sep) + "\""
}

// the text an operator writes for the command (the documented grammar of route/parse_new.go)
func (o opCmd) render() string {
	switch o.kind {
	case "add":
		s := "route add " + o.svc + " " + o.src + " " + o.dst
		if o.w != "" {
			s += " weight " + o.w
		}
		return s + quotedClause("tags", o.tags, ",") + quotedClause("opts", o.opts, " ")
	case "del":
		s := "route del " + o.svc
		if o.src != "" {
			s += " " + o.src
			if o.dst != "" {
				s += " " + o.dst
			}
		}
		return s
	case "deltags":
		s := "route del"
		if o.svc != "" {
			s += " " + o.svc
		}
		return s + quotedClause("tags", o.tags, ",")
	case "weight":
		return "route weight " + o.svc + " " + o.src + " weight " + o.w + quotedClause("tags", o.tags, ",")
	case "note":
		return "#" + o.text
	}
	return ""
}

func (o opCmd) coq() string {
	switch o.kind {
	case "add":
		return vh.App("OpAdd", vh.App("Build_intent", vh.HxS(o.svc), vh.HxS(o.src), vh.HxS(o.dst), vh.HxS(o.w), strs(o.tags), strs(o.opts)))
	case "del":
		return vh.App("OpDel", vh.HxS(o.svc), vh.HxS(o.src), vh.HxS(o.dst))
	case "deltags":
		return vh.App("OpDelTags", vh.HxS(o.svc), strs(o.tags))
	case "weight":
		return vh.App("OpWeight", vh.HxS(o.svc), vh.HxS(o.src), vh.HxS(o.w), strs(o.tags))
	case "note":
		return vh.App("OpNote", vh.HxS(o.text))
	}
	return "OpBlank"
}

var opAdds = []opCmd{
	{kind: "add", svc: "man", src: "/m", dst: "http://9.9.9.9:99/"},
	{kind: "add", svc: "man", src: "/m", dst: "http://9.9.9.9:99/", tags: []string{"a #b"}},
	{kind: "add", svc: "shop", src: "/shop", dst: "http://9.9.9.8:98/", tags: []string{"build #42", "canary"}, opts: []string{"x=a", "#b"}},
	{kind: "add", svc: "svc-a", src: "/foo", dst: "http://8.8.8.8:88/", w: "0.3", tags: []string{"v1"}},
	{kind: "add", svc: "man", src: "X.com/bar", dst: "http://9.9.9.7:97/", opts: []string{"note=#", "strip=/bar", "#"}},
	{kind: "add", svc: "svc-b", src: "x.com/bar", dst: "http://10.0.0.2:8002/"},
	{kind: "add", svc: "man", src: "/three", dst: "http://9.9.9.6:96/", tags: []string{"x #", "# only"}},
}
var opDels = []opCmd{
	{kind: "del", svc: "svc-b"},
	{kind: "del", svc: "svc-a", src: "/foo"},
	{kind: "del", svc: "svc-a", src: "/foo", dst: "http://10.0.0.1:8001/"},
	{kind: "del", svc: "svc-b", src: "X.COM/bar"},
	{kind: "del", svc: "man", src: "/m"},
	{kind: "del", svc: "svc-zzz"},
	{kind: "deltags", tags: []string{"v1"}},
	{kind: "deltags", svc: "svc-a", tags: []string{"build #42"}},
	{kind: "deltags", tags: []string{"a #b"}},
	{kind: "deltags", svc: "svc-a", tags: []string{"v1", "build #42"}},
	{kind: "deltags", tags: []string{"no #such"}},
	{kind: "deltags", svc: "man", tags: []string{"x #"}},
}
var opOther = []opCmd{
	{kind: "note", text: " drained for maintenance # see ticket"},
	{kind: "note", text: " route del svc-a"},
	{kind: "note", text: ""},
	{kind: "blank"},
}
var opWeights = []opCmd{
	{kind: "weight", svc: "svc-a", src: "/foo", w: "0.3"},
	{kind: "weight", svc: "svc-a", src: "/foo", w: "0.5", tags: []string{"build #42"}},
	{kind: "weight", svc: "svc-zzz", src: "/nowhere", w: "0.5"},
}

func genOps(r *rand.Rand, directed int) []opCmd {
	var ops []opCmd
	if directed >= 0 { // each add / del of the pools once, after a plain add so that there is something to select
		all := append(append([]opCmd{}, opAdds...), opDels...)
		ops = append(ops, opAdds[1+r.Intn(3)], all[directed%len(all)])
		if r.Intn(2) == 0 {
			ops = append(ops, opOther[r.Intn(len(opOther))], opAdds[r.Intn(len(opAdds))])
		}
		return ops
	}
	for i, n := 0, 1+r.Intn(5); i < n; i++ {
		switch k := r.Intn(12); {
		case k < 5:
			ops = append(ops, opAdds[r.Intn(len(opAdds))])
		case k < 9:
			ops = append(ops, opDels[r.Intn(len(opDels))])
		case k < 11:
			ops = append(ops, opOther[r.Intn(len(opOther))])
		default:
			ops = append(ops, opWeights[r.Intn(len(opWeights))])
		}
	}
	// the KV value is trimmed by watchKV: no blank line at either end
	for len(ops) > 0 && ops[0].kind == "blank" {
		ops = ops[1:]
	}
	for len(ops) > 0 && ops[len(ops)-1].kind == "blank" {
		ops = ops[:len(ops)-1]
	}
	return ops
}

// partO: as part M (real WatchServices + WatchManual against the fake Consul, every pushed text
// delivered on its channel to the real watchBackend, installed table read after every delivery),
// with the KV value written from commands and service tags that carry " #".
func partO(run *vh.Run) {
	r := rand.New(rand.NewSource(run.Seed*7919 + 202))
	nh := run.Scale(10, 120)
	const kvKey = "fabio/config"
	type ev struct {
		man   bool
		text  string
		state int
		kv    string
		ops   int // index into kvOps of the commands behind the current KV value, -1: nothing stored
	}
	type oh struct {
		strict bool
		states []regState
		cats   [][]*api.CatalogService
		plan   []int // >= 0: publish that state; -1: edit the KV value
		kvOps  [][]opCmd
		evs    []ev
		err    string
	}
	hs := make([]oh, nh)
	g1 := inst{node: "n1", sid: "s1", name: "svc-a", tags: []string{"urlprefix-/foo", "v1", "build #42"}, addr: "10.0.0.1", port: 8001}
	g2 := inst{node: "n2", sid: "s2", name: "svc-b", tags: []string{"urlprefix-x.com/bar note=x #1"}, addr: "10.0.0.2", port: 8002}
	g3 := inst{node: "n3", sid: "s3", name: "svc-a", tags: []string{"urlprefix-/foo", "urlprefix-/three", "x #"}, addr: "10.0.0.3", port: 8003}
	okc := func(in inst, st string) *api.HealthCheck { return svcCheck(in, "service:"+in.sid, st) }
	sts := []string{"passing", "passing", "critical"}
	nDirected := len(opAdds) + len(opDels)
	directed := 0
	for hi := range hs {
		h := &hs[hi]
		h.strict = hi%2 == 1
		g1, g2, g3 := g1, g2, g3
		if hi%3 == 0 { // registrations without " #": only the operator's text carries it
			g1.tags = []string{"urlprefix-/foo", "v1", "canary"}
			g2.tags = []string{"urlprefix-x.com/bar"}
			g3.tags = []string{"urlprefix-/foo", "urlprefix-/three", "blue"}
		}
		for k := 0; k < 4; k++ {
			a, b, c := "passing", "passing", "passing"
			if k > 0 {
				a, b, c = sts[r.Intn(3)], sts[r.Intn(3)], sts[r.Intn(3)]
			}
			st := regState{[]inst{g1, g2, g3}, []*api.HealthCheck{okc(g1, a), okc(g2, b), okc(g3, c)}}
			h.states = append(h.states, st)
			h.cats = append(h.cats, catalogOf(st.insts, r, false))
		}
		next := 1
		for len(h.plan) < 7 {
			if next < len(h.states) && r.Intn(3) == 0 {
				h.plan = append(h.plan, next)
				next++
			} else {
				h.plan = append(h.plan, -1)
				d := -1
				if directed < nDirected && r.Intn(2) == 0 {
					d = directed
					directed++
				}
				h.kvOps = append(h.kvOps, genOps(r, d))
			}
		}
	}
	var wg sync.WaitGroup
	for hi := range hs {
		wg.Add(1)
		go func(h *oh) {
			defer wg.Done()
			f := newFake()
			f.set(h.states[0].checks, h.cats[0])
			required := "one"
			if h.strict {
				required = "all"
			}
			cfg := &config.Consul{Addr: strings.TrimPrefix(f.srv.URL, "http://"), Scheme: "http", TagPrefix: tagPrefix,
				ServiceStatus: []string{"passing"}, ChecksRequired: required, KVPath: "/" + kvKey}
			be, err := consul.NewBackend(cfg)
			if err != nil {
				h.err = "NewBackend: " + err.Error()
				return
			}
			chS, chM := be.WatchServices(), be.WatchManual()
			cur, kv, curOps := 0, "", -1
			recv := func(ch chan string, man bool) bool {
				select {
				case t := <-ch:
					if man {
						kv = t
					}
					h.evs = append(h.evs, ev{man: man, text: t, state: cur, kv: kv, ops: curOps})
					return true
				case <-time.After(20 * time.Second):
					h.err = "a watcher of the consul backend pushed nothing within 20 s"
					return false
				}
			}
			if !recv(chS, false) || !recv(chM, true) {
				return
			}
			ki := 0
			for _, p := range h.plan {
				if p >= 0 {
					cur = p
					f.set(h.states[p].checks, h.cats[p])
					if !recv(chS, false) {
						return
					}
				} else {
					lines := make([]string, len(h.kvOps[ki]))
					for i, o := range h.kvOps[ki] {
						lines[i] = o.render()
					}
					var pairs api.KVPairs
					curOps = -1
					if v := strings.Join(lines, "\n"); v != "" {
						pairs = api.KVPairs{&api.KVPair{Key: kvKey, Value: []byte(v)}}
						curOps = ki
					}
					ki++
					f.setKV(pairs)
					if !recv(chM, true) {
						return
					}
				}
			}
		}(&hs[hi])
	}
	wg.Wait()
	for _, h := range hs {
		if h.err != "" {
			run.Violation(run.NextID(), "consul backend against the fake Consul: "+h.err, nil)
			continue
		}
		job := installedJob{class: "installed-svc-with-operator-cmds"}
		for _, e := range h.evs {
			st := h.states[e.state]
			_, human := coqCatalog(h.cats[e.state], tagPrefix)
			job.texts = append(job.texts, e.text)
			job.man = append(job.man, e.man)
			svcText := ""
			for _, x := range h.evs {
				if !x.man && x.state == e.state {
					svcText = x.text
				}
			}
			// the commands behind the pushed manual text: watchKV's header comment for the key, then
			// the operator's commands
			items := []string{}
			var written []string
			if e.ops >= 0 {
				items = append(items, opCmd{kind: "note", text: " --- " + kvKey}.coq())
				for _, o := range h.kvOps[e.ops] {
					items = append(items, o.coq())
					written = append(written, fmt.Sprintf("%s %q", o.kind, o.render()))
				}
			}
			job.emit = append(job.emit, e2eCase(run, tagPrefix, []string{"passing"}, h.strict, st.checks, h.cats[e.state], svcText, human,
				e.kv, vh.List(items), strings.Join(written, "\n")))
		}
		installedJobs = append(installedJobs, job)
	}
}
