// Correspondence harness for C01 (routing table = healthy, tagged instances):
//
//	A. the real passingServices / checksWithTagPrefix on generated check multisets;
//	B. the real consul backend (NewBackend -> WatchServices -> ServiceMonitor.Watch:
//	   tag filter, passingServices, makeConfig, serviceConfig, routecmd.build) against an
//	   in-process fake Consul HTTP API driven through histories of registry states;
//	C. the real watchBackend loop of package main (through the verif-tagged test
//	   /repo/verif_c01_test.go, run with `go test`) on scripted Svc/Man deliveries, with the
//	   real route.NewTable's verdict on every combined text passed to the model as data.
package main

import (
	"bytes"
	"encoding/json"
	"fmt"
	"math/rand"
	"net"
	"net/http"
	"net/http/httptest"
	"net/url"
	"os"
	"os/exec"
	"path/filepath"
	"sort"
	"strconv"
	"strings"
	"sync"
	"time"

	"github.com/fabiolb/fabio/config"
	"github.com/fabiolb/fabio/registry/consul"
	"github.com/fabiolb/fabio/route"
	"github.com/gobwas/glob"
	"github.com/hashicorp/consul/api"

	"verifharness/internal/vh"
)

const preamble = `From Coq Require Import String List NArith ZArith.
From Fabio Require Import Lib.Outcome Lib.Bytes Lib.Pack Model.RouteCmd Model.Consul Model.Watch Model.RegistryTable Model.OperatorText Check.C01.
Import ListNotations.
Local Open Scope N_scope.
`

// ---------- Coq rendering ----------

func strs(l []string) string {
	items := make([]string, len(l))
	for i, s := range l {
		items[i] = vh.HxS(s)
	}
	return vh.List(items)
}

func coqCheck(c *api.HealthCheck) string {
	return vh.App("mkCheck", vh.HxS(c.Node), vh.HxS(c.CheckID), vh.HxS(c.ServiceID), vh.HxS(c.ServiceName), vh.HxS(c.Status), strs(c.ServiceTags))
}
func coqChecks(cs []*api.HealthCheck) string {
	items := make([]string, len(cs))
	for i, c := range cs {
		items[i] = coqCheck(c)
	}
	return vh.List(items)
}
func nats(l []int) string {
	items := make([]string, len(l))
	for i, n := range l {
		items[i] = vh.Nat(n)
	}
	return vh.List(items)
}
func humanChecks(cs []*api.HealthCheck) []string {
	out := make([]string, len(cs))
	for i, c := range cs {
		out[i] = fmt.Sprintf("%s|%s|%s|%s|%s|%q", c.Node, c.CheckID, c.ServiceID, c.ServiceName, c.Status, c.ServiceTags)
	}
	return out
}

// ---------- generators ----------

type inst struct {
	node, sid, name string
	tags            []string
	addr            string
	port            int
}

var nodePool = []string{"n1", "n2", "n3", "a", "a.b"}
var sidPool = []string{"s1", "s2", "api-1", "c", "b.c", "s1"}
var namePool = []string{"svc-a", "svc-b", "svc-a"}
var statusPool = []string{"passing", "warning", "critical", "maintenance", "unknown"}

const tagPrefix = "urlprefix-"

// the last two cannot be expressed as a command: routecmd.build drops them on their own (d16ce3d)
var routeTagPool = []string{"urlprefix-/foo", "urlprefix-x.com/bar", "urlprefix-:1234 proto=tcp", "urlprefix-/w weight=0.5", "urlprefix-Y.com/ strip=/a", "urlprefix-/foo", "urlprefix-/bw weight=abc", "urlprefix-/q opt=\"x"}
var otherTagPool = []string{"v1", "blue", "", "prefix-/no", "URLPREFIX-/up", "v1", "blue", "a\"b"}

func genTags(r *rand.Rand, spaced bool) []string {
	var tags []string
	switch r.Intn(8) {
	case 0: // no route tag at all
	default:
		for i, n := 0, 1+r.Intn(2); i < n; i++ {
			tags = append(tags, routeTagPool[r.Intn(len(routeTagPool))])
		}
	}
	if spaced { // a route tag only after trimming
		t := routeTagPool[r.Intn(len(routeTagPool))]
		pad := []string{" ", "\t", "  "}[r.Intn(3)]
		if r.Intn(2) == 0 || len(tags) == 0 {
			tags = []string{pad + t}
		} else {
			tags = append(tags, pad+t+" ")
		}
	}
	for i, n := 0, r.Intn(3); i < n; i++ {
		tags = append(tags, otherTagPool[r.Intn(len(otherTagPool))])
	}
	r.Shuffle(len(tags), func(i, j int) { tags[i], tags[j] = tags[j], tags[i] })
	if tags == nil {
		tags = []string{}
	}
	return tags
}

func genInstances(r *rand.Rand, nNodes, nInst int, spaced bool) []inst {
	nodes := append([]string{}, nodePool[:3]...)
	r.Shuffle(len(nodes), func(i, j int) { nodes[i], nodes[j] = nodes[j], nodes[i] })
	nodes = nodes[:nNodes]
	seen := map[string]bool{}
	var out []inst
	for len(out) < nInst {
		in := inst{node: nodes[r.Intn(len(nodes))], sid: sidPool[r.Intn(len(sidPool))], name: namePool[r.Intn(len(namePool))]}
		if seen[in.node+"\x00"+in.sid] {
			continue
		}
		seen[in.node+"\x00"+in.sid] = true
		in.tags = genTags(r, spaced && r.Intn(2) == 0)
		in.addr = fmt.Sprintf("10.0.%d.%d", r.Intn(3), 1+r.Intn(200))
		in.port = 1000 + r.Intn(9000)
		out = append(out, in)
	}
	return out
}

func svcCheck(in inst, id, status string) *api.HealthCheck {
	return &api.HealthCheck{Node: in.node, CheckID: id, Name: id, Status: status, ServiceID: in.sid, ServiceName: in.name, ServiceTags: append([]string{}, in.tags...)}
}
func nodeCheck(node, id, status string) *api.HealthCheck {
	return &api.HealthCheck{Node: node, CheckID: id, Name: id, Status: status, ServiceTags: []string{}}
}

func randStatus(r *rand.Rand) string {
	if r.Intn(2) == 0 {
		return "passing"
	}
	if r.Intn(12) == 0 {
		return []string{"Critical", "Passing", "", "passing "}[r.Intn(4)]
	}
	return statusPool[r.Intn(len(statusPool))]
}

// the health state of a registry: service checks per instance, agent checks, maintenance
func genChecks(r *rand.Rand, insts []inst, weird bool) []*api.HealthCheck {
	var cs []*api.HealthCheck
	nodes := map[string]bool{}
	for _, in := range insts {
		nodes[in.node] = true
		n := 1 + r.Intn(3)
		if r.Intn(10) == 0 {
			n = 0 // an instance without a service check (only maintenance, say)
		}
		for k := 0; k < n; k++ {
			id := "service:" + in.sid
			if k > 0 {
				id = fmt.Sprintf("chk%d:%s", k, in.sid)
			}
			cs = append(cs, svcCheck(in, id, randStatus(r)))
		}
		if r.Intn(6) == 0 {
			st := "critical"
			if r.Intn(4) == 0 {
				st = statusPool[r.Intn(len(statusPool))]
			}
			cs = append(cs, svcCheck(in, "_service_maintenance:"+in.sid, st))
		}
	}
	ns := make([]string, 0, len(nodes))
	for n := range nodes {
		ns = append(ns, n)
	}
	sort.Strings(ns)
	for _, n := range ns {
		if r.Intn(4) != 0 {
			st := "passing"
			if r.Intn(5) == 0 {
				st = "critical"
			} else if r.Intn(8) == 0 {
				st = statusPool[r.Intn(len(statusPool))]
			}
			cs = append(cs, nodeCheck(n, "serfHealth", st))
		}
		if r.Intn(8) == 0 {
			st := "critical"
			if r.Intn(3) == 0 {
				st = "passing"
			}
			cs = append(cs, nodeCheck(n, "_node_maintenance", st))
		}
		if r.Intn(8) == 0 { // a node-level check of the operator's own: must not matter
			cs = append(cs, nodeCheck(n, "mem", statusPool[r.Intn(len(statusPool))]))
		}
	}
	if weird && len(insts) > 0 {
		in := insts[r.Intn(len(insts))]
		other := nodePool[r.Intn(3)]
		switch r.Intn(9) {
		case 0: // service maintenance of this id, registered on another node
			c := svcCheck(in, "_service_maintenance:"+in.sid, "critical")
			c.Node = other
			cs = append(cs, c)
		case 1: // maintenance of another service id on this node
			c := svcCheck(in, "_service_maintenance:"+in.sid+"x", "critical")
			c.ServiceID = in.sid + "x"
			cs = append(cs, c)
		case 2: // agent check carrying a service id
			cs = append(cs, svcCheck(in, "serfHealth", statusPool[r.Intn(len(statusPool))]))
		case 3: // wrong letter case of the agent check
			cs = append(cs, nodeCheck(in.node, "serfhealth", "critical"))
		case 4: // node maintenance with a service id
			cs = append(cs, svcCheck(in, "_node_maintenance", "passing"))
		case 5: // an id that merely starts like a maintenance check
			cs = append(cs, svcCheck(in, "_service_maintenanceX", "critical"))
		case 6: // maintenance check id without the service id of the instance
			c := nodeCheck(in.node, "_service_maintenance:"+in.sid, "critical")
			cs = append(cs, c)
		case 7: // agent of another node is down
			cs = append(cs, nodeCheck(other+"x", "serfHealth", "critical"))
		case 8: // non-critical service maintenance entry
			cs = append(cs, svcCheck(in, "_service_maintenance:"+in.sid, "passing"))
		}
	}
	r.Shuffle(len(cs), func(i, j int) { cs[i], cs[j] = cs[j], cs[i] })
	return cs
}

func genStatusList(r *rand.Rand) []string {
	switch r.Intn(8) {
	case 0:
		return []string{}
	case 1:
		return []string{"passing", "warning"}
	case 2:
		var l []string
		for _, s := range statusPool {
			if r.Intn(2) == 0 {
				l = append(l, s)
			}
		}
		if l == nil {
			l = []string{}
		}
		return l
	case 3:
		return []string{"passing", "critical"}
	default:
		return []string{"passing"}
	}
}

func indicesOf(all, sub []*api.HealthCheck) ([]int, bool) {
	pos := map[*api.HealthCheck]int{}
	for i, c := range all {
		pos[c] = i
	}
	out := make([]int, 0, len(sub))
	for _, c := range sub {
		i, ok := pos[c]
		if !ok {
			return nil, false
		}
		out = append(out, i)
	}
	return out, true
}

// ---------- A: passingServices / checksWithTagPrefix ----------

func partA(run *vh.Run) {
	r := run.Rng
	emitPass := func(class string, cs []*api.HealthCheck, status []string, strict bool) {
		var got []*api.HealthCheck
		if p, v := vh.Recover(func() { got = consul.VerifPassingServices(cs, status, strict) }); p {
			run.Violation(run.NextID(), fmt.Sprintf("passingServices panicked: %v", v), humanChecks(cs))
			return
		}
		idx, ok := indicesOf(cs, got)
		if !ok {
			run.Violation(run.NextID(), "passingServices returned a check that is not in its input", humanChecks(cs))
			return
		}
		run.Add(class, vh.App("CPass", coqChecks(cs), strs(status), vh.Bool(strict), nats(idx)),
			map[string]interface{}{"checks": humanChecks(cs), "status": status, "strict": strict, "returned": idx})
	}
	n := run.Scale(1100, 25000)
	for i := 0; i < n; i++ {
		insts := genInstances(r, 1+r.Intn(3), 1+r.Intn(4), false)
		weird := i%4 == 3
		cs := genChecks(r, insts, weird)
		for len(cs) > 12 {
			cs = cs[:len(cs)-1]
		}
		if len(cs) == 0 {
			cs = []*api.HealthCheck{svcCheck(insts[0], "service:"+insts[0].sid, "passing")}
		}
		class := "pass-random"
		if weird {
			class = "pass-odd-checks"
		}
		emitPass(class, cs, genStatusList(r), r.Intn(2) == 0)
	}
	// directed: every guard of the two loops, alone and against its neighbour values
	a := inst{node: "n1", sid: "s1", name: "svc-a", tags: []string{"urlprefix-/foo"}}
	b := inst{node: "n2", sid: "s1", name: "svc-a", tags: []string{"urlprefix-/foo"}}
	c2 := inst{node: "n1", sid: "s2", name: "svc-b", tags: []string{"urlprefix-/bar"}}
	ok := func(in inst) *api.HealthCheck { return svcCheck(in, "service:"+in.sid, "passing") }
	directed := [][]*api.HealthCheck{
		{ok(a)},
		{ok(a), nodeCheck("n1", "serfHealth", "critical")},
		{ok(a), nodeCheck("n1", "serfHealth", "warning")},
		{ok(a), nodeCheck("n1", "serfHealth", "passing")},
		{ok(a), nodeCheck("n2", "serfHealth", "critical"), ok(b)},
		{ok(a), nodeCheck("n1", "_node_maintenance", "critical")},
		{ok(a), nodeCheck("n1", "_node_maintenance", "passing")},
		{ok(a), nodeCheck("n2", "_node_maintenance", "critical"), ok(b)},
		{ok(a), svcCheck(a, "_service_maintenance:s1", "critical"), ok(c2)},
		{ok(a), svcCheck(a, "_service_maintenance:s1", "passing"), ok(c2)},
		{ok(a), svcCheck(a, "_service_maintenance:s1", "warning")},
		{ok(a), svcCheck(c2, "_service_maintenance:s2", "critical"), ok(c2)},
		{ok(a), svcCheck(a, "chk2", "critical")},
		{ok(a), svcCheck(a, "chk2", "warning")},
		{svcCheck(a, "chk1", "critical"), svcCheck(a, "chk2", "critical")},
		{ok(a), svcCheck(b, "chk2", "critical"), ok(b)},
		{ok(a), svcCheck(c2, "chk2", "critical")},
		{svcCheck(a, "chk1", "warning"), svcCheck(a, "chk2", "warning"), svcCheck(a, "chk3", "passing")},
		{nodeCheck("n1", "serfHealth", "passing")},
		{svcCheck(a, "_service_maintenance:s1", "passing")},
		{ok(a), ok(a), svcCheck(a, "chk2", "critical")},
	}
	for _, cs := range directed {
		for _, st := range [][]string{{"passing"}, {"passing", "warning"}, {"critical"}, {}} {
			for _, strict := range []bool{false, true} {
				emitPass("pass-directed", cs, st, strict)
			}
		}
	}

	// checksWithTagPrefix
	nf := run.Scale(250, 5000)
	for i := 0; i < nf; i++ {
		insts := genInstances(r, 1+r.Intn(3), 1+r.Intn(4), i%3 == 0)
		cs := genChecks(r, insts, i%2 == 0)
		prefix := tagPrefix
		if i%10 == 9 {
			prefix = []string{"", "v", "urlprefix-/foo", "url"}[r.Intn(4)]
		}
		var got api.HealthChecks
		if p, v := vh.Recover(func() { got = consul.VerifChecksWithTagPrefix(prefix, cs) }); p {
			run.Violation(run.NextID(), fmt.Sprintf("checksWithTagPrefix panicked: %v", v), humanChecks(cs))
			continue
		}
		idx, ok := indicesOf(cs, got)
		if !ok {
			run.Violation(run.NextID(), "checksWithTagPrefix returned a check that is not in its input", humanChecks(cs))
			continue
		}
		run.Add("tag-filter", vh.App("CFilter", vh.HxS(prefix), coqChecks(cs), nats(idx)),
			map[string]interface{}{"prefix": prefix, "checks": humanChecks(cs), "returned": idx})
	}
}

// ---------- B: the consul backend against a fake Consul ----------

type fakeConsul struct {
	mu      sync.Mutex
	cond    *sync.Cond
	index   uint64
	checks  api.HealthChecks
	catalog []*api.CatalogService
	kvIndex uint64
	kv      api.KVPairs
	srv     *httptest.Server
	// latency control for catalog requests: a request that ARRIVES while slow is set is
	// answered (with the catalog it saw on arrival) only after delay
	slow        bool
	delay       time.Duration
	catInFlight int
	catSeen     int
	// error injection: 500 for the catalog lookup of these service names / for the health query
	failCatalog map[string]bool
	failHealth  bool
	failedSeen  int
}

func (f *fakeConsul) setFail(catalog string, health bool) {
	f.mu.Lock()
	f.failCatalog = map[string]bool{}
	if catalog != "" {
		f.failCatalog[catalog] = true
	}
	f.failHealth = health
	f.mu.Unlock()
}
func (f *fakeConsul) failures() int {
	f.mu.Lock()
	defer f.mu.Unlock()
	return f.failedSeen
}

func (f *fakeConsul) setSlow(on bool, d time.Duration) {
	f.mu.Lock()
	f.slow, f.delay = on, d
	f.mu.Unlock()
}

// waitCatalogRequest waits until a catalog request beyond the first `seen` ones has arrived
func (f *fakeConsul) waitCatalogRequest(seen int, max time.Duration) bool {
	deadline := time.Now().Add(max)
	for time.Now().Before(deadline) {
		f.mu.Lock()
		n := f.catSeen
		f.mu.Unlock()
		if n > seen {
			return true
		}
		time.Sleep(time.Millisecond)
	}
	return false
}
func (f *fakeConsul) catalogRequests() int {
	f.mu.Lock()
	defer f.mu.Unlock()
	return f.catSeen
}

func newFake() *fakeConsul {
	f := &fakeConsul{index: 1, kvIndex: 1}
	f.cond = sync.NewCond(&f.mu)
	f.srv = httptest.NewServer(http.HandlerFunc(f.handle))
	return f
}

func (f *fakeConsul) set(checks api.HealthChecks, catalog []*api.CatalogService) {
	f.mu.Lock()
	f.checks, f.catalog = checks, catalog
	f.index++
	f.mu.Unlock()
	f.cond.Broadcast()
}

func (f *fakeConsul) setKV(kv api.KVPairs) {
	f.mu.Lock()
	f.kv = kv
	f.kvIndex++
	f.mu.Unlock()
	f.cond.Broadcast()
}

func (f *fakeConsul) handle(w http.ResponseWriter, r *http.Request) {
	writeJSON := func(idx uint64, v interface{}) {
		w.Header().Set("X-Consul-Index", strconv.FormatUint(idx, 10))
		w.Header().Set("X-Consul-KnownLeader", "true")
		w.Header().Set("X-Consul-LastContact", "0")
		w.Header().Set("Content-Type", "application/json")
		json.NewEncoder(w).Encode(v)
	}
	p := r.URL.Path
	switch {
	case p == "/v1/agent/self":
		writeJSON(1, map[string]map[string]interface{}{"Config": {"Datacenter": "dc1"}})
	case p == "/v1/health/state/any":
		want, _ := strconv.ParseUint(r.URL.Query().Get("index"), 10, 64)
		f.mu.Lock()
		for f.index <= want {
			f.cond.Wait() // blocking query; parked for good once the history is over
		}
		idx, cs := f.index, f.checks
		if f.failHealth {
			f.failedSeen++
			f.mu.Unlock()
			http.Error(w, "injected health failure", http.StatusInternalServerError)
			return
		}
		f.mu.Unlock()
		if cs == nil {
			cs = api.HealthChecks{}
		}
		writeJSON(idx, cs)
	case strings.HasPrefix(p, "/v1/catalog/service/"):
		name := strings.TrimPrefix(p, "/v1/catalog/service/")
		f.mu.Lock()
		if f.failCatalog[name] {
			f.failedSeen++
			f.mu.Unlock()
			http.Error(w, "injected catalog failure", http.StatusInternalServerError)
			return
		}
		out := []*api.CatalogService{}
		for _, e := range f.catalog {
			if e.ServiceName == name {
				out = append(out, e)
			}
		}
		idx := f.index
		slow, d := f.slow, f.delay
		f.catSeen++
		f.catInFlight++
		f.mu.Unlock()
		if slow {
			time.Sleep(d)
		}
		f.mu.Lock()
		f.catInFlight--
		f.mu.Unlock()
		writeJSON(idx, out)
	case strings.HasPrefix(p, "/v1/kv/"):
		prefix := strings.TrimPrefix(p, "/v1/kv/")
		want, _ := strconv.ParseUint(r.URL.Query().Get("index"), 10, 64)
		f.mu.Lock()
		for f.kvIndex <= want {
			f.cond.Wait()
		}
		idx := f.kvIndex
		out := api.KVPairs{}
		for _, kv := range f.kv {
			if strings.HasPrefix(kv.Key, prefix) {
				out = append(out, kv)
			}
		}
		f.mu.Unlock()
		if len(out) == 0 { // Consul answers 404 (with the index) when nothing is stored under the prefix
			w.Header().Set("X-Consul-Index", strconv.FormatUint(idx, 10))
			w.WriteHeader(http.StatusNotFound)
			return
		}
		writeJSON(idx, out)
	default:
		http.NotFound(w, r)
	}
}

type regState struct {
	insts  []inst
	checks []*api.HealthCheck
}

func catalogOf(insts []inst, r *rand.Rand, inconsistent bool) []*api.CatalogService {
	out := make([]*api.CatalogService, len(insts))
	for i, in := range insts {
		tags := append([]string{}, in.tags...)
		if inconsistent && i == 0 {
			tags = genTags(r, false)
		}
		sa := in.addr
		if in.port%5 == 0 {
			sa = "" // falls back to the node address
		}
		out[i] = &api.CatalogService{Node: in.node, Address: "192.168.0." + strconv.Itoa(1+i), ServiceID: in.sid, ServiceName: in.name,
			ServiceAddress: sa, ServicePort: in.port, ServiceTags: tags}
	}
	return out
}

func coqCatalog(cat []*api.CatalogService, prefix string) (string, []string) {
	items := make([]string, len(cat))
	var human []string
	for i, e := range cat {
		cmds := consul.VerifRouteCmdBuild(e, prefix, map[string]string{"DC": "dc1"})
		items[i] = vh.App("mkEntry", vh.HxS(e.Node), vh.HxS(e.ServiceID), vh.HxS(e.ServiceName), strs(e.ServiceTags), strs(cmds))
		human = append(human, fmt.Sprintf("%s|%s|%s|%q -> %q", e.Node, e.ServiceID, e.ServiceName, e.ServiceTags, cmds))
	}
	return vh.List(items), human
}

// mutate the registry the way the property's quantifier lists: status flips, agent
// failures, node / service maintenance toggles, (de)registrations
func mutate(r *rand.Rand, st regState) regState {
	cs := append([]*api.HealthCheck{}, st.checks...)
	insts := append([]inst{}, st.insts...)
	cp := func(c *api.HealthCheck) *api.HealthCheck { d := *c; return &d }
	toggle := func(node, id, sid string, mk func() *api.HealthCheck) {
		for i, c := range cs {
			if c.Node == node && c.CheckID == id && c.ServiceID == sid {
				cs = append(cs[:i:i], cs[i+1:]...)
				return
			}
		}
		cs = append(cs, mk())
	}
	for k, n := 0, 1+r.Intn(2); k < n && len(insts) > 0; k++ {
		in := insts[r.Intn(len(insts))]
		switch r.Intn(7) {
		case 0, 1: // status flip of one service check
			var own []int
			for i, c := range cs {
				if c.Node == in.node && c.ServiceID == in.sid {
					own = append(own, i)
				}
			}
			if len(own) > 0 {
				i := own[r.Intn(len(own))]
				d := cp(cs[i])
				if d.Status == "passing" {
					d.Status = []string{"critical", "warning"}[r.Intn(2)]
				} else {
					d.Status = "passing"
				}
				cs[i] = d
			}
		case 2: // agent failure / recovery
			found := false
			for i, c := range cs {
				if c.Node == in.node && c.CheckID == "serfHealth" && c.ServiceID == "" {
					d := cp(c)
					if d.Status == "critical" {
						d.Status = "passing"
					} else {
						d.Status = "critical"
					}
					cs[i], found = d, true
				}
			}
			if !found {
				cs = append(cs, nodeCheck(in.node, "serfHealth", "critical"))
			}
		case 3:
			toggle(in.node, "_node_maintenance", "", func() *api.HealthCheck { return nodeCheck(in.node, "_node_maintenance", "critical") })
		case 4:
			toggle(in.node, "_service_maintenance:"+in.sid, in.sid, func() *api.HealthCheck { return svcCheck(in, "_service_maintenance:"+in.sid, "critical") })
		case 6: // re-registration of the same instance with other route tags and another port
			for i := range insts {
				if insts[i].node == in.node && insts[i].sid == in.sid {
					insts[i].tags = genTags(r, false)
					insts[i].port = 1000 + r.Intn(9000)
					for j, c := range cs {
						if c.Node == in.node && c.ServiceID == in.sid {
							d := cp(c)
							d.ServiceTags = append([]string{}, insts[i].tags...)
							cs[j] = d
						}
					}
				}
			}
		case 5: // deregistration
			var keep []*api.HealthCheck
			for _, c := range cs {
				if !(c.Node == in.node && c.ServiceID == in.sid) {
					keep = append(keep, c)
				}
			}
			cs = keep
			for i := range insts {
				if insts[i].node == in.node && insts[i].sid == in.sid {
					insts = append(insts[:i:i], insts[i+1:]...)
					break
				}
			}
		}
	}
	r.Shuffle(len(cs), func(i, j int) { cs[i], cs[j] = cs[j], cs[i] })
	return regState{insts: insts, checks: cs}
}

func partB(run *vh.Run) {
	r := run.Rng
	nh := run.Scale(36, 600)
	type hist struct {
		class        string
		prefix       string
		status       []string
		strict       bool
		inconsistent bool
		states       []regState
		monitors     int
		// delayed[k]: the catalog answer for snapshot k is slow and snapshot k+1 is published
		// while that request is outstanding (its own catalog answers are fast)
		delayed []bool
		// installed: the pushed configs also go through the real watchBackend loop
		installed bool
		// fail[k]: while snapshot k is current the fake answers 500 - "health", or
		// "catalog:<service name>" - until the driver lifts the failure
		fail []string
	}
	var hists []hist
	// directed histories first: colliding node/id pairs (repaired F-C01-1), blank-padded route tags (repaired F-C01-2) and their neighbours
	okc := func(in inst, st string) *api.HealthCheck { return svcCheck(in, "service:"+in.sid, st) }
	colA := inst{node: "a", sid: "b.c", name: "svc-a", tags: []string{"urlprefix-/one"}, addr: "10.0.0.1", port: 8001}
	colB := inst{node: "a.b", sid: "c", name: "svc-a", tags: []string{"urlprefix-/two"}, addr: "10.0.0.2", port: 8002}
	colC := inst{node: "a.b", sid: "c", name: "svc-b", tags: []string{"urlprefix-/two"}, addr: "10.0.0.2", port: 8002}
	sp := inst{node: "n1", sid: "s1", name: "svc-a", tags: []string{" urlprefix-/sp"}, addr: "10.0.0.3", port: 8003}
	sp2 := inst{node: "n1", sid: "s2", name: "svc-a", tags: []string{" urlprefix-/sp", "urlprefix-/foo"}, addr: "10.0.0.4", port: 8004}
	hists = append(hists,
		hist{class: "svc-key-collision", prefix: tagPrefix, status: []string{"passing"}, states: []regState{
			{[]inst{colA, colB}, []*api.HealthCheck{okc(colA, "critical"), okc(colB, "passing")}},
			{[]inst{colA, colB}, []*api.HealthCheck{okc(colA, "passing"), okc(colB, "critical")}},
			{[]inst{colA, colB}, []*api.HealthCheck{okc(colA, "passing"), okc(colB, "passing")}},
			{[]inst{colA, colB}, []*api.HealthCheck{okc(colA, "critical"), okc(colB, "critical")}},
			{[]inst{colA, colC}, []*api.HealthCheck{okc(colA, "critical"), okc(colC, "passing")}},
		}},
		hist{class: "svc-blank-padded-tag", prefix: tagPrefix, status: []string{"passing"}, states: []regState{
			{[]inst{sp}, []*api.HealthCheck{okc(sp, "passing")}},
			{[]inst{sp, sp2}, []*api.HealthCheck{okc(sp, "passing"), okc(sp2, "passing")}},
			{[]inst{sp2}, []*api.HealthCheck{okc(sp2, "passing")}},
		}},
	)
	for i := 0; i < nh; i++ {
		h := hist{class: "svc-history", prefix: tagPrefix, status: genStatusList(r), strict: r.Intn(2) == 0, monitors: r.Intn(4)}
		if i%3 != 0 {
			h.status = []string{"passing"}
		}
		spaced := i%9 == 4
		if spaced {
			h.class = "svc-history-spaced-tags"
		}
		if i%12 == 7 {
			h.inconsistent, h.class = true, "svc-history-inconsistent-tags"
		}
		if i%15 == 11 {
			h.prefix, h.class = "v", "svc-history-other-prefix"
		}
		mismatch := i%10 == 3 && !h.inconsistent
		if mismatch { // health and catalog disagree about which instances exist
			h.class = "svc-history-membership-mismatch"
		}
		insts := genInstances(r, 1+r.Intn(3), 2+r.Intn(3), spaced)
		st := regState{insts: insts, checks: genChecks(r, insts, i%5 == 0)}
		h.states = append(h.states, st)
		for k, n := 0, 2+r.Intn(4); k < n; k++ {
			st = mutate(r, st)
			if k == 2 && r.Intn(3) == 0 { // a registration
				more := genInstances(r, 1, 1, false)
				dup := false
				for _, in := range st.insts {
					if in.node == more[0].node && in.sid == more[0].sid {
						dup = true
					}
				}
				if !dup {
					st.insts = append(st.insts, more[0])
					st.checks = append(st.checks, svcCheck(more[0], "service:"+more[0].sid, "passing"))
				}
			}
			h.states = append(h.states, st)
		}
		hists = append(hists, h)
	}

	// bad-registration histories: two good services and one whose routing tag cannot become a
	// table entry - one history per rejection reason of route.NewTable, syntactic and semantic.
	// good table installed -> bad registration appears -> another service changes health -> ...
	badTags := []string{"urlprefix-/reports/[0-9", "urlprefix-[x.com/", "urlprefix-/r redirect=301,http://[::1", "urlprefix-",
		"urlprefix-/bw weight=abc", "urlprefix-/q opt=\"x", "urlprefix-x.com/{a"}
	nb := run.Scale(len(badTags), 10*len(badTags))
	for i := 0; i < nb; i++ {
		h := hist{class: "svc-bad-registration", prefix: tagPrefix, status: []string{"passing"}, strict: i%2 == 1, monitors: r.Intn(3), installed: true}
		g1 := inst{node: "n1", sid: "s1", name: "svc-a", tags: []string{"urlprefix-/foo", "v1"}, addr: "10.0.0.1", port: 8001}
		g2 := inst{node: "n2", sid: "s2", name: "svc-b", tags: []string{"urlprefix-x.com/bar"}, addr: "10.0.0.2", port: 8002}
		bd := inst{node: "n3", sid: "s3", name: "svc-c", tags: []string{badTags[i%len(badTags)]}, addr: "10.0.0.3", port: 8003}
		if i >= len(badTags) && r.Intn(2) == 0 { // a good routing tag beside the bad one
			bd.tags = append(bd.tags, "urlprefix-/ok")
			r.Shuffle(len(bd.tags), func(a, b int) { bd.tags[a], bd.tags[b] = bd.tags[b], bd.tags[a] })
		}
		okc := func(in inst, st string) *api.HealthCheck { return svcCheck(in, "service:"+in.sid, st) }
		h.states = []regState{
			{[]inst{g1, g2}, []*api.HealthCheck{okc(g1, "passing"), okc(g2, "passing")}},
			{[]inst{g1, g2, bd}, []*api.HealthCheck{okc(g1, "passing"), okc(g2, "passing"), okc(bd, "passing")}},
			{[]inst{g1, g2, bd}, []*api.HealthCheck{okc(g1, "passing"), okc(g2, "critical"), okc(bd, "passing")}},
			{[]inst{g1, g2, bd}, []*api.HealthCheck{okc(g1, "critical"), okc(g2, "passing"), okc(bd, "passing")}},
			{[]inst{g1, g2}, []*api.HealthCheck{okc(g1, "passing"), okc(g2, "passing")}},
		}
		hists = append(hists, h)
	}

	// lookup-failure histories (c8f84e8): good table installed -> the registry changes while the
	// catalog lookup of one service (or the health query) answers 500 -> it recovers.  Nothing may
	// be pushed while the failure lasts (the installed table keeps the service's routes); the
	// config of the current state is pushed after recovery.
	nf := run.Scale(6, 60)
	for i := 0; i < nf; i++ {
		h := hist{class: "svc-lookup-failure", prefix: tagPrefix, status: []string{"passing"}, strict: i%2 == 1, monitors: r.Intn(3), installed: true}
		g1 := inst{node: "n1", sid: "s1", name: "svc-a", tags: []string{"urlprefix-/foo", "v1"}, addr: "10.0.0.1", port: 8001}
		g2 := inst{node: "n2", sid: "s2", name: "svc-b", tags: []string{"urlprefix-x.com/bar"}, addr: "10.0.0.2", port: 8002}
		g3 := inst{node: "n3", sid: "s3", name: "svc-a", tags: []string{"urlprefix-/foo", "urlprefix-/three"}, addr: "10.0.0.3", port: 8003}
		okc := func(in inst, st string) *api.HealthCheck { return svcCheck(in, "service:"+in.sid, st) }
		f1 := []string{"catalog:svc-b", "catalog:svc-a", "health"}[i%3]
		f2 := []string{"health", "catalog:svc-b", "catalog:svc-a"}[i%3]
		h.states = []regState{
			{[]inst{g1, g2}, []*api.HealthCheck{okc(g1, "passing"), okc(g2, "passing")}},
			{[]inst{g1, g2, g3}, []*api.HealthCheck{okc(g1, "passing"), okc(g2, "passing"), okc(g3, "passing")}},
			{[]inst{g1, g2, g3}, []*api.HealthCheck{okc(g1, "critical"), okc(g2, "passing"), okc(g3, "passing")}},
			{[]inst{g1, g2, g3}, []*api.HealthCheck{okc(g1, "passing"), okc(g2, "passing"), okc(g3, "critical")}},
		}
		h.fail = []string{"", f1, "", f2}
		hists = append(hists, h)
	}

	// delayed-catalog histories: one service name (one catalog request per snapshot), every
	// instance tagged; pairs of close snapshots (k: instance 0 healthy, slow catalog; k+1:
	// instance 0 critical, fast catalog).  The configs must be pushed in snapshot order and
	// the last one pushed must be the final state's.
	nd := run.Scale(12, 120)
	for i := 0; i < nd; i++ {
		h := hist{class: "svc-delayed-catalog", prefix: tagPrefix, status: []string{"passing"}, strict: i%2 == 1, monitors: r.Intn(3)}
		insts := genInstances(r, 1+r.Intn(2), 2+r.Intn(2), false)
		for j := range insts {
			insts[j].name = "svc-a"
			insts[j].tags = []string{routeTagPool[j%6], "v1"}
		}
		mk := func(first string, allDown bool) regState {
			var cs []*api.HealthCheck
			for j, in := range insts {
				st := first
				if j > 0 {
					st = []string{"passing", "critical", "passing", "warning"}[r.Intn(4)]
					if allDown {
						st = "critical"
					}
				}
				cs = append(cs, svcCheck(in, "service:"+in.sid, st))
			}
			cs = append(cs, nodeCheck(insts[0].node, "serfHealth", "passing"))
			r.Shuffle(len(cs), func(a, b int) { cs[a], cs[b] = cs[b], cs[a] })
			return regState{insts: insts, checks: cs}
		}
		h.states = append(h.states, mk([]string{"passing", "critical"}[r.Intn(2)], false))
		h.delayed = append(h.delayed, false)
		for p, np := 0, 1+r.Intn(2); p < np; p++ {
			h.states = append(h.states, mk("passing", false), mk("critical", r.Intn(2) == 0))
			h.delayed = append(h.delayed, true, false)
		}
		hists = append(hists, h)
	}

	// hash-tag histories (round 7): plain service tags and options of routing tags with a blank
	// followed by '#' - data between the quotes of the generated command ("build #42", "x #", an
	// option "#1"); every registration is expressible, so every healthy instance has to be routed.
	// The pushed configs also go through the real watchBackend loop (installed table).  Random
	// choices from a source of their own: the inputs of the classes above do not change.
	hashTagHistories(run, func(class string, strict bool, monitors int, states []regState) {
		hists = append(hists, hist{class: class, prefix: tagPrefix, status: []string{"passing"}, strict: strict,
			monitors: monitors, installed: true, states: states})
	})

	type result struct {
		texts      []string
		cats       [][]*api.CatalogService
		err        string
		extra      []string     // configs pushed after the last snapshot's, during the grace period
		stateOf    []int        // the snapshot that was current when texts[i] was pushed
		failPushed map[int]bool // snapshot k (with an injected failure): was a config pushed while the failure lasted?
	}
	results := make([]result, len(hists))
	var wg sync.WaitGroup
	sem := make(chan struct{}, 8)
	// the catalogs are generated up front (the PRNG is not goroutine safe)
	for hi := range hists {
		h := &hists[hi]
		for k, st := range h.states {
			insts := st.insts
			if h.class == "svc-history-membership-mismatch" && len(insts) > 1 {
				if k%2 == 0 { // an instance the health endpoint reports is missing from the catalog
					insts = append([]inst{}, insts[1:]...)
				} else { // the catalog still lists an instance whose checks are gone
					gone := insts[len(insts)-1]
					var keep []*api.HealthCheck
					for _, c := range st.checks {
						if !(c.Node == gone.node && c.ServiceID == gone.sid) {
							keep = append(keep, c)
						}
					}
					h.states[k].checks = keep
				}
			}
			results[hi].cats = append(results[hi].cats, catalogOf(insts, r, h.inconsistent))
		}
	}
	for hi := range hists {
		wg.Add(1)
		go func(hi int) {
			defer wg.Done()
			sem <- struct{}{}
			defer func() { <-sem }()
			h := &hists[hi]
			res := &results[hi]
			f := newFake()
			f.set(h.states[0].checks, res.cats[0])
			required := "one"
			if h.strict {
				required = "all"
			}
			cfg := &config.Consul{Addr: strings.TrimPrefix(f.srv.URL, "http://"), Scheme: "http", TagPrefix: h.prefix,
				ServiceStatus: h.status, ChecksRequired: required, ServiceMonitors: h.monitors, KVPath: "/fabio/config"}
			be, err := consul.NewBackend(cfg)
			if err != nil {
				res.err = "NewBackend: " + err.Error()
				return
			}
			ch := be.WatchServices()
			recv := func(k int) bool {
				select {
				case t := <-ch:
					res.texts = append(res.texts, t)
					res.stateOf = append(res.stateOf, k)
					return true
				case <-time.After(20 * time.Second):
					res.err = fmt.Sprintf("no config pushed for state %d within 20 s", k)
					return false
				}
			}
			const catalogDelay = 250 * time.Millisecond
			for k := 0; k < len(h.states); k++ {
				if h.fail != nil && h.fail[k] != "" {
					// the registry changes while Consul answers 500: nothing may be pushed until it recovers
					if res.failPushed == nil {
						res.failPushed = map[int]bool{}
					}
					seen := f.failures()
					if h.fail[k] == "health" {
						f.setFail("", true)
					} else {
						f.setFail(strings.TrimPrefix(h.fail[k], "catalog:"), false)
					}
					f.set(h.states[k].checks, res.cats[k])
					for dl := time.Now().Add(10 * time.Second); f.failures() == seen && time.Now().Before(dl); {
						time.Sleep(time.Millisecond)
					}
					if f.failures() == seen {
						res.err = fmt.Sprintf("the injected %s failure was never requested for snapshot %d", h.fail[k], k)
						return
					}
					window := time.After(300 * time.Millisecond)
					for done := false; !done; {
						select {
						case t := <-ch:
							res.texts, res.stateOf = append(res.texts, t), append(res.stateOf, k)
							res.failPushed[k] = true
						case <-window:
							done = true
						}
					}
					f.setFail("", false)
					select { // the retry after recovery (the loop sleeps 1 s between attempts)
					case t := <-ch:
						res.texts, res.stateOf = append(res.texts, t), append(res.stateOf, k)
					case <-time.After(15 * time.Second):
						if !res.failPushed[k] {
							res.err = fmt.Sprintf("no config pushed for snapshot %d within 15 s after the failure was lifted", k)
							return
						}
					}
					continue
				}
				if h.delayed != nil && h.delayed[k] && k+1 < len(h.states) {
					seen := f.catalogRequests()
					f.setSlow(true, catalogDelay)
					f.set(h.states[k].checks, res.cats[k])
					if !f.waitCatalogRequest(seen, 10*time.Second) {
						res.err = fmt.Sprintf("no catalog request for snapshot %d within 10 s", k)
						return
					}
					// the next snapshot is published while the catalog answer for this one is outstanding
					f.setSlow(false, 0)
					f.set(h.states[k+1].checks, res.cats[k+1])
					if !recv(k) || !recv(k+1) {
						return
					}
					k++
					continue
				}
				if k > 0 {
					f.set(h.states[k].checks, res.cats[k])
				}
				if !recv(k) {
					return
				}
			}
			if h.delayed != nil {
				// quiescence: nothing is outstanding and nothing more may arrive
				grace := time.After(2 * catalogDelay)
				for done := false; !done; {
					select {
					case t := <-ch:
						res.extra = append(res.extra, t)
					case <-grace:
						done = true
					}
				}
			}
		}(hi)
	}
	wg.Wait()
	for hi, h := range hists {
		res := results[hi]
		if res.err != "" {
			run.Violation(run.NextID(), "consul backend against the fake Consul: "+res.err, h.class)
			continue
		}
		if len(res.extra) > 0 {
			run.Violation(run.NextID(), fmt.Sprintf("consul backend pushed %d more config(s) than there were registry snapshots", len(res.extra)), res.extra)
		}
		if h.delayed != nil { // after quiescence the last pushed config is the final state's
			k := len(h.states) - 1
			cat, human := coqCatalog(res.cats[k], h.prefix)
			run.Add("svc-quiescent-last-config", vh.App("CSvc", vh.Bool(true), vh.HxS(h.prefix), strs(h.status), vh.Bool(h.strict),
				coqChecks(h.states[k].checks), cat, vh.HxS(res.texts[len(res.texts)-1])),
				map[string]interface{}{"final_state": humanChecks(h.states[k].checks), "catalog": human,
					"pushed_in_order": res.texts, "delayed_catalog_at": h.delayed})
		}
		for k := range h.fail {
			if h.fail[k] == "" {
				continue
			}
			cat, human := coqCatalog(res.cats[k], h.prefix)
			failing := []string{}
			if strings.HasPrefix(h.fail[k], "catalog:") {
				failing = []string{strings.TrimPrefix(h.fail[k], "catalog:")}
			}
			run.Add("svc-failed-round", vh.App("CFail", vh.Bool(h.fail[k] == "health"), strs(failing), vh.HxS(h.prefix), strs(h.status), vh.Bool(h.strict),
				coqChecks(h.states[k].checks), cat, vh.Bool(res.failPushed[k])),
				map[string]interface{}{"step": k, "failure": h.fail[k], "checks": humanChecks(h.states[k].checks), "catalog": human,
					"pushed_during_failure": res.failPushed[k]})
		}
		for ti, text := range res.texts {
			k := res.stateOf[ti]
			st := h.states[k]
			cat, human := coqCatalog(res.cats[k], h.prefix)
			run.Add(h.class, vh.App("CSvc", vh.Bool(!h.inconsistent), vh.HxS(h.prefix), strs(h.status), vh.Bool(h.strict),
				coqChecks(st.checks), cat, vh.HxS(text)),
				map[string]interface{}{"step": k, "status": h.status, "strict": h.strict, "prefix": h.prefix,
					"checks": humanChecks(st.checks), "catalog": human, "pushed": strings.Split(text, "\n")})
			if !h.inconsistent {
				emitE2E(run, h.class, h.prefix, h.status, h.strict, st.checks, res.cats[k], text, human)
				if h.installed {
					if ti == 0 {
						installedJobs = append(installedJobs, installedJob{class: "installed-" + h.class})
					}
					job := &installedJobs[len(installedJobs)-1]
					job.texts = append(job.texts, text)
					job.emit = append(job.emit, e2eCase(run, h.prefix, h.status, h.strict, st.checks, res.cats[k], text, human))
				}
			}
		}
	}
}

// end to end: the pushed text goes through the real route.NewTable; the composed Coq model
// (registry -> C14 commands -> C05 table) has to produce the same text and the same table
func hostpathGo(prefix string) (string, string) {
	if strings.HasPrefix(prefix, ":") {
		return prefix, ""
	}
	p := strings.SplitN(prefix, "/", 2)
	if len(p) == 1 {
		return p[0], "/"
	}
	return p[0], "/" + p[1]
}

// e2eCase gathers, with the real libraries, what the composed model takes as parameters for the
// registry state (url.Parse on every destination a routing tag can stand for, glob.Compile on
// every path and lower-cased host - of the CANDIDATE commands, dropped or not) and returns a
// function that emits the case for an observed table.
func e2eCase(run *vh.Run, prefix string, status []string, strict bool, checks []*api.HealthCheck,
	cat []*api.CatalogService, text string, human []string, manual ...string) func(class string, dump [][4]string, accepted bool, prev ...[][4]string) {
	urls := map[string]string{}
	var addURL func(d string)
	addURL = func(d string) {
		if _, seen := urls[d]; seen {
			return
		}
		u, err := url.Parse(d)
		if err != nil {
			urls[d] = vh.None
			return
		}
		urls[d] = vh.Some(vh.HxS(u.String()))
		addURL(u.String())
	}
	bad := map[string]bool{}
	addGlob := func(p string) {
		if _, err := glob.Compile(p); err != nil {
			bad[p] = true
		}
	}
	env := map[string]string{"DC": "dc1"}
	items := make([]string, len(cat))
	for i, e := range cat {
		for _, line := range consul.VerifRouteCmdBuild(e, prefix, env) {
			if fs := strings.Fields(line); len(fs) >= 5 {
				addURL(fs[4])
			}
		}
		addr := e.ServiceAddress
		if addr == "" {
			addr = e.Address
		}
		hp := net.JoinHostPort(addr, strconv.Itoa(e.ServicePort))
		for _, d := range []string{"http://" + hp + "/", "tcp://" + hp, "https://" + hp, "grpc://" + hp, "grpcs://" + hp} {
			addURL(d)
		}
		for _, tag := range e.ServiceTags {
			rt, opts, ok := consul.VerifC01ParseURLPrefixTag(tag, prefix, env)
			if !ok {
				continue
			}
			h, p := hostpathGo(rt)
			addGlob(p)
			addGlob(strings.ToLower(h))
			for _, o := range strings.Fields(opts) {
				if strings.HasPrefix(o, "redirect=") {
					if rd := strings.Split(o[len("redirect="):], ","); len(rd) == 2 {
						addURL(rd[1])
					}
				}
			}
		}
		reg := vh.App("Build_reg", vh.HxS(e.ServiceName), vh.HxS(e.ServiceID), vh.HxS(e.ServiceAddress), vh.HxS(e.Address),
			vh.Z(int64(e.ServicePort)), strs(e.ServiceTags))
		items[i] = vh.App("mkREntry", vh.HxS(e.Node), reg)
	}
	var uk []string
	for k := range urls {
		uk = append(uk, k)
	}
	sort.Strings(uk)
	ul := make([]string, len(uk))
	for i, k := range uk {
		ul[i] = vh.Pair(vh.HxS(k), urls[k])
	}
	var bl []string
	for k := range bad {
		bl = append(bl, k)
	}
	sort.Strings(bl)
	envT := "(Some [(" + vh.HxS("DC") + ", " + vh.HxS("dc1") + ")])"
	for mi, m := range manual { // the operator's text: destinations and sources of its commands
		if mi > 0 { // manual[1], manual[2]: the same text as commands (Coq term, human-readable)
			break
		}
		for _, line := range strings.Split(m, "\n") {
			fs := strings.Fields(line)
			for _, f := range fs {
				if strings.Contains(f, "://") {
					addURL(f)
				}
			}
			if len(fs) >= 4 && fs[0] == "route" {
				h, p := hostpathGo(fs[3])
				addGlob(p)
				addGlob(strings.ToLower(h))
			}
		}
	}
	uk, ul, bl = nil, nil, nil
	for k := range urls {
		uk = append(uk, k)
	}
	sort.Strings(uk)
	ul = make([]string, len(uk))
	for i, k := range uk {
		ul[i] = vh.Pair(vh.HxS(k), urls[k])
	}
	for k := range bad {
		bl = append(bl, k)
	}
	sort.Strings(bl)
	return func(class string, dump [][4]string, accepted bool, prev ...[][4]string) {
		if len(manual) > 2 { // ... with the operator's text given as the commands it was written from (round 7)
			run.Add(class, vh.App("CE2EO", envT, vh.HxS(prefix), vh.List(ul), strs(bl), strs(status), vh.Bool(strict),
				coqChecks(checks), vh.List(items), manual[1], vh.HxS(manual[0]), coqTbl(prev[0]), coqTbl(dump)),
				map[string]interface{}{"status": status, "strict": strict, "checks": humanChecks(checks), "catalog": human,
					"pushed": strings.Split(text, "\n"), "operator_commands": strings.Split(manual[2], "\n"),
					"manual": strings.Split(manual[0], "\n"), "previous_table": prev[0], "table": dump})
			return
		}
		if len(manual) > 0 { // through the real watchBackend with the operator's text on top
			run.Add(class, vh.App("CE2EM", envT, vh.HxS(prefix), vh.List(ul), strs(bl), strs(status), vh.Bool(strict),
				coqChecks(checks), vh.List(items), vh.HxS(manual[0]), coqTbl(prev[0]), coqTbl(dump)),
				map[string]interface{}{"status": status, "strict": strict, "checks": humanChecks(checks), "catalog": human,
					"pushed": strings.Split(text, "\n"), "manual": strings.Split(manual[0], "\n"), "previous_table": prev[0], "table": dump})
			return
		}
		tbl := vh.None
		if accepted {
			tbl = vh.Some(coqTbl(dump))
		}
		run.Add(class, vh.App("CE2E", envT, vh.HxS(prefix), vh.List(ul), strs(bl), strs(status), vh.Bool(strict),
			coqChecks(checks), vh.List(items), vh.HxS(text), tbl, vh.Bool(len(prev) == 0)),
			map[string]interface{}{"status": status, "strict": strict, "checks": humanChecks(checks), "catalog": human,
				"pushed": strings.Split(text, "\n"), "table": dump, "accepted": accepted, "bad_globs": bl})
	}
}

func emitE2E(run *vh.Run, class, prefix string, status []string, strict bool, checks []*api.HealthCheck,
	cat []*api.CatalogService, text string, human []string) {
	emit := e2eCase(run, prefix, status, strict, checks, cat, text, human)
	var t route.Table
	var err error
	if p, v := vh.Recover(func() { t, err = route.NewTable(bytes.NewBufferString(text)) }); p {
		run.Violation(run.NextID(), fmt.Sprintf("route.NewTable panicked on a config pushed by the consul backend: %v", v), text)
		return
	}
	var dump [][4]string
	if err == nil {
		dump = dumpTableTags(t)
	}
	emit("e2e-"+class, dump, err == nil)
}

// a history whose pushed configs are also delivered, in order, to the real watchBackend loop
// (part C's driver); the table INSTALLED after each delivery is compared with the composed
// model and with the spec "exactly the healthy tagged instances whose commands validate"
type installedJob struct {
	class string
	texts []string
	man   []bool // delivered on the manual channel (nil: all on the service channel)
	emit  []func(class string, dump [][4]string, accepted bool, prev ...[][4]string)
}

var installedJobs []installedJob

// ---------- M: service routes with the operator's KV overrides on top ----------
// The real backend's two watchers (WatchServices, WatchManual) against the fake Consul; the
// driver alternates registry changes and KV edits; every pushed text is then delivered, on its
// channel and in that order, to the real watchBackend, and the installed table after each
// delivery is compared with the composed model (service table, then the manual commands
// applied in order) and with the spec: no target but the healthy instances' and the manual adds'.
var manualPool = []string{
	"route add man /m http://9.9.9.9:99/", "route del svc-b", "route del svc-a /foo", "route del svc-a /foo http://10.0.0.1:8001/",
	"route weight svc-a /foo weight 0.3", "route add man x.com/bar http://9.9.9.8:98/ tags \"m\"\nroute del svc-b x.com/bar", "",
	"route weight svc-zzz /nowhere weight 0.5", "rout del x", "route add man /foo http://9.9.9.7:97/\nroute weight man /foo weight 0.5",
	"route del svc-a\nroute add svc-a /foo http://8.8.8.8:88/",
}

func partM(run *vh.Run) {
	r := run.Rng
	nh := run.Scale(8, 100)
	type ev struct {
		man   bool
		text  string
		state int
		kv    string
	}
	type mh struct {
		strict bool
		states []regState
		cats   [][]*api.CatalogService
		plan   []int // >= 0: publish that state; -1: edit the KV value
		kvs    []string
		evs    []ev
		err    string
	}
	hs := make([]mh, nh)
	g1 := inst{node: "n1", sid: "s1", name: "svc-a", tags: []string{"urlprefix-/foo", "v1"}, addr: "10.0.0.1", port: 8001}
	g2 := inst{node: "n2", sid: "s2", name: "svc-b", tags: []string{"urlprefix-x.com/bar"}, addr: "10.0.0.2", port: 8002}
	g3 := inst{node: "n3", sid: "s3", name: "svc-a", tags: []string{"urlprefix-/foo", "urlprefix-/three"}, addr: "10.0.0.3", port: 8003}
	okc := func(in inst, st string) *api.HealthCheck { return svcCheck(in, "service:"+in.sid, st) }
	sts := []string{"passing", "passing", "critical"}
	for hi := range hs {
		h := &hs[hi]
		h.strict = hi%2 == 1
		for k := 0; k < 4; k++ {
			a, b, c := "passing", "passing", "passing"
			if k > 0 {
				a, b, c = sts[r.Intn(3)], sts[r.Intn(3)], sts[r.Intn(3)]
			}
			st := regState{[]inst{g1, g2, g3}, []*api.HealthCheck{okc(g1, a), okc(g2, b), okc(g3, c)}}
			h.states = append(h.states, st)
			h.cats = append(h.cats, catalogOf(st.insts, r, false))
		}
		next := 1
		for len(h.plan) < 7 {
			if next < len(h.states) && r.Intn(2) == 0 {
				h.plan = append(h.plan, next)
				next++
			} else {
				h.plan = append(h.plan, -1)
				h.kvs = append(h.kvs, manualPool[r.Intn(len(manualPool))])
			}
		}
	}
	var wg sync.WaitGroup
	for hi := range hs {
		wg.Add(1)
		go func(h *mh) {
			defer wg.Done()
			f := newFake()
			f.set(h.states[0].checks, h.cats[0])
			required := "one"
			if h.strict {
				required = "all"
			}
			cfg := &config.Consul{Addr: strings.TrimPrefix(f.srv.URL, "http://"), Scheme: "http", TagPrefix: tagPrefix,
				ServiceStatus: []string{"passing"}, ChecksRequired: required, KVPath: "/fabio/config"}
			be, err := consul.NewBackend(cfg)
			if err != nil {
				h.err = "NewBackend: " + err.Error()
				return
			}
			chS, chM := be.WatchServices(), be.WatchManual()
			cur, kv := 0, ""
			recv := func(ch chan string, man bool) bool {
				select {
				case t := <-ch:
					if man {
						kv = t
					}
					h.evs = append(h.evs, ev{man: man, text: t, state: cur, kv: kv})
					return true
				case <-time.After(20 * time.Second):
					h.err = "a watcher of the consul backend pushed nothing within 20 s"
					return false
				}
			}
			if !recv(chS, false) || !recv(chM, true) {
				return
			}
			ki := 0
			for _, p := range h.plan {
				if p >= 0 {
					cur = p
					f.set(h.states[p].checks, h.cats[p])
					if !recv(chS, false) {
						return
					}
				} else {
					var pairs api.KVPairs
					if v := h.kvs[ki]; v != "" {
						pairs = api.KVPairs{&api.KVPair{Key: "fabio/config", Value: []byte(v)}}
					}
					ki++
					f.setKV(pairs)
					if !recv(chM, true) {
						return
					}
				}
			}
		}(&hs[hi])
	}
	wg.Wait()
	for _, h := range hs {
		if h.err != "" {
			run.Violation(run.NextID(), "consul backend against the fake Consul: "+h.err, nil)
			continue
		}
		job := installedJob{class: "installed-svc-with-manual"}
		for _, e := range h.evs {
			st := h.states[e.state]
			_, human := coqCatalog(h.cats[e.state], tagPrefix)
			// the service text current at this point is the last one delivered on the service channel
			job.texts = append(job.texts, e.text)
			job.man = append(job.man, e.man)
			svcText := ""
			for _, x := range h.evs {
				if !x.man && x.state == e.state {
					svcText = x.text
				}
			}
			job.emit = append(job.emit, e2eCase(run, tagPrefix, []string{"passing"}, h.strict, st.checks, h.cats[e.state], svcText, human, e.kv))
		}
		installedJobs = append(installedJobs, job)
	}
}

// ---------- C: watchBackend ----------

type wEvent struct {
	Man  bool   `json:"man"`
	Text string `json:"text"`
	Obs  bool   `json:"obs"`
}
type wSeq struct {
	Events []wEvent `json:"events"`
}
type wOut struct {
	Tables   [][][4]string `json:"tables"`
	FirstSet []bool        `json:"first_set"`
	Stuck    bool          `json:"stuck"`
}

func dumpTable(t route.Table) [][4]string {
	out := [][4]string{}
	for _, routes := range t {
		for _, rt := range routes {
			for _, tg := range rt.Targets {
				u := ""
				if tg.URL != nil {
					u = tg.URL.String()
				}
				out = append(out, [4]string{rt.Host, rt.Path, tg.Service, u})
			}
		}
	}
	sort.Slice(out, func(i, j int) bool {
		for k := 0; k < 4; k++ {
			if out[i][k] != out[j][k] {
				return out[i][k] < out[j][k]
			}
		}
		return false
	})
	return out
}

// dumpTableTags is dumpTable with the target's tags in the destination component (URL, NUL, the
// tags joined by commas), see Check/C01.v url_tags
func dumpTableTags(t route.Table) [][4]string {
	out := [][4]string{}
	for _, routes := range t {
		for _, rt := range routes {
			for _, tg := range rt.Targets {
				u := ""
				if tg.URL != nil {
					u = tg.URL.String()
				}
				out = append(out, [4]string{rt.Host, rt.Path, tg.Service, u + "\x00" + strings.Join(tg.Tags, ",")})
			}
		}
	}
	sort.Slice(out, func(i, j int) bool {
		for k := 0; k < 4; k++ {
			if out[i][k] != out[j][k] {
				return out[i][k] < out[j][k]
			}
		}
		return false
	})
	return out
}

func coqTbl(t [][4]string) string {
	items := make([]string, len(t))
	for i, x := range t {
		items[i] = "(" + vh.HxS(x[0]) + ", " + vh.HxS(x[1]) + ", " + vh.HxS(x[2]) + ", " + vh.HxS(x[3]) + ")"
	}
	return vh.List(items)
}

func genSvcText(r *rand.Rand) string {
	var lines []string
	for i, n := 0, r.Intn(4); i < n; i++ {
		name := namePool[r.Intn(2)]
		src := []string{"/foo", "x.com/bar", "/", "y.com/", ":1234"}[r.Intn(5)]
		dst := fmt.Sprintf("http://10.0.0.%d:%d/", 1+r.Intn(3), 8000+r.Intn(3))
		if src == ":1234" {
			dst = fmt.Sprintf("tcp://10.0.0.%d:%d", 1+r.Intn(3), 8000+r.Intn(3))
		}
		line := "route add " + name + " " + src + " " + dst
		if r.Intn(5) == 0 {
			line += ` tags "blue,v1"`
		}
		lines = append(lines, line)
	}
	sort.Sort(sort.Reverse(sort.StringSlice(lines)))
	return strings.Join(lines, "\n")
}

var badSvc = []string{
	"route add svc-a /foo http://10.0.0.1:8000/ weight x",
	"route add svc-a",
	"route add svc-a /foo http://10.0.0.1:8000/ opts \"strip\"\nroute add svc-b /q http://[::1/",
}
var manPool = []string{
	"", "# --- /fabio/config\nroute del svc-a", "route add man /m http://9.9.9.9:99/", "route del svc-b /foo",
	"route weight svc-a /foo weight 0.3", "route add man x.com/bar http://9.9.9.8:98/\n\n# comment\nroute del svc-a x.com/bar",
	"route del svc-a\nroute del svc-b",
}
var badMan = []string{"route add", "rout del svc-a", "route add man /m", "route weight svc-a /foo weight 2x", "garbage"}

func partC(run *vh.Run) {
	r := run.Rng
	nseq := run.Scale(140, 3000)
	type script struct {
		class string
		texts []string
		evs   [][3]int // man, text index, obs
	}
	scripts := make([]script, nseq)
	seqs := make([]wSeq, nseq)
	for si := range scripts {
		sc := &scripts[si]
		sc.class = "watch-random"
		sc.texts = []string{""}
		add := func(t string) int {
			for i, x := range sc.texts {
				if x == t {
					return i
				}
			}
			sc.texts = append(sc.texts, t)
			return len(sc.texts) - 1
		}
		pBad := []int{0, 15, 30, 50}[si%4]
		cur := [2]int{0, 0}
		n := 3 + r.Intn(7)
		for k := 0; k < n; k++ {
			man := r.Intn(5) < 2
			var t string
			bad := r.Intn(100) < pBad
			switch {
			case man && bad:
				t = badMan[r.Intn(len(badMan))]
			case man:
				t = manPool[r.Intn(len(manPool))]
			case bad:
				t = badSvc[r.Intn(len(badSvc))]
			default:
				t = genSvcText(r)
			}
			if r.Intn(6) == 0 && len(sc.texts) > 1 { // an earlier value again (A, B, A)
				t = sc.texts[r.Intn(len(sc.texts))]
			}
			if si%20 == 19 && k == 1 { // a text split differently over the two channels
				t = "route add svc-a /foo http://10.0.0.1:8000/\nroute add man /m http://9.9.9.9:99/"
			}
			i := add(t)
			m := 0
			if man {
				m = 1
			}
			cur[m] = i
			sc.evs = append(sc.evs, [3]int{m, i, 0})
			// synchronisation: re-deliver a current value; once the loop has accepted it, the
			// previous delivery has been processed completely
			sm := r.Intn(2)
			sc.evs = append(sc.evs, [3]int{sm, cur[sm], 1})
		}
		if pBad > 0 {
			sc.class = "watch-mixed-valid-invalid"
		}
		for _, e := range sc.evs {
			seqs[si].Events = append(seqs[si].Events, wEvent{Man: e[0] == 1, Text: sc.texts[e[1]], Obs: e[2] == 1})
		}
	}
	// the configs the real consul backend pushed for the bad-registration histories (part B),
	// delivered in order; the installed table is read after every delivery
	nScripts := len(seqs)
	for _, job := range installedJobs {
		var sq wSeq
		for i, t := range job.texts {
			man := job.man != nil && job.man[i]
			sq.Events = append(sq.Events, wEvent{Man: man, Text: t, Obs: false}, wEvent{Man: man, Text: t, Obs: true})
		}
		seqs = append(seqs, sq)
	}
	// run the real loop: go test in the repository under test
	repo := os.Getenv("VERIF_REPO")
	if repo == "" {
		repo = "/repo"
	}
	dir, err := os.MkdirTemp("", "verif-c01-")
	if err != nil {
		panic(err)
	}
	defer os.RemoveAll(dir)
	inF, outF := filepath.Join(dir, "in.json"), filepath.Join(dir, "out.json")
	b, _ := json.Marshal(seqs)
	if err := os.WriteFile(inF, b, 0o644); err != nil {
		panic(err)
	}
	cmd := exec.Command("go", "test", "-tags", "verif", "-count=1", "-run", "TestVerifC01$", ".")
	cmd.Dir = repo
	cmd.Env = append(os.Environ(), "VERIF_C01_IN="+inF, "VERIF_C01_OUT="+outF)
	var log bytes.Buffer
	cmd.Stdout, cmd.Stderr = &log, &log
	done := make(chan error, 1)
	if err := cmd.Start(); err != nil {
		run.Violation(run.NextID(), "cannot start go test for the watchBackend driver: "+err.Error(), nil)
		return
	}
	go func() { done <- cmd.Wait() }()
	select {
	case err = <-done:
	case <-time.After(15 * time.Minute):
		cmd.Process.Kill()
		err = fmt.Errorf("timeout")
	}
	var outs []wOut
	if err == nil {
		var data []byte
		if data, err = os.ReadFile(outF); err == nil {
			err = json.Unmarshal(data, &outs)
		}
	}
	if err != nil || len(outs) != len(seqs) {
		tail := log.String()
		if len(tail) > 1500 {
			tail = tail[len(tail)-1500:]
		}
		run.Violation(run.NextID(), fmt.Sprintf("watchBackend driver (go test -tags verif -run TestVerifC01 in %s) failed: %v", repo, err), tail)
		return
	}
	for ji, job := range installedJobs {
		o := outs[nScripts+ji]
		if o.Stuck || len(o.Tables) != len(job.texts) {
			run.Violation(run.NextID(), "watchBackend stopped accepting the configs pushed by the consul backend", job.texts)
			continue
		}
		prev := [][4]string{}
		for k := range job.texts {
			job.emit[k](job.class, o.Tables[k], true, prev)
			prev = o.Tables[k]
		}
	}
	for si, sc := range scripts {
		o := outs[si]
		if o.Stuck {
			run.Violation(run.NextID(), "watchBackend stopped accepting config deliveries (loop stuck or dead)", seqs[si])
			continue
		}
		// the real NewTable's verdict on every combined text of the history
		type pair [2]int
		seen := map[pair]bool{}
		var builds []string
		cur := pair{0, 0}
		var human []string
		for _, e := range sc.evs {
			cur[e[0]] = e[1]
			if seen[cur] {
				continue
			}
			seen[cur] = true
			text := sc.texts[cur[0]] + "\n" + sc.texts[cur[1]]
			var t route.Table
			var err error
			if p, v := vh.Recover(func() { t, err = route.NewTable(bytes.NewBufferString(text)) }); p {
				run.Violation(run.NextID(), fmt.Sprintf("route.NewTable panicked: %v", v), text)
				err = fmt.Errorf("panic")
			}
			res := vh.None
			if err == nil {
				res = vh.Some(coqTbl(dumpTable(t)))
			}
			builds = append(builds, fmt.Sprintf("(%d%%nat, %d%%nat, %s)", cur[0], cur[1], res))
			human = append(human, fmt.Sprintf("%d+%d valid=%v", cur[0], cur[1], err == nil))
		}
		evs := make([]string, len(sc.evs))
		for i, e := range sc.evs {
			evs[i] = fmt.Sprintf("(%s, %d%%nat, %s)", vh.Bool(e[0] == 1), e[1], vh.Bool(e[2] == 1))
		}
		impl := make([]string, len(o.Tables))
		for i, t := range o.Tables {
			impl[i] = vh.Pair(coqTbl(t), vh.Bool(o.FirstSet[i]))
		}
		run.Add(sc.class, vh.App("CWatch", strs(sc.texts), vh.List(builds), vh.List(evs), vh.List(impl)),
			map[string]interface{}{"texts": sc.texts, "events(man,text,obs)": sc.evs, "verdicts": human, "tables": o.Tables})
	}
}

// ---------- D: the manual overrides pushed by watchKV ----------

var kvValues = []string{"route add man /m http://9.9.9.9:99/", "  route del svc-a\n", "", "route add man x.com/ http://9.9.9.8:98/\nroute weight svc-a /foo weight 0.3\n\n",
	"\t# only a comment ", "route del svc-b /foo", " \n "}

func partD(run *vh.Run) {
	r := run.Rng
	nh := run.Scale(10, 150)
	type kvHist struct {
		states []api.KVPairs
		texts  []string
		err    string
	}
	hists := make([]kvHist, nh)
	for hi := range hists {
		var cur api.KVPairs
		for k, n := 0, 2+r.Intn(4); k < n; k++ {
			switch {
			case k == 0 && hi%3 == 0: // nothing stored yet
			case r.Intn(5) == 0 && k > 0: // index moves, content does not (another key elsewhere was written)
			default:
				cur = nil
				keys := []string{"fabio/config", "fabio/config/extra", "fabio/config/team-b", "fabio/configother"}
				for _, key := range keys {
					if r.Intn(2) == 0 {
						cur = append(cur, &api.KVPair{Key: key, Value: []byte(kvValues[r.Intn(len(kvValues))])})
					}
				}
			}
			hists[hi].states = append(hists[hi].states, append(api.KVPairs{}, cur...))
		}
	}
	var wg sync.WaitGroup
	for hi := range hists {
		wg.Add(1)
		go func(h *kvHist) {
			defer wg.Done()
			f := newFake()
			f.kv = h.states[0]
			cfg := &config.Consul{Addr: strings.TrimPrefix(f.srv.URL, "http://"), Scheme: "http", TagPrefix: tagPrefix,
				ServiceStatus: []string{"passing"}, KVPath: "/fabio/config"}
			be, err := consul.NewBackend(cfg)
			if err != nil {
				h.err = "NewBackend: " + err.Error()
				return
			}
			ch := be.WatchManual()
			for k := range h.states {
				if k > 0 {
					f.setKV(h.states[k])
				}
				select {
				case t := <-ch:
					h.texts = append(h.texts, t)
				case <-time.After(20 * time.Second):
					h.err = fmt.Sprintf("no manual config pushed for KV state %d within 20 s", k)
					return
				}
			}
		}(&hists[hi])
	}
	wg.Wait()
	for _, h := range hists {
		if h.err != "" {
			run.Violation(run.NextID(), "consul backend against the fake Consul: "+h.err, nil)
			continue
		}
		for k, st := range h.states {
			var items, human []string
			for _, kv := range st {
				if strings.HasPrefix(kv.Key, "fabio/config") {
					items = append(items, vh.Pair(vh.HxS(kv.Key), vh.Hx(kv.Value)))
					human = append(human, fmt.Sprintf("%s=%q", kv.Key, kv.Value))
				}
			}
			run.Add("kv-history", vh.App("CKv", vh.List(items), vh.HxS(h.texts[k])),
				map[string]interface{}{"step": k, "kv": human, "pushed": h.texts[k]})
		}
	}
}

func main() {
	run := vh.Start("C01")
	partA(run)
	partB(run)
	partM(run)
	partO(run)
	partC(run)
	partD(run)
	run.Finish(preamble, run.Scale(110, 1800))
}
