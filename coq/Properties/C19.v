(** C19 — configured upstream time limits are the ones the HTTP proxy uses
    (transport/transport.go, main.go:73/141-156/230-233, route/route.go:78-82,
    proxy/http_proxy.go:217-222, proxy/http_handler.go:40-66).
    Statements, [exact], [Print Assumptions] only. *)
From Coq Require Import String List ZArith.
From Fabio Require Import Lib.Outcome Lib.Bytes Model.Transport Proofs.Transport.
Import ListNotations.
Local Open Scope Z_scope.

(* ---- the headline statement ---- *)

(* After main()'s start-up (SetConfig, first routing table, default and skip-verify transports) from
   ANY package state: for every configuration (negative values included), every table, every target
   of it — plain, skip-verify or host override, [kind_of] — and every upstream delay / connect time,
   the transport the proxy hands the target's requests to (http_proxy.go:217-222) carries the five
   configured limits, the TLS settings of the target's kind and no other limit; an upstream that
   does not answer its header within the configured response-header timeout is answered 504 at that
   time, any other upstream is served with its own status at its own time; a connect that does not
   complete within the configured dial timeout (or any connect under a negative one, which
   net.Dialer turns into a deadline in the past) is answered 504, any other is served.
   [rht_spec] / [dial_spec] are stated on the CONFIGURED value, [serve] / [dial] run on the chosen
   transport's field.  That net/http honours the field is runtime behaviour (harness only). *)
Theorem C19_end_to_end : forall s0 cfg tgs i tg delay connect st,
  nth_error tgs i = Some tg ->
  exists t, chosen (main_start set_config s0 cfg tgs) i = Some t /\
    uses t cfg /\ t_tls t = kind_tls tg /\ t_other t = 0 /\
    rht_spec (l_rht cfg) delay st (serve (t_rht t) delay st) /\
    dial_spec (l_dial cfg) connect st (dial (t_dial t) connect st).
Proof. exact end_to_end. Qed.
Print Assumptions C19_end_to_end.

(* the same for every later routing table (registry change): it is built from the same state *)
Theorem C19_end_to_end_reload : forall s0 cfg tgs tgs' i tg delay connect st,
  nth_error tgs' i = Some tg ->
  exists t, chosen (reload (set_config s0 cfg) (main_start set_config s0 cfg tgs) tgs') i = Some t /\
    uses t cfg /\ t_tls t = kind_tls tg /\ t_other t = 0 /\
    rht_spec (l_rht cfg) delay st (serve (t_rht t) delay st) /\
    dial_spec (l_dial cfg) connect st (dial (t_dial t) connect st).
Proof. exact end_to_end_reload. Qed.
Print Assumptions C19_end_to_end_reload.

(* non-vacuity: a table with one target of each kind; each is served by a different transport, a
   slow upstream gets (504, limit) and a fast one its own answer on all three *)
Theorem C19_end_to_end_nonvacuous :
  let cfg := {| l_rht := 300; l_idle := 15; l_maxconn := 100; l_dial := 30; l_keepalive := 7 |} in
  let plain := {| tg_host := []; tg_dst_https := false; tg_proto := []; tg_skip := false |} in
  let skipv := {| tg_host := bs "dst"%string; tg_dst_https := true; tg_proto := []; tg_skip := true |} in
  let over := {| tg_host := bs "upstream.example"%string; tg_dst_https := true; tg_proto := []; tg_skip := true |} in
  let px := main_start set_config init_state cfg [plain; skipv; over] in
  map kind_of [plain; skipv; over] = [KPlain; KSkipVerify; KOverride] /\
  map (fun i => option_map t_tls (chosen px i)) [0%nat; 1%nat; 2%nat] =
    [Some None; Some (Some insecure_tls); Some (Some (target_tls over))] /\
  map (fun i => option_map (fun t => serve (t_rht t) 2000 200) (chosen px i)) [0%nat; 1%nat; 2%nat] =
    [Some (504, 300); Some (504, 300); Some (504, 300)] /\
  map (fun i => option_map (fun t => serve (t_rht t) 100 200) (chosen px i)) [0%nat; 1%nat; 2%nat] =
    [Some (200, 100); Some (200, 100); Some (200, 100)] /\
  chosen px 3 = None.
Proof. exact end_to_end_nonvacuous. Qed.
Print Assumptions C19_end_to_end_nonvacuous.

(* The order matters.  With SetConfig at the top of startServers, i.e. after the first table was
   built (what one of the seeded changes does), the statement is false: a host-override target is
   served from the state main() started with and its client is held although a limit is configured.
   Only the host-override kind is affected. *)
Theorem C19_setconfig_after_first_table_refuted :
  exists cfg tgs i t delay st,
    chosen (main_start_late set_config init_state cfg tgs) i = Some t /\ ~ uses t cfg /\
    rht_hits (l_rht cfg) delay /\ serve (t_rht t) delay st = (st, delay).
Proof. exact late_setconfig_refuted. Qed.
Print Assumptions C19_setconfig_after_first_table_refuted.

Theorem C19_setconfig_after_first_table_on_domain : forall s0 cfg tgs i tg delay connect st,
  nth_error tgs i = Some tg -> kind_of tg <> KOverride ->
  exists t, chosen (main_start_late set_config s0 cfg tgs) i = Some t /\
    uses t cfg /\ t_tls t = kind_tls tg /\
    rht_spec (l_rht cfg) delay st (serve (t_rht t) delay st) /\
    dial_spec (l_dial cfg) connect st (dial (t_dial t) connect st).
Proof. exact late_setconfig_on_domain. Qed.
Print Assumptions C19_setconfig_after_first_table_on_domain.

(* main()'s start-up is the history [main_ops] of the package operations, in main()'s order: what
   the proxy holds are exactly the outputs of that history, and every one uses the configuration *)
Theorem C19_main_is_a_history : forall set s0 cfg tgs,
  proxy_transports (main_start set s0 cfg tgs) = run set s0 (main_ops cfg tgs).
Proof. exact main_start_is_run. Qed.
Print Assumptions C19_main_is_a_history.

Theorem C19_late_main_is_a_history : forall set s0 cfg tgs,
  proxy_transports (main_start_late set s0 cfg tgs) = run set s0 (main_ops_late cfg tgs).
Proof. exact main_start_late_is_run. Qed.
Print Assumptions C19_late_main_is_a_history.

Theorem C19_main_history_all_use_config : forall s0 cfg tgs,
  Forall (fun t => uses t cfg) (run set_config s0 (main_ops cfg tgs)).
Proof. exact main_ops_all_use. Qed.
Print Assumptions C19_main_history_all_use_config.

(* ---- the package: histories of SetConfig / NewTransport ---- *)

(* For every history of SetConfig / NewTransport calls and every starting state: the n-th
   transport built carries the five limits of the last configuration set before it
   (the starting state's if none), and the TLS settings it was asked for. *)
Theorem C19_transport_uses_config : forall ops s n k tls,
  nth_new ops n = Some (k, tls) ->
  exists t, nth_error (run set_config s ops) n = Some t /\
            uses t (last_config s (firstn k ops)) /\ t_tls t = tls.
Proof. exact run_spec. Qed.
Print Assumptions C19_transport_uses_config.

(* the hypothesis is met by every n below the number of NewTransport operations, which is the
   number of transports built *)
Theorem C19_transport_uses_config_defined : forall ops n,
  (n < length (filter is_new ops))%nat -> exists k tls, nth_new ops n = Some (k, tls).
Proof. exact nth_new_defined. Qed.
Print Assumptions C19_transport_uses_config_defined.

Theorem C19_transports_built : forall ops set s, length (run set s ops) = length (filter is_new ops).
Proof. exact run_length. Qed.
Print Assumptions C19_transports_built.

Theorem C19_transport_uses_config_nonvacuous :
  let c1 := {| l_rht := 3; l_idle := 4; l_maxconn := 5; l_dial := 6; l_keepalive := 7 |} in
  let c2 := {| l_rht := 30; l_idle := 40; l_maxconn := 50; l_dial := -60; l_keepalive := 70 |} in
  let ops := [NewTransport None; SetConfig c1; NewTransport None; SetConfig c2; SetConfig c1; NewTransport None; SetConfig c2; NewTransport None] in
  nth_new ops 3 = Some (7%nat, None) /\ last_config init_state (firstn 7 ops) = c2 /\
  map t_rht (run set_config init_state ops) = [0; 3; 3; 30] /\ map t_dial (run set_config init_state ops) = [0; 6; 6; -60].
Proof. exact run_spec_nonvacuous. Qed.
Print Assumptions C19_transport_uses_config_nonvacuous.

(* MECHANISM LEMMA, not coverage: [new_transport] writes the literal 0 into [t_other]; the content
   is the harness's reflection over the real http.Transport, which is compared with this 0. *)
Theorem C19_no_other_limits : forall ops s, Forall (fun t => t_other t = 0) (run set_config s ops).
Proof. exact run_no_other_limits. Qed.
Print Assumptions C19_no_other_limits.

Theorem C19_set_then_new : forall c tls s, uses (new_transport (set_config s c) tls) c.
Proof. exact set_then_new. Qed.
Print Assumptions C19_set_then_new.

(* per-route transports use the same limits ... *)
Theorem C19_route_transport_uses_config : forall s host dh ph skip t,
  route_transport s host dh ph skip = Some t ->
  uses t s /\ t_tls t = Some {| tls_server_name := host; tls_skip_verify := skip |} /\ t_other t = 0.
Proof. exact route_transport_uses. Qed.
Print Assumptions C19_route_transport_uses_config.

(* ... and exist exactly for a host override other than "dst" on an https destination (scheme of
   the destination, or the option proto=https as written) *)
Theorem C19_route_transport_some_iff : forall s host dh ph skip,
  (exists t, route_transport s host dh ph skip = Some t) <->
  host <> [] /\ host <> bs "dst"%string /\ (dh = true \/ ph = true).
Proof. exact route_transport_some_iff. Qed.
Print Assumptions C19_route_transport_some_iff.

Theorem C19_proto_is_https_iff : forall proto, proto_is_https proto = true <-> proto = bs "https"%string.
Proof. exact proto_is_https_iff. Qed.
Print Assumptions C19_proto_is_https_iff.

Theorem C19_route_transport_nonvacuous :
  let c := {| l_rht := 300; l_idle := 15; l_maxconn := 100; l_dial := 30; l_keepalive := 7 |} in
  (exists t, route_transport c (bs "foo.com"%string) true false true = Some t /\ t_rht t = 300 /\ t_dial t = 30 /\
             t_tls t = Some {| tls_server_name := bs "foo.com"%string; tls_skip_verify := true |}) /\
  (exists t, route_transport c (bs "foo.com"%string) false (proto_is_https (bs "https"%string)) false = Some t /\ t_idle t = 15) /\
  route_transport c (bs "foo.com"%string) false (proto_is_https (bs "HTTPS"%string)) false = None /\
  route_transport c (bs "foo.com"%string) false (proto_is_https (bs "tcp"%string)) false = None /\
  route_transport c (bs "dst"%string) true false false = None /\
  route_transport c [] true true true = None.
Proof. exact route_transport_nonvacuous. Qed.
Print Assumptions C19_route_transport_nonvacuous.

(* HISTORICAL: the defect that was repaired in /repo (fix: commit).  With the shadowed assignment
   no history ever changes the limits, so the property was false for every non-zero config. *)
Theorem C19_shadowed_setter_refuted :
  exists c tls, ~ uses (new_transport (set_config_shadowed init_state c) tls) c.
Proof. exact shadowed_refuted. Qed.
Print Assumptions C19_shadowed_setter_refuted.

Theorem C19_shadowed_setter_ignores_every_history :
  forall ops s, Forall (fun t => uses t s) (run set_config_shadowed s ops).
Proof. exact shadowed_ignores. Qed.
Print Assumptions C19_shadowed_setter_ignores_every_history.

(* ---- the time limits: [serve] / [dial] against the declarative [rht_spec] / [dial_spec] ---- *)

(* for EVERY limit (zero and negative: never), delay and status *)
Theorem C19_serve_meets_spec : forall limit delay st, rht_spec limit delay st (serve limit delay st).
Proof. exact serve_meets_spec. Qed.
Print Assumptions C19_serve_meets_spec.

(* for EVERY limit (zero: never; negative: at once), connect time and status *)
Theorem C19_dial_meets_spec : forall limit connect st, dial_spec limit connect st (dial limit connect st).
Proof. exact dial_meets_spec. Qed.
Print Assumptions C19_dial_meets_spec.

(* readable corollaries (mechanism lemmas: consequences of the two above by unfolding the spec) *)
Theorem C19_timeout_is_504 : forall limit delay st,
  0 < limit -> limit <= delay -> serve limit delay st = (504, limit).
Proof. exact timeout_is_504. Qed.
Print Assumptions C19_timeout_is_504.

Theorem C19_in_time_is_proxied : forall limit delay st,
  limit <= 0 \/ delay < limit -> serve limit delay st = (st, delay).
Proof. exact in_time_is_proxied. Qed.
Print Assumptions C19_in_time_is_proxied.

Theorem C19_answered_within_limit : forall limit delay st, 0 < limit -> snd (serve limit delay st) <= limit.
Proof. exact answered_within_limit. Qed.
Print Assumptions C19_answered_within_limit.

Theorem C19_dial_timeout_is_504 : forall limit connect st,
  0 < limit -> limit <= connect -> dial limit connect st = 504.
Proof. exact dial_timeout_is_504. Qed.
Print Assumptions C19_dial_timeout_is_504.

Theorem C19_dial_negative_is_504 : forall limit connect st, limit < 0 -> dial limit connect st = 504.
Proof. exact dial_negative_is_504. Qed.
Print Assumptions C19_dial_negative_is_504.

Theorem C19_dial_in_time : forall limit connect st,
  limit = 0 \/ (0 < limit /\ connect < limit) -> dial limit connect st = st.
Proof. exact dial_in_time. Qed.
Print Assumptions C19_dial_in_time.

(* The request is handed to the transport once ([attempts_of_proxy] is the constant 1: a MECHANISM
   LEMMA whose content is the upstream hit count the harness compares with it), so what the client
   sees is [serve]; with any further attempt behind the proxy's back the client of an upstream that
   does not answer would be held beyond the limit. *)
Theorem C19_single_attempt : forall limit delay st,
  serve_n attempts_of_proxy limit delay st = (fst (serve limit delay st), snd (serve limit delay st), 1).
Proof. exact serve_once. Qed.
Print Assumptions C19_single_attempt.

Theorem C19_within_limit_iff_single_attempt : forall k limit delay st,
  0 < limit -> limit <= delay -> 1 <= k ->
  (snd (fst (serve_n k limit delay st)) <= limit <-> k = 1).
Proof. exact within_limit_iff_single_attempt. Qed.
Print Assumptions C19_within_limit_iff_single_attempt.

(* about a HYPOTHETICAL two-attempt layer (what one of the seeded changes adds), not about /repo *)
Theorem C19_second_attempt_exceeds_limit : exists limit delay st,
  0 < limit /\ limit < snd (fst (serve_n 2 limit delay st)) /\ snd (serve_n 2 limit delay st) = 2.
Proof. exact second_attempt_exceeds_limit. Qed.
Print Assumptions C19_second_attempt_exceeds_limit.

(* of the error kinds the handler distinguishes, exactly the net.Error with Timeout() is a 504 *)
Theorem C19_only_timeouts_are_504 : forall e, error_status e = 504 <-> e = ENetTimeout.
Proof. exact error_status_timeout. Qed.
Print Assumptions C19_only_timeouts_are_504.

(* ---- the whole exchange: upload, header, body ---- *)

(* The response-header timeout limits the wait for the header and nothing else.  For EVERY limit,
   every time the client needs to upload its request, every header delay and every body (any number
   of chunks, any gaps between them): an upstream whose header does not come within the limit is
   answered 504 at the limit, counted from the moment it has the request; any other upstream is
   served normally - its status at its own time, ALL of its body, properly ended, at the upstream's
   own pace, from one request that reached it whole.  [exchange_spec] speaks about the chunks through
   [concat] / [fold_right] only; [exchange_of_proxy] delivers them one by one. *)
Theorem C19_exchange_meets_spec : forall limit x, exchange_spec limit x (exchange_of_proxy limit x).
Proof. exact exchange_meets_spec. Qed.
Print Assumptions C19_exchange_meets_spec.

(* composed with main()'s start-up and the transport choice, on the CONFIGURED value *)
Theorem C19_end_to_end_exchange : forall s0 cfg tgs i tg x,
  nth_error tgs i = Some tg ->
  exists t, chosen (main_start set_config s0 cfg tgs) i = Some t /\
    exchange_spec (l_rht cfg) x (exchange_of_proxy (t_rht t) x).
Proof. exact end_to_end_exchange. Qed.
Print Assumptions C19_end_to_end_exchange.

(* readable corollary (mechanism lemma: unfolds the spec) *)
Theorem C19_body_is_not_limited : forall limit x,
  ~ rht_hits limit (x_delay x) ->
  a_body (exchange_of_proxy limit x) = body_of x /\ a_complete (exchange_of_proxy limit x) = true.
Proof. exact body_is_not_limited. Qed.
Print Assumptions C19_body_is_not_limited.

(* the exchange model extends [serve]: same status, same time of the answer *)
Theorem C19_exchange_head_is_serve : forall limit x,
  x_upload x = 0 ->
  (a_status (exchange_of_proxy limit x), a_head_at (exchange_of_proxy limit x)) = serve limit (x_delay x) (x_status x).
Proof. exact exchange_head_is_serve. Qed.
Print Assumptions C19_exchange_head_is_serve.

(* non-vacuity: a download that takes three times the limit, an upload that takes 2.5 times the
   limit, and a silent upstream behind a slow upload (504 at upload + limit) *)
Theorem C19_exchange_nonvacuous :
  let slowbody := {| x_upload := 0; x_delay := 5; x_status := 200; x_chunks := [(0, bs "part1"%string); (3000, bs "part2"%string)] |} in
  let slowupload := {| x_upload := 2500; x_delay := 20; x_status := 201; x_chunks := [(0, bs "ok"%string)] |} in
  let silent := {| x_upload := 700; x_delay := 5000; x_status := 200; x_chunks := [(0, bs "late"%string)] |} in
  ~ rht_hits 1000 (x_delay slowbody) /\ ~ rht_hits 1000 (x_delay slowupload) /\ rht_hits 1000 (x_delay silent) /\
  exchange_of_proxy 1000 slowbody =
    {| a_status := 200; a_head_at := 5; a_body := bs "part1part2"%string; a_complete := true; a_done_at := 3005; a_request_whole := true; a_hits := 1 |} /\
  exchange_of_proxy 1000 slowupload =
    {| a_status := 201; a_head_at := 2520; a_body := bs "ok"%string; a_complete := true; a_done_at := 2520; a_request_whole := true; a_hits := 1 |} /\
  exchange_of_proxy 1000 silent =
    {| a_status := 504; a_head_at := 1700; a_body := []; a_complete := true; a_done_at := 1700; a_request_whole := true; a_hits := 1 |}.
Proof. exact exchange_nonvacuous. Qed.
Print Assumptions C19_exchange_nonvacuous.

(* about a HYPOTHETICAL deadline on the exchange as a whole with the response-header timeout as its
   value (what one of the seeded changes puts around it), not about /repo: the header came in time
   and the body is cut off; a slow upload to a prompt upstream is refused *)
Theorem C19_whole_deadline_refuted : exists limit x,
  ~ rht_hits limit (x_delay x) /\
  a_status (exchange_with (Some limit) limit x) = x_status x /\
  a_complete (exchange_with (Some limit) limit x) = false /\
  a_body (exchange_with (Some limit) limit x) <> body_of x.
Proof. exact whole_deadline_refuted. Qed.
Print Assumptions C19_whole_deadline_refuted.

Theorem C19_whole_deadline_upload_refuted : exists limit x,
  ~ rht_hits limit (x_delay x) /\ a_status (exchange_with (Some limit) limit x) = 504 /\ x_status x <> 504 /\
  a_request_whole (exchange_with (Some limit) limit x) = false.
Proof. exact whole_deadline_upload_refuted. Qed.
Print Assumptions C19_whole_deadline_upload_refuted.

(* ... and no value of such a deadline would do: the spec holds for every limit and every upstream
   exactly when the exchange as a whole has no deadline *)
Theorem C19_spec_iff_no_whole_deadline : forall whole,
  (forall limit x, exchange_spec limit x (exchange_with whole limit x)) <-> whole = None.
Proof. exact spec_iff_no_whole_deadline. Qed.
Print Assumptions C19_spec_iff_no_whole_deadline.

(* ---- the dial timeout in time: an upstream that cannot be reached ---- *)

(* for EVERY limit (zero: never; negative: at once), every upstream - one that completes the connect
   after any time, or one whose connect never completes (SYNs dropped) - and every status: a connect
   that does not complete within the configured dial timeout is answered 504 within that time, an
   upstream that connects in time is served with its own status at its own time (dial_time_spec /
   dial_late are declarative; dial_at dial_attempts_of_proxy is the transport's single call of the
   configured net.Dialer) *)
Theorem C19_dial_at_meets_spec : forall limit c st,
  dial_time_spec limit c st (dial_at dial_attempts_of_proxy limit c st).
Proof. exact dial_at_meets_spec. Qed.
Print Assumptions C19_dial_at_meets_spec.

(* the same on the CONFIGURED dial timeout for the transport main()'s start-up and the proxy's choice
   hand every target to *)
Theorem C19_end_to_end_dial_at : forall s0 cfg tgs i tg c st,
  nth_error tgs i = Some tg ->
  exists t, chosen (main_start set_config s0 cfg tgs) i = Some t /\
    dial_time_spec (l_dial cfg) c st (dial_at dial_attempts_of_proxy (t_dial t) c st).
Proof. exact end_to_end_dial_at. Qed.
Print Assumptions C19_end_to_end_dial_at.

(* links the timed model to [dial]: same status whenever the upstream can be reached at all *)
Theorem C19_dial_at_status_is_dial : forall k limit t st,
  option_map fst (dial_at k limit (Connects t) st) = Some (dial limit t st).
Proof. exact dial_at_status_is_dial. Qed.
Print Assumptions C19_dial_at_status_is_dial.

(* a connect that runs into a positive limit is answered within the limit exactly when the dialer is
   called once *)
Theorem C19_dial_within_limit_iff_single_attempt : forall k limit c st,
  0 < limit -> dial_late limit c -> 1 <= k ->
  exists t, dial_at k limit c st = Some (504, t) /\ (t <= limit <-> k = 1).
Proof. exact dial_within_limit_iff_single_attempt. Qed.
Print Assumptions C19_dial_within_limit_iff_single_attempt.

(* about a HYPOTHETICAL dialer wrapper that connects a second time after a failed connect (what one of
   the seeded changes adds), not about /repo: the client of an unreachable upstream is held for twice
   the configured dial timeout *)
Theorem C19_dial_second_attempt_refuted : exists limit st,
  dial_late limit Unreachable /\ dial_at 2 limit Unreachable st = Some (504, 2 * limit) /\
  ~ dial_time_spec limit Unreachable st (dial_at 2 limit Unreachable st).
Proof. exact dial_second_attempt_refuted. Qed.
Print Assumptions C19_dial_second_attempt_refuted.

(* ... and no number of attempts other than one would do *)
Theorem C19_dial_spec_iff_single_attempt : forall k, 1 <= k ->
  ((forall limit c st, dial_time_spec limit c st (dial_at k limit c st)) <-> k = 1).
Proof. exact dial_spec_iff_single_attempt. Qed.
Print Assumptions C19_dial_spec_iff_single_attempt.

(* non-vacuity: unreachable under 2000 (504 at 2000), under a negative limit (504 at once), reachable
   after 3 (served), a slow connect (504 at 2000), no limit (held), and the unreachable upstream behind
   each kind of target after main()'s start-up *)
Theorem C19_dial_at_nonvacuous :
  let cfg := {| l_rht := 300; l_idle := 15; l_maxconn := 100; l_dial := 2000; l_keepalive := 7 |} in
  let plain := {| tg_host := []; tg_dst_https := false; tg_proto := []; tg_skip := false |} in
  let skipv := {| tg_host := bs "dst"%string; tg_dst_https := true; tg_proto := []; tg_skip := true |} in
  let over := {| tg_host := bs "upstream.example"%string; tg_dst_https := true; tg_proto := []; tg_skip := true |} in
  let px := main_start set_config init_state cfg [plain; skipv; over] in
  dial_late 2000 Unreachable /\ dial_late (-1) Unreachable /\ ~ dial_late 2000 (Connects 3) /\ dial_late 2000 (Connects 2500) /\
  dial_at dial_attempts_of_proxy 2000 Unreachable 200 = Some (504, 2000) /\
  dial_at dial_attempts_of_proxy (-1) Unreachable 200 = Some (504, 0) /\
  dial_at dial_attempts_of_proxy 2000 (Connects 3) 200 = Some (200, 3) /\
  dial_at dial_attempts_of_proxy 2000 (Connects 2500) 200 = Some (504, 2000) /\
  dial_at dial_attempts_of_proxy 0 Unreachable 200 = None /\
  map (fun i => option_map (fun t => dial_at dial_attempts_of_proxy (t_dial t) Unreachable 200) (chosen px i)) [0%nat; 1%nat; 2%nat] =
    [Some (Some (504, 2000)); Some (Some (504, 2000)); Some (Some (504, 2000))].
Proof. exact dial_at_nonvacuous. Qed.
Print Assumptions C19_dial_at_nonvacuous.
