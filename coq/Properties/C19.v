(** C19 — configured upstream time limits are the ones the HTTP proxy uses
    (transport/transport.go, route/route.go:78-82, proxy/http_handler.go:40-66).
    Statements, [exact], [Print Assumptions] only. *)
From Coq Require Import List ZArith.
From Fabio Require Import Lib.Outcome Lib.Bytes Model.Transport Proofs.Transport.
Import ListNotations.
Local Open Scope Z_scope.

(* For every history of SetConfig / NewTransport calls and every starting state: the n-th
   transport built carries the five limits of the last configuration set before it
   (the starting state's if none), and the TLS settings it was asked for. *)
Theorem C19_transport_uses_config : forall ops s n k tls,
  nth_new ops n = Some (k, tls) ->
  exists t, nth_error (run set_config s ops) n = Some t /\
            uses t (last_config s (firstn k ops)) /\ t_tls t = tls.
Proof. exact run_spec. Qed.
Print Assumptions C19_transport_uses_config.

(* ... and no other connection limit of http.Transport is set: the configured limits are the
   only ones in force. *)
Theorem C19_no_other_limits : forall ops s, Forall (fun t => t_other t = 0) (run set_config s ops).
Proof. exact run_no_other_limits. Qed.
Print Assumptions C19_no_other_limits.

Theorem C19_set_then_new : forall c tls s, uses (new_transport (set_config s c) tls) c.
Proof. exact set_then_new. Qed.
Print Assumptions C19_set_then_new.

(* per-route transports (host override on an https destination) use the same limits *)
Theorem C19_route_transport_uses_config : forall s host dh ph skip t,
  route_transport s host dh ph skip = Some t ->
  uses t s /\ t_tls t = Some {| tls_server_name := host; tls_skip_verify := skip |}.
Proof. exact route_transport_uses. Qed.
Print Assumptions C19_route_transport_uses_config.

(* The defect that was repaired in /repo (fix: commit): with the shadowed assignment no
   history ever changes the limits, so the property was false for every non-zero config. *)
Theorem C19_shadowed_setter_refuted :
  exists c tls, ~ uses (new_transport (set_config_shadowed init_state c) tls) c.
Proof. exact shadowed_refuted. Qed.
Print Assumptions C19_shadowed_setter_refuted.

Theorem C19_shadowed_setter_ignores_every_history :
  forall ops s, Forall (fun t => uses t s) (run set_config_shadowed s ops).
Proof. exact shadowed_ignores. Qed.
Print Assumptions C19_shadowed_setter_ignores_every_history.

(* An upstream that does not answer within the limit yields 504 at the limit; one that
   answers in time (or when no limit is set) is proxied with its own status. *)
Theorem C19_timeout_is_504 : forall limit delay st,
  0 < limit -> limit <= delay -> serve limit delay st = (504, limit).
Proof. exact timeout_is_504. Qed.
Print Assumptions C19_timeout_is_504.

Theorem C19_in_time_is_proxied : forall limit delay st,
  delay < limit \/ limit = 0 -> 0 <= limit -> serve limit delay st = (st, delay).
Proof. exact in_time_is_proxied. Qed.
Print Assumptions C19_in_time_is_proxied.

Theorem C19_answered_within_limit : forall limit delay st, 0 < limit -> snd (serve limit delay st) <= limit.
Proof. exact answered_within_limit. Qed.
Print Assumptions C19_answered_within_limit.

(* The request is handed to the transport once, so what the client sees is [serve] and the
   upstream receives the request once; with any further attempt behind the proxy's back the
   client of an upstream that does not answer would be held beyond the limit. *)
Theorem C19_single_attempt : forall limit delay st,
  serve_n attempts_of_proxy limit delay st = (fst (serve limit delay st), snd (serve limit delay st), 1).
Proof. exact serve_once. Qed.
Print Assumptions C19_single_attempt.

Theorem C19_within_limit_iff_single_attempt : forall k limit delay st,
  0 < limit -> limit <= delay -> 1 <= k ->
  (snd (fst (serve_n k limit delay st)) <= limit <-> k = 1).
Proof. exact within_limit_iff_single_attempt. Qed.
Print Assumptions C19_within_limit_iff_single_attempt.

Theorem C19_retry_exceeds_limit_refuted : exists limit delay st,
  0 < limit /\ limit < snd (fst (serve_n 2 limit delay st)) /\ snd (serve_n 2 limit delay st) = 2.
Proof. exact retry_exceeds_limit. Qed.
Print Assumptions C19_retry_exceeds_limit_refuted.

(* The configured dial timeout is enforced for every transport built, TLS settings or not:
   an upstream that cannot be connected within it yields 504, otherwise the upstream's answer. *)
Theorem C19_dial_timeout_is_504 : forall limit connect st,
  0 < limit -> limit <= connect -> dial limit connect st = 504.
Proof. exact dial_timeout_is_504. Qed.
Print Assumptions C19_dial_timeout_is_504.

Theorem C19_dial_in_time : forall limit connect st,
  connect < limit \/ limit = 0 -> 0 <= limit -> dial limit connect st = st.
Proof. exact dial_in_time. Qed.
Print Assumptions C19_dial_in_time.

Theorem C19_only_timeouts_are_504 : forall e, error_status e = 504 <-> e = ENetTimeout.
Proof. exact error_status_timeout. Qed.
Print Assumptions C19_only_timeouts_are_504.
