(** C11 — TLS listeners present the best matching current certificate
    (cert/store.go, cert/source.go:95-152, cert/watch.go, cert/load.go:109-157).
    Statements, [exact], [Print Assumptions] only.
    Outside these statements (see checks/C11.json): the Issuer fallback of
    TLSConfig.GetCertificate (Vault PKI sources issue a certificate where the store has
    none), names with non-ASCII letters that strings.ToLower changes, real sleeping time. *)
From Coq Require Import String List NArith Sorted.
From Fabio Require Import Lib.Outcome Lib.Bytes Model.CertStore Proofs.CertStore Model.CertDeploy Proofs.CertDeploy.
Import ListNotations.
Local Open Scope N_scope.

(* ===== which certificate: exact name, else covering wildcard, else first / none ===== *)

(* "A wildcard covers the name" is [covers s pat name]: same number of labels, the first
   s >= 1 labels of the pattern are "*", the others are the name's.  The candidates the code
   tries are exactly these patterns, in the order of the number of stars: *)
Theorem C11_candidate_is_cover : forall name k,
  (k < length (split_byte name 46))%nat -> covers (S k) (candidate (split_byte name 46) k) name.
Proof. exact candidate_covers. Qed.
Print Assumptions C11_candidate_is_cover.
Theorem C11_cover_is_candidate : forall s pat name,
  covers s pat name ->
  (s - 1 < length (split_byte name 46))%nat /\ pat = candidate (split_byte name 46) (s - 1).
Proof. exact covers_candidate. Qed.
Print Assumptions C11_cover_is_candidate.

(* For every certificate set, requested name and listener mode (the single-certificate
   non-strict shortcut aside, see C11_single_nonstrict): the certificate chosen carries the
   normalised requested name (the last loaded if several do), otherwise a wildcard that
   covers it with the fewest stars, otherwise it is the first certificate, or none at all
   for a strict listener.  [selects] mentions neither the index nor the scan. *)
Theorem C11_get_cert_spec : forall certs sn strict,
  certs <> [] -> (strict = true \/ 2 <= length certs)%nat ->
  selects (folded certs) strict (normalize sn) (store_pick certs sn strict).
Proof. exact get_cert_spec. Qed.
Print Assumptions C11_get_cert_spec.
Theorem C11_get_cert_spec_nonvacuous :
  let certs := [[bs "a.com"]; [bs "b.com"; bs "*.b.com"]; [bs "*.*.c.com"]] in
  certs <> [] /\ (true = true \/ 2 <= length certs)%nat /\ (false = true \/ 2 <= length certs)%nat /\
  store_pick certs (bs "X.Y.C.com..") true = PCert 2 /\
  store_pick certs (bs "w.B.com") false = PCert 1 /\
  store_pick certs (bs "zzz") false = PCert 0 /\
  store_pick certs (bs "zzz") true = PNone /\
  covers 2 (bs "*.*.c.com") (normalize (bs "X.Y.C.com..")).
Proof. exact get_cert_spec_nonvacuous. Qed.
Print Assumptions C11_get_cert_spec_nonvacuous.

(* The property's own wording ([presents]: a certificate with the name, else one with a
   covering wildcard, else first / none) follows; it is what Check/C11.v evaluates on the
   implementation's answers, through the boolean [presents_b]. *)
Theorem C11_presents : forall certs sn strict,
  certs <> [] -> (strict = true \/ 2 <= length certs)%nat ->
  presents (folded certs) strict (normalize sn) (store_pick certs sn strict).
Proof. exact store_pick_presents. Qed.
Print Assumptions C11_presents.
Theorem C11_check_spec_sound : forall certs sn strict p,
  presents_b certs sn strict p = true -> presents (folded certs) strict (normalize sn) p.
Proof. exact presents_b_sound. Qed.
Print Assumptions C11_check_spec_sound.

Theorem C11_single_nonstrict : forall c sn, store_pick [c] sn false = PCert 0.
Proof. exact single_nonstrict. Qed.
Print Assumptions C11_single_nonstrict.

Theorem C11_result_in_set : forall certs sn strict i,
  store_pick certs sn strict = PCert i -> (i < length certs)%nat.
Proof. exact pick_in_set. Qed.
Print Assumptions C11_result_in_set.

Theorem C11_empty_store_err : forall sn strict, store_pick [] sn strict = PErrNoCerts.
Proof. exact empty_store_err. Qed.
Print Assumptions C11_empty_store_err.

Theorem C11_strict_none : forall certs sn,
  store_pick certs sn true = PNone ->
  none_with (folded certs) (normalize sn) /\
  forall s pat, covers s pat (normalize sn) -> none_with (folded certs) pat.
Proof. exact strict_none. Qed.
Print Assumptions C11_strict_none.

(* requested names: any (ASCII) letter case, any number of trailing dots *)
Theorem C11_request_case_insensitive : forall a b, lower a = lower b -> normalize a = normalize b.
Proof. exact normalize_case. Qed.
Print Assumptions C11_request_case_insensitive.
Theorem C11_request_trailing_dots : forall sn k, normalize (sn ++ repeat 46 k) = normalize sn.
Proof. exact normalize_trailing_dots. Qed.
Print Assumptions C11_request_trailing_dots.

(* F-C11-2 (repaired in /repo by 64c758c): the index used to keep the certificate's own
   spelling, so a certificate whose name contains an upper-case letter was not found by its
   own name; [folded] in the theorems above is the repaired behaviour *)
Theorem C11_upper_case_cert_name_refuted :
  exists certs sn, has_name certs 1 sn /\
    get_certificate certs (Some (build_from_unfolded 0 certs)) sn false = PCert 0.
Proof. exact upper_case_cert_name_refuted. Qed.
Print Assumptions C11_upper_case_cert_name_refuted.
Theorem C11_upper_case_cert_name_found :
  store_pick [[bs "a.com"%string]; [bs "Foo.com"%string]] (bs "fOO.com."%string) false = PCert 1.
Proof. exact upper_case_cert_name_found. Qed.
Print Assumptions C11_upper_case_cert_name_found.

(* ===== a handshake never sees a mixture of two sets ===== *)

(* Over the steps that are atomic in the code - the updater prepares a value (certificates +
   index), stores it; a handshake loads the store, then computes - and every interleaving of
   any number of handshakes with set replacements: the answers are those of the abstract
   machine that holds only certificate SETS, where a handshake is answered by the complete
   index of the one set its load saw. *)
Theorem C11_handshake_single_set_fine : forall sched,
  run_fine mk_built fstate0 sched = run_abs astate0 sched.
Proof. exact run_fine_single_set. Qed.
Print Assumptions C11_handshake_single_set_fine.
(* ... and that set is the initial one or one that was stored - never one only prepared *)
Theorem C11_answers_from_one_stored_set : forall sched cur pend snaps p,
  In p (run_abs (cur, pend, snaps) sched) ->
  exists c n s, p = store_pick c n s /\
    (c = cur \/ In c (map snd snaps) \/ In c (stored_sets pend sched)).
Proof. exact run_abs_from_stored. Qed.
Print Assumptions C11_answers_from_one_stored_set.
Theorem C11_handshake_single_set_fine_example :
  run_fine mk_built fstate0
    [FBuild [[bs "a.com"%string]; [bs "b.com"%string]]; FStore; FLoad 0;
     FBuild [[bs "b.com"%string]; [bs "a.com"%string]]; FLoad 1; FStore; FLoad 2;
     FPick 0 (bs "b.com"%string) false; FPick 1 (bs "b.com"%string) true; FPick 2 (bs "b.com"%string) true]
  = [PCert 1; PCert 1; PCert 0].
Proof. exact run_fine_example. Qed.
Print Assumptions C11_handshake_single_set_fine_example.
(* The other order - store the value, then build its index - does not have the property. *)
Theorem C11_store_before_build_refuted :
  exists sched, run_fine mk_store_first fstate0 sched <> run_abs astate0 sched.
Proof. exact store_before_build_refuted. Qed.
Print Assumptions C11_store_before_build_refuted.

(* Mechanism lemma (coarse actions: SetCertificates and a handshake each one step; [current]
   follows the recursion of [run_store], so this says little by itself - it is what the
   history theorems below are phrased with). *)
Theorem C11_handshake_single_set : forall sched cur,
  run_store cur sched =
  map (fun h => match h with (k, n, s) => store_pick (current cur (firstn k sched)) n s end)
      (handshakes sched 0).
Proof. exact run_store_single_set. Qed.
Print Assumptions C11_handshake_single_set.

(* ===== loadCertificates: the order of the set, hence its first certificate ===== *)
Theorem C11_load_sorted : forall m, StronglySorted file_le (fst (load_files m)).
Proof. exact load_files_sorted. Qed.
Print Assumptions C11_load_sorted.
(* the first certificate of a loaded set is the one whose certificate file name is least *)
Theorem C11_load_first_least : forall m f c rest bad,
  load_files m = ((f, c) :: rest, bad) -> forall f' c', In (f', c') rest -> str_cmp f f' <> Gt.
Proof. exact load_first_least. Qed.
Print Assumptions C11_load_first_least.
Theorem C11_load_sound : forall m cf c,
  In (cf, c) (fst (load_files m)) -> usable_pair m (map fst m) cf c.
Proof. exact load_files_sound. Qed.
Print Assumptions C11_load_sound.
Theorem C11_load_complete : forall m name cf kf,
  snd (load_files m) = false -> In name (map fst m) -> classify name = Some (cf, kf) ->
  exists c, In (cf, c) (fst (load_files m)).
Proof. exact load_files_complete. Qed.
Print Assumptions C11_load_complete.
Theorem C11_load_error : forall m,
  snd (load_files m) = true ->
  exists name cf kf, In name (map fst m) /\ classify name = Some (cf, kf) /\ key_pair m cf kf = None.
Proof. exact load_files_error. Qed.
Print Assumptions C11_load_error.
Theorem C11_load_no_pem_files : forall m,
  (forall name, In name (map fst m) -> classify name = None) -> load_certificates m = ([], false).
Proof. exact load_no_pem_files. Qed.
Print Assumptions C11_load_no_pem_files.
Theorem C11_load_example :
  load_certificates
    [(bs "b-key.pem", pf 1 None (Some 7)); (bs "z.pem", pf 2 (Some (9, [bs "z.com"])) (Some 9));
     (bs "b-cert.pem", pf 3 (Some (7, [bs "b.com"])) None); (bs "README", pf 4 None None);
     (bs "a-cert.pem", pf 5 (Some (7, [bs "a.com"])) None); (bs "a-key.pem", pf 1 None (Some 7))]
  = ([[bs "a.com"]; [bs "b.com"]; [bs "z.com"]], false)
  /\ load_certificates [(bs "a-key.pem", pf 1 None (Some 7))] = ([], true)
  /\ load_certificates [(bs "README", pf 4 None None)] = ([], false)
  /\ load_certificates [] = ([], false).
Proof. exact load_example. Qed.
Print Assumptions C11_load_example.

(* ===== the reload loop and the store: histories of loads ===== *)

(* A load is [usable] when loadFn returned no error and loadCertificates made at least one
   certificate from it without an error.  For every load history of a periodic source,
   watch loop -> channel -> SetCertificates composed: after every prefix of the history a
   handshake is answered from the certificates of the LAST USABLE load of that prefix
   ([last_good]: a fold that knows nothing of the loop's memory, its comparison of blocks or
   its sleeps).  So a new set takes effect, and errors, unusable material and a source that
   has nothing at the moment leave the working set where it is. *)
Theorem C11_handshake_after_history : forall script n s,
  run_store [] (e2e_actions watch_step false None script n s) =
  map (fun k => store_pick (last_good [] (firstn (S k) script)) n s) (seq 0 (length script)).
Proof. exact e2e_periodic_from_start. Qed.
Print Assumptions C11_handshake_after_history.
(* one-shot sources (refresh <= 0): the same, on the history cut after its first usable load *)
Theorem C11_handshake_after_history_once : forall script cur n s,
  run_store cur (e2e_actions watch_step true None script n s) =
  map (fun k => store_pick (last_good cur (firstn (S k) (upto_first_good script))) n s)
      (seq 0 (length (upto_first_good script))).
Proof. exact e2e_once. Qed.
Print Assumptions C11_handshake_after_history_once.
Theorem C11_once_is_truncated_periodic : forall script,
  watch_run watch_step true None script = watch_run watch_step false None (upto_first_good script).
Proof. exact watch_run_once. Qed.
Print Assumptions C11_once_is_truncated_periodic.
Theorem C11_unusable_keeps_set : forall cur script l,
  usable l = None -> last_good cur (script ++ [l]) = last_good cur script.
Proof. exact unusable_keeps_set. Qed.
Print Assumptions C11_unusable_keeps_set.
(* once a usable load has happened, no later handshake is left without certificates *)
Theorem C11_working_set_never_removed : forall script cur n s k,
  (exists j, (j <= k)%nat /\ exists l, nth_error script j = Some l /\ usable l <> None) ->
  (k < length script)%nat ->
  nth k (run_store cur (e2e_actions watch_step false None script n s)) PNone <> PErrNoCerts.
Proof. exact working_set_never_removed. Qed.
Print Assumptions C11_working_set_never_removed.
Theorem C11_history_example :
  let script := [Loaded (Some orphan_key); Loaded (Some good_a); LoadErr; Loaded (Some []); Loaded (Some good_a)] in
  run_store [] (e2e_actions watch_step false None script (bs "A.example.") true)
    = [PErrNoCerts; PCert 0; PCert 0; PCert 0; PCert 0]
  /\ watch_run watch_step false None script
    = [ELoad; ESleep; ELoad; EPublish [[bs "a.example"]]; ELoad; ESleep; ELoad; ESleep; ELoad; ESleep]
  /\ watch_run watch_step true None script = [ELoad; ESleep; ELoad; EPublish [[bs "a.example"]]].
Proof. exact e2e_example. Qed.
Print Assumptions C11_history_example.

(* F-C11-3 (repaired in /repo by 887d762): the loop used to publish whatever
   loadCertificates returned without an error - also nothing at all.  A source that had
   no certificate files for a moment (empty directory, only a README) emptied the store:
   every handshake failed with ErrNoCertsStored although a good set had been loaded.
   [watch_step_unrepaired] is that loop; with [watch_step] the same history keeps the set. *)
Theorem C11_empty_load_unpublishes_refuted :
  exists script n s,
    usable (nth 0 script LoadErr) <> None /\
    run_store [] (e2e_actions watch_step_unrepaired false None script n s) = [PCert 0; PErrNoCerts; PErrNoCerts] /\
    run_store [] (e2e_actions watch_step false None script n s) = [PCert 0; PCert 0; PCert 0].
Proof. exact empty_load_unpublishes_refuted. Qed.
Print Assumptions C11_empty_load_unpublishes_refuted.

(* The loop alone: what is published is exactly the usable loads that differ from the last
   published blocks, in order ... *)
Theorem C11_publish_iff_new_good : forall script last,
  pubs (watch_run watch_step false last script) = published last script.
Proof. exact watch_publishes. Qed.
Print Assumptions C11_publish_iff_new_good.
(* ... anything else publishes nothing, leaves the loop's memory alone and sleeps
   (mechanism lemma about the loop's variable [last]; the store-level statement is
   C11_handshake_after_history) *)
Theorem C11_bad_never_unpublishes : forall once last l ev last' stop,
  watch_step once last l = (ev, last', stop) ->
  (forall set, In (EPublish set) ev ->
     exists next, l = Loaded next /\ same_blocks next last = false /\ usable l = Some set /\ last' = next) /\
  ((forall set, ~ In (EPublish set) ev) -> last' = last /\ stop = false /\ ev = [ESleep]).
Proof. exact watch_step_publish. Qed.
Print Assumptions C11_bad_never_unpublishes.

(* ... and it never spins: two loads are always separated by a sleep or a publication. *)
Theorem C11_no_spin : forall once script last,
  no_adjacent_loads (watch_run watch_step once last script) = true.
Proof. exact watch_no_spin. Qed.
Print Assumptions C11_no_spin.

(* F-C11-1: the loop before 2594210 did spin on unusable material. *)
Theorem C11_spin_refuted :
  exists script, no_adjacent_loads (watch_run watch_step_spinning false None script) = false.
Proof. exact watch_spinning_refuted. Qed.
Print Assumptions C11_spin_refuted.

(* ===== unusable material inside an otherwise good snapshot ===== *)

(* The converse of C11_load_error: ONE certificate, key or combined file of a snapshot whose
   pair cannot be made - its other half is missing, a block is empty or holds no parsable
   certificate / key, the key is another certificate's - fails the load as a whole.  The
   snapshot is never loaded as the smaller set of the pairs that can still be made. *)
Theorem C11_unusable_entry_fails_load : forall m name cf kf,
  In name (map fst m) -> classify name = Some (cf, kf) -> key_pair m cf kf = None ->
  snd (load_files m) = true.
Proof. exact unusable_entry_fails_load. Qed.
Print Assumptions C11_unusable_entry_fails_load.
(* a block that holds no certificate where one is expected (an empty or whitespace-only file,
   a file that is being rewritten), or no private key where one is expected, is such an entry *)
Theorem C11_block_without_cert_is_unusable : forall m cf kf f,
  blocks_find m cf = Some f -> f_cert f = None -> key_pair m cf kf = None.
Proof. exact no_cert_no_pair. Qed.
Print Assumptions C11_block_without_cert_is_unusable.
Theorem C11_block_without_key_is_unusable : forall m cf kf f,
  blocks_find m kf = Some f -> f_key f = None -> key_pair m cf kf = None.
Proof. exact no_key_no_pair. Qed.
Print Assumptions C11_block_without_key_is_unusable.
(* so, after every history, such a snapshot leaves the working set where it is, and the
   handshake after it is answered from the certificates of the last usable load before it -
   the certificate of the damaged pair included *)
Theorem C11_unusable_entry_keeps_working_set : forall cur script m name cf kf,
  In name (map fst m) -> classify name = Some (cf, kf) -> key_pair m cf kf = None ->
  last_good cur (script ++ [Loaded (Some m)]) = last_good cur script.
Proof. exact unusable_entry_keeps_set. Qed.
Print Assumptions C11_unusable_entry_keeps_working_set.
Theorem C11_handshake_after_unusable_entry : forall script m name cf kf n s,
  In name (map fst m) -> classify name = Some (cf, kf) -> key_pair m cf kf = None ->
  nth (length script) (run_store [] (e2e_actions watch_step false None (script ++ [Loaded (Some m)]) n s)) PNone
  = store_pick (last_good [] script) n s.
Proof. exact unusable_entry_handshake. Qed.
Print Assumptions C11_handshake_after_unusable_entry.
Theorem C11_unusable_entry_nonvacuous :
  In (bs "b-key.pem") (map fst ab_key_emptied) /\
  classify (bs "b-key.pem") = Some (bs "b-cert.pem", bs "b-key.pem") /\
  key_pair ab_key_emptied (bs "b-cert.pem") (bs "b-key.pem") = None /\
  load_certificates ab_key_emptied = ([[bs "a.example"]], true) /\
  run_store [] (e2e_actions watch_step false None
                  [Loaded (Some good_ab); Loaded (Some ab_key_emptied); Loaded (Some ab_key_emptied); Loaded (Some good_ab)]
                  (bs "b.example") true)
  = [PCert 1; PCert 1; PCert 1; PCert 1].
Proof. exact unusable_entry_example. Qed.
Print Assumptions C11_unusable_entry_nonvacuous.

(* ===== what is presented is the whole certificate of the current set ===== *)

(* A certificate of a set = the names of its leaf + the identity of the leaf + the identity
   of the rest of the tls.Certificate value (intermediate chain, OCSP staple, SCTs).  For
   every schedule of set publications and handshakes: the handshakes that follow a
   publication (up to the next one) are answered from exactly the set published - whatever
   the store held before and whatever the two sets have in common (the same leaves with
   another chain, say) ... *)
Theorem C11_handshake_after_publication : forall pre cur set mid n s post,
  Forall is_handshake mid ->
  run_mstore cur (pre ++ MPublish set :: mid ++ MHandshake n s :: post) =
  run_mstore cur pre ++ run_mstore set mid ++ present_on set n s :: run_mstore set post.
Proof. exact handshake_after_publication. Qed.
Print Assumptions C11_handshake_after_publication.
(* ... with the element of that set, complete, that stands at the position the name-level
   theorems (C11_get_cert_spec, C11_presents) are about *)
Theorem C11_presented_member : forall set n s i c,
  present_on set n s = RCert i c -> nth_error set i = Some c /\ store_pick (names_of set) n s = PCert i.
Proof. exact present_on_member. Qed.
Print Assumptions C11_presented_member.
Theorem C11_presented_inside : forall set n s i, present_on set n s <> ROutside i.
Proof. exact present_on_inside. Qed.
Print Assumptions C11_presented_inside.
(* the store of the name-level theorems is the projection of this one *)
Theorem C11_material_store_projects : forall sched cur,
  map pick_of (run_mstore cur sched) = run_store (names_of cur) (map strip_material sched).
Proof. exact run_mstore_projects. Qed.
Print Assumptions C11_material_store_projects.
Theorem C11_republished_chain_example :
  run_mstore [] [MHandshake (bs "shop.test") true;
                 MPublish [api_cert; shop_old]; MHandshake (bs "shop.test") true;
                 MPublish [api_cert; shop_new]; MHandshake (bs "Shop.test.") true; MHandshake (bs "x.test") true;
                 MHandshake (bs "x.test") false]
  = [RErrNoCerts; RCert 1 shop_old; RCert 1 shop_new; RNone; RCert 0 api_cert]
  /\ Forall is_handshake [MHandshake (bs "x.test") true]
  /\ fc_leaf shop_old = fc_leaf shop_new /\ fc_rest shop_old <> fc_rest shop_new.
Proof. exact republished_chain_example. Qed.
Print Assumptions C11_republished_chain_example.

(* ===== every listener answers in its own strictmatch setting ===== *)

(* main.go makes one tls.Config per listener (makeTLSConfig: the ui listener, then the proxy
   listeners): a source, a store and a GetCertificate closure of its own.  For every list of
   listeners, every position in it, every history of loads of the certificate sources: the
   handshake on a listener is answered from the last usable load of ITS certificate source
   in ITS OWN strictmatch setting - "the first certificate of the set, or no certificate at
   all when strict matching is on" is decided per listener, also when several listeners name
   the same certificate source. *)
Theorem C11_listener_own_source_and_mode : forall srcs ls k l n,
  nth_error ls k = Some l -> l_cs l <> [] ->
  nth_error (listener_answers srcs ls n) k =
  Some (Some (store_pick (last_good [] (history_of srcs (l_cs l))) n (l_strict l))).
Proof. exact listener_answer_own. Qed.
Print Assumptions C11_listener_own_source_and_mode.
Theorem C11_listener_without_source_has_no_tls : forall srcs ls k l n,
  nth_error ls k = Some l -> l_cs l = [] -> nth_error (listener_answers srcs ls n) k = Some None.
Proof. exact listener_plain. Qed.
Print Assumptions C11_listener_without_source_has_no_tls.
(* ... so the other listeners of the configuration and the order of creation do not matter *)
Theorem C11_listener_independent_of_the_others : forall srcs ls k l n,
  nth_error ls k = Some l ->
  nth_error (listener_answers srcs ls n) k = nth_error (listener_answers srcs [l] n) 0.
Proof. exact listener_independent. Qed.
Print Assumptions C11_listener_independent_of_the_others.
Theorem C11_listener_example :
  nth_error lenient_then_strict 2 = Some {| l_cs := bs "site"; l_strict := true |} /\
  bs "site" <> [] /\
  listener_answers site_srcs lenient_then_strict (bs "unknown.example") = [Some (PCert 0); None; Some PNone] /\
  listener_answers site_srcs (rev lenient_then_strict) (bs "unknown.example") = [Some PNone; None; Some (PCert 0)] /\
  listener_answers site_srcs lenient_then_strict (bs "X.b.example.") = [Some (PCert 1); None; Some (PCert 1)].
Proof. exact listener_example. Qed.
Print Assumptions C11_listener_example.
(* NOT the code ([start_listeners_sharing]): were the tls.Config made first for a certificate
   source handed to the later listeners of that source, the later listener would answer in the
   first one's strictness *)
Theorem C11_shared_listener_config_refuted :
  exists srcs ls n l,
    nth_error ls 2 = Some l /\ l_strict l = true /\
    nth_error (listener_answers_sharing srcs ls n) 2 = Some (Some (PCert 0)) /\
    nth_error (listener_answers srcs ls n) 2 = Some (Some PNone) /\
    nth_error (listener_answers_sharing srcs (rev ls) n) 2 = Some (Some PNone) /\
    nth_error (listener_answers srcs (rev ls) n) 2 = Some (Some (PCert 0)).
Proof. exact shared_config_refuted. Qed.
Print Assumptions C11_shared_listener_config_refuted.

(* ===== a certificate directory: what counts is what its names read as ===== *)

(* loadPath as a walk over the entries below the certificate path, each with what Lstat
   reports (kind, size, modification time: for a symbolic link those of the link) and what a
   read of its path yields.  The walk is the declarative view [dir_view]: an error when an
   entry that is wanted (not a directory, *.pem, not hidden, at most MaxSize by Lstat) cannot
   be read, else the bytes behind every wanted name *)
Theorem C11_directory_load_is_view : forall d, dir_load d = dir_view d.
Proof. exact dir_load_view. Qed.
Print Assumptions C11_directory_load_is_view.
Theorem C11_directory_load_error_iff : forall d,
  dir_load d = LoadErr <-> exists p e, In (p, e) d /\ wanted (p, e) = true /\ d_read e = None.
Proof. exact dir_load_error_iff. Qed.
Print Assumptions C11_directory_load_error_iff.
Theorem C11_directory_load_blocks : forall d b,
  dir_load d = Loaded (Some b) ->
  forall p f, In (p, f) b <-> exists e, In (p, e) d /\ wanted (p, e) = true /\ d_read e = Some f.
Proof. exact dir_load_blocks. Qed.
Print Assumptions C11_directory_load_blocks.
(* what Lstat reports beyond that does not enter: a regular file or a symbolic link, whatever
   size (on the same side of MaxSize) and modification time - same names, same bytes behind
   them, same load *)
Theorem C11_directory_load_ignores_metadata : forall d d',
  Forall2 same_content d d' -> dir_load d = dir_load d'.
Proof. exact dir_load_ignores_metadata. Qed.
Print Assumptions C11_directory_load_ignores_metadata.
(* For every history of directory states - however a state was brought about: files rewritten,
   files replaced by files of the same size and time, the target of symbolic links exchanged -
   loadPath -> watch -> store composed: the handshake after every state is presented the
   certificate (by the names of its leaf) chosen from the last state of the prefix that reads
   as a usable set ... *)
Theorem C11_handshake_after_directory_history : forall dirs n s,
  run_store_seen [] (e2e_actions watch_step false None (map dir_load dirs) n s) =
  map (fun k => seen_on (last_good [] (firstn (S k) (map dir_view dirs))) n s) (seq 0 (length dirs)).
Proof. exact directory_history. Qed.
Print Assumptions C11_handshake_after_directory_history.
(* ... so a newly published set takes effect whatever the directory looked like before ... *)
Theorem C11_new_directory_content_takes_effect : forall dirs d set n s,
  usable (dir_view d) = Some set ->
  nth (length dirs) (run_store_seen [] (e2e_actions watch_step false None (map dir_load (dirs ++ [d])) n s)) SNone
  = seen_on set n s.
Proof. exact new_directory_content_takes_effect. Qed.
Print Assumptions C11_new_directory_content_takes_effect.
(* ... and a state that does not read as a usable set leaves the working set where it was *)
Theorem C11_unusable_directory_keeps_set : forall dirs d n s,
  usable (dir_view d) = None ->
  nth (length dirs) (run_store_seen [] (e2e_actions watch_step false None (map dir_load (dirs ++ [d])) n s)) SNone
  = seen_on (last_good [] (map dir_view dirs)) n s.
Proof. exact unusable_directory_keeps_set. Qed.
Print Assumptions C11_unusable_directory_keeps_set.
(* what is seen is the element of the current set at the position the name-level theorems
   are about, never something outside the set *)
Theorem C11_seen_member : forall cur n s c,
  seen_on cur n s = SCert c -> exists i, store_pick cur n s = PCert i /\ nth_error cur i = Some c.
Proof. exact seen_on_member. Qed.
Print Assumptions C11_seen_member.
Theorem C11_seen_inside : forall cur n s i, seen_on cur n s <> SOutside i.
Proof. exact seen_on_inside. Qed.
Print Assumptions C11_seen_inside.
Theorem C11_directory_switch_example :
  Forall2 same_stat release_v1 release_v2 /\ Forall2 same_stat deployed_v1 renewed_same_stat /\
  usable (dir_view release_v2) = Some [rel_v2_cert] /\
  run_store_seen [] (e2e_actions watch_step false None
                       (map dir_load [release_v1; release_v2; release_v2; release_v1; deployed_v1; renewed_same_stat])
                       (bs "shop.example") true)
  = [SCert rel_v1_cert; SCert rel_v2_cert; SCert rel_v2_cert; SCert rel_v1_cert; SCert rel_v1_cert; SCert rel_v2_cert].
Proof. exact directory_switch_example. Qed.
Print Assumptions C11_directory_switch_example.
Theorem C11_directory_load_example :
  dir_load [(bs ".hidden.pem", reg 10 1 (pf 9 None None));
            (bs "README", reg 10 1 (pf 9 None None));
            (bs "big.pem", reg 1048577 1 (pf 8 None None));
            (bs "old", {| d_kind := KDir; d_size := 4096; d_mtime := 1; d_read := None |});
            (bs "old/.keep.pem", reg 10 1 (pf 9 None None));
            (bs "old/x.pem", sym 9 1 (pf 1 (Some (7, rel_v1_cert)) (Some 7)));
            (bs "x.pem.bak", reg 10 1 (pf 9 None None))]
  = Loaded (Some [(bs "old/x.pem", pf 1 (Some (7, rel_v1_cert)) (Some 7))])
  /\ dir_load [(bs "a.pem", reg 10 1 (pf 1 (Some (7, rel_v1_cert)) (Some 7)));
               (bs "gone.pem", {| d_kind := KSymlink; d_size := 12; d_mtime := 1; d_read := None |})]
  = LoadErr.
Proof. exact dir_load_example. Qed.
Print Assumptions C11_directory_load_example.
(* NOT the code ([walk_stat_cached]): a loader that reads a file again only when Lstat reports
   another size or modification time does not have the property - a release switch behind
   symbolic links, or a renewal deployed with the old size and time, never takes effect *)
Theorem C11_stat_cached_loader_refuted :
  exists d1 d2 n s set,
    Forall2 same_stat d1 d2 /\ usable (dir_view d2) = Some set /\
    nth 1 (run_store_seen [] (e2e_actions watch_step false None (stat_cached_loads [] [d1; d2]) n s)) SNone
      <> seen_on set n s /\
    nth 1 (run_store_seen [] (e2e_actions watch_step false None (map dir_load [d1; d2]) n s)) SNone
      = seen_on set n s.
Proof. exact stat_cache_refuted. Qed.
Print Assumptions C11_stat_cached_loader_refuted.

(* ===== a certificate file that is there with nothing in it ===== *)

(* A wanted entry of the certificate directory (not a directory, *.pem, not hidden, at most
   MaxSize) that reads as a file in which tls.X509KeyPair finds neither a certificate nor a key
   - zero length after an interrupted rewrite or on a full disk, an O_TRUNC rewrite observed
   half-way, blanks, a placeholder -, whatever size Lstat reports for it, 0 included, and
   whatever else the directory holds: the directory does not read as a usable set.  The file is
   unusable material; it is never passed over so that the remaining files make a smaller set. *)
Theorem C11_empty_file_makes_directory_unusable : forall d p e f,
  NoDup (map fst d) -> In (p, e) d -> wanted (p, e) = true -> d_read e = Some f ->
  f_cert f = None -> f_key f = None ->
  usable (dir_view d) = None.
Proof. exact nothing_in_file_unusable. Qed.
Print Assumptions C11_empty_file_makes_directory_unusable.
(* ... so after every history of directory states the handshake after such a state is
   presented what the handshake before it was: the working set stays, the certificate that the
   emptied file used to hold included (loadPath -> watch -> store composed) *)
Theorem C11_empty_file_keeps_working_set : forall dirs d p e f n s,
  NoDup (map fst d) -> In (p, e) d -> wanted (p, e) = true -> d_read e = Some f ->
  f_cert f = None -> f_key f = None ->
  nth (length dirs) (run_store_seen [] (e2e_actions watch_step false None (map dir_load (dirs ++ [d])) n s)) SNone
  = seen_on (last_good [] (map dir_view dirs)) n s.
Proof. exact nothing_in_file_keeps_set. Qed.
Print Assumptions C11_empty_file_keeps_working_set.
(* the file itself is one half (or both halves) of a pair that cannot be made *)
Theorem C11_empty_file_has_no_pair : forall m p f,
  pem_name p = true -> blocks_find m p = Some f -> f_cert f = None -> f_key f = None ->
  exists cf kf, classify p = Some (cf, kf) /\ key_pair m cf kf = None.
Proof. exact nothing_in_file_no_pair. Qed.
Print Assumptions C11_empty_file_has_no_pair.
(* non-vacuity and the whole course: two sites in combined files; shop.pem truncated to zero
   bytes; shop as a pair; both files of the pair empty at once (twice); the renewal *)
Theorem C11_zero_length_example :
  NoDup (map fst shop_truncated) /\
  In (bs "shop.pem", reg 0 2 nothing) shop_truncated /\
  wanted (bs "shop.pem", reg 0 2 nothing) = true /\
  d_size (reg 0 2 nothing) = 0 /\ f_cert nothing = None /\ f_key nothing = None /\
  usable (dir_view shop_truncated) = None /\ usable (dir_view shop_pair_empty) = None /\
  run_store_seen [] (e2e_actions watch_step false None (map dir_load zero_length_history) (bs "shop.example") true)
  = [SCert rel_v1_cert; SCert rel_v1_cert; SCert rel_v1_cert; SCert rel_v1_cert; SCert rel_v1_cert; SCert rel_v2_cert] /\
  run_store_seen [] (e2e_actions watch_step false None (map dir_load zero_length_history) (bs "shop.example") false)
  = [SCert rel_v1_cert; SCert rel_v1_cert; SCert rel_v1_cert; SCert rel_v1_cert; SCert rel_v1_cert; SCert rel_v2_cert].
Proof. exact zero_length_example. Qed.
Print Assumptions C11_zero_length_example.
(* NOT the code ([walk_skipping_empty]): a loader that leaves out the entries Lstat reports as
   empty does not have the property - the truncated file vanishes from the material, the
   remaining files are published as a smaller set, and the name the truncated file served is
   presented another site's certificate, on a strict listener none *)
Theorem C11_skip_empty_files_loader_refuted :
  exists dirs d p e f n,
    NoDup (map fst d) /\ In (p, e) d /\ wanted (p, e) = true /\ d_read e = Some f /\
    f_cert f = None /\ f_key f = None /\ d_size e = 0 /\
    seen_on (last_good [] (map dir_view dirs)) n false = SCert rel_v1_cert /\
    nth (length dirs) (run_store_seen [] (e2e_actions watch_step false None (map dir_load_skipping_empty (dirs ++ [d])) n false)) SNone
      = SCert main_cert /\
    nth (length dirs) (run_store_seen [] (e2e_actions watch_step false None (map dir_load_skipping_empty (dirs ++ [d])) n true)) SErrNoCerts
      = SNone /\
    nth (length dirs) (run_store_seen [] (e2e_actions watch_step false None (map dir_load (dirs ++ [d])) n false)) SNone
      = SCert rel_v1_cert /\
    nth (length dirs) (run_store_seen [] (e2e_actions watch_step false None (map dir_load (dirs ++ [d])) n true)) SNone
      = SCert rel_v1_cert.
Proof. exact skip_empty_files_refuted. Qed.
Print Assumptions C11_skip_empty_files_loader_refuted.
Theorem C11_skip_empty_pair_refuted :
  usable (dir_view shop_pair_empty) = None /\
  nth 1 (run_store_seen [] (e2e_actions watch_step false None (map dir_load_skipping_empty [shop_pair_v1; shop_pair_empty]) (bs "shop.example") true)) SErrNoCerts
    = SNone /\
  nth 1 (run_store_seen [] (e2e_actions watch_step false None (map dir_load [shop_pair_v1; shop_pair_empty]) (bs "shop.example") true)) SNone
    = SCert rel_v1_cert.
Proof. exact skip_empty_pair_refuted. Qed.
Print Assumptions C11_skip_empty_pair_refuted.

(* ===== the configured certificate path leads through symbolic links ===== *)
(* (cert/path_source.go: the path is handed to loadPath as configured on every iteration, so
   the links among its parents are followed anew by every load.)  What the path is loaded as
   is what the place it denotes at that moment reads as ([world_view]: no walk, no memory of
   where the path led before) *)
Theorem C11_path_load_is_view_of_denoted_place : forall w, path_load w = world_view w.
Proof. exact path_load_view. Qed.
Print Assumptions C11_path_load_is_view_of_denoted_place.
(* for every history of file trees, whichever links on the path were re-pointed between the
   polls: the handshake after every poll is answered from the last tree of the prefix in
   which the place the path denoted then read as a usable set (path source -> loadPath ->
   watch -> store composed) *)
Theorem C11_handshake_after_path_history : forall ws n s,
  run_store_seen [] (e2e_actions watch_step false None (map path_load ws) n s) =
  map (fun k => seen_on (last_good [] (firstn (S k) (map world_view ws))) n s) (seq 0 (length ws)).
Proof. exact path_history. Qed.
Print Assumptions C11_handshake_after_path_history.
(* a release published by re-pointing a link on the path takes effect without restart,
   wherever the path led before *)
Theorem C11_path_switch_takes_effect : forall ws w d set n s,
  denoted w = RDir d -> usable (dir_view d) = Some set ->
  nth (length ws) (run_store_seen [] (e2e_actions watch_step false None (map path_load (ws ++ [w])) n s)) SNone
  = seen_on set n s.
Proof. exact path_switch_takes_effect. Qed.
Print Assumptions C11_path_switch_takes_effect.
(* a path that leads nowhere, or to unusable material, does not remove the working set *)
Theorem C11_path_to_unusable_keeps_set : forall ws w n s,
  usable (world_view w) = None ->
  nth (length ws) (run_store_seen [] (e2e_actions watch_step false None (map path_load (ws ++ [w])) n s)) SNone
  = seen_on (last_good [] (map world_view ws)) n s.
Proof. exact path_to_unusable_keeps_set. Qed.
Print Assumptions C11_path_to_unusable_keeps_set.
Theorem C11_path_to_nothing_is_unusable : forall w, denoted w = RAbsent -> usable (world_view w) = None.
Proof. exact path_to_nothing_unusable. Qed.
Print Assumptions C11_path_to_nothing_is_unusable.
(* a load depends on the place the path denotes now and on no other place *)
Theorem C11_path_load_ignores_other_places : forall w t,
  (forall k, w_at w = Some k -> tree_find t k = tree_find (w_tree w) k) ->
  path_load {| w_at := w_at w; w_tree := t |} = path_load w.
Proof. exact path_load_ignores_other_places. Qed.
Print Assumptions C11_path_load_ignores_other_places.
(* non-vacuity and the whole course: current -> v1; current -> v2; v1 rewritten behind the
   path's back (no effect); current dangling (set kept); current -> the rewritten v1; and a
   path whose last element is itself a link (filepath.Walk does not follow it: nothing) *)
Theorem C11_path_switch_example :
  denoted (nth 1 path_switch_history {| w_at := None; w_tree := [] |}) = RDir rel2_files /\
  usable (dir_view rel2_files) = Some [rel_v2_cert] /\
  run_store_seen [] (e2e_actions watch_step false None (map path_load path_switch_history) (bs "shop.example") true)
  = [SCert rel_v1_cert; SCert rel_v2_cert; SCert rel_v2_cert; SCert rel_v2_cert; SCert rel_v3_cert] /\
  path_load {| w_at := Some 0; w_tree := [(0, RFile (bs "certs") {| d_kind := KSymlink; d_size := 17; d_mtime := 1; d_read := None |});
                                           (1, RDir rel1_files)] |} = Loaded (Some []).
Proof. exact path_switch_example. Qed.
Print Assumptions C11_path_switch_example.
(* NOT the code ([pinned_loads]): a source that resolves the path once, when it is created,
   does not have the property - the release the link is switched to never takes effect *)
Theorem C11_pinned_path_source_refuted :
  exists ws w d set n s,
    denoted w = RDir d /\ usable (dir_view d) = Some set /\
    nth (length ws) (run_store_seen [] (e2e_actions watch_step false None (pinned_loads (ws ++ [w])) n s)) SNone
      <> seen_on set n s /\
    nth (length ws) (run_store_seen [] (e2e_actions watch_step false None (map path_load (ws ++ [w])) n s)) SNone
      = seen_on set n s.
Proof. exact pinned_path_refuted. Qed.
Print Assumptions C11_pinned_path_source_refuted.
