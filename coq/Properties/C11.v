(** C11 — TLS listeners present the best matching current certificate
    (cert/store.go, cert/source.go:95-152, cert/watch.go).  Statements, [exact],
    [Print Assumptions] only. *)
From Coq Require Import String List NArith.
From Fabio Require Import Lib.Outcome Lib.Bytes Model.CertStore Proofs.CertStore.
Import ListNotations.
Local Open Scope N_scope.

(* For every certificate set, requested name and listener mode (the single-certificate
   non-strict shortcut aside, see C11_single_nonstrict): the certificate chosen is the one
   carrying the normalised requested name (the last loaded if several do), otherwise the
   one carrying the most specific covering wildcard, otherwise the first certificate, or
   none at all for a strict listener.  [selects] never mentions the index or the scan. *)
Theorem C11_get_cert_spec : forall certs sn strict,
  certs <> [] -> (strict = true \/ 2 <= length certs)%nat ->
  selects (folded certs) strict (normalize sn) (store_pick certs sn strict).
Proof. exact get_cert_spec. Qed.
Print Assumptions C11_get_cert_spec.

Theorem C11_single_nonstrict : forall c sn, store_pick [c] sn false = PCert 0.
Proof. exact single_nonstrict. Qed.
Print Assumptions C11_single_nonstrict.

Theorem C11_result_in_set : forall certs sn strict i,
  store_pick certs sn strict = PCert i -> (i < length certs)%nat.
Proof. exact pick_in_set. Qed.
Print Assumptions C11_result_in_set.

Theorem C11_empty_store_err : forall sn strict, store_pick [] sn strict = PErrNoCerts.
Proof. exact empty_store_err. Qed.
Print Assumptions C11_empty_store_err.

Theorem C11_strict_none : forall certs sn,
  store_pick certs sn true = PNone ->
  none_with (folded certs) (normalize sn) /\
  forall k, (k < length (split_byte (normalize sn) 46))%nat ->
            none_with (folded certs) (candidate (split_byte (normalize sn) 46) k).
Proof. exact strict_none. Qed.
Print Assumptions C11_strict_none.

(* requested names: any letter case, any number of trailing dots *)
Theorem C11_request_case_insensitive : forall a b, lower a = lower b -> normalize a = normalize b.
Proof. exact normalize_case. Qed.
Print Assumptions C11_request_case_insensitive.
Theorem C11_request_trailing_dots : forall sn k, normalize (sn ++ repeat 46 k) = normalize sn.
Proof. exact normalize_trailing_dots. Qed.
Print Assumptions C11_request_trailing_dots.

(* F-C11-2 (repaired in /repo by a fix: commit): the index used to keep the certificate's own
   spelling, so a certificate whose name contains an upper-case letter was not found by its
   own name; [folded] in the theorems above is the repaired behaviour *)
Theorem C11_upper_case_cert_name_refuted :
  exists certs sn, has_name certs 1 sn /\
    get_certificate certs (Some (build_from_unfolded 0 certs)) sn false = PCert 0.
Proof. exact upper_case_cert_name_refuted. Qed.
Print Assumptions C11_upper_case_cert_name_refuted.
Theorem C11_upper_case_cert_name_found :
  store_pick [[bs "a.com"%string]; [bs "Foo.com"%string]] (bs "fOO.com."%string) false = PCert 1.
Proof. exact upper_case_cert_name_found. Qed.
Print Assumptions C11_upper_case_cert_name_found.

(* Every interleaving of set replacements and handshakes: each handshake is answered from
   exactly the set that was current when it loaded the store - never a mixture. *)
Theorem C11_handshake_single_set : forall sched cur,
  run_store cur sched =
  map (fun h => match h with (k, n, s) => store_pick (current cur (firstn k sched)) n s end)
      (handshakes sched 0).
Proof. exact run_store_single_set. Qed.
Print Assumptions C11_handshake_single_set.

(* The reload loop, for every history of loads: what is published is exactly the good loads
   that differ from the last published blocks, in order (so unusable material never
   replaces or removes the working set) ... *)
Theorem C11_publish_iff_new_good : forall script last,
  pubs (watch_run watch_step false last script) = published last script.
Proof. exact watch_publishes. Qed.
Print Assumptions C11_publish_iff_new_good.

Theorem C11_bad_never_unpublishes : forall once last l ev last' stop,
  watch_step once last l = (ev, last', stop) ->
  (forall set, In (EPublish set) ev ->
     exists id, l = Blocks id (Some set) /\ last <> Some id /\ last' = Some id) /\
  ((forall set, ~ In (EPublish set) ev) -> last' = last /\ stop = false).
Proof. exact watch_step_publish. Qed.
Print Assumptions C11_bad_never_unpublishes.

(* ... and it never spins: two loads are always separated by a sleep or a publication. *)
Theorem C11_no_spin : forall once script last,
  no_adjacent_loads (watch_run watch_step once last script) = true.
Proof. exact watch_no_spin. Qed.
Print Assumptions C11_no_spin.

(* The loop before the repair (fix: commit in /repo) did spin on unusable material. *)
Theorem C11_spin_refuted :
  exists script, no_adjacent_loads (watch_run watch_step_spinning false None script) = false.
Proof. exact watch_spinning_refuted. Qed.
Print Assumptions C11_spin_refuted.
