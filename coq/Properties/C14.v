(** C14 -- every service registration yields route commands fabio itself accepts
    (registry/consul/routecmd.go build / validate / parseURLPrefixTag, registry/consul/service.go
    makeConfig, route/parse_new.go, route/table.go NewTable / addRoute).
    This file contains only statements, [exact], and [Print Assumptions].

    [intents env prefix g] are the values routecmd.build computes for the routing tags of a catalog
    entry g (service, route, destination, weight literal, plain tags, passed-through options);
    [render_intent] is the line of text it writes for one of them (since /repo d16ce3d the tags and
    options stand between the quotes as they are); [validate_intent] is its check of that line (since
    /repo 9891ca3: no CR / LF, no double quote in the joined tags / options, route.Parse reads the line
    back as exactly one definition with the registered service, route and destination, NewTable accepts
    the line on its own); [build] = map render_intent o filter validate_intent o intents.
    [pweight], [canon], [glob_ok] stand for strconv.ParseFloat, url.Parse, glob.Compile: the theorems
    hold whatever these libraries answer.
    [expressible] is the decidable domain (Model/RouteCmd.v): name, route and destination are
    non-empty and free of white space, the path and the lower-cased host compile as globs, the
    destination parses as a URL, the weight literal is accepted by ParseFloat, tags and options
    contain no double quote, tags no comma / CR / LF / outer space, a sole tag is not empty.
    The behaviour before d16ce3d (strconv.Quote, no validation) is [build_unrepaired]; the behaviour
    between d16ce3d and 9891ca3 (validated by NewTable, not read back) is [build_d16ce3d].
    MECHANISM LEMMAS, not coverage: C14_dropped_never_removes_others and C14_history_independent say
    that the MODEL of build has no state and no cross-entry dependence (true by its shape); that the
    CODE has none is what the history / makeConfig classes of the correspondence run exercise. *)
From Coq Require Import String List NArith ZArith.
From Coq Require Import Sorted.
From Fabio Require Import Lib.Outcome Lib.Bytes Model.WtF64 Model.TableCmd Model.RouteText Model.RouteCmd
                          Model.ServiceWatch Proofs.TableCmd Proofs.RouteCmd Proofs.ServiceWatch.
Import ListNotations.
Local Open Scope N_scope.

(* ---------------- for ALL catalog entries ---------------- *)

(* Every emitted command is accepted by NewTable on its own, is one line, and is the rendering of
   one of the entry's routing tags. *)
Theorem C14_emitted_accepted_alone : forall pweight canon glob_ok env prefix g c,
  In c (build pweight canon glob_ok env prefix g) ->
  is_ok (new_table pweight canon glob_ok c) = true /\ lacks 10 c = true /\ lacks 13 c = true
  /\ exists i, In i (intents env prefix g) /\ c = render_intent i.
Proof. exact emitted_accepted_alone. Qed.
Print Assumptions C14_emitted_accepted_alone.

(* Every emitted command reads back as the service, route and destination of the routing tag it
   was made from (9891ca3). *)
Theorem C14_emitted_reads_back : forall pweight canon glob_ok env prefix g c,
  In c (build pweight canon glob_ok env prefix g) ->
  exists i d, In i (intents env prefix g) /\ c = render_intent i /\ parse pweight c = Ok [d]
              /\ d_svc d = g_name g /\ d_src d = i_route i /\ d_dst d = i_dst i.
Proof. exact emitted_reads_back. Qed.
Print Assumptions C14_emitted_reads_back.

(* Characterisation of what validate lets through (the converse of C14_expressible_validates): every
   emitted command comes from an expressible routing tag -- then C14_build_parse_denotes applies --
   or lies in the SYNTACTIC region of finding F-C14-2 (a comma in a plain tag, a sole empty plain
   tag), or has a vertical tab in the name / route / destination (taken by the grammar's \S+, not by
   [expressible], which is stated with Go's white space; harmless). *)
Theorem C14_emitted_characterised : forall pweight canon glob_ok env prefix g c,
  In c (build pweight canon glob_ok env prefix g) ->
  exists i, In i (intents env prefix g) /\ c = render_intent i
    /\ (intent_expressible pweight canon glob_ok i = true
        \/ comma_in_tag i = true \/ sole_empty_tag i = true \/ vtab_in_word i = true).
Proof. exact emitted_characterised. Qed.
Print Assumptions C14_emitted_characterised.

Theorem C14_validated_characterised : forall pweight canon glob_ok i,
  intent_wf i = true -> validate_intent pweight canon glob_ok i = true ->
  intent_expressible pweight canon glob_ok i = true
  \/ comma_in_tag i = true \/ sole_empty_tag i = true \/ vtab_in_word i = true.
Proof. exact validated_characterised. Qed.
Print Assumptions C14_validated_characterised.

(* ... where every intent build makes is well-formed *)
Theorem C14_intents_wf : forall env prefix g i, In i (intents env prefix g) -> intent_wf i = true.
Proof. exact intents_wf. Qed.
Print Assumptions C14_intents_wf.

(* Whatever the catalog entries are -- expressible or not -- the text makeConfig assembles from the
   emitted commands of ANY set of services (all commands, reverse-sorted, newline-joined) is accepted
   by NewTable: acceptance of each line alone implies acceptance of the whole (the parser is
   line-local, and addRoute checks on a non-empty table nothing it does not check on the empty one).
   The table holds the target of every emitted command and nothing else. *)
Theorem C14_emitted_table_accepted : forall pweight canon glob_ok env prefix (regs : list reg),
  let lines := sort_lines_desc (flat_map (build pweight canon glob_ok env prefix) regs) in
  exists t, new_table pweight canon glob_ok (config_text lines) = Ok t
    /\ (forall g c d, In g regs -> In c (build pweight canon glob_ok env prefix g) ->
          parse_line pweight c = Ok (Some d) ->
          exists url tg, canon (d_dst d) = Some url
           /\ In (lower (fst (hostpath (d_src d))), snd (hostpath (d_src d)), tg) (flat t)
           /\ same_target (d_svc d) url (w_clamp (d_w d)) (d_tags d) tg = true)
    /\ (forall x, In x (flat t) -> exists g c d url, In g regs /\ In c (build pweight canon glob_ok env prefix g)
           /\ parse_line pweight c = Ok (Some d) /\ canon (d_dst d) = Some url /\ x = trip d url).
Proof. exact emitted_table_accepted. Qed.
Print Assumptions C14_emitted_table_accepted.

(* A dropped registration never removes another service's commands: what an entry emits depends
   on that entry alone, and every emitted command is a line of the pushed text. *)
Theorem C14_dropped_never_removes_others : forall pweight canon glob_ok env prefix (regs : list reg) g c,
  In g regs -> In c (build pweight canon glob_ok env prefix g) ->
  In c (sort_lines_desc (flat_map (build pweight canon glob_ok env prefix) regs)).
Proof. exact dropped_never_removes_others. Qed.
Print Assumptions C14_dropped_never_removes_others.

(* History form: the catalog is read again on every health change.  The text pushed in a round
   depends on that round's entries alone, whatever was registered, accepted or dropped before or
   after, and the text of every round of every history is accepted by NewTable. *)
Theorem C14_history_independent : forall pweight canon glob_ok env prefix
    (before1 before2 after1 after2 : list (list reg)) regs,
  nth_error (history_texts pweight canon glob_ok env prefix (before1 ++ regs :: after1)) (length before1)
  = nth_error (history_texts pweight canon glob_ok env prefix (before2 ++ regs :: after2)) (length before2).
Proof. exact history_independent. Qed.
Print Assumptions C14_history_independent.

Theorem C14_history_rounds_accepted : forall pweight canon glob_ok env prefix (rounds : list (list reg)),
  Forall (fun text => exists t, new_table pweight canon glob_ok text = Ok t)
         (history_texts pweight canon glob_ok env prefix rounds).
Proof. exact history_rounds_accepted. Qed.
Print Assumptions C14_history_rounds_accepted.

(* What a routing tag MEANS, stated independently of build's option loop: the destination is set
   by the LAST option among proto=tcp|https|grpc|grpcs and well-formed redirect=<code>,<url>
   (default http://addr/, addr = JoinHostPort(service address or node address, port)); the weight is
   the literal of the LAST weight= option; the options passed on are the others in order, a
   well-formed redirect as redirect=<code>.  With it "destination, protocol, weight, options" in
   C14_build_parse_denotes refer to the registration. *)
Theorem C14_intent_of_tag_meaning : forall env prefix g tag i, In i (intent_of_tag env prefix g tag) ->
  exists route opts, parse_url_prefix_tag env prefix tag = Some (route, opts)
    /\ i_svc i = g_name g /\ i_route i = route /\ i_tags i = svc_tags prefix g
    /\ i_dst i = dst_spec (reg_addr g) (fields opts)
    /\ i_weight i = weight_spec (fields opts)
    /\ i_opts i = opts_spec (fields opts).
Proof. exact intent_of_tag_meaning. Qed.
Print Assumptions C14_intent_of_tag_meaning.

Theorem C14_opts_meaning_examples :
  let addr := bs "10.0.0.1:80" in
  dst_spec addr [bs "proto=tcp"; bs "strip=/x"; bs "proto=https"] = bs "https://10.0.0.1:80"
  /\ dst_spec addr [bs "proto=https"; bs "redirect=301,http://x.com/"; bs "weight=1"] = bs "http://x.com/"
  /\ dst_spec addr [bs "redirect=301"; bs "proto=http"] = bs "http://10.0.0.1:80/"
  /\ weight_spec [bs "weight=0.2"; bs "proto=tcp"; bs "weight=0.3"] = bs "0.3"
  /\ opts_spec [bs "proto=http"; bs "weight=1"; bs "redirect=301,http://x.com/"; bs "redirect=302"; bs "strip=/x"; bs "proto=tcp"]
     = [bs "proto=http"; bs "redirect=301"; bs "strip=/x"].
Proof. exact opts_meaning_examples. Qed.
Print Assumptions C14_opts_meaning_examples.

(* the route part, on examples (the for-all reading of the route is the transcription
   parse_url_prefix_tag / expand, tied to the code by the lib/urltag and lib/expand cases) *)
Theorem C14_route_meaning_examples :
  parse_url_prefix_tag env_dc pfx (bs " urlprefix-$DC.Foo.com/A/${DC}  strip=/A  proto=tcp ")
    = Some (bs "dc1.foo.com/A/dc1", bs " strip=/A  proto=tcp")
  /\ parse_url_prefix_tag env_dc pfx (bs "urlprefix-Foo.com:80") = Some (bs "Foo.com:80", [])
  /\ parse_url_prefix_tag env_dc pfx (bs "urlprefix-:8080 proto=tcp") = Some (bs ":8080", bs "proto=tcp")
  /\ parse_url_prefix_tag None pfx (bs "urlprefix-$DC.x/${DC}") = Some (bs ".x/", [])
  /\ parse_url_prefix_tag env_dc pfx (bs "other-/x") = None.
Proof. exact route_meaning_examples. Qed.
Print Assumptions C14_route_meaning_examples.

(* The parser is line-local: a list of lines is accepted iff every line is ... *)
Theorem C14_parse_lines_independent : forall pweight ls,
  is_ok (parse_lines pweight ls) = forallb (line_ok pweight) ls.
Proof. exact parse_lines_independent. Qed.
Print Assumptions C14_parse_lines_independent.

(* ... so one rejected line rejects the whole text, whatever the other lines are (which is why
   build has to filter). *)
Theorem C14_one_bad_line_rejects_all : forall pweight a l b,
  line_ok pweight l = false -> is_ok (parse_lines pweight (a ++ l :: b)) = false.
Proof. exact one_bad_line_rejects_all. Qed.
Print Assumptions C14_one_bad_line_rejects_all.

(* ---------------- on the expressible domain ---------------- *)

(* An expressible registration is never dropped ... *)
Theorem C14_expressible_validates : forall pweight canon glob_ok i,
  intent_expressible pweight canon glob_ok i = true -> validate_intent pweight canon glob_ok i = true.
Proof. exact expressible_validates_intent. Qed.
Print Assumptions C14_expressible_validates.

(* ... and, character level, full strength: every routing tag of an expressible entry yields a
   command, route.Parse accepts it as exactly one 'route add' definition, and that definition says
   what the entry says: service, source, destination, weight, tags, options. *)
Theorem C14_build_parse_denotes : forall pweight canon glob_ok env prefix g,
  expressible pweight canon glob_ok env prefix g = true ->
  Forall (fun i => In (render_intent i) (build pweight canon glob_ok env prefix g)
                /\ exists d, parse pweight (render_intent i) = Ok [d]
                    /\ intent_def pweight i = Ok d
                    /\ d_cmd d = CmdAdd /\ d_svc d = g_name g /\ d_src d = i_route i /\ d_dst d = i_dst i
                    /\ parse_weight pweight (Some (i_weight i)) = Ok (d_w d)
                    /\ d_tags d = svc_tags prefix g /\ d_opts d = opts_map (i_opts i))
         (intents env prefix g).
Proof. exact build_parse_denotes. Qed.
Print Assumptions C14_build_parse_denotes.

(* When every entry is expressible, the text exactly as makeConfig assembles it is accepted; the
   table holds, under (lower-cased host, path), a target with the service, URL, weight and tags of
   every routing tag of every entry (the options too unless an identical target absorbed it,
   C05_add_accumulates), and holds nothing that no entry asked for. *)
Theorem C14_registrations_on_domain : forall pweight canon glob_ok env prefix regs,
  (forall g, In g regs -> expressible pweight canon glob_ok env prefix g = true) ->
  exists t, new_table pweight canon glob_ok
              (config_text (sort_lines_desc (flat_map (build pweight canon glob_ok env prefix) regs))) = Ok t
    /\ (forall g i, In g regs -> In i (intents env prefix g) ->
          exists d url tg, intent_def pweight i = Ok d /\ canon (i_dst i) = Some url
           /\ In (lower (fst (hostpath (i_route i))), snd (hostpath (i_route i)), tg) (flat t)
           /\ same_target (g_name g) url (w_clamp (d_w d)) (svc_tags prefix g) tg = true)
    /\ (forall x, In x (flat t) -> exists g i d url, In g regs /\ In i (intents env prefix g)
           /\ intent_def pweight i = Ok d /\ canon (i_dst i) = Some url /\ x = trip d url).
Proof. exact registrations_on_domain. Qed.
Print Assumptions C14_registrations_on_domain.

(* the same for any order of the lines *)
Theorem C14_table_on_domain : forall pweight canon glob_ok (is : list intent),
  Forall (fun i => intent_expressible pweight canon glob_ok i = true) is ->
  exists t, new_table pweight canon glob_ok (config_text (map render_intent is)) = Ok t
    /\ (forall i, In i is -> exists d url tg, intent_def pweight i = Ok d /\ canon (i_dst i) = Some url
           /\ In (lower (fst (hostpath (i_route i))), snd (hostpath (i_route i)), tg) (flat t)
           /\ same_target (i_svc i) url (w_clamp (d_w d)) (i_tags i) tg = true)
    /\ (forall x, In x (flat t) -> exists i d url, In i is /\ intent_def pweight i = Ok d
           /\ canon (i_dst i) = Some url /\ x = trip d url).
Proof. exact table_on_domain. Qed.
Print Assumptions C14_table_on_domain.

(* non-vacuous: an entry with an IPv6 address, $DC expansion, an upper-case host, proto=, weight=,
   passed-through options, a host:port and a :port route and tags with an inner space is
   expressible; its commands and the table built beside another service are as expected. *)
Theorem C14_expressible_nonvacuous :
  ex_expressible reg_good = true /\ ex_expressible reg_rich = true
  /\ ex_build reg_rich =
       [bs "route add api dc1.example.com/v1/dc1 https://[2001:db8::17]:8443 weight 0.25 tags ""canary,a b"" opts ""strip=/v1 host=dst""";
        bs "route add api Foo.com:8080 http://[2001:db8::17]:8443/ tags ""canary,a b""";
        bs "route add api :5000 tcp://[2001:db8::17]:8443 tags ""canary,a b"""]
  /\ exists t, ex_table [reg_good; reg_rich] = Ok t /\ length (flat t) = 4%nat
               /\ map fst t = [[]; bs "dc1.example.com"; bs "foo.com:8080"; bs ":5000"].
Proof. exact expressible_nonvacuous. Qed.
Print Assumptions C14_expressible_nonvacuous.

(* the entries that used to block every service are dropped on their own: a tag with a double
   quote, weight=abc, a name with a space, a host that is no glob; of an entry with one good and
   one bad routing tag only the bad command is dropped; the table of the others is built *)
Theorem C14_bad_registration_dropped_alone :
  ex_build reg_quote = [] /\ ex_build reg_weight_abc = [] /\ ex_build reg_name_space = []
  /\ new_table pweight_dec idcanon ex_glob
       (config_text (sort_lines_desc (flat_map (build pweight_dec idcanon ex_glob env_dc pfx) [reg_good; reg_bad_host])))
     = new_table pweight_dec idcanon ex_glob (ex_text [reg_good])
  /\ ex_build reg_half = [bs "route add half /ok http://10.0.0.2:80/"]
  /\ ex_table [reg_quote; reg_good; reg_weight_abc; reg_name_space; reg_half] = ex_table [reg_good; reg_half]
  /\ exists t, ex_table [reg_good; reg_half] = Ok t /\ length (flat t) = 2%nat.
Proof. exact bad_registration_dropped_alone. Qed.
Print Assumptions C14_bad_registration_dropped_alone.

(* a backslash and a control byte now come back as registered *)
Theorem C14_backslash_control_tags_roundtrip :
  ex_expressible reg_backslash = true /\ ex_parsed_tags reg_backslash = Ok [[bs "a\b"]]
  /\ ex_expressible reg_ctrl = true /\ ex_parsed_tags reg_ctrl = Ok [[[97; 1; 98]]].
Proof. exact backslash_control_tags_roundtrip. Qed.
Print Assumptions C14_backslash_control_tags_roundtrip.

(* ---------------- off the domain: what is left of F-C14-2 (syntactic region F_C14_altering =
   comma_in_tag || sole_empty_tag) ---------------- *)
Theorem C14_comma_tag_split_refuted :
  svc_tags pfx reg_comma = [bs "a,b"]
  /\ ex_parsed_tags reg_comma = Ok [[bs "a"; bs "b"]]
  /\ existsb ex_altering (ex_intents reg_comma) = true.
Proof. exact comma_tag_split_refuted. Qed.
Print Assumptions C14_comma_tag_split_refuted.

Theorem C14_sole_empty_tag_lost_refuted :
  svc_tags pfx reg_empty_tag = [[]]
  /\ ex_parsed_tags reg_empty_tag = Ok [[]]
  /\ existsb ex_altering (ex_intents reg_empty_tag) = true.
Proof. exact sole_empty_tag_lost_refuted. Qed.
Print Assumptions C14_sole_empty_tag_lost_refuted.

(* ---------------- the code between d16ce3d and 9891ca3 (finding F-C14-4, repaired): accepted by the
   table but never read back.  A service name whose extra words complete the grammar denoted ANOTHER
   service, route and destination; a quote in a plain tag started an opts clause; a blank at the end
   of the name changed the name.  The current build drops all three. ---------------- *)
Theorem C14_name_injection_d16ce3d_refuted :
  g_name reg_inject = bs "victim victim.com/ http://evil:80/"
  /\ parsed_defs (ex_build_d16ce3d reg_inject)
     = Ok [(bs "victim", bs "victim.com/", bs "http://evil:80/", [], [(bs "redirect", bs "301")])]
  /\ existsb ex_unread (ex_intents reg_inject) = true
  /\ parsed_defs (ex_build_d16ce3d reg_inject_tag)
     = Ok [(bs "bad", bs "/bad", bs "http://10.0.0.2:80/", [bs "a"], [(bs "strip", bs "/x")])]
  /\ existsb ex_unread (ex_intents reg_inject_tag) = true
  /\ parsed_defs (ex_build_d16ce3d reg_name_blank)
     = Ok [(bs "svc", bs "/bad", bs "http://10.0.0.2:80/", [], [])]
  /\ existsb ex_unread (ex_intents reg_name_blank) = true
  /\ ex_build reg_inject = [] /\ ex_build reg_inject_tag = [] /\ ex_build reg_name_blank = [].
Proof. exact name_injection_d16ce3d_refuted. Qed.
Print Assumptions C14_name_injection_d16ce3d_refuted.

(* ---------------- the code before d16ce3d (F-C14-1, and the wider F-C14-2), kept as refuted variants ---------------- *)
Theorem C14_bad_registration_blocks_all_unrepaired_refuted :
  ex_expressible reg_good = true
  /\ (exists t, ex_table_unrepaired [reg_good] = Ok t /\ length (flat t) = 1%nat)
  /\ existsb ex_blocking (ex_intents reg_quote) = true
  /\ ex_table_unrepaired [reg_good; reg_quote] = Err e_add_invalid
  /\ existsb ex_blocking (ex_intents reg_weight_abc) = true
  /\ ex_table_unrepaired [reg_good; reg_weight_abc] = Err e_weight_value
  /\ existsb ex_blocking (ex_intents reg_name_space) = true
  /\ ex_table_unrepaired [reg_good; reg_name_space] = Err e_add_invalid.
Proof. exact bad_registration_blocks_all_unrepaired_refuted. Qed.
Print Assumptions C14_bad_registration_blocks_all_unrepaired_refuted.

Theorem C14_independent_of_other_registrations_unrepaired_refuted :
  ~ (forall regs g, In g regs -> ex_expressible g = true -> exists t, ex_table_unrepaired regs = Ok t).
Proof. exact independent_of_other_registrations_unrepaired_refuted. Qed.
Print Assumptions C14_independent_of_other_registrations_unrepaired_refuted.

Theorem C14_bad_host_blocks_all_unrepaired_refuted :
  existsb (F_C14_blocking pweight_dec idcanon ex_glob) (ex_intents reg_bad_host) = true
  /\ new_table pweight_dec idcanon ex_glob (ex_text_unrepaired [reg_good; reg_bad_host]) = Err e_invalid_host.
Proof. exact bad_host_blocks_all_unrepaired_refuted. Qed.
Print Assumptions C14_bad_host_blocks_all_unrepaired_refuted.

Theorem C14_backslash_tag_altered_unrepaired_refuted :
  svc_tags pfx reg_backslash = [bs "a\b"]
  /\ ex_parsed_tags_unrepaired reg_backslash = Ok [[bs "a\\b"]]
  /\ existsb (F_C14_altering_unrepaired all_print pweight_dec idcanon anyglob) (ex_intents reg_backslash) = true.
Proof. exact backslash_tag_altered_unrepaired_refuted. Qed.
Print Assumptions C14_backslash_tag_altered_unrepaired_refuted.

Theorem C14_control_byte_tag_altered_unrepaired_refuted :
  svc_tags pfx reg_ctrl = [[97; 1; 98]]
  /\ ex_parsed_tags_unrepaired reg_ctrl = Ok [[bs "a\x01b"]]
  /\ existsb (F_C14_altering_unrepaired all_print pweight_dec idcanon anyglob) (ex_intents reg_ctrl) = true.
Proof. exact control_byte_tag_altered_unrepaired_refuted. Qed.
Print Assumptions C14_control_byte_tag_altered_unrepaired_refuted.

Theorem C14_quote_stable_plain : forall isprint s,
  forallb plain s = true -> quote_stable isprint s = true.
Proof. exact quote_stable_plain. Qed.
Print Assumptions C14_quote_stable_plain.

(* ---------------- the loop around makeConfig: ServiceMonitor.Watch (Model/ServiceWatch.v) ----------------
   "... and never prevents or delays route updates for other services", as a statement about WHEN
   the text of the current registrations is published.  A trace is what consul holds and answers
   turn by turn of the loop (one turn = one tick; the 1 s sleep after a failed round is the distance
   between two turns): its index, whether the health query answers an error, which catalog lookups
   fail, the catalog entries of the passing instances.  [watch_turn]: the blocking query stays open
   while consul's index is not beyond the remembered one; a failed health query or a failed lookup of
   ANY passing service sends nothing (c8f84e8) and leaves the remembered index alone; otherwise the
   text is sent and the index remembered. *)

(* For EVERY trace (index never going back, makeConfig's result a function of the index when it
   succeeds), in blocking and in poll mode: at every turn at which consul can be read, the
   configuration sent last is the configuration of the state consul holds at that turn. *)
Theorem C14_watch_current_when_readable : forall (T : Type) (content : N -> T) poll (vs : list (view T)) v c,
  nondecreasing T (vs ++ [v]) -> Forall (faithful T content) (vs ++ [v]) ->
  v_health_err v = false -> v_config v = Some c ->
  last_sent T (watch_sent T poll (vs ++ [v])) = Some c.
Proof. exact watch_current_when_readable. Qed.
Print Assumptions C14_watch_current_when_readable.

(* The retry form: after any history, any number (>= 1) of failed rounds at some index, then the
   failure is lifted and consul's index does NOT move: the very next turn publishes the current state. *)
Theorem C14_watch_retry_needs_no_consul_change : forall (T : Type) (content : N -> T) poll before (failed : view T) n lifted c,
  v_index lifted = v_index failed ->
  nondecreasing T (before ++ [failed]) -> Forall (faithful T content) (before ++ [failed]) ->
  faithful T content lifted ->
  v_health_err lifted = false -> v_config lifted = Some c ->
  last_sent T (watch_sent T poll ((before ++ repeat failed (S n)) ++ [lifted])) = Some c.
Proof. exact watch_retry_needs_no_consul_change. Qed.
Print Assumptions C14_watch_retry_needs_no_consul_change.

(* What is sent at a turn is what makeConfig made at THAT turn after a successful health query:
   nothing stale, nothing partial, one text per turn at most. *)
Theorem C14_watch_sends_only_current : forall (T : Type) poll (vs : list (view T)) last k c,
  In c (nth k (snd (watch_from T poll last vs)) []) ->
  exists v, nth_error vs k = Some v /\ v_health_err v = false /\ v_config v = Some c
            /\ nth k (snd (watch_from T poll last vs)) [] = [c].
Proof. exact watch_sends_only_current. Qed.
Print Assumptions C14_watch_sends_only_current.

Theorem C14_watch_failed_turn_keeps_index : forall (T : Type) poll last (v : view T),
  v_health_err v = true \/ v_config v = None -> watch_turn T poll last v = (last, []).
Proof. exact watch_failed_turn_keeps_index. Qed.
Print Assumptions C14_watch_failed_turn_keeps_index.

(* Composed with makeConfig and the table: at every turn at which consul can be read (the health
   query answers, no lookup of a passing service fails) the text fabio routes by is the text of the
   registrations consul holds at that turn; NewTable accepts it and the table holds the target of
   every emitted command of every service and nothing else. *)
Theorem C14_monitor_current_when_readable : forall pweight canon glob_ok env prefix poll ms m,
  StronglySorted moment_le (ms ++ [m]) -> content_by_index (ms ++ [m]) ->
  readable m = true ->
  let text := monitor_text pweight canon glob_ok env prefix (m_regs m) in
  last_sent str (monitor_sent pweight canon glob_ok env prefix poll (ms ++ [m])) = Some text
  /\ exists t, new_table pweight canon glob_ok text = Ok t
      /\ (forall g c d, In g (m_regs m) -> In c (build pweight canon glob_ok env prefix g) ->
            parse_line pweight c = Ok (Some d) ->
            exists url tg, canon (d_dst d) = Some url
             /\ In (lower (fst (hostpath (d_src d))), snd (hostpath (d_src d)), tg) (flat t)
             /\ same_target (d_svc d) url (w_clamp (d_w d)) (d_tags d) tg = true)
      /\ (forall x, In x (flat t) -> exists g c d url, In g (m_regs m) /\ In c (build pweight canon glob_ok env prefix g)
             /\ parse_line pweight c = Ok (Some d) /\ canon (d_dst d) = Some url /\ x = trip d url).
Proof. exact monitor_current_when_readable. Qed.
Print Assumptions C14_monitor_current_when_readable.

(* the phase form the correspondence cases are written in is the same loop, grouped *)
Theorem C14_monitor_phases_is_loop : forall pweight canon glob_ok env prefix poll phases last,
  concat (monitor_phases pweight canon glob_ok env prefix poll last phases)
  = concat (snd (watch_from str poll last
      (map (view_of pweight canon glob_ok env prefix) (flat_map (fun p : moment * nat => repeat (fst p) (snd p)) phases)))).
Proof. exact monitor_phases_is_loop. Qed.
Print Assumptions C14_monitor_phases_is_loop.

(* non-vacuous: 'good' is published at index 5; at index 6 'half' has joined while its catalog
   lookup fails for two rounds; the lookup recovers, consul's index stays 6, and the next turn
   publishes both services *)
Theorem C14_monitor_nonvacuous :
  StronglySorted moment_le ([ex_m1; ex_m2; ex_m2] ++ [ex_m3])
  /\ content_by_index ([ex_m1; ex_m2; ex_m2] ++ [ex_m3])
  /\ readable ex_m2 = false /\ readable ex_m3 = true
  /\ monitor_sent pweight_dec idcanon anyglob env_dc pfx false ([ex_m1; ex_m2; ex_m2] ++ [ex_m3])
     = [[ex_text [reg_good]]; []; []; [ex_text [reg_good; reg_half]]]
  /\ ex_text [reg_good; reg_half] <> ex_text [reg_good]
  /\ monitor_phases pweight_dec idcanon anyglob env_dc pfx false 0 [(ex_m1, 1%nat); (ex_m2, 2%nat); (ex_m3, 2%nat)]
     = [[ex_text [reg_good]]; []; [ex_text [reg_good; reg_half]]].
Proof. exact monitor_nonvacuous. Qed.
Print Assumptions C14_monitor_nonvacuous.

(* The order matters (this is NOT the code; it is the order of the seeded change C14-M): a loop that
   remembers the index before makeConfig has succeeded keeps routing by the old state for as long
   as consul does not change again, on the very trace on which the real order recovers at once. *)
Theorem C14_watch_index_first_refuted : forall n,
  last_sent N (snd (watch_from_index_first N false 0 (ex_views_before ++ repeat ex_view_lifted n))) = Some 10
  /\ last_sent N (watch_sent N false (ex_views_before ++ repeat ex_view_lifted (S n))) = Some 20.
Proof. exact watch_index_first_refuted. Qed.
Print Assumptions C14_watch_index_first_refuted.
