(** C14 -- every service registration yields route commands fabio itself accepts
    (registry/consul/routecmd.go build / parseURLPrefixTag, registry/consul/service.go makeConfig,
    route/parse_new.go, route/table.go NewTable / addRoute).
    This file contains only statements, [exact], and [Print Assumptions].

    [intents env prefix g] are the values routecmd.build computes for the routing tags of a catalog
    entry g (service, route, destination, weight literal, plain tags, passed-through options);
    [render_intent] is the line of text it writes for one of them; [build] = map render_intent o intents.
    [isprint], [pweight], [canon], [glob_ok] stand for strconv.IsPrint, strconv.ParseFloat, url.Parse,
    glob.Compile: the theorems hold whatever these libraries answer.
    [expressible] is the decidable domain (Model/RouteCmd.v): name, route and destination are
    non-empty and free of white space, the path and the lower-cased host compile as globs, the destination parses as a URL,
    the weight literal is accepted by ParseFloat, tags and options contain no double quote, tags no
    comma / newline / outer space, a sole tag is not empty, and strconv.Quote leaves the joined tags and
    options unchanged (true of all printable ASCII except the double quote and the backslash). *)
From Coq Require Import String List NArith ZArith.
From Fabio Require Import Lib.Outcome Lib.Bytes Model.WtF64 Model.TableCmd Model.RouteText Model.RouteCmd
                          Proofs.TableCmd Proofs.RouteCmd.
Import ListNotations.
Local Open Scope N_scope.

(* (1), character level, full strength: every command routecmd.build makes from an expressible
   entry is accepted by route.Parse as exactly one 'route add' definition that says what the entry
   says: service, source, destination, weight, tags, options. *)
Theorem C14_build_parse_denotes : forall isprint pweight canon glob_ok env prefix g,
  expressible isprint pweight canon glob_ok env prefix g = true ->
  Forall (fun i => exists d, parse pweight (render_intent isprint i) = Ok [d]
                    /\ intent_def pweight i = Ok d
                    /\ d_cmd d = CmdAdd /\ d_svc d = g_name g /\ d_src d = i_route i /\ d_dst d = i_dst i
                    /\ parse_weight pweight (Some (i_weight i)) = Ok (d_w d)
                    /\ d_tags d = svc_tags prefix g /\ d_opts d = opts_map (i_opts i))
         (intents env prefix g).
Proof. exact build_parse_denotes. Qed.
Print Assumptions C14_build_parse_denotes.

(* The parser is line-local: a list of lines is accepted iff every line is ... *)
Theorem C14_parse_lines_independent : forall pweight ls,
  is_ok (parse_lines pweight ls) = forallb (line_ok pweight) ls.
Proof. exact parse_lines_independent. Qed.
Print Assumptions C14_parse_lines_independent.

(* ... so one rejected line rejects the whole text, whatever the other lines are. *)
Theorem C14_one_bad_line_rejects_all : forall pweight a l b,
  line_ok pweight l = false -> is_ok (parse_lines pweight (a ++ l :: b)) = false.
Proof. exact one_bad_line_rejects_all. Qed.
Print Assumptions C14_one_bad_line_rejects_all.

(* (2) is FALSE of the code (finding F-C14-1, region F_C14_blocking): the well-formed service alone
   gets its route; beside one entry with a tag containing a double quote, with weight=abc, or with
   a space in its name, NewTable rejects the whole text and no service gets a route. *)
Theorem C14_bad_registration_blocks_all_refuted :
  ex_expressible reg_good = true
  /\ (exists t, ex_table [reg_good] = Ok t /\ length (flat t) = 1%nat)
  /\ existsb (F_C14_blocking pweight_dec idcanon anyglob) (ex_intents reg_quote) = true
  /\ ex_table [reg_good; reg_quote] = Err e_add_invalid
  /\ existsb (F_C14_blocking pweight_dec idcanon anyglob) (ex_intents reg_weight_abc) = true
  /\ ex_table [reg_good; reg_weight_abc] = Err e_weight_value
  /\ existsb (F_C14_blocking pweight_dec idcanon anyglob) (ex_intents reg_name_space) = true
  /\ ex_table [reg_good; reg_name_space] = Err e_add_invalid.
Proof. exact bad_registration_blocks_all_refuted. Qed.
Print Assumptions C14_bad_registration_blocks_all_refuted.

Theorem C14_independent_of_other_registrations_refuted :
  ~ (forall regs g, In g regs -> ex_expressible g = true -> exists t, ex_table regs = Ok t).
Proof. exact independent_of_other_registrations_refuted. Qed.
Print Assumptions C14_independent_of_other_registrations_refuted.

(* (1) outside the domain (finding F-C14-2, region F_C14_altering): accepted, but other tags. *)
Theorem C14_backslash_tag_altered_refuted :
  svc_tags pfx reg_backslash = [bs "a\b"]
  /\ ex_parsed_tags reg_backslash = Ok [[bs "a\\b"]]
  /\ existsb (F_C14_altering all_print pweight_dec idcanon anyglob) (ex_intents reg_backslash) = true
  /\ exists t, ex_table [reg_good; reg_backslash] = Ok t
       /\ map (fun x => t_tags (snd x)) (flat t) = [[bs "blue"]; [bs "a\\b"]].
Proof. exact backslash_tag_altered_refuted. Qed.
Print Assumptions C14_backslash_tag_altered_refuted.

Theorem C14_comma_tag_split_refuted :
  svc_tags pfx reg_comma = [bs "a,b"]
  /\ ex_parsed_tags reg_comma = Ok [[bs "a"; bs "b"]]
  /\ existsb (F_C14_altering all_print pweight_dec idcanon anyglob) (ex_intents reg_comma) = true.
Proof. exact comma_tag_split_refuted. Qed.
Print Assumptions C14_comma_tag_split_refuted.

Theorem C14_control_byte_tag_altered_refuted :
  svc_tags pfx reg_ctrl = [[97; 1; 98]]
  /\ ex_parsed_tags reg_ctrl = Ok [[bs "a\x01b"]]
  /\ existsb (F_C14_altering all_print pweight_dec idcanon anyglob) (ex_intents reg_ctrl) = true.
Proof. exact control_byte_tag_altered_refuted. Qed.
Print Assumptions C14_control_byte_tag_altered_refuted.

(* (2) on the domain: when every entry is expressible, the text exactly as makeConfig assembles it
   (all commands, reverse-sorted, newline-joined) is accepted by NewTable; the table holds, under
   (lower-cased host, path), a target with the service, URL, weight and tags of every routing tag
   of every entry (the options too unless an identical target absorbed it, C05_add_accumulates),
   and holds nothing that no entry asked for. *)
Theorem C14_registrations_on_domain : forall isprint pweight canon glob_ok env prefix regs,
  (forall g, In g regs -> expressible isprint pweight canon glob_ok env prefix g = true) ->
  exists t, new_table pweight canon glob_ok
              (config_text (sort_lines_desc (flat_map (build isprint env prefix) regs))) = Ok t
    /\ (forall g i, In g regs -> In i (intents env prefix g) ->
          exists d url tg, intent_def pweight i = Ok d /\ canon (i_dst i) = Some url
           /\ In (lower (fst (hostpath (i_route i))), snd (hostpath (i_route i)), tg) (flat t)
           /\ same_target (g_name g) url (w_clamp (d_w d)) (svc_tags prefix g) tg = true)
    /\ (forall x, In x (flat t) -> exists g i d url, In g regs /\ In i (intents env prefix g)
           /\ intent_def pweight i = Ok d /\ canon (i_dst i) = Some url /\ x = trip d url).
Proof. exact registrations_on_domain. Qed.
Print Assumptions C14_registrations_on_domain.

(* the same for any order of the lines *)
Theorem C14_table_on_domain : forall isprint pweight canon glob_ok (is : list intent),
  Forall (fun i => intent_expressible isprint pweight canon glob_ok i = true) is ->
  exists t, new_table pweight canon glob_ok (config_text (map (render_intent isprint) is)) = Ok t
    /\ (forall i, In i is -> exists d url tg, intent_def pweight i = Ok d /\ canon (i_dst i) = Some url
           /\ In (lower (fst (hostpath (i_route i))), snd (hostpath (i_route i)), tg) (flat t)
           /\ same_target (i_svc i) url (w_clamp (d_w d)) (i_tags i) tg = true)
    /\ (forall x, In x (flat t) -> exists i d url, In i is /\ intent_def pweight i = Ok d
           /\ canon (i_dst i) = Some url /\ x = trip d url).
Proof. exact table_on_domain. Qed.
Print Assumptions C14_table_on_domain.

(* the domain is wide: all printable ASCII except the double quote and the backslash is left alone
   by strconv.Quote ... *)
Theorem C14_quote_stable_plain : forall isprint s,
  forallb plain s = true -> quote_stable isprint s = true.
Proof. exact quote_stable_plain. Qed.
Print Assumptions C14_quote_stable_plain.

(* ... and non-vacuous: an entry with an IPv6 address, $DC expansion, an upper-case host, proto=,
   weight=, passed-through options, a host:port and a :port route and tags with an inner space is
   expressible; its commands and the table built beside another service are as expected. *)
Theorem C14_expressible_nonvacuous :
  ex_expressible reg_good = true /\ ex_expressible reg_rich = true
  /\ ex_build reg_rich =
       [bs "route add api dc1.example.com/v1/dc1 https://[2001:db8::17]:8443 weight 0.25 tags ""canary,a b"" opts ""strip=/v1 host=dst""";
        bs "route add api Foo.com:8080 http://[2001:db8::17]:8443/ tags ""canary,a b""";
        bs "route add api :5000 tcp://[2001:db8::17]:8443 tags ""canary,a b"""]
  /\ exists t, ex_table [reg_good; reg_rich] = Ok t /\ length (flat t) = 4%nat
               /\ map fst t = [[]; bs "dc1.example.com"; bs "foo.com:8080"; bs ":5000"].
Proof. exact expressible_nonvacuous. Qed.
Print Assumptions C14_expressible_nonvacuous.

(* F-C14-1 once more, since /repo c9fb527: a routing tag whose (lower-cased) host does not compile
   as a glob is rejected by addRoute and takes the whole text with it. *)
Theorem C14_bad_host_blocks_all_refuted :
  expressible all_print pweight_dec idcanon ex_glob env_dc pfx reg_good = true
  /\ existsb (F_C14_blocking pweight_dec idcanon ex_glob) (ex_intents reg_bad_host) = true
  /\ new_table pweight_dec idcanon ex_glob (ex_text [reg_good; reg_bad_host]) = Err e_invalid_host
  /\ exists t, new_table pweight_dec idcanon ex_glob (ex_text [reg_good]) = Ok t /\ length (flat t) = 1%nat.
Proof. exact bad_host_blocks_all_refuted. Qed.
Print Assumptions C14_bad_host_blocks_all_refuted.
