(** C16 — gRPC calls are proxied transparently to a matching backend
    (proxy/grpc_handler.go, main.go:167-188).  Statements, [exact], [Print Assumptions] only.
    Histories: [Call md path k | SetTable t | CleanupTick | ConnShutdown u] from any state. *)
From Coq Require Import String List NArith Bool.
From Fabio Require Import Lib.Outcome Lib.Bytes Model.GrpcPool Proofs.GrpcPool Model.GrpcTransport Proofs.GrpcTransport
  Model.GrpcKeepalive Proofs.GrpcKeepalive Model.GrpcListeners Proofs.GrpcListeners
  Model.GrpcInFlight Proofs.GrpcInFlight.
From Fabio Require Model.Lookup Proofs.Lookup.
Import ListNotations.
Local Open Scope N_scope.

(* every state reached by a history from the empty pool is well-formed (the hypothesis of
   the theorems below) *)
Theorem C16_reachable_wf : forall ng t ops, wf (s_pool (run ng (mks t p_init) ops)).
Proof. exact reachable_wf. Qed.
Print Assumptions C16_reachable_wf.

(* Sequential calls for one backend URL share one connection while it is live: after a call
   served on connection c of u, for every history in which no cleanup tick finds u outside
   the table and u's connection does not enter Shutdown (calls to anybody and table changes
   are free), every later call routed to u is served on c, and nothing was dialled for u. *)
Theorem C16_one_conn_per_backend : forall ng s m p k u c ops m' p' k' c',
  wf (s_pool s) ->
  call_conn ng s m p k = Some (u, c) ->
  undisturbed ng u (step ng s (Call m p k)) ops ->
  call_conn ng (run ng (step ng s (Call m p k)) ops) m' p' k' = Some (u, c') ->
  c' = c /\
  count_dials (s_pool (run ng (step ng s (Call m p k)) ops)) u = count_dials (s_pool (step ng s (Call m p k))) u.
Proof. exact calls_share_connection. Qed.
Print Assumptions C16_one_conn_per_backend.

Theorem C16_one_conn_per_backend_nonvacuous :
  call_conn false ex_s0 [] (bs "/pkg.Svc/Get") 0 = Some (ex_u, 0) /\
  undisturbed false ex_u (step false ex_s0 (Call [] (bs "/pkg.Svc/Get") 0))
     [Call ex_md (bs "/pkg.Svc/Get") 0; CleanupTick; ConnShutdown ex_v; Call [] (bs "/x") 0] /\
  call_conn false (run false (step false ex_s0 (Call [] (bs "/pkg.Svc/Get") 0))
     [Call ex_md (bs "/pkg.Svc/Get") 0; CleanupTick; ConnShutdown ex_v; Call [] (bs "/x") 0])
     [] (bs "/pkg.Svc/Get") 0 = Some (ex_u, 0).
Proof. exact share_nonvacuous. Qed.
Print Assumptions C16_one_conn_per_backend_nonvacuous.

(* a cleanup tick keeps the live connection of a backend that is still a target *)
Theorem C16_tick_keeps_routed : forall urls s u c,
  wf s -> In u urls -> holds s u c -> holds (p_tick urls s) u c.
Proof. exact tick_keeps_routed. Qed.
Print Assumptions C16_tick_keeps_routed.

(* After the first cleanup tick that follows a table without u (calls and connection
   shutdowns in between, from any state): u is not pooled, the connection it had is closed,
   and nothing was dialled for u in between. *)
Theorem C16_dropped_after_leaving : forall ng calls s t u,
  ~ In u (table_urls t) -> Forall no_table_change calls ->
  let s' := run ng s (SetTable t :: calls ++ [CleanupTick]) in
  assoc u (p_pool (s_pool s')) = None /\
  (forall c, assoc u (p_pool (s_pool s)) = Some c -> memN c (p_shut (s_pool s')) = true) /\
  count_dials (s_pool s') u = count_dials (s_pool s) u.
Proof. exact dropped_after_leaving. Qed.
Print Assumptions C16_dropped_after_leaving.

Theorem C16_dropped_after_leaving_nonvacuous :
  let s := run false ex_s0 [Call [] (bs "/pkg.Svc/Get") 0] in
  let t := [([], [(bs "/", [ex_v])])] in
  assoc ex_u (p_pool (s_pool s)) = Some 0 /\ ~ In ex_u (table_urls t) /\
  Forall no_table_change [Call [] (bs "/pkg.Svc/Get") 0; ConnShutdown ex_v] /\
  memN 0 (p_shut (s_pool (run false s (SetTable t :: [Call [] (bs "/pkg.Svc/Get") 0; ConnShutdown ex_v] ++ [CleanupTick])))) = true.
Proof. exact dropped_nonvacuous. Qed.
Print Assumptions C16_dropped_after_leaving_nonvacuous.

(* A call without a matching route leaves the whole state (pool, dial log) as it was, is
   served on no connection, and is answered NotFound "no route found" with no backend view. *)
Theorem C16_no_route_no_dial : forall ng s m p k,
  lookup (s_tbl s) ng (dsthost m) p = None -> step ng s (Call m p k) = s /\ call_conn ng s m p k = None.
Proof. exact no_route_no_dial. Qed.
Print Assumptions C16_no_route_no_dial.

(* (unfolding lemma of call_outcome) *)
Theorem C16_no_route_not_found : forall t ng ci p,
  ci_upath ci = Some p -> lookup t ng (dsthost (ci_md ci)) p = None ->
  call_outcome t ng ci = (None, err_view code_not_found "no route found").
Proof. exact no_route_not_found. Qed.
Print Assumptions C16_no_route_not_found.

(* The route is found from the method path and the dsthost metadata alone ... *)
Theorem C16_lookup_by_method_and_dsthost : forall t noglob m m' upath,
  dsthost m = dsthost m' -> icpt_lookup t noglob (Some m) upath = icpt_lookup t noglob (Some m') upath.
Proof. exact lookup_by_method_and_dsthost. Qed.
Print Assumptions C16_lookup_by_method_and_dsthost.

(* ... dsthost counts only when it has exactly one value ... *)
Theorem C16_dsthost_single : forall h, dsthost [(k_dsthost, [h])] = h.
Proof. exact dsthost_single. Qed.
Print Assumptions C16_dsthost_single.
Theorem C16_dsthost_several_ignored : forall h1 h2 r, dsthost [(k_dsthost, h1 :: h2 :: r)] = [].
Proof. exact dsthost_several. Qed.
Print Assumptions C16_dsthost_several_ignored.

(* ... and the backend is chosen among the targets of the route that C03's model of
   Table.Lookup (Model/Lookup.v, glob and no-glob variants, composed, not re-modelled) selects
   for (host = the single dsthost value, else "" -- the code does not consult :authority --,
   path = the parsed full method path) under the prefix matcher and the configured
   GlobMatchingDisabled: for all tables and calls. *)
(* (definitional: this is HOW the model composes C03's lookup; its tie to the code is the
   correspondence run, the lookup and call classes) *)
Theorem C16_backend_is_c03_lookup : forall t noglob m p,
  icpt_lookup t noglob (Some m) (Some p) =
  Some (match Fabio.Model.Lookup.lookup (to_c03 t) (dsthost m) false p Fabio.Model.Lookup.MPrefix noglob with
        | Some (k, p', _) => route_targets t k p'
        | None => None
        end).
Proof. exact icpt_lookup_is_c03. Qed.
Print Assumptions C16_backend_is_c03_lookup.

(* With C03_lookup_sound (keys lower-case; outside C03's region 6, gobwas/glob deviating from
   glob semantics): the route's host key matches the host named by dsthost -- as a glob, or
   literally when glob matching is disabled; case-insensitively, :80 removed -- or the route
   has no host, and its path is a prefix of the method path. *)
Theorem C16_lookup_sound : forall t noglob host path ts,
  Fabio.Proofs.Lookup.wf_keys (to_c03 t) ->
  Fabio.Model.Lookup.F_C03_gobwas_overlap noglob false Fabio.Model.Lookup.MPrefix (to_c03 t) host path = false ->
  lookup t noglob host path = Some ts ->
  ts <> [] /\
  exists k p id, Fabio.Model.Lookup.is_candidate noglob false Fabio.Model.Lookup.MPrefix host path (k, p, id) = true /\
                 In (k, p, id) (Fabio.Model.Lookup.all_routes (to_c03 t)) /\
                 exists rs, assoc k t = Some rs /\ In (p, ts) rs.
Proof. exact lookup_sound. Qed.
Print Assumptions C16_lookup_sound.

(* no backend only if C03's lookup selects nothing (C03_lookup_complete: no candidate) or the
   selected route has no target (outside the domain: route add always gives one) *)
Theorem C16_lookup_none : forall t noglob host path,
  lookup t noglob host path = None ->
  Fabio.Model.Lookup.lookup (to_c03 t) host false path Fabio.Model.Lookup.MPrefix noglob = None \/
  exists k p id, Fabio.Model.Lookup.lookup (to_c03 t) host false path Fabio.Model.Lookup.MPrefix noglob = Some (k, p, id) /\
                 route_targets t k p = None.
Proof. exact lookup_none. Qed.
Print Assumptions C16_lookup_none.

Theorem C16_lookup_nonvacuous :
  lookup ex_tbl false (dsthost ex_md) (bs "/pkg.Svc/Get") = Some [ex_v] /\
  lookup ex_tbl false (dsthost []) (bs "/pkg.Svc/Get") = Some [ex_u] /\
  lookup ex_tbl true (dsthost ex_md) (bs "/pkg.Svc/Get") = Some [ex_v] /\
  lookup [(bs "betatest", [(bs "/pkg.Svc", [ex_v])])] false [] (bs "/pkg.Svc/Get") = None /\
  lookup ex_gtbl false (bs "X.Beta.Example:80") (bs "/pkg.Svc/Get") = Some [ex_v] /\
  lookup ex_gtbl true (bs "X.Beta.Example:80") (bs "/pkg.Svc/Get") = Some [ex_u] /\
  lookup ex_gtbl false [] (bs "/pkg.Svc/Get") = Some [ex_u].
Proof. exact lookup_nonvacuous. Qed.
Print Assumptions C16_lookup_nonvacuous.

(* only targets of the current table are ever contacted *)
Theorem C16_routed_target_in_table : forall t noglob host path ts,
  lookup t noglob host path = Some ts -> forall u, In u ts -> In u (table_urls t).
Proof. exact lookup_in_table. Qed.
Print Assumptions C16_routed_target_in_table.

(* Transparency, MODELLED-NOT-VERIFIED: the relay itself is mwitkow/grpc-proxy + grpc-go.  [transparent]
   (Proofs/GrpcPool.v) is the property's clause on what the two ends see, stated without the
   relay's mechanism: per direction the frames that arrive are the frames sent, in order (the
   backend has the prefix it chose to read); every custom (non-reserved) metadata key arrives
   with the same values in the same order and nothing else arrives; trailers likewise, headers
   whenever the backend sends a message; the status code as it is, and the message of every
   non-OK status.  What is proved is that the model's relay -- forwarding loops frame by frame,
   header sent just before the first message, metadata copied by the director and filtered by
   the client transport, status returned as received -- meets it; the harness checks the real
   relay (through the real newGrpcProxy) against the model. *)
Theorem C16_relay_transparent_modelled : forall ci, transparent ci (fst (relay ci)) (snd (relay ci)).
Proof. exact relay_transparent. Qed.
Print Assumptions C16_relay_transparent_modelled.

Theorem C16_relay_transparent_nonvacuous :
  let ci := mkcallin [(bs "user-agent", [bs "x"]); (bs "k", [bs "1"; bs "2"])] (bs "/p.S/M") (Some (bs "/p.S/M"))
                     [bs "a"; bs "b"] (mkscript 0 [(bs "h", [bs "v"])] [bs "r"] [(bs "t", [[]])] 5 (bs "gone")) in
  bv_md (fst (relay ci)) = [(bs "k", [bs "1"; bs "2"])] /\ bv_msgs (fst (relay ci)) = [bs "a"; bs "b"] /\
  snd (relay ci) = mkcview [(bs "h", [bs "v"])] [bs "r"] [(bs "t", [[]])] 5 (bs "gone").
Proof. exact relay_transparent_nonvacuous. Qed.
Print Assumptions C16_relay_transparent_nonvacuous.

(* mechanism lemma (what the property's "whenever it sends at least one message" allows for):
   without a message from the backend its headers are not forwarded *)
Theorem C16_relay_no_message_no_header : forall ci, sc_msgs (ci_script ci) = [] -> cv_hdr (snd (relay ci)) = [].
Proof. exact relay_no_message_no_header. Qed.
Print Assumptions C16_relay_no_message_no_header.

(* unfolding lemma: a routed call is the relay *)
Theorem C16_routed_call_relayed : forall t ng ci p ts,
  ci_upath ci = Some p -> lookup t ng (dsthost (ci_md ci)) p = Some ts ->
  call_outcome t ng ci = (Some (ts, fst (relay ci)), snd (relay ci)).
Proof. exact routed_call_relayed. Qed.
Print Assumptions C16_routed_call_relayed.

(* In sequential histories no connection is lost: whatever was dialled is pooled or closed. *)
Theorem C16_sequential_no_orphans : forall ops urls c, orphan (snd (p_run (urls, p_init) ops)) c = false.
Proof. exact sequential_no_orphans_init. Qed.
Print Assumptions C16_sequential_no_orphans.

(* The UNREPAIRED Get (before /repo 8fc2c4a "fix: concurrent first gRPC calls to one backend leak
   connections"; F-C16-1, reproduced on the real pool before the repair): the map was read and
   the dialled connection stored (Set) in two separate critical sections.  Schedule
   [read A; read B; dial+store A; dial+store B] of two first calls for one backend: both dial,
   B's store overwrites A's, and connection 0 is live, in nobody's pool, and stays so under
   every later history of calls, table changes, ticks and shutdowns.  [run2]/[thread_step] are
   the unrepaired variant of the model ([p_dial_set]); schedules are outside C16's quantifier. *)
Theorem C16_concurrent_dial_leak_refuted : forall u,
  let '(s, a, b) := run2 p_init u AtRead AtRead leak_sched in
  a = Done 0 /\ b = Done 1 /\ orphan s 0 = true /\ count_dials s u = 2 /\ wf s /\
  forall urls ops, orphan (snd (p_run (urls, s) ops)) 0 = true.
Proof. exact concurrent_dial_leak. Qed.
Print Assumptions C16_concurrent_dial_leak_refuted.

Theorem C16_sequential_get_no_leak : forall u,
  let '(s, a, b) := run2 p_init u AtRead AtRead [false; false; true; true] in
  a = Done 0 /\ b = Done 0 /\ count_dials s u = 1 /\ forall c, orphan s c = false.
Proof. exact sequential_get_no_leak. Qed.
Print Assumptions C16_sequential_get_no_leak.

(* Message size limits, with the direction convention main.go:185-186 and
   grpc_handler.go:264 have today: proxy.grpcmaxrxmsgsize bounds what fabio receives (the
   caller's request, and the backend's response), proxy.grpcmaxtxmsgsize what it sends to the
   caller.  A request within Rx reaches the backend whatever Tx is; a call whose request is
   within Rx and whose response is within both limits is relayed with status OK. *)
(* (mechanism lemmas about the three-line relay_sized; limits are not a clause of the property) *)
Theorem C16_relay_within_limits : forall rx tx req resp,
  req <= rx -> resp <= tx -> resp <= rx -> relay_sized rx tx req resp = mksized true true 0.
Proof. exact relay_within_limits. Qed.
Print Assumptions C16_relay_within_limits.

Theorem C16_request_limit_is_rx : forall rx tx req resp,
  sz_backend_got (relay_sized rx tx req resp) = true <-> req <= rx.
Proof. exact request_limit_is_rx. Qed.
Print Assumptions C16_request_limit_is_rx.

Theorem C16_response_limit_is_min : forall rx tx req resp,
  sz_caller_got (relay_sized rx tx req resp) = true <-> req <= rx /\ resp <= tx /\ resp <= rx.
Proof. exact response_limit_is_min. Qed.
Print Assumptions C16_response_limit_is_min.

Theorem C16_sized_status : forall rx tx req resp,
  sz_code (relay_sized rx tx req resp) = 0 <-> sz_caller_got (relay_sized rx tx req resp) = true.
Proof. exact sized_status. Qed.
Print Assumptions C16_sized_status.

Theorem C16_relay_within_limits_nonvacuous :
  relay_sized 8388608 1048576 2097152 10 = mksized true true 0 /\
  relay_sized 8388608 1048576 10 2097152 = mksized true false 8 /\
  relay_sized 1048576 8388608 10 2097152 = mksized true false 8 /\
  relay_sized 1048576 8388608 2097152 10 = mksized false false 8.
Proof. exact relay_within_limits_nonvacuous. Qed.
Print Assumptions C16_relay_within_limits_nonvacuous.

(* The code as it is (since 8fc2c4a): Get = read-locked lookup; dial; atomic check-and-set
   (setIfAbsent).  For EVERY schedule of any number of concurrent Gets for one target, from any
   well-formed state without orphans: once all callers have finished, the state is well-formed,
   every connection ever dialled is pooled or closed (no orphans), and every caller was handed
   the live connection that is pooled for the target. *)
Theorem C16_concurrent_gets_converge : forall sched s u n,
  wf s -> accounted s ->
  let s' := fst (grun s u (repeat GRead n) sched) in
  let ths' := snd (grun s u (repeat GRead n) sched) in
  forallb g_done ths' = true ->
  wf s' /\ accounted s' /\ (forall c, orphan s' c = false) /\
  forall c, In (GDone c) ths' -> holds s' u c.
Proof. exact concurrent_gets_converge. Qed.
Print Assumptions C16_concurrent_gets_converge.

(* ... hence exactly one connection: all callers share it *)
Theorem C16_concurrent_gets_one_connection : forall sched s u n c1 c2,
  wf s -> accounted s ->
  let ths' := snd (grun s u (repeat GRead n) sched) in
  forallb g_done ths' = true -> In (GDone c1) ths' -> In (GDone c2) ths' -> c1 = c2.
Proof. exact concurrent_gets_one_connection. Qed.
Print Assumptions C16_concurrent_gets_one_connection.

(* the schedule that leaked before the repair: both miss, both dial, both reach the
   check-and-set; the second connection is closed and both callers get connection 0 *)
Theorem C16_concurrent_gets_nonvacuous : forall u,
  let r := grun p_init u [GRead; GRead] [0; 1; 0; 1; 0; 1]%nat in
  snd r = [GDone 0; GDone 0] /\ p_pool (fst r) = [(u, 0)] /\ p_shut (fst r) = [1] /\ count_dials (fst r) u = 2.
Proof. exact concurrent_gets_nonvacuous. Qed.
Print Assumptions C16_concurrent_gets_nonvacuous.

(* The history machine of the theorems above ([run] over Call / SetTable / CleanupTick /
   ConnShutdown) acts on the pool exactly as the sequence of Get / SetTable / tick / shutdown
   operations it resolves to ([p_run]): the operations the correspondence run executes on the
   real pool (CPool) and, through [run] itself, on the real proxy (CHistory). *)
Theorem C16_run_is_pool_run : forall ng ops s,
  abs_state (run ng s ops) = p_run (abs_state s) (run_pops ng s ops).
Proof. exact run_sim. Qed.
Print Assumptions C16_run_is_pool_run.

(* A matching route exists -> the call is routed (C03_lookup_complete carried over to the gRPC
   table: lower-case distinct keys, every route with a target, outside C03's region 6). *)
Theorem C16_lookup_complete : forall t noglob host path c,
  Fabio.Proofs.Lookup.wf_keys (to_c03 t) -> NoDup (map fst t) -> table_domain t = true ->
  Fabio.Model.Lookup.F_C03_gobwas_overlap noglob false Fabio.Model.Lookup.MPrefix (to_c03 t) host path = false ->
  In c (Fabio.Model.Lookup.all_routes (to_c03 t)) ->
  Fabio.Model.Lookup.is_candidate noglob false Fabio.Model.Lookup.MPrefix host path c = true ->
  lookup t noglob host path <> None.
Proof. exact lookup_complete. Qed.
Print Assumptions C16_lookup_complete.

(* the hypotheses of C16_lookup_sound / C16_lookup_complete hold for a table with a glob key *)
Theorem C16_lookup_sound_nonvacuous :
  Fabio.Proofs.Lookup.wf_keys (to_c03 ex_gtbl) /\ NoDup (map fst ex_gtbl) /\ table_domain ex_gtbl = true /\
  Fabio.Model.Lookup.F_C03_gobwas_overlap false false Fabio.Model.Lookup.MPrefix (to_c03 ex_gtbl) (bs "X.Beta.Example:80") (bs "/pkg.Svc/Get") = false /\
  lookup ex_gtbl false (bs "X.Beta.Example:80") (bs "/pkg.Svc/Get") = Some [ex_v] /\
  In (bs "*.beta.example", bs "/pkg.Svc", 0) (Fabio.Model.Lookup.all_routes (to_c03 ex_gtbl)) /\
  Fabio.Model.Lookup.is_candidate false false Fabio.Model.Lookup.MPrefix (bs "X.Beta.Example:80") (bs "/pkg.Svc/Get") (bs "*.beta.example", bs "/pkg.Svc", 0) = true.
Proof. exact lookup_sound_nonvacuous. Qed.
Print Assumptions C16_lookup_sound_nonvacuous.

(* For EVERY schedule of concurrent Gets for ANY targets interleaved with cleanup ticks, table
   changes and connection shutdowns, from any well-formed state without orphans: the state
   stays well-formed, and whenever all callers have finished every connection ever dialled is
   pooled or closed. *)
Theorem C16_concurrent_gets_no_orphans : forall sched urls s targets,
  wf s -> accounted s ->
  let st' := mrun (urls, s, map (fun u => (u, GRead)) targets) sched in
  wf (snd (fst st')) /\
  (forallb (fun t => g_done (snd t)) (snd st') = true ->
   accounted (snd (fst st')) /\ forall c, orphan (snd (fst st')) c = false).
Proof. exact concurrent_gets_no_orphans. Qed.
Print Assumptions C16_concurrent_gets_no_orphans.

(* ... and at the step at which a caller finishes it is handed the live connection pooled for
   its target at that moment ([minv]: the invariant of those schedules) *)
Theorem C16_concurrent_get_result : forall s l1 u p l2 c,
  minv s (l1 ++ (u, p) :: l2) -> g_done p = false -> snd (gstep s u p) = GDone c ->
  holds (fst (gstep s u p)) u c.
Proof. exact concurrent_get_result. Qed.
Print Assumptions C16_concurrent_get_result.

Theorem C16_concurrent_multi_nonvacuous :
  let a := [97] in let b := [98] in
  let st := mrun ([a; b], p_init, [(a, GRead); (a, GRead); (b, GRead)])
                 [MThread 0; MThread 1; MThread 2; MThread 0; MThread 1; MThread 2; MThread 0; MSetTable [b];
                  MThread 1; MTick; MThread 2; MShutdown b]%nat in
  snd st = [(a, GDone 0); (a, GDone 0); (b, GDone 2)] /\
  p_pool (snd (fst st)) = [(b, 2)] /\ p_shut (snd (fst st)) = [2; 1; 0] /\
  forallb (fun t => g_done (snd t)) (snd st) = true.
Proof. exact concurrent_multi_nonvacuous. Qed.
Print Assumptions C16_concurrent_multi_nonvacuous.

(* F-C16-2 (open): newConnection uses TLS only when the LISTENER has a tls.Config
   (target.URL.Scheme == "grpcs" && p.tlscfg != nil); behind a listener without TLS a grpcs://
   target is dialled in the clear and every call routed to it fails with Unavailable although
   the route matches and the backend is up.  Behind a TLS listener the same call is relayed. *)
Theorem C16_plaintext_listener_tls_backend_refuted :
  lookup ex_tls_tbl false (dsthost (ci_md ex_ci)) (bs "/pkg.Svc/Get") = Some [bs "grpcs://10.0.0.3:9443"] /\
  call_result false [] ex_tls_tbl false ex_ci 0 = (None, code_unavailable) /\
  call_result true [] ex_tls_tbl false ex_ci 0 = (Some (bs "grpcs://10.0.0.3:9443"), 0).
Proof. exact plaintext_listener_tls_backend_refuted. Qed.
Print Assumptions C16_plaintext_listener_tls_backend_refuted.

(* outside that region, with the backend up: the picked target is reached and the call ends
   with the backend's status *)
Theorem C16_routed_call_reaches_backend_on_domain : forall tl down t ng ci p ts k u,
  ci_upath ci = Some p -> lookup t ng (dsthost (ci_md ci)) p = Some ts -> nth_error ts k = Some u ->
  mem u down = false -> plaintext_to_tls tl u = false ->
  call_result tl down t ng ci k = (Some u, sc_code (ci_script ci)).
Proof. exact routed_call_reaches_backend. Qed.
Print Assumptions C16_routed_call_reaches_backend_on_domain.

(* ---- backends that lose their connections (Model/GrpcTransport.v) ----
   A pooled *grpc.ClientConn is a channel: it holds at most one transport to its backend; when
   the transport is lost (backend restarted on the same address, GOAWAY at MaxConnectionAge,
   reset) the channel goes Idle, not Shutdown, stays pooled, and the next call connects again.
   Histories: [XOp o] (an operation of the machine above) | [XLose u] (every transport leading
   to backend u is lost), from any state that satisfies the invariant [xinv] -- every state
   reached from the empty pool does.  [un u]: nobody answers at u. *)
Theorem C16_transport_invariant_reachable : forall ng un t ops, xinv (xrun ng un (x_init t) ops).
Proof. exact x_reachable_inv. Qed.
Print Assumptions C16_transport_invariant_reachable.

(* A transport loss is invisible to the pool: the table/pool component of a history with losses
   is the history of its pool operations.  Every theorem above about [run] therefore holds with
   any number of losses of any backend interleaved ... *)
Theorem C16_transport_loss_invisible_to_pool : forall ng un ops xs,
  x_st (xrun ng un xs ops) = run ng (x_st xs) (xproj ops).
Proof. exact xrun_st. Qed.
Print Assumptions C16_transport_loss_invisible_to_pool.

(* ... in particular: calls for one backend are served on ONE channel, and nothing is dialled
   for it, however often its transport is lost in between (reuse per backend). *)
Theorem C16_one_channel_across_transport_losses : forall ng un xs m p k u c ops m' p' k' c',
  wf (s_pool (x_st xs)) ->
  call_conn ng (x_st xs) m p k = Some (u, c) ->
  undisturbed ng u (step ng (x_st xs) (Call m p k)) (xproj ops) ->
  let xs' := xrun ng un (xstep ng un xs (XOp (Call m p k))) ops in
  call_conn ng (x_st xs') m' p' k' = Some (u, c') ->
  c' = c /\
  count_dials (s_pool (x_st xs')) u = count_dials (s_pool (step ng (x_st xs) (Call m p k))) u.
Proof. exact one_channel_across_losses. Qed.
Print Assumptions C16_one_channel_across_transport_losses.

(* A routed call is forwarded to its backend whatever was lost before: after the call, the live
   channel pooled for the backend holds a transport to that backend (the backend answers). *)
Theorem C16_routed_call_served_after_transport_loss : forall ng un xs m p k u c,
  xinv xs -> call_conn ng (x_st xs) m p k = Some (u, c) -> un u = false ->
  let xs' := xstep ng un xs (XOp (Call m p k)) in
  In (c, u) (x_up xs') /\ holds (s_pool (x_st xs')) u c.
Proof. exact call_has_transport. Qed.
Print Assumptions C16_routed_call_served_after_transport_loss.

(* What the backends see.  At every moment of every history a backend has at most one
   connection from the proxy open: begun - ended is 0 or 1. *)
Theorem C16_one_transport_per_backend : forall ng un t ops u,
  let xs := xrun ng un (x_init t) ops in
  x_ended_at xs u <= x_begun_at xs u <= x_ended_at xs u + 1.
Proof. exact one_transport_per_backend. Qed.
Print Assumptions C16_one_transport_per_backend.

(* A call that reaches backend u opens exactly one connection there if u has none at that moment
   (first call, or its connection was lost), none otherwise; it ends none; nobody else sees anything. *)
Theorem C16_call_connects_exactly_when_needed : forall ng un xs m p k u c, xinv xs ->
  call_conn ng (x_st xs) m p k = Some (u, c) -> un u = false ->
  let xs' := xstep ng un xs (XOp (Call m p k)) in
  x_begun_at xs' u = (if x_ended_at xs u <? x_begun_at xs u then x_begun_at xs u else x_begun_at xs u + 1) /\
  (forall v, x_ended_at xs' v = x_ended_at xs v) /\
  forall v, v <> u -> x_begun_at xs' v = x_begun_at xs v.
Proof. exact call_counts. Qed.
Print Assumptions C16_call_connects_exactly_when_needed.

(* The loss itself: every connection the backend had has ended, none is opened by it, nobody
   else is affected -- and the pool is as it was (C16_transport_loss_invisible_to_pool). *)
Theorem C16_transport_loss_counts : forall xs u, xinv xs ->
  let xs' := x_lose xs u in
  x_ended_at xs' u = x_begun_at xs u /\ x_begun_at xs' u = x_begun_at xs u /\
  forall v, v <> u -> x_begun_at xs' v = x_begun_at xs v /\ x_ended_at xs' v = x_ended_at xs v.
Proof. exact lose_counts. Qed.
Print Assumptions C16_transport_loss_counts.

(* A cleanup tick opens nothing; it ends every connection of a backend outside the table and
   none of a backend inside, with or without losses before. *)
Theorem C16_tick_transport_counts : forall ng un xs u, xinv xs ->
  let xs' := xstep ng un xs (XOp CleanupTick) in
  x_begun_at xs' u = x_begun_at xs u /\
  x_ended_at xs' u = (if mem u (table_urls (s_tbl (x_st xs))) then x_ended_at xs u else x_begun_at xs u).
Proof. exact tick_counts. Qed.
Print Assumptions C16_tick_transport_counts.

(* call; the backend loses the connection; call: served on the same channel 0 after a second
   transport was established, one dial in all, the hypotheses of the theorems above hold *)
Theorem C16_transport_loss_nonvacuous :
  let xs1 := xrun false ex_reach (x_init ex_tbl) [XOp (Call [] (bs "/pkg.Svc/Get") 0)] in
  let xs2 := xrun false ex_reach (x_init ex_tbl) [XOp (Call [] (bs "/pkg.Svc/Get") 0); XLose ex_u] in
  let xs3 := xrun false ex_reach (x_init ex_tbl) ex_lose_hist in
  call_conn false (x_st (x_init ex_tbl)) [] (bs "/pkg.Svc/Get") 0 = Some (ex_u, 0) /\
  x_up xs1 = [(0, ex_u)] /\ x_up xs2 = [] /\ (x_begun_at xs2 ex_u, x_ended_at xs2 ex_u) = (1, 1) /\
  call_conn false (x_st xs2) [] (bs "/pkg.Svc/Get") 0 = Some (ex_u, 0) /\
  undisturbed false ex_u (step false (x_st (x_init ex_tbl)) (Call [] (bs "/pkg.Svc/Get") 0)) (xproj [XLose ex_u]) /\
  x_up xs3 = [(0, ex_u)] /\ (x_begun_at xs3 ex_u, x_ended_at xs3 ex_u) = (2, 1) /\
  count_dials (s_pool (x_st xs3)) ex_u = 1 /\ p_pool (s_pool (x_st xs3)) = [(ex_u, 0)].
Proof. exact transport_loss_nonvacuous. Qed.
Print Assumptions C16_transport_loss_nonvacuous.

(* ---- quiet calls (Model/GrpcKeepalive.v): calls during which nobody sends anything for a long
   while, and pauses between calls, on a pooled backend connection.  Whether such a call survives
   is decided by two sites that each look fine alone: the keepalive parameters of the connection
   the proxy dialled (a client with grpc.WithKeepaliveParams pings after Time >= 10 s of silence)
   and the keepalive enforcement policy of the backend (a stock server closes the connection on
   the third ping it did not expect). ---- *)

(* THE CODE AS IT IS (newConnection passes no keepalive option): for every backend policy and
   every history of calls and pauses on one backend, however long the silences: every call is
   delivered whole -- the backend has the caller's messages and custom metadata, the caller has
   every message the backend sent, its trailers, status, and its headers (transparent, as for any
   call) -- on the ONE connection, which the backend never sees end, and no ping reaches it. *)
Theorem C16_quiet_calls_delivered : forall pol items,
  Forall2 delivered items (qrun QProxy pol q_init items) /\
  Forall (fun o => qo_pings o = 0) (qrun QProxy pol q_init items).
Proof. exact quiet_calls_delivered. Qed.
Print Assumptions C16_quiet_calls_delivered.

(* the connection itself: without keepalive parameters no event sequence whatsoever makes the
   client ping or the backend close the connection *)
Theorem C16_no_keepalive_no_pings : forall pol evs c, k_dead c = false ->
  k_dead (krun None pol c evs) = false /\ k_pings (krun None pol c evs) = k_pings c.
Proof. exact no_keepalive_no_pings. Qed.
Print Assumptions C16_no_keepalive_no_pings.

(* the general principle behind both: for any client parameters and any backend policy, if the
   connection machine has an invariant under which the connection is open, every call of every
   history is delivered whole on one connection *)
Theorem C16_connection_that_stays_up_delivers : forall v pol (K : kconn -> Prop),
  K k_fresh -> (forall c, K c -> K (k_renew c)) ->
  (forall c e, K c -> K (kstep (via_keepalive v) pol c e)) -> (forall c, K c -> k_dead c = false) ->
  forall items, Forall2 (undisturbed_out v) items (qrun v pol q_init items).
Proof. exact stays_up_delivered. Qed.
Print Assumptions C16_connection_that_stays_up_delivers.

(* Whatever the client's parameters and the backend's policy: a connection that the backend closed
   with too_many_pings had been up for 30 s and had sent 3 keepalive pings at least (each needs
   10 s of silence before it, the third strike closes).  No call that is silent for less is ever
   affected by keepalive settings -- which is why nothing short of a long silence shows them. *)
Theorem C16_struck_out_needs_three_pings_thirty_seconds : forall ka pol evs,
  let c := krun ka pol k_fresh evs in
  k_dead c = true -> 3 <= k_pings c /\ 30 <= k_now c.
Proof. exact struck_out_needs_three_pings_thirty_seconds. Qed.
Print Assumptions C16_struck_out_needs_three_pings_thirty_seconds.

(* Where the boundary lies: a client whose effective interval max(Time, 10 s) is not below the
   backend's MinTime, and that pings without a call in flight only if the backend permits it, is
   never struck out and never even earns a strike ... *)
Theorem C16_respectful_keepalive_never_struck_out : forall k pol,
  pol_min pol <= eff_time k -> ka_permit k = false \/ pol_permit pol = true ->
  forall evs, let c := krun (Some k) pol k_fresh evs in k_dead c = false /\ k_strikes c = 0.
Proof. exact respectful_keepalive_never_struck_out. Qed.
Print Assumptions C16_respectful_keepalive_never_struck_out.

(* ... and every call of every history on such a connection is delivered whole *)
Theorem C16_respectful_keepalive_delivered : forall k pol,
  pol_min pol <= eff_time k -> ka_permit k = false \/ pol_permit pol = true ->
  forall items, Forall2 (undisturbed_out (QDirect (Some k))) items (qrun (QDirect (Some k)) pol q_init items).
Proof. exact respectful_keepalive_delivered. Qed.
Print Assumptions C16_respectful_keepalive_delivered.

(* the code as it is, stock backend: 42 s of silence between two events, a day's pause, a call
   silent for a day: both events, the trailer and OK arrive each time, 0 pings, 1 connection *)
Theorem C16_quiet_call_nonvacuous :
  map qsum (qrun QProxy stock_policy q_init [QCall (ex_watch 42); QGap 86400; QCall (ex_watch 86400)])
  = [(true, [bs "first"; bs "second"], [(bs "x-events", [bs "2"])], 0, 0, 1, 0);
     (true, [], [], 0, 0, 1, 0);
     (true, [bs "first"; bs "second"], [(bs "x-events", [bs "2"])], 0, 0, 1, 0)].
Proof. exact quiet_call_nonvacuous. Qed.
Print Assumptions C16_quiet_call_nonvacuous.

(* NOT the code -- the machine is not trivially safe: the same call on a connection dialled with
   keepalive Time 10 s / Timeout 5 s to a stock backend is struck out after 30 s of silence (the
   caller has "first" and Unavailable; "second", the trailer and the status are lost; the next
   call needs a second connection), a call silent for 25 s is not, and a backend with MinTime
   10 s delivers the 42 s call (C16_respectful_keepalive_delivered) *)
Theorem C16_keepalive_variant_strikes_out :
  map qsum (qrun (QDirect (Some ka_10_5)) stock_policy q_init [QCall (ex_watch 42); QCall (ex_watch 25)])
  = [(false, [bs "first"], [], code_unavailable, 3, 1, 1);
     (true, [bs "first"; bs "second"], [(bs "x-events", [bs "2"])], 0, 5, 2, 1)]
  /\ ~ Forall2 delivered [QCall (ex_watch 42)] (qrun (QDirect (Some ka_10_5)) stock_policy q_init [QCall (ex_watch 42)])
  /\ map qsum (qrun (QDirect (Some ka_10_5)) (mkpol 10 false) q_init [QCall (ex_watch 42)])
     = [(true, [bs "first"; bs "second"], [(bs "x-events", [bs "2"])], 0, 4, 1, 0)].
Proof. exact keepalive_variant_strikes_out. Qed.
Print Assumptions C16_keepalive_variant_strikes_out.

(* ---- several gRPC listeners in one process (Model/GrpcListeners.v, main.go:376-405 startServers) ----
   A process = the gRPC entries of proxy.addr in order, [tls] = which of them have a cert source;
   startServers builds a proxy of its own for each (interceptor, director, connection pool with
   its cleanup loop) from the tls.Config of THAT entry; the routing table is the one table of the
   process.  Histories: [LCall i md path k] (a call arriving at listener i) | [LSetTable t] |
   [LTick i] (listener i's cleanup loop) | [LConnShutdown i u] | [LLose u], for every list of
   listeners.  [down]: backends nobody listens at. *)

(* The proxy of listener j runs its own history and nothing else: after ANY history of the
   process its state is the state of the single-listener machine of the theorems above
   ([xrun], dialling with the listener's own TLS flag) on what listener j sees of that history
   -- its own calls, ticks and shutdowns, every table change, every loss; calls and ticks of
   the other listeners do not exist for it.  Hence every theorem above about [run] / [xrun]
   holds for each listener of a process whatever the other listeners are. *)
Theorem C16_listener_runs_own_history : forall ng down j ops ps,
  nth_error (lrun ng down ps ops) j = option_map (fun l => ls_run ng down l (lproj j ops)) (nth_error ps j).
Proof. exact listener_runs_own_history. Qed.
Print Assumptions C16_listener_runs_own_history.

Theorem C16_reachable_listener : forall ng down tls t ops j l,
  nth_error (lrun ng down (l_init tls t) ops) j = Some l ->
  exists b, nth_error tls j = Some b /\ ls_tls l = b /\
            ls_px l = xrun ng (unreachable b down) (x_init t) (lproj j ops).
Proof. exact reachable_listener. Qed.
Print Assumptions C16_reachable_listener.

(* the listeners and their TLS configuration are fixed by proxy.addr *)
Theorem C16_listeners_fixed : forall ng down ops ps, map ls_tls (lrun ng down ps ops) = map ls_tls ps.
Proof. exact listeners_fixed. Qed.
Print Assumptions C16_listeners_fixed.

(* every proxy of the process routes by the table that was set last *)
Theorem C16_listeners_share_the_table : forall ng down tls t ops j l,
  nth_error (lrun ng down (l_init tls t) ops) j = Some l -> s_tbl (x_st (ls_px l)) = last_table t ops.
Proof. exact listeners_share_the_table. Qed.
Print Assumptions C16_listeners_share_the_table.

(* A call through listener i whose route picks backend u, reachable with the TLS configuration
   of listener i (up, and not a grpcs:// target behind a listener without TLS -- F-C16-2), is
   served: afterwards the live channel listener i's pool holds for u has a transport to u.
   For every list of listeners, every position i, every history before. *)
Theorem C16_call_served_with_own_tls : forall ng down tls t ops i l m p k u c,
  nth_error (lrun ng down (l_init tls t) ops) i = Some l ->
  call_conn ng (x_st (ls_px l)) m p k = Some (u, c) ->
  unreachable (ls_tls l) down u = false ->
  exists l', nth_error (lstep ng down (lrun ng down (l_init tls t) ops) (LCall i m p k)) i = Some l' /\
             ls_tls l' = ls_tls l /\
             In (c, u) (x_up (ls_px l')) /\ holds (s_pool (x_st (ls_px l'))) u c.
Proof. exact call_served_with_own_tls. Qed.
Print Assumptions C16_call_served_with_own_tls.

(* in particular a TLS backend that is up is reached through EVERY listener that has a cert
   source, wherever it stands in proxy.addr and whatever stands before it *)
Theorem C16_tls_backend_served_through_tls_listener : forall ng down tls t ops i l m p k u c,
  nth_error (lrun ng down (l_init tls t) ops) i = Some l ->
  nth_error tls i = Some true -> mem u down = false ->
  call_conn ng (x_st (ls_px l)) m p k = Some (u, c) ->
  exists l', nth_error (lstep ng down (lrun ng down (l_init tls t) ops) (LCall i m p k)) i = Some l' /\
             In (c, u) (x_up (ls_px l')) /\ holds (s_pool (x_st (ls_px l'))) u c.
Proof. exact tls_backend_served_through_tls_listener. Qed.
Print Assumptions C16_tls_backend_served_through_tls_listener.

(* a call changes the proxy of its own listener only *)
Theorem C16_call_leaves_other_listeners_alone : forall ng down ps i m p k j,
  i <> j -> nth_error (lstep ng down ps (LCall i m p k)) j = nth_error ps j.
Proof. exact call_leaves_other_listeners_alone. Qed.
Print Assumptions C16_call_leaves_other_listeners_alone.

(* a call without a matching route, through any listener, changes nothing in the process *)
Theorem C16_no_route_changes_no_listener : forall ng down tls t ops i l m p k,
  nth_error (lrun ng down (l_init tls t) ops) i = Some l ->
  lookup (s_tbl (x_st (ls_px l))) ng (dsthost m) p = None ->
  lstep ng down (lrun ng down (l_init tls t) ops) (LCall i m p k) = lrun ng down (l_init tls t) ops.
Proof. exact no_route_changes_no_listener. Qed.
Print Assumptions C16_no_route_changes_no_listener.

(* what a backend sees of the whole process: begun = ended + open, and never more open
   connections than the process has gRPC listeners (reuse per backend, per listener) *)
Theorem C16_connections_bounded_by_listeners : forall ng down tls t ops u,
  let ps := lrun ng down (l_init tls t) ops in
  l_begun_at ps u = l_ended_at ps u + l_up_at ps u /\ l_up_at ps u <= N.of_nat (length tls).
Proof. exact connections_bounded_by_listeners. Qed.
Print Assumptions C16_connections_bounded_by_listeners.

(* a call through listener i that reaches u opens exactly one connection at u iff listener i
   itself has none to u, ends none, and no other backend sees anything *)
Theorem C16_call_counts_per_listener : forall ng down tls t ops i l m p k u c,
  let ps := lrun ng down (l_init tls t) ops in
  nth_error ps i = Some l ->
  call_conn ng (x_st (ls_px l)) m p k = Some (u, c) ->
  unreachable (ls_tls l) down u = false ->
  let ps' := lstep ng down ps (LCall i m p k) in
  l_begun_at ps' u = l_begun_at ps u + (if x_up_at (ls_px l) u =? 0 then 1 else 0) /\
  (forall v, l_ended_at ps' v = l_ended_at ps v) /\
  (forall v, v <> u -> l_begun_at ps' v = l_begun_at ps v).
Proof. exact call_counts_per_listener. Qed.
Print Assumptions C16_call_counts_per_listener.

(* once every cleanup loop of the process has woken up: every connection of a backend outside
   the table has ended, whichever listener held it; a backend inside the table has seen nothing *)
Theorem C16_tick_all_counts : forall ng down tls t ops u,
  let ps := lrun ng down (l_init tls t) ops in
  let ps' := lrun ng down ps (l_tick_all (length ps)) in
  l_begun_at ps' u = l_begun_at ps u /\
  l_ended_at ps' u = (if mem u (table_urls (last_table t ops)) then l_ended_at ps u else l_begun_at ps u).
Proof. exact tick_all_counts. Qed.
Print Assumptions C16_tick_all_counts.

(* non-vacuity: proxy.addr = "grpc listener, grpcs listener", a route to a grpcs:// backend: the
   call through the second listener meets the hypotheses of
   C16_tls_backend_served_through_tls_listener and is served on one connection, which a later
   call through that listener reuses; the first listener's call reaches nobody (F-C16-2) *)
Theorem C16_listeners_nonvacuous :
  let ps0 := l_init ex_ls_tls ex_ls_tbl in
  let ps1 := lrun false [] ps0 [ex_ls_call 1] in
  let ps2 := lrun false [] ps0 [ex_ls_call 1; ex_ls_call 0; ex_ls_call 1] in
  nth_error ex_ls_tls 1 = Some true /\
  option_map (fun l => call_conn false (x_st (ls_px l)) [] (bs "/pkg.Svc/Get") 0) (nth_error ps0 1) = Some (Some (ex_ls_u, 0)) /\
  option_map (fun l => x_up (ls_px l)) (nth_error ps1 1) = Some [(0, ex_ls_u)] /\
  (l_begun_at ps1 ex_ls_u, l_ended_at ps1 ex_ls_u) = (1, 0) /\
  map (fun l => x_up (ls_px l)) ps2 = [[]; [(0, ex_ls_u)]] /\
  (l_begun_at ps2 ex_ls_u, l_ended_at ps2 ex_ls_u) = (1, 0) /\
  map (fun l => p_pool (s_pool (x_st (ls_px l)))) ps2 = [[(ex_ls_u, 0)]; [(ex_ls_u, 0)]].
Proof. exact listeners_nonvacuous. Qed.
Print Assumptions C16_listeners_nonvacuous.

(* two TLS listeners: one connection each to the same backend, each reused by its listener,
   both ended by the ticks that follow a table without the backend *)
Theorem C16_listeners_own_pools_nonvacuous :
  let ps := lrun false [] (l_init [true; true] ex_ls_tbl) [ex_ls_call 0; ex_ls_call 1; ex_ls_call 0; ex_ls_call 1] in
  (l_begun_at ps ex_ls_u, l_ended_at ps ex_ls_u, l_up_at ps ex_ls_u) = (2, 0, 2) /\
  (let ps' := lrun false [] ps (LSetTable [] :: l_tick_all 2) in
   (l_begun_at ps' ex_ls_u, l_ended_at ps' ex_ls_u, l_up_at ps' ex_ls_u) = (2, 2, 0)).
Proof. exact listeners_own_pools_nonvacuous. Qed.
Print Assumptions C16_listeners_own_pools_nonvacuous.

(* NOT the code -- the theorems above are not trivially true of any wiring: with ONE proxy built
   for the first gRPC listener and handed to all of them ([lrun_shared]), behind
   "grpc listener, grpcs listener" the call through the grpcs listener to a grpcs:// backend that
   is up is dialled in the clear and reaches nobody; the code as it is opens the connection *)
Theorem C16_shared_proxy_variant_refuted :
  nth_error ex_ls_tls 1 = Some true /\ mem ex_ls_u [] = false /\
  lookup ex_ls_tbl false (dsthost []) (bs "/pkg.Svc/Get") = Some [ex_ls_u] /\
  x_up (lrun_shared false [] ex_ls_tls ex_ls_tbl [ex_ls_call 1]) = [] /\
  x_begun_at (lrun_shared false [] ex_ls_tls ex_ls_tbl [ex_ls_call 1]) ex_ls_u = 0 /\
  l_begun_at (lrun false [] (l_init ex_ls_tls ex_ls_tbl) [ex_ls_call 1]) ex_ls_u = 1.
Proof. exact shared_proxy_variant_refuted. Qed.
Print Assumptions C16_shared_proxy_variant_refuted.

(* ---- calls in flight across cleanup ticks, targets written with whatever scheme
   (Model/GrpcInFlight.v): histories [FOp o | FBegin id md path k | FEnd id] ---- *)

(* the table and the pool of a history with calls in flight are those of the plain history in
   which every call in flight is a call: every theorem above about [run] applies *)
Theorem C16_inflight_history_is_a_history : forall ng ops fs,
  f_st (frun ng fs ops) = run ng (f_st fs) (flat_map fproj ops).
Proof. exact frun_projects. Qed.
Print Assumptions C16_inflight_history_is_a_history.

(* From any well-formed state: a call that began on connection c of backend u -- u any target
   URL -- is delivered when its backend ends it, whatever happened in between (calls to anybody,
   other calls in flight beginning and ending, table changes, any number of cleanup ticks), as
   long as no tick found u outside the table and u's connection was not shut down from outside;
   c is still the one pooled connection of u and nothing was dialled for u in the meantime. *)
Theorem C16_call_in_flight_outlives_cleanup : forall ng fs id m p k u c ops,
  wf (s_pool (f_st fs)) ->
  call_conn ng (f_st fs) m p k = Some (u, c) ->
  undisturbed ng u (step ng (f_st fs) (Call m p k)) (flat_map fproj ops) ->
  Forall (other_id id) ops ->
  let fs' := frun ng (fstep ng fs (FBegin id m p k)) ops in
  fly_of id (f_fly fs') = Some (u, c) /\
  f_delivered fs' id = true /\
  holds (s_pool (f_st fs')) u c /\
  count_dials (s_pool (f_st fs')) u = count_dials (s_pool (step ng (f_st fs) (Call m p k))) u.
Proof. exact inflight_survives. Qed.
Print Assumptions C16_call_in_flight_outlives_cleanup.

(* spelled out for a target written scheme://rest: the scheme is no hypothesis (http://host:port/
   is what the consul registry writes for a service tagged without proto=grpc) *)
Theorem C16_call_in_flight_any_scheme : forall ng fs id m p k sch rest c ops,
  wf (s_pool (f_st fs)) ->
  call_conn ng (f_st fs) m p k = Some (render sch rest, c) ->
  undisturbed ng (render sch rest) (step ng (f_st fs) (Call m p k)) (flat_map fproj ops) ->
  Forall (other_id id) ops ->
  f_delivered (frun ng (fstep ng fs (FBegin id m p k)) ops) id = true.
Proof. exact inflight_survives_any_scheme. Qed.
Print Assumptions C16_call_in_flight_any_scheme.

(* the other half of the clause as the code has it: once the backend has left the table the
   first cleanup tick closes the connection under the call *)
Theorem C16_call_in_flight_cut_after_leaving : forall ng fs id u c t,
  fly_of id (f_fly fs) = Some (u, c) -> assoc u (p_pool (s_pool (f_st fs))) = Some c ->
  ~ In u (table_urls t) ->
  f_delivered (frun ng fs [FOp (SetTable t); FOp CleanupTick]) id = false.
Proof. exact inflight_cut_after_leaving. Qed.
Print Assumptions C16_call_in_flight_cut_after_leaving.

Theorem C16_call_in_flight_nonvacuous :
  wf (s_pool (f_st (f_init ex_ftbl))) /\
  call_conn false (f_st (f_init ex_ftbl)) [] (bs "/pkg.Svc/Get") 0 = Some (ex_http, 0) /\
  grpc_scheme ex_http = false /\
  undisturbed false ex_http (step false (f_st (f_init ex_ftbl)) (Call [] (bs "/pkg.Svc/Get") 0)) (flat_map fproj ex_fops) /\
  Forall (other_id 1) ex_fops /\
  f_delivered (frun false (fstep false (f_init ex_ftbl) (FBegin 1 [] (bs "/pkg.Svc/Get") 0)) ex_fops) 1 = true /\
  count_dials (s_pool (f_st (frun false (fstep false (f_init ex_ftbl) (FBegin 1 [] (bs "/pkg.Svc/Get") 0)) ex_fops))) ex_http = 1.
Proof. exact inflight_nonvacuous. Qed.
Print Assumptions C16_call_in_flight_nonvacuous.

(* a cleanup that recognises only grpc:// and grpcs:// targets is not the code and breaks the
   property: the pooled connection of a routed http:// backend, with a call in flight, is kept
   by [p_tick] and dropped and closed by the variant *)
Theorem C16_grpc_only_cleanup_variant_refuted :
  let fs := fstep false (f_init ex_ftbl) (FBegin 1 [] (bs "/pkg.Svc/Get") 0) in
  let s := s_pool (f_st fs) in
  wf s /\ In ex_http (table_urls ex_ftbl) /\ holds s ex_http 0 /\
  holds (p_tick (table_urls ex_ftbl) s) ex_http 0 /\
  assoc ex_http (p_pool (p_tick_grpc_only (table_urls ex_ftbl) s)) = None /\
  live (p_tick_grpc_only (table_urls ex_ftbl) s) 0 = false.
Proof. exact grpc_only_cleanup_variant_refuted. Qed.
Print Assumptions C16_grpc_only_cleanup_variant_refuted.
