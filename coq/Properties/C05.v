(** C05 -- route commands mean what the command language says
    (route/table.go addRoute/delRoute/weighRoute/NewTable/String, route/route.go addTarget/filter/
    setWeight/TargetConfig, route/parse_new.go).
    This file contains only statements, [exact], and [Print Assumptions].
    [flat t] is the content of a table: its (host, path, target) triples in order. *)
From Coq Require Import String List NArith Permutation.
From Fabio Require Import Lib.Outcome Lib.Bytes Model.WtF64 Model.TableCmd Model.RouteText Proofs.TableCmd Proofs.RouteRoundTrip Proofs.RouteReach.
Import ListNotations.
Local Open Scope N_scope.

(* Every command sequence, of any length, leaves no empty route and no empty host, and keeps hosts
   and the paths of a host unique. *)
Theorem C05_no_empty_routes_hosts : forall canon glob_ok ds t,
  run canon glob_ok ds = Ok t ->
  NoDup (map fst t) /\
  Forall (fun hr => snd hr <> [] /\ NoDup (map r_path (snd hr)) /\ Forall (fun r => r_targets r <> []) (snd hr)) t.
Proof. exact run_inv. Qed.
Print Assumptions C05_no_empty_routes_hosts.

(* add is idempotent ... *)
Theorem C05_add_idempotent : forall canon glob_ok t d t1,
  add_route canon glob_ok t d = Ok t1 -> add_route canon glob_ok t1 d = Ok t1.
Proof. exact add_idempotent. Qed.
Print Assumptions C05_add_idempotent.

(* ... and accumulates: exactly one target is inserted under (lower-cased host, path), every other
   triple and the order are kept; or the route already holds a target with the same service, URL,
   weight and tags and the table is unchanged. *)
Theorem C05_add_accumulates : forall canon glob_ok t d t1,
  add_route canon glob_ok t d = Ok t1 ->
  exists url, canon (d_dst d) = Some url /\
  let h := lower (fst (hostpath (d_src d))) in
  let p := snd (hostpath (d_src d)) in
  let nt := new_target (d_svc d) url (d_w d) (d_tags d) (d_opts d) in
  (exists X Y, flat t = X ++ Y /\ flat t1 = X ++ (h, p, nt) :: Y)
  \/ (t1 = t /\ exists tg, In (h, p, tg) (flat t)
                          /\ same_target (d_svc d) url (w_clamp (d_w d)) (d_tags d) tg = true).
Proof. exact add_accumulates. Qed.
Print Assumptions C05_add_accumulates.

(* The host of route add is case-insensitive. *)
Theorem C05_host_case_insensitive_add : forall canon glob_ok t d1 d2,
  d_svc d1 = d_svc d2 -> d_dst d1 = d_dst d2 -> d_w d1 = d_w d2 -> d_tags d1 = d_tags d2 ->
  d_opts d1 = d_opts d2 ->
  lower (fst (hostpath (d_src d1))) = lower (fst (hostpath (d_src d2))) ->
  snd (hostpath (d_src d1)) = snd (hostpath (d_src d2)) ->
  d_src d1 <> [] -> d_src d2 <> [] ->
  add_route canon glob_ok t d1 = add_route canon glob_ok t d2.
Proof. exact host_case_insensitive_add. Qed.
Print Assumptions C05_host_case_insensitive_add.

(* del removes precisely the selected targets, for each of its argument forms (see
   [del_selects_gen]); the host is compared case-insensitively, as for add. *)
Theorem C05_del_precise : forall canon t d t',
  inv t -> del_route canon t d = Ok t' ->
  flat t' = filter (fun x => negb (del_selects_ci canon d x)) (flat t).
Proof. exact del_precise. Qed.
Print Assumptions C05_del_precise.

(* weight changes only the matching targets (host case-insensitive), all to weight / (number of
   matches); hosts, routes, targets and order are unchanged. *)
Theorem C05_weight_only_matching : forall t d t',
  inv t -> weigh_route t d = Ok t' ->
  let n := N.of_nat (length (filter (weight_selects_ci d) (flat t))) in
  n <> 0 /\
  flat t' = map (fun x => if weight_selects_ci d x then reweigh (w_divn (d_w d) n) x else x) (flat t)
  /\ map fst t' = map fst t.
Proof. exact weight_only_matching. Qed.
Print Assumptions C05_weight_only_matching.

(* Finding F-C05-1 was REPAIRED in /repo by commit b80fb7f.  Until then delRoute and weighRoute
   looked the host up as written; [del_route_unrepaired] / [nt_text_unrepaired] model that code:
   route del svc Foo.com/ removed nothing ... *)
Theorem C05_host_case_del_refuted :
  exists t d t', inv t /\ del_route_unrepaired idcanon t d = Ok t' /\
    flat t' <> filter (fun x => negb (del_selects_ci idcanon d x)) (flat t)
    /\ nt_text_unrepaired (ex_add_lower ++ nl ++ bs "route del svc Foo.com/") = nt_text_unrepaired ex_add_lower
    /\ nt_text_unrepaired (ex_add_lower ++ nl ++ bs "route del svc foo.com/") = Ok [].
Proof. exact host_case_del_refuted. Qed.
Print Assumptions C05_host_case_del_refuted.

(* ... and route weight svc Foo.com/ failed with "no target match" for a route added as Foo.com/. *)
Theorem C05_host_case_weight_refuted :
  nt_text_unrepaired (ex_add_upper ++ nl ++ bs "route weight svc Foo.com/ weight 0.5") = Err e_no_match
  /\ exists t, nt_text_unrepaired (ex_add_upper ++ nl ++ bs "route weight svc foo.com/ weight 0.5") = Ok t
               /\ length (flat t) = 1%nat.
Proof. exact host_case_weight_refuted. Qed.
Print Assumptions C05_host_case_weight_refuted.

(* The same witnesses on the model of the code as it is now. *)
Theorem C05_host_case_del_repaired :
  nt_text (ex_add_lower ++ nl ++ bs "route del svc Foo.com/") = Ok [].
Proof. exact host_case_del_repaired. Qed.
Print Assumptions C05_host_case_del_repaired.

Theorem C05_host_case_weight_repaired :
  nt_text (ex_add_upper ++ nl ++ bs "route weight svc Foo.com/ weight 0.5")
  = nt_text (ex_add_upper ++ nl ++ bs "route weight svc foo.com/ weight 0.5")
  /\ exists t, nt_text (ex_add_upper ++ nl ++ bs "route weight svc Foo.com/ weight 0.5") = Ok t
               /\ length (flat t) = 1%nat.
Proof. exact host_case_weight_repaired. Qed.
Print Assumptions C05_host_case_weight_repaired.

(* ===== Text round trip: NewTable(t.String()) =====
   Domain ([table_good], [text_good], all in Proofs/RouteRoundTrip.v): unique hosts and paths, no
   empty route or host (the invariant); host in lower case, accepted by glob.Compile (as every host
   that add ever stored is, since c9fb527) and host ++ path splits back into
   (host, path); no route with two targets equal in service, URL, weight and tags ([twin_free]);
   service, host ++ path and URL are non-empty tokens ([tokb]: no white space, as the grammar's \S+);
   option keys and values hold no white space and no quote, keys no = ([kv_ok]); tags ([tag_ok], since dfc4ae0) are non-empty strings of ANY
   ASCII bytes except quote, comma and newline that TrimSpace leaves unchanged; option keys in
   ascending order; no negative weight; every positive weight is a fixed point of
   parse-after-print ([weight_text_stable]: pweight_dec (fmt4 w) = Ok w, i.e. w is on the
   4-decimal grid).

   Part 1, table level: running the add commands that String() emits rebuilds the table (hosts in
   String()'s order), for every table in the domain -- induction over hosts, routes, targets. *)
Theorem C05_rebuild_rendered : forall canon glob_ok t,
  table_good canon glob_ok t -> run canon glob_ok (table_defs (reorder t)) = Ok (reorder t).
Proof. exact rebuild_rendered. Qed.
Print Assumptions C05_rebuild_rendered.

Theorem C05_reorder_lookup : forall t h, lookup h (reorder t) = lookup h t.
Proof. exact reorder_lookup. Qed.
Print Assumptions C05_reorder_lookup.

(* Part 2, scanner inversion: the character-level parser applied to a line of the renderer's
   shape  route add <svc> <src> <dst>[ weight <w>][ tags "<q>"][ opts "<q>"]  returns exactly those
   fields, for all token strings free of white space and all quoted strings free of the quote. *)
Theorem C05_parse_line_rendered : forall pweight svc src dst ow otg oop,
  tokb svc = true -> tokb src = true -> tokb dst = true -> ow_ok ow -> oq_ok otg -> oq_ok oop ->
  parse_line pweight (drop_cr (add_line svc src dst ow otg oop))
  = match parse_weight pweight ow with
    | Ok f => Ok (Some (mk CmdAdd svc src dst f (parse_tags (ostr otg)) (parse_opts (ostr oop))))
    | _ => Err e_weight_value
    end.
Proof. exact parse_line_rendered. Qed.
Print Assumptions C05_parse_line_rendered.

(* parseTags / parseOpts invert strings.Join(tags, ",") and "k=v k=v ..." on the safe class *)
Theorem C05_parse_tags_join : forall tags,
  tags <> [] -> Forall (fun t => tag_ok t = true) tags -> parse_tags (join tags [44]) = tags.
Proof. exact parse_tags_join. Qed.
Print Assumptions C05_parse_tags_join.

Theorem C05_parse_opts_text : forall o,
  Forall (fun kv => kv_ok kv = true) o -> opts_sorted o -> parse_opts (opts_text o) = o.
Proof. exact parse_opts_text. Qed.
Print Assumptions C05_parse_opts_text.

(* every rendered line of a target in the domain parses back to the command it came from *)
Theorem C05_target_line_parses : forall h p ts tg, tg_text_ok h p ts tg ->
  parse_line pweight_dec (drop_cr (target_config h p tg)) = Ok (Some (def_of h p tg))
  /\ forallb lc (target_config h p tg) = true.
Proof. exact target_line_parses. Qed.
Print Assumptions C05_target_line_parses.

(* Part 3, composition, character level: NewTable(t.String()) succeeds and holds, under every
   host, the same routes with the same targets (service, URL, weight, tags, options, order), the
   routes of a host sorted as NewTable sorts them. *)
Theorem C05_render_parse_roundtrip : forall canon glob_ok t,
  table_good canon glob_ok t -> text_good t ->
  new_table pweight_dec canon glob_ok (render t) = Ok (sort_table (reorder t))
  /\ forall h, lookup h (sort_table (reorder t)) = option_map sort_routes (lookup h t).
Proof. exact render_parse_roundtrip. Qed.
Print Assumptions C05_render_parse_roundtrip.

(* The hypothesis [weight_text_stable] holds for every grid weight k/10000, 1 <= k <= 10000
   (exhaustive kernel evaluation); beyond 1.0000 it remains a per-weight hypothesis. *)
Theorem C05_grid_weight_stable : forall k, 1 <= k <= 10000 -> weight_text_stable (w_of_dec false k 4).
Proof. exact grid_weight_stable. Qed.
Print Assumptions C05_grid_weight_stable.

(* non-vacuity of the domain: a table with a weighted, tagged target with options beside a
   dynamic one *)
Theorem C05_roundtrip_nonvacuous : table_good idcanon anyglob ex_table /\ text_good ex_table.
Proof. exact roundtrip_nonvacuous. Qed.
Print Assumptions C05_roundtrip_nonvacuous.

(* NOT proved: the round trip "to four decimals" for weights OFF the grid (there the re-parsed
   weight is the rounded one; [Proofs.TableCmd.render_parse_roundtrip_statement] keeps that
   statement); that every table reachable by commands has host ++ path splitting back and option
   keys ascending (true by construction of hostpath / opt_insert, here domain hypotheses).
   Kept from before: the conclusion evaluated on a concrete table with off-grid weights. *)
Theorem C05_render_parse_roundtrip_partial :
  exists t t', nt_text ex_rt_script = Ok t /\ length (flat t) = 6%nat
               /\ nt_text (render t) = Ok t' /\ same_content4 t t' = true.
Proof. exact render_parse_roundtrip_partial. Qed.
Print Assumptions C05_render_parse_roundtrip_partial.

(* ... and its failure outside the domain: (zero-weight targets, F-C05-2, were repaired by cb21db5) tags with a
   backslash come back escaped (F-C05-3), an empty URL text makes the rendering unparsable (F-C05-4). *)
(* F-C05-2, REPAIRED in /repo by cb21db5: Route.config left out targets with effective weight 0;
   about [render_skipping], the model of the old String() *)
Theorem C05_zero_weight_dropped_refuted :
  exists t t', nt_text ex_zero_weight = Ok t
               /\ length (flat t) = 2%nat
               /\ nt_text (render_skipping t) = Ok t' /\ length (flat t') = 1%nat.
Proof. exact zero_weight_dropped_refuted. Qed.
Print Assumptions C05_zero_weight_dropped_refuted.

(* the same witness through String() as it is now: both targets, the table comes back unchanged *)
Theorem C05_zero_weight_kept :
  exists t, nt_text ex_zero_weight = Ok t /\ length (flat t) = 2%nat /\ nt_text (render t) = Ok t.
Proof. exact zero_weight_kept. Qed.
Print Assumptions C05_zero_weight_kept.

(* F-C05-3a, REPAIRED in /repo by dfc4ae0: tags were printed with %q; about [render_unrepaired] *)
Theorem C05_tag_escape_refuted :
  exists t t', nt_text (bs "route add svc foo.com/ http://10.0.0.1:80/ tags ""x\y""") = Ok t
               /\ map (fun x => t_tags (snd x)) (flat t) = [[bs "x\y"]]
               /\ nt_text (render_unrepaired t) = Ok t'
               /\ map (fun x => t_tags (snd x)) (flat t') = [[bs "x\\y"]].
Proof. exact tag_escape_refuted. Qed.
Print Assumptions C05_tag_escape_refuted.

(* the same witness through the renderer as it is now: the table comes back unchanged *)
Theorem C05_tag_escape_repaired :
  exists t, nt_text (bs "route add svc foo.com/ http://10.0.0.1:80/ tags ""x\y""") = Ok t
            /\ map (fun x => t_tags (snd x)) (flat t) = [[bs "x\y"]]
            /\ nt_text (render t) = Ok t.
Proof. exact tag_escape_repaired. Qed.
Print Assumptions C05_tag_escape_repaired.

(* F-C05-3 (open), the remaining case: a single empty tag comes back as no tags *)
Theorem C05_empty_tag_refuted :
  exists t t', nt_text (bs "route add svc foo.com/ http://10.0.0.1:80/ tags "" """) = Ok t
               /\ map (fun x => t_tags (snd x)) (flat t) = [[[]]]
               /\ nt_text (render t) = Ok t'
               /\ map (fun x => t_tags (snd x)) (flat t') = [[]].
Proof. exact empty_tag_refuted. Qed.
Print Assumptions C05_empty_tag_refuted.

(* the round trip's tag domain: any byte but quote, comma, newline; non-empty; TrimSpace-stable *)
Theorem C05_tag_domain_wide : tag_ok (bs "x\y") = true /\ tag_ok [1; 92; 127] = true /\ tag_ok (bs "a b") = true.
Proof. exact tag_domain_wide. Qed.
Print Assumptions C05_tag_domain_wide.

Theorem C05_empty_url_refuted :
  let canon := fun d => if beq d (bs "#") then Some [] else Some d in
  exists t, new_table pweight_dec canon anyglob (bs "route add svc foo.com/ #") = Ok t
            /\ length (flat t) = 1%nat
            /\ new_table pweight_dec canon anyglob (render t) = Err e_add_invalid.
Proof. exact empty_url_refuted. Qed.
Print Assumptions C05_empty_url_refuted.

(* MECHANISM LEMMA, not coverage of the code: the model contains no Panic site, so this holds by
   construction; it is what lets C02/C14 compose the model.  That the real NewTable does not
   panic is observed by the harness only (a recovered panic is a violation). *)
Theorem C05_new_table_never_panics : forall pweight canon glob_ok text,
  new_table pweight canon glob_ok text <> Panic.
Proof. exact new_table_never_panics. Qed.
Print Assumptions C05_new_table_never_panics.

(* ... and a returned table is a sorted copy of one that satisfies the invariant. *)
Theorem C05_new_table_inv : forall pweight canon glob_ok text t,
  new_table pweight canon glob_ok text = Ok t -> exists t0, inv t0 /\ t = sort_table t0.
Proof. exact new_table_inv. Qed.
Print Assumptions C05_new_table_inv.

(* The route order NewTable returns (Routes.Less since /repo c1f03c0): descending in
   (lower-cased path, then raw path).  The model sorts by one key per path; the key order is that
   two-level order, a strict total order on paths, and every host's routes come out sorted. *)
Theorem C05_path_key_cmp : forall p q,
  str_cmp (path_key p) (path_key q)
  = match str_cmp (lower p) (lower q) with Eq => str_cmp p q | c => c end.
Proof. exact path_key_cmp. Qed.
Print Assumptions C05_path_key_cmp.

Theorem C05_path_key_eq : forall p q, str_cmp (path_key p) (path_key q) = Eq <-> p = q.
Proof. exact path_key_eq. Qed.
Print Assumptions C05_path_key_eq.

Theorem C05_path_key_trans : forall p q r,
  str_ltb (path_key p) (path_key q) = true -> str_ltb (path_key q) (path_key r) = true ->
  str_ltb (path_key p) (path_key r) = true.
Proof. exact path_key_trans. Qed.
Print Assumptions C05_path_key_trans.

Theorem C05_new_table_sorted : forall pweight canon glob_ok text t,
  new_table pweight canon glob_ok text = Ok t -> Forall (fun hr => desc_sorted (snd hr)) t.
Proof. exact new_table_sorted. Qed.
Print Assumptions C05_new_table_sorted.

(* ===== audit follow-up (Proofs/RouteReach.v) =====
   Stored hosts ARE lower-case after every command sequence: comparing a stored host with the
   lower-cased host of a command (del_selects_ci, weight_selects_ci) is comparing modulo case. *)
Theorem C05_run_hosts_lower : forall canon glob_ok ds t,
  run canon glob_ok ds = Ok t -> Forall (fun hr => lower (fst hr) = fst hr) t.
Proof. exact run_hosts_lower. Qed.
Print Assumptions C05_run_hosts_lower.

(* reachable tables: hosts lower-case and compiling, paths compiling, host ++ path splits back *)
Theorem C05_run_sgood : forall canon glob_ok ds t, run canon glob_ok ds = Ok t -> sgood glob_ok t.
Proof. exact run_sgood. Qed.
Print Assumptions C05_run_sgood.

(* del and weight are case-insensitive in the host as equations between commands, like add *)
Theorem C05_host_case_insensitive_del : forall canon t d1 d2,
  same_but_src d1 d2 -> del_route canon t d1 = del_route canon t d2.
Proof. exact host_case_insensitive_del. Qed.
Print Assumptions C05_host_case_insensitive_del.

Theorem C05_host_case_insensitive_weight : forall t d1 d2,
  same_but_src d1 d2 -> weigh_route t d1 = weigh_route t d2.
Proof. exact host_case_insensitive_weight. Qed.
Print Assumptions C05_host_case_insensitive_weight.

(* add in general position: absorbed iff a target with the same service, URL, weight and tags is
   stored under its (host, path) -- wherever, however it got there -- else exactly one insertion *)
Theorem C05_add_route_spec : forall canon glob_ok t d t1,
  inv t -> add_route canon glob_ok t d = Ok t1 ->
  exists url, canon (d_dst d) = Some url /\
  if add_key_present d url (flat t) then t1 = t
  else exists X Y, flat t = X ++ Y /\
         flat t1 = X ++ (lower (fst (hostpath (d_src d))), snd (hostpath (d_src d)),
                         new_target (d_svc d) url (d_w d) (d_tags d) (d_opts d)) :: Y.
Proof. exact add_route_spec. Qed.
Print Assumptions C05_add_route_spec.

(* THE COMPOSED STATEMENT: for every command sequence the content of the resulting table is, as a
   multiset of (host, path, target) triples, what the list-level command semantics [spec_step]
   (no table structure, no lookup) computes. *)
Theorem C05_run_meets_spec : forall canon glob_ok ds t,
  run canon glob_ok ds = Ok t -> exists l, spec_run canon [] ds = Some l /\ Permutation (flat t) l.
Proof. exact run_meets_spec. Qed.
Print Assumptions C05_run_meets_spec.

(* F-C05-5, REPAIRED in /repo by 0b2a40e: with a weight on which the comparison of the
   de-duplication is irreflexive (float64 == on NaN) the same add twice stores two targets ... *)
Theorem C05_nan_weight_add_refuted : forall weqb svc url w tags opts p,
  weqb (w_clamp w) (w_clamp w) = false ->
  let r0 := {| r_path := p; r_targets := [] |} in
  let r1 := add_target_cmp weqb svc url w tags opts r0 in
  let r2 := add_target_cmp weqb svc url w tags opts r1 in
  length (r_targets r1) = 1%nat /\ length (r_targets r2) = 2%nat.
Proof. exact nan_weight_add_refuted. Qed.
Print Assumptions C05_nan_weight_add_refuted.

(* ... the parser now delivers numbers only, the comparison is reflexive on them (and
   [add_target] is [add_target_cmp] at that comparison), so C05_add_idempotent has no proviso *)
Theorem C05_text_weights_reflexive : forall w, wt_eqb w w = true.
Proof. exact text_weights_reflexive. Qed.
Print Assumptions C05_text_weights_reflexive.

Theorem C05_add_target_is_cmp : forall svc url w tags opts r,
  add_target svc url w tags opts r = add_target_cmp wt_eqb svc url w tags opts r.
Proof. exact add_target_is_cmp. Qed.
Print Assumptions C05_add_target_is_cmp.

(* The text round trip for the tables NewTable returns: the structural half of the domain is
   derived from reachability; assumed is only what concerns the targets' own content. *)
Theorem C05_roundtrip_reachable : forall canon glob_ok pweight text t,
  new_table pweight canon glob_ok text = Ok t ->
  targets_good canon t -> text_good t ->
  new_table pweight_dec canon glob_ok (render t) = Ok (sort_table (reorder t))
  /\ forall h, lookup h (sort_table (reorder t)) = option_map sort_routes (lookup h t).
Proof. exact roundtrip_reachable. Qed.
Print Assumptions C05_roundtrip_reachable.

(* non-vacuity: a real script reaches a table (hence [inv]) on which a weight command and a del
   command, both naming the host in mixed case, matched *)
Theorem C05_nonvacuous : exists t, nt_text ex_script = Ok t /\ length (flat t) = 2%nat.
Proof. exact ex_script_ok. Qed.
Print Assumptions C05_nonvacuous.
