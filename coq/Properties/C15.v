(** C15 — configuration sources and precedence (config/flagset.go ParseFlags,
    config/load.go, config/kvslice.go, route/glob_cache.go).
    This file contains only statements, [exact], and [Print Assumptions]. *)
From Coq Require Import String List NArith ZArith.
From Fabio Require Import Lib.Outcome Lib.Bytes Model.FlagSet Model.KVSlice Model.GlobCacheSize
     Proofs.FlagSet Proofs.KVSlice Proofs.GlobCacheSize.
Import ListNotations.
Local Open Scope N_scope.

(* Precedence, for every registered flag and every combination of the five sources:
   after ParseFlags with the prefixes config.Load passes, the raw value a flag's Value
   received last is the value of the first present source in the order command line,
   FABIO_-prefixed variable, plain variable, properties file; the flag counts as set iff
   some source is present (otherwise the default stays). *)
Theorem C15_precedence : forall flags bad args environ props calls,
  parse_args flags bad args [] = Ok calls ->
  env_well_formed environ = true ->
  exists rs,
    parse_flags flags bad args environ fabio_prefixes props = Ok rs /\
    Forall2 (fun f r => r_name r = fname f /\
                        final_raw r = spec_choice calls environ props (fname f) /\
                        r_set r = is_some (final_raw r)) flags rs.
Proof. exact precedence. Qed.
Print Assumptions C15_precedence.

(* The same for any prefix list a caller passes. *)
Theorem C15_precedence_any_prefixes : forall flags bad args environ prefixes props calls,
  parse_args flags bad args [] = Ok calls ->
  env_well_formed environ = true ->
  exists rs,
    parse_flags flags bad args environ prefixes props = Ok rs /\
    Forall2 (fun f r => r_name r = fname f /\
                        final_raw r = spec_choice_gen calls environ prefixes props (fname f) /\
                        r_set r = is_some (final_raw r)) flags rs.
Proof. exact precedence_gen. Qed.
Print Assumptions C15_precedence_any_prefixes.

(* Environment variable names in any letter case. *)
Theorem C15_env_case_insensitive : forall flags bad args environ environ' prefixes props,
  Forall2 same_up_to_case environ environ' ->
  parse_flags flags bad args environ prefixes props
  = parse_flags flags bad args environ' prefixes props.
Proof. exact env_case_insensitive. Qed.
Print Assumptions C15_env_case_insensitive.

(* Whichever single source supplies the raw value v, the option's Value.Set receives
   exactly v and the option counts as set. *)
Theorem C15_source_equivalence : forall flags bad args environ props calls k v f,
  parse_args flags bad args [] = Ok calls ->
  env_well_formed environ = true ->
  In f flags -> In k [1; 2; 3; 4] ->
  only_source calls environ props (fname f) k v ->
  exists rs r,
    parse_flags flags bad args environ fabio_prefixes props = Ok rs /\ In r rs /\
    r_name r = fname f /\ final_raw r = Some v /\ r_set r = true.
Proof. exact source_equivalence. Qed.
Print Assumptions C15_source_equivalence.

(* "Never a panic" fails: an environment entry without '=' (for example FOO) panics,
   whatever flags are registered and whatever else is configured ... *)
Theorem C15_env_without_eq_refuted : forall flags bad prefixes props,
  parse_flags flags bad [] [bs "FOO"] prefixes props = Panic.
Proof. exact env_without_eq_witness. Qed.
Print Assumptions C15_env_without_eq_refuted.

(* ... exactly the blocks with such an entry do (finding region 1) ... *)
Theorem C15_env_without_eq_region : forall flags bad args environ prefixes props calls,
  parse_args flags bad args [] = Ok calls ->
  env_well_formed environ = false ->
  parse_flags flags bad args environ prefixes props = Panic.
Proof. exact env_without_eq_panics. Qed.
Print Assumptions C15_env_without_eq_region.

(* ... and outside that region ParseFlags never panics. *)
Theorem C15_never_panics_on_domain : forall flags bad args environ prefixes props,
  env_well_formed environ = true ->
  parse_flags flags bad args environ prefixes props <> Panic.
Proof. exact parse_flags_never_panics_on_domain. Qed.
Print Assumptions C15_never_panics_on_domain.

(* parseKVSlice: every token consumes between 1 and len(s) runes ... *)
Theorem C15_lex_consumes : forall s, s <> [] -> (1 <= tok_n (lex s) <= length s)%nat.
Proof. exact lex_consumes. Qed.
Print Assumptions C15_lex_consumes.

(* ... so for every input the parser terminates with maps or an error, never a panic. *)
Theorem C15_kvslice_total : forall s, good (parse_kvslice s).
Proof. exact parse_kvslice_total. Qed.
Print Assumptions C15_kvslice_total.

Theorem C15_kvslice_never_panics : forall s, parse_kvslice s <> KPanic /\ parse_kvslice s <> KFuel.
Proof. exact parse_kvslice_never_panics. Qed.
Print Assumptions C15_kvslice_never_panics.

(* "Accepted => runnable" fails: glob.cache.size = 0 is accepted and the first lookup of
   any pattern panics; a negative size is accepted and creating the cache panics
   (finding region 2: size <= 0) ... *)
Theorem C15_globcache_size_zero_refuted : forall p,
  load_accepts_glob_cache_size 0 = true /\ first_use 0 p = Ok [Panic].
Proof. exact size_zero_first_use_panics. Qed.
Print Assumptions C15_globcache_size_zero_refuted.

Theorem C15_globcache_size_negative_refuted : forall size p,
  (size < 0)%Z -> load_accepts_glob_cache_size size = true /\ first_use size p = Panic.
Proof. exact size_negative_panics. Qed.
Print Assumptions C15_globcache_size_negative_refuted.

Theorem C15_globcache_region : forall size p, (size <= 0)%Z -> runnable size p = false.
Proof. exact not_runnable_outside_domain. Qed.
Print Assumptions C15_globcache_region.

(* ... and for every size > 0 no sequence of lookups panics. *)
Theorem C15_globcache_ok_on_domain : forall size calls,
  (0 < size)%Z -> exists l, glob_session size calls = Ok l /\ ~ In Panic l.
Proof. exact globcache_ok_on_domain. Qed.
Print Assumptions C15_globcache_ok_on_domain.

(* non-vacuity: concrete configurations meet the hypotheses *)
Theorem C15_source_equivalence_nonvacuous :
  only_source [(bs "insecure", bs "true")] [] None (bs "insecure") 1 (bs "true") /\
  only_source [] [bs "fabio_INSECURE=true"] None (bs "insecure") 2 (bs "true") /\
  only_source [] [bs "Insecure=true"] None (bs "insecure") 3 (bs "true") /\
  only_source [] [] (Some [(bs "insecure", bs "true")]) (bs "insecure") 4 (bs "true").
Proof. exact source_equivalence_nonvacuous. Qed.
Print Assumptions C15_source_equivalence_nonvacuous.

Theorem C15_env_case_nonvacuous :
  Forall2 same_up_to_case [bs "fabio_proxy_ADDR=:1"; bs "x=y"] [bs "FABIO_PROXY_addr=:1"; bs "X=y"].
Proof. exact env_case_nonvacuous. Qed.
Print Assumptions C15_env_case_nonvacuous.
