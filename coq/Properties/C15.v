(** C15 — configuration sources and precedence (config/flagset.go ParseFlags,
    config/load.go, config/kvslice.go, route/glob_cache.go).
    This file contains only statements, [exact], and [Print Assumptions]. *)
From Coq Require Import String List NArith ZArith.
From Fabio Require Import Lib.Outcome Lib.Bytes Model.FlagSet Model.KVSlice Model.GlobCacheSize
     Model.StartUp Model.LoadArgs Model.EnumOptions Proofs.FlagSet Proofs.KVSlice Proofs.GlobCacheSize
     Proofs.StartUp Proofs.LoadArgs Proofs.EnumOptions.
Import ListNotations.
Local Open Scope N_scope.

(* Precedence, for every registered flag and every combination of the five sources:
   whenever ParseFlags (with the prefixes config.Load passes) succeeds, the raw value a flag's
   Value received last is the value of the first present source in the order command line,
   FABIO_-prefixed variable, plain variable, properties file; the flag counts as set iff
   some source is present (otherwise the default stays). *)
Theorem C15_precedence : forall flags bad args environ props calls rs,
  parse_args flags bad args [] = Ok calls ->
  parse_flags flags bad args environ fabio_prefixes props = Ok rs ->
  Forall2 (fun f r => r_name r = fname f /\
                      final_raw r = spec_choice calls environ props (fname f) /\
                      r_set r = is_some (final_raw r)) flags rs.
Proof. exact precedence. Qed.
Print Assumptions C15_precedence.

(* The same for any prefix list a caller passes. *)
Theorem C15_precedence_any_prefixes : forall flags bad args environ prefixes props calls rs,
  parse_args flags bad args [] = Ok calls ->
  parse_flags flags bad args environ prefixes props = Ok rs ->
  Forall2 (fun f r => r_name r = fname f /\
                      final_raw r = spec_choice_gen calls environ prefixes props (fname f) /\
                      r_set r = is_some (final_raw r)) flags rs.
Proof. exact precedence_gen. Qed.
Print Assumptions C15_precedence_any_prefixes.

(* It succeeds whenever the command line parses and no chosen value is rejected by its
   option's type; otherwise the only other outcome is the error class "value rejected". *)
Theorem C15_parse_flags_accepts : forall flags bad args environ prefixes props calls,
  parse_args flags bad args [] = Ok calls ->
  (forall f v, In f flags ->
               spec_choice_gen calls environ prefixes props (fname f) = Some v ->
               bad (fname f) v = false) ->
  exists rs, parse_flags flags bad args environ prefixes props = Ok rs.
Proof. exact parse_flags_accepts. Qed.
Print Assumptions C15_parse_flags_accepts.

(* (mechanism lemma, no specification content: [visited] is the model's own map; the
   specification of the verdict is C15_parse_flags_verdict_spec below) *)
Theorem C15_parse_flags_verdict : forall flags bad args environ prefixes props calls,
  parse_args flags bad args [] = Ok calls ->
  parse_flags flags bad args environ prefixes props = Ok (visited flags calls environ prefixes props) \/
  parse_flags flags bad args environ prefixes props = Err 1.
Proof. exact parse_flags_verdict. Qed.
Print Assumptions C15_parse_flags_verdict.

(* Environment variable names in any letter case. *)
Theorem C15_env_case_insensitive : forall flags bad args environ environ' prefixes props,
  Forall2 same_up_to_case environ environ' ->
  parse_flags flags bad args environ prefixes props
  = parse_flags flags bad args environ' prefixes props.
Proof. exact env_case_insensitive. Qed.
Print Assumptions C15_env_case_insensitive.

(* Whichever single source supplies the raw value v, the option's Value.Set receives
   exactly v and the option counts as set. *)
Theorem C15_source_equivalence : forall flags bad args environ props calls rs k v f,
  parse_args flags bad args [] = Ok calls ->
  parse_flags flags bad args environ fabio_prefixes props = Ok rs ->
  In f flags -> In k [1; 2; 3; 4] ->
  only_source calls environ props (fname f) k v ->
  exists r, In r rs /\ r_name r = fname f /\ final_raw r = Some v /\ r_set r = true.
Proof. exact source_equivalence. Qed.
Print Assumptions C15_source_equivalence.

(* The verdict of ParseFlags for ANY flag list, argument list, environment block, prefix list
   and file: it succeeds iff flag.Parse does and, for every registered flag the command line
   does not set, the value of the first present other source is accepted by the flag's type. *)
Theorem C15_parse_flags_verdict_spec : forall flags bad args environ prefixes props calls,
  parse_args flags bad args [] = Ok calls ->
  is_ok (parse_flags flags bad args environ prefixes props)
  = forallb (chosen_ok bad calls environ prefixes props) flags.
Proof. exact parse_flags_verdict_spec. Qed.
Print Assumptions C15_parse_flags_verdict_spec.

(* All spellings of a command-line assignment mean the same as "-name=v": "--name=v", and for
   non-bool options "-name v" / "--name v", for bool options the bare "-name" (= true). *)
Theorem C15_cmdline_spellings : forall bad name isbool v,
  plain_name name ->
  let flags := [{| fname := name; fbool := isbool |}] in
  parse_args flags bad [45 :: 45 :: name ++ 61 :: v] [] = parse_args flags bad [45 :: name ++ 61 :: v] [] /\
  (isbool = false ->
   parse_args flags bad [45 :: name; v] [] = parse_args flags bad [45 :: name ++ 61 :: v] [] /\
   parse_args flags bad [45 :: 45 :: name; v] [] = parse_args flags bad [45 :: name ++ 61 :: v] []) /\
  (isbool = true ->
   parse_args flags bad [45 :: name] [] = parse_args flags bad [45 :: name ++ 61 :: bs "true"] []).
Proof. exact cmdline_spellings. Qed.
Print Assumptions C15_cmdline_spellings.

(* The same verdict from every source for EVERY raw value, well-formed for the option's type
   or not: "-name=v" on the command line is accepted iff the type accepts v, and so is v given
   by the FABIO_ variable, the plain variable or the properties file alone (k = 2, 3, 4). *)
Theorem C15_same_verdict_every_source : forall bad name isbool v environ props k,
  plain_name name ->
  In k [2; 3; 4] ->
  only_source [] environ props name k v ->
  let f := {| fname := name; fbool := isbool |} in
  is_ok (parse_flags [f] bad [45 :: name ++ 61 :: v] [] fabio_prefixes None) = negb (bad name v) /\
  is_ok (parse_flags [f] bad [] environ fabio_prefixes props) = negb (bad name v).
Proof. exact same_verdict_every_source. Qed.
Print Assumptions C15_same_verdict_every_source.

Theorem C15_same_verdict_nonvacuous :
  plain_name (bs "proxy.maxconn") /\
  only_source [] [bs "Fabio_Proxy_MaxConn=abc"] None (bs "proxy.maxconn") 2 (bs "abc") /\
  only_source [] [bs "proxy_maxconn=abc"] None (bs "proxy.maxconn") 3 (bs "abc") /\
  only_source [] [] (Some [(bs "proxy.maxconn", bs "abc")]) (bs "proxy.maxconn") 4 (bs "abc") /\
  parse_flags maxconn_flags abc_is_bad [] [bs "FABIO_PROXY_MAXCONN=abc"] fabio_prefixes None = Err 1 /\
  parse_flags maxconn_flags abc_is_bad [bs "-proxy.maxconn=abc"] [] fabio_prefixes None = Err 1.
Proof. exact same_verdict_nonvacuous. Qed.
Print Assumptions C15_same_verdict_nonvacuous.

(* Never a panic: ParseFlags returns results or an error for every argument list, every
   environment block (entries without '=' included), every prefix list and properties map. *)
Theorem C15_never_panics : forall flags bad args environ prefixes props,
  parse_flags flags bad args environ prefixes props <> Panic.
Proof. exact parse_flags_never_panics. Qed.
Print Assumptions C15_never_panics.

(* Entries that are not of the form NAME=VALUE are as good as absent. *)
Theorem C15_entries_without_eq_ignored : forall flags bad args environ prefixes props,
  parse_flags flags bad args environ prefixes props
  = parse_flags flags bad args
      (filter (fun e => match snd (cut_eq e) with Some _ => true | None => false end) environ)
      prefixes props.
Proof. exact entries_without_eq_ignored. Qed.
Print Assumptions C15_entries_without_eq_ignored.

(* Repaired in /repo by 3899f15 (finding F-C15-1).  The loop as it was before the fix
   ([parse_flags_unrepaired]) panics on an environment entry without '=' (for example
   FOO), whatever flags are registered and whatever else is configured ... *)
Theorem C15_env_without_eq_refuted : forall flags bad prefixes props,
  parse_flags_unrepaired flags bad [] [bs "FOO"] prefixes props = Panic.
Proof. exact unrepaired_env_without_eq_witness. Qed.
Print Assumptions C15_env_without_eq_refuted.

(* ... on exactly the blocks with such an entry; elsewhere it equals the repaired one. *)
Theorem C15_env_without_eq_unrepaired_region : forall flags bad args environ prefixes props calls,
  parse_args flags bad args [] = Ok calls ->
  env_well_formed environ = false ->
  parse_flags_unrepaired flags bad args environ prefixes props = Panic.
Proof. exact unrepaired_env_without_eq_panics. Qed.
Print Assumptions C15_env_without_eq_unrepaired_region.

Theorem C15_unrepaired_agrees_on_domain : forall flags bad args environ prefixes props,
  env_well_formed environ = true ->
  parse_flags_unrepaired flags bad args environ prefixes props
  = parse_flags flags bad args environ prefixes props.
Proof. exact unrepaired_agrees_on_domain. Qed.
Print Assumptions C15_unrepaired_agrees_on_domain.

(* parseKVSlice: every token consumes between 1 and len(s) runes ... *)
Theorem C15_lex_consumes : forall s, s <> [] -> (1 <= tok_n (lex s) <= length s)%nat.
Proof. exact lex_consumes. Qed.
Print Assumptions C15_lex_consumes.

(* ... so for every input the parser terminates with maps or an error, never a panic. *)
Theorem C15_kvslice_total : forall s, good (parse_kvslice s).
Proof. exact parse_kvslice_total. Qed.
Print Assumptions C15_kvslice_total.

Theorem C15_kvslice_never_panics : forall s, parse_kvslice s <> KPanic /\ parse_kvslice s <> KFuel.
Proof. exact parse_kvslice_never_panics. Qed.
Print Assumptions C15_kvslice_never_panics.

(* Accepted => runnable, for EVERY configured glob.cache.size and every sequence of
   lookups: config.Load returns an error (size <= 0, load.go:364), or creating the cache
   and all lookups proceed without panic. *)
Theorem C15_accepted_never_panics : forall size calls,
  load_then_use size calls = Err 1 \/
  exists l, load_then_use size calls = Ok l /\ ~ In Panic l.
Proof. exact accepted_never_panics. Qed.
Print Assumptions C15_accepted_never_panics.

(* (restatement of the theorem above with the flag in the signature: the model's check ignores
   glob.matching.disabled by definition; what ties this to the code is the class
   glob-cache-size-x-matching-disabled) ... whatever glob.matching.disabled says: main.go builds the cache unconditionally, so the
   load-time check must not (and in the model does not) depend on that flag. *)
Theorem C15_accepted_never_panics_any_flag : forall size disabled calls,
  load_then_use_settings size disabled calls = Err 1 \/
  exists l, load_then_use_settings size disabled calls = Ok l /\ ~ In Panic l.
Proof. exact accepted_never_panics_any_flag. Qed.
Print Assumptions C15_accepted_never_panics_any_flag.

Theorem C15_load_accepts_iff : forall size,
  load_accepts_glob_cache_size size = true <-> (0 < size)%Z.
Proof. exact load_accepts_iff. Qed.
Print Assumptions C15_load_accepts_iff.

(* The cache for every size > 0: no sequence of lookups panics. *)
Theorem C15_globcache_ok_on_domain : forall size calls,
  (0 < size)%Z -> exists l, glob_session size calls = Ok l /\ ~ In Panic l.
Proof. exact globcache_ok_on_domain. Qed.
Print Assumptions C15_globcache_ok_on_domain.

(* Repaired in /repo by e17deb4 (finding F-C15-2).  Before the fix load did not look at
   the value: glob.cache.size = 0 was accepted and the first lookup of any pattern
   panicked; a negative size was accepted and creating the cache panicked. *)
Theorem C15_globcache_size_zero_refuted : forall p,
  load_accepts_glob_cache_size_unrepaired 0 = true /\
  load_then_use_unrepaired 0 [(p, true)] = Ok [Panic].
Proof. exact unrepaired_size_zero_first_use_panics. Qed.
Print Assumptions C15_globcache_size_zero_refuted.

Theorem C15_globcache_size_negative_refuted : forall size p,
  (size < 0)%Z ->
  load_accepts_glob_cache_size_unrepaired size = true /\
  load_then_use_unrepaired size [(p, true)] = Panic.
Proof. exact unrepaired_size_negative_panics. Qed.
Print Assumptions C15_globcache_size_negative_refuted.

(* The cache itself is unchanged and still must not be created with a size <= 0. *)
Theorem C15_globcache_not_runnable_outside_domain : forall size p,
  (size <= 0)%Z -> runnable size p = false.
Proof. exact not_runnable_outside_domain. Qed.
Print Assumptions C15_globcache_not_runnable_outside_domain.

(* (composition of earlier theorems; it covers ParseFlags, parseKVSlice and the ui.addr block,
   NOT all of config.Load -- see the last sentence)  Degenerate option values (empty, blanks, separators or quotes only, arbitrary bytes,
   malformed numbers ...), as far as the model carries load(): ParseFlags never panics
   whatever the raw values and whatever the typed values reject (C15_never_panics, for every
   [bad]; a rejected value is an error from every source, C15_same_verdict_every_source); parseKVSlice never panics (C15_kvslice_never_panics) and returns no map for
   separators-only input; the ui.addr block of load() then returns the "only one listener"
   error and never indexes the empty list.  The rest of load()'s post-processing (parseListen,
   parseCertSource, go-sockaddr templates, regexp.Compile, strconv in the typed values) is
   NOT modelled: "never panics" for it is tied only by the degenerate-value class of the
   correspondence run (every option x ~15-30 degenerate values x every source). *)
Theorem C15_load_never_panics_on_degenerate_values :
  (forall flags bad args environ prefixes props,
      parse_flags flags bad args environ prefixes props <> Panic) /\
  (forall v, good (parse_kvslice v)) /\
  (forall v, ui_addr_step v <> Panic) /\
  (forall v, Forall (fun c => c = 44 \/ c = 59) v -> parse_kvslice v = KOk []) /\
  (forall v, v <> [] -> parse_kvslice v = KOk [] -> ui_addr_step v = Err 2).
Proof.
  exact (conj parse_flags_never_panics
        (conj parse_kvslice_total
        (conj ui_addr_step_never_panics
        (conj parse_kvslice_separators_only ui_addr_step_no_listener)))).
Qed.
Print Assumptions C15_load_never_panics_on_degenerate_values.

(* Repaired in /repo by 12b472e (finding F-C15-3).  Before the fix ParseFlags dropped the error
   of f.Set for environment and file values ([parse_flags_set_error_dropped]): a raw value the
   option's type rejects failed on the command line (usage error) but from the environment and
   the file it was applied as far as the failed Set applies it, the option counted as set and
   ParseFlags returned nil.  Witness: proxy.maxconn = abc.  The repaired model gives every
   source the same verdict for every raw value: C15_same_verdict_every_source. *)
Theorem C15_illformed_value_source_dependent_refuted :
  parse_flags_set_error_dropped maxconn_flags abc_is_bad [bs "-proxy.maxconn=abc"] [] fabio_prefixes None = Err 1 /\
  parse_flags_set_error_dropped maxconn_flags abc_is_bad [] [bs "FABIO_PROXY_MAXCONN=abc"] fabio_prefixes None
  = Ok [{| r_name := bs "proxy.maxconn"; r_set := true; r_calls := [bs "abc"]; r_src := SrcEnv 0 |}] /\
  parse_flags_set_error_dropped maxconn_flags abc_is_bad [] [] fabio_prefixes (Some [(bs "proxy.maxconn", bs "abc")])
  = Ok [{| r_name := bs "proxy.maxconn"; r_set := true; r_calls := [bs "abc"]; r_src := SrcProps |}].
Proof. exact illformed_value_source_dependent. Qed.
Print Assumptions C15_illformed_value_source_dependent_refuted.

(* (assumption made explicit, not a result: [load_history] is [map load] by definition; the
   content is in the load-history class of the correspondence run, which compares same-process
   histories with fresh-process Loads)  Load keeps no state between calls (model: a history of Loads is the list of the single
   Loads): the result for an input is the single-Load result whatever was loaded before,
   and the results of earlier Loads are unchanged by later ones.  Tied to the code by the
   load-history class (same-process sequences compared with fresh-process Loads). *)
Theorem C15_load_history_independent :
  forall (I R : Type) (load : I -> R) (before after : list I) (x : I),
  nth_error (load_history load (before ++ x :: after)) (length before) = Some (load x) /\
  firstn (length before) (load_history load (before ++ x :: after)) = load_history load before.
Proof. exact @load_history_independent. Qed.
Print Assumptions C15_load_history_independent.

(* config.parse (the version words, the spellings of -cfg, the -test. words) returns for every
   non-empty argument list.  The empty list hits the explicit panic("missing exec name"):
   os.Args always carries the program name, that case is outside the property's quantifier.
   A version word makes config.Load return (nil, nil) -- neither a configuration nor an error,
   by design: main prints the version and exits. *)
Theorem C15_config_parse_never_panics : forall args, args <> [] -> config_parse args <> Panic.
Proof. exact config_parse_never_panics. Qed.
Print Assumptions C15_config_parse_never_panics.

Theorem C15_config_parse_empty_args_outside_quantifier : config_parse [] = Panic.
Proof. exact config_parse_empty. Qed.
Print Assumptions C15_config_parse_empty_args_outside_quantifier.

(* Accepted => runnable for metrics.interval: for EVERY interval and every metrics.target,
   config.Load returns an error (interval <= 0, load.go:369, fix 8131dd0) or the providers
   start (time.NewTicker does not panic). *)
Theorem C15_accepted_runnable_metrics_interval : forall interval ticker_target,
  load_then_start_metrics interval ticker_target = Err 1 \/
  load_then_start_metrics interval ticker_target = Ok tt.
Proof. exact accepted_runnable_metrics_interval. Qed.
Print Assumptions C15_accepted_runnable_metrics_interval.

(* Repaired in /repo by 8131dd0.  Before the fix every interval was accepted and an interval
   <= 0 panicked in time.NewTicker when a statsd_raw / dogstatsd / graphite provider started. *)
Theorem C15_accepted_runnable_metrics_interval_refuted : forall interval,
  (interval <= 0)%Z ->
  load_accepts_metrics_interval_unrepaired interval = true /\
  load_then_start_metrics_unrepaired interval true = Panic.
Proof. exact unrepaired_metrics_interval_panics. Qed.
Print Assumptions C15_accepted_runnable_metrics_interval_refuted.

(* ---- the enumerated options proxy.strategy, proxy.matcher, ui.access (Model/EnumOptions.v) ----
   Accepted => runnable: with a configuration config.Load returned, no lookup at any of the
   consumers main() builds (HTTP proxy, TCP+SNI host lookups, gRPC interceptor) panics, whatever
   routes and numbers of targets the routing table holds, and the admin server implements the
   access mode. *)
Theorem C15_enum_accepted_runnable : forall s m a c,
  load_enums s m a = Ok c ->
  (forall site keys, en_site_lookup c site keys <> Panic) /\ admin_mode_of (e_access c) <> None.
Proof. exact enum_accepted_runnable. Qed.
Print Assumptions C15_enum_accepted_runnable.

(* Load, then a lookup: an error of Load, or a result -- for every triple of values, every
   consumer and every table *)
Theorem C15_enum_load_then_lookup : forall s m a site keys,
  load_then_lookup s m a site keys = Err 1 \/ exists r, load_then_lookup s m a site keys = Ok r.
Proof. exact load_then_lookup_runnable. Qed.
Print Assumptions C15_enum_load_then_lookup.

(* the verdict of Load, as lists of admissible values (case-sensitive, nothing trimmed) ... *)
Theorem C15_enum_accept_iff : forall s m a,
  is_ok (load_enums s m a) = true <->
  In (en_or en_default_strategy s) [bs "rr"; bs "rnd"] /\
  In (en_or en_default_matcher m) [bs "prefix"; bs "glob"; bs "iprefix"] /\
  In (en_or en_default_access a) [bs "ro"; bs "rw"].
Proof. exact enum_accept_iff. Qed.
Print Assumptions C15_enum_accept_iff.

(* ... which are exactly the values the consumers implement: nothing runnable is rejected *)
Theorem C15_enum_accept_iff_implemented : forall s m a,
  is_ok (load_enums s m a) = true <->
  picker_of (en_or en_default_strategy s) <> None /\
  matcher_of (en_or en_default_matcher m) <> None /\
  admin_mode_of (en_or en_default_access a) <> None.
Proof. exact enum_accept_iff_implemented. Qed.
Print Assumptions C15_enum_accept_iff_implemented.

(* the returned configuration carries the values as given (the consumers index their maps with
   these very strings, so a validation that folds case must store the folded value) *)
Theorem C15_enum_stored_as_given : forall s m a c,
  load_enums s m a = Ok c ->
  e_strategy c = en_or en_default_strategy s /\
  e_matcher c = en_or en_default_matcher m /\
  e_access c = en_or en_default_access a.
Proof. exact enum_stored_as_given. Qed.
Print Assumptions C15_enum_stored_as_given.

(* why the validation has to be exact: a strategy outside the picker map panics on the first
   request that matches a route with two or more targets, while one-target routes keep working;
   a matcher outside the matcher map panics on the first route looked at *)
Theorem C15_enum_unknown_strategy_not_runnable : forall s mk r n,
  picker_of s = None -> en_call_match (Some mk) r = Ok true -> rt_targets r = n -> 2 <= n ->
  en_lookup (picker_of s) (Some mk) [r] 0 = Panic.
Proof. exact unknown_strategy_not_runnable. Qed.
Print Assumptions C15_enum_unknown_strategy_not_runnable.

Theorem C15_enum_unknown_strategy_single_target_works : forall s mk r,
  picker_of s = None -> en_call_match (Some mk) r = Ok true -> rt_targets r = 1 ->
  en_lookup (picker_of s) (Some mk) [r] 0 = Ok (Some (FoundOnly 0)).
Proof. exact unknown_strategy_single_target_works. Qed.
Print Assumptions C15_enum_unknown_strategy_single_target_works.

Theorem C15_enum_unknown_matcher_not_runnable : forall m p r rest,
  matcher_of m = None -> en_lookup p (matcher_of m) (r :: rest) 0 = Panic.
Proof. exact unknown_matcher_not_runnable. Qed.
Print Assumptions C15_enum_unknown_matcher_not_runnable.

Theorem C15_enum_values_case_sensitive :
  picker_of (bs "RR") = None /\ picker_of (bs "Rnd") = None /\ matcher_of (bs "Glob") = None /\
  admin_mode_of (bs "RO") = None /\
  load_enums (Some (bs "RR")) None None = Err 1 /\
  load_enums None (Some (bs "Glob")) None = Err 1 /\
  load_enums None None (Some (bs "RO")) = Err 1.
Proof. exact enum_values_case_sensitive. Qed.
Print Assumptions C15_enum_values_case_sensitive.

(* The same effect from every source with the fixed precedence: for every argument list,
   environment block and file, what Load does with the three options is what it does with the
   value of the first present source of each ... *)
Theorem C15_enum_load_by_first_present_source : forall args environ props calls,
  parse_args enum_flags en_no_bad args [] = Ok calls ->
  load_enums_from args environ props
  = load_enums (spec_choice calls environ props en_strategy_name)
               (spec_choice calls environ props en_matcher_name)
               (spec_choice calls environ props en_access_name).
Proof. exact enum_load_by_first_present_source. Qed.
Print Assumptions C15_enum_load_by_first_present_source.

(* ... it never panics, and whatever it accepts can be run *)
Theorem C15_enum_load_from_never_panics : forall args environ props,
  load_enums_from args environ props <> Panic.
Proof. exact enum_load_from_never_panics. Qed.
Print Assumptions C15_enum_load_from_never_panics.

Theorem C15_enum_load_from_sources_runnable : forall args environ props c,
  load_enums_from args environ props = Ok c ->
  (forall site keys, en_site_lookup c site keys <> Panic) /\ admin_mode_of (e_access c) <> None.
Proof. exact enum_load_from_sources_runnable. Qed.
Print Assumptions C15_enum_load_from_sources_runnable.

Theorem C15_enum_runnable_nonvacuous :
  let args := [bs "-proxy.strategy=rr"] in
  let env := [bs "Fabio_Proxy_Matcher=glob"; bs "proxy_strategy=RR"] in
  let props := Some [(bs "ui.access", bs "ro"); (bs "proxy.matcher", bs "Glob")] in
  let c := {| e_strategy := bs "rr"; e_matcher := bs "glob"; e_access := bs "ro" |} in
  let two := {| rt_prefix := false; rt_glob := true; rt_iprefix := false; rt_targets := 2 |} in
  let one := {| rt_prefix := true; rt_glob := false; rt_iprefix := true; rt_targets := 1 |} in
  load_enums_from args env props = Ok c /\
  en_site_lookup c 0 [[one; two]] = Ok (Some (0%nat, FoundPicked 1 PickRR)) /\
  en_site_lookup c 1 [[one; two]] = Ok (Some (0%nat, FoundOnly 0)) /\
  admin_mode_of (e_access c) = Some AdminForbidden /\
  load_enums_from [] [bs "proxy_strategy=RR"] None = Err 1 /\
  en_lookup (picker_of (bs "RR")) (Some MatchGlob) [two] 0 = Panic.
Proof. exact enum_runnable_nonvacuous. Qed.
Print Assumptions C15_enum_runnable_nonvacuous.

(* non-vacuity: all five sources at once -- a successful ParseFlags in which the command line
   wins, then FABIO_, then the plain variable, then the file, then nothing *)
Theorem C15_precedence_nonvacuous :
  let env := [bs "proxy_addr=:3"; bs "Fabio_Proxy_Addr=:2"; bs "HOME=/root"] in
  let props := Some [(bs "proxy.addr", bs ":4")] in
  option_map final_raw (option_map (fun rs => nth 0 rs {| r_name := []; r_set := false; r_calls := []; r_src := SrcDefault |})
     (match parse_flags ex_flags no_bad_values [bs "-proxy.addr=:1"] env fabio_prefixes props with Ok rs => Some rs | _ => None end))
  = Some (Some (bs ":1")) /\
  parse_args ex_flags no_bad_values [bs "-proxy.addr=:1"] [] = Ok [(bs "proxy.addr", bs ":1")] /\
  spec_choice [] env props (bs "proxy.addr") = Some (bs ":2") /\
  spec_choice [] [bs "proxy_addr=:3"] props (bs "proxy.addr") = Some (bs ":3") /\
  spec_choice [] [] props (bs "proxy.addr") = Some (bs ":4") /\
  spec_choice [] [] None (bs "proxy.addr") = None.
Proof. exact precedence_nonvacuous. Qed.
Print Assumptions C15_precedence_nonvacuous.

(* non-vacuity: concrete configurations meet the hypotheses *)
Theorem C15_source_equivalence_nonvacuous :
  only_source [(bs "insecure", bs "true")] [] None (bs "insecure") 1 (bs "true") /\
  only_source [] [bs "fabio_INSECURE=true"] None (bs "insecure") 2 (bs "true") /\
  only_source [] [bs "Insecure=true"] None (bs "insecure") 3 (bs "true") /\
  only_source [] [] (Some [(bs "insecure", bs "true")]) (bs "insecure") 4 (bs "true").
Proof. exact source_equivalence_nonvacuous. Qed.
Print Assumptions C15_source_equivalence_nonvacuous.

Theorem C15_env_case_nonvacuous :
  Forall2 same_up_to_case [bs "fabio_proxy_ADDR=:1"; bs "x=y"] [bs "FABIO_PROXY_addr=:1"; bs "X=y"].
Proof. exact env_case_nonvacuous. Qed.
Print Assumptions C15_env_case_nonvacuous.
