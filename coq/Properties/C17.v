(** C17 -- response compression never changes the content (proxy/gzip/gzip_handler.go,
    wired in by proxy/http_proxy.go:225-227).  This file contains only statements, [exact],
    and [Print Assumptions].

    [handler sniff ctm h0 accept ae ops] = what gzip.NewGzipHandler leaves in the
    ResponseWriter when the inner handler makes the calls [ops];  [bare sniff h0 ops] = what
    the same calls leave there without the gzip handler ("what the upstream produced");
    [written ops] = the concatenation of the Write calls.  All theorems hold for every call
    sequence (any number and size of chunks, with or without WriteHeader, informational 1xx
    WriteHeaders anywhere, header changes and clear(Header()) at any point), every
    content-type expression [ctm], every sniffer [sniff], every request.  Status, headers and
    body are those of the FINAL response; informational responses are in [o_info]. *)
From Coq Require Import String List NArith Bool.
From Fabio Require Import Lib.Bytes Model.Gzip Proofs.Gzip.
Import ListNotations.
Local Open Scope N_scope.

(* The (final) status code is preserved in all cases.  [valid_codes ops]: every WriteHeader code is in
   100..999 and is not 101 -- the modelled domain (net/http panics outside 100..999; 101 is a final
   code for the server although the handler passes it on like a 1xx). *)
Theorem C17_status_preserved : forall sniff ctm h0 accept ae ops, valid_codes ops = true ->
  o_code (handler sniff ctm h0 accept ae ops) = o_code (bare sniff h0 ops).
Proof. exact status_preserved. Qed.
Print Assumptions C17_status_preserved.

(* Informational responses are passed on: same codes in the same order, each with the
   upstream's headers at that moment (Vary gained at most one Accept-Encoding). *)
Theorem C17_informational_preserved : forall sniff ctm h0 accept ae ops,
  info_rel (o_info (handler sniff ctm h0 accept ae ops)) (o_info (bare sniff h0 ops)).
Proof. exact informational_preserved. Qed.
Print Assumptions C17_informational_preserved.

(* The wrapper never uses its writer before deciding (no nil-writer panic), on the same domain. *)
Theorem C17_never_panics : forall sniff ctm h0 accept ae ops, valid_codes ops = true ->
  o_panic (handler sniff ctm h0 accept ae ops) = false.
Proof. exact never_panics. Qed.
Print Assumptions C17_never_panics.

(* Compressed only if the request passes acceptsGzip (as of commits 7cff601 + bfb8a14: some element
   of the first Accept-Encoding line is named gzip / x-gzip, case-insensitively, and is not
   "q=<zeros and dots>" in either case), the content type of the delivered response matches the
   expression, and the upstream did not encode it. *)
Theorem C17_compressed_only_if : forall sniff ctm h0 accept ae ops f,
  o_fed (handler sniff ctm h0 accept ae ops) = Some f ->
  accepts_gzip accept ae = true
  /\ ctm (hget (o_hdr (handler sniff ctm h0 accept ae ops)) H_CT) = true
  /\ hget (o_hdr (bare sniff h0 ops)) H_CE = [].
Proof. exact compressed_only_if. Qed.
Print Assumptions C17_compressed_only_if.

(* "Not already encoded", in full: EVERY Content-Encoding value of the upstream's response is empty --
   outside region 3 (first value empty, a later one not: the code reads Get = the first value). *)
Theorem C17_compressed_only_if_not_encoded_on_domain : forall sniff ctm h0 accept ae ops f,
  o_fed (handler sniff ctm h0 accept ae ops) = Some f ->
  ce_hidden (ce_values (o_hdr (bare sniff h0 ops))) = false ->
  not_encoded (o_hdr (bare sniff h0 ops)) = true.
Proof. exact compressed_only_if_not_encoded_on_domain. Qed.
Print Assumptions C17_compressed_only_if_not_encoded_on_domain.

(* Region 3 refuted (open finding F-C17-4): upstream Content-Encoding: ["", "br"] is compressed again
   and leaves with Content-Encoding: gzip only -- the br label is lost. *)
Theorem C17_ce_first_empty_refuted : forall sniff,
  let ops := [AddHeader H_CE []; AddHeader H_CE (bs "br"); SetHeader H_CT (bs "text/html"); Write (bs "BROTLI")] in
  let res := handler sniff (fun _ => true) [] [] [bs "gzip"] ops in
  ce_hidden (ce_values (o_hdr (bare sniff [] ops))) = true
  /\ not_encoded (o_hdr (bare sniff [] ops)) = false
  /\ o_fed res = Some (bs "BROTLI") /\ hvals (o_hdr res) H_CE = Some [GZIP].
Proof. exact ce_first_empty_refuted. Qed.
Print Assumptions C17_ce_first_empty_refuted.

(* MECHANISM LEMMAS (they unfold the model; their content is the correspondence run, which compares the
   real code with these definitions): the expression is applied to the COMPLETE first value of the
   Content-Type header, at the first non-informational WriteHeader / first Write. *)
Theorem C17_decision_uses_full_content_type : forall sniff ctm c g, is_1xx c = false -> g_sel g = None ->
  g_sel (grw_step sniff ctm (WriteHeader c) g)
  = Some (beq (hget (r_hdr (g_rec g)) H_CE) [] && ctm (hget (r_hdr (g_rec g)) H_CT)).
Proof. exact decision_uses_full_content_type. Qed.
Print Assumptions C17_decision_uses_full_content_type.

Theorem C17_hget_is_first_complete_value : forall h k v vs, hvals h k = Some (v :: vs) -> hget h k = v.
Proof. exact hget_first. Qed.
Print Assumptions C17_hget_is_first_complete_value.

(* ... with content: an expression that excludes parameters does not match a type that carries one *)
Theorem C17_parameters_are_matched : forall sniff,
  let run ct := o_fed (handler sniff (beq (bs "text/plain")) [] [] [bs "gzip"] [SetHeader H_CT (bs ct); Write (bs "hello")]) in
  run "text/plain; charset=utf-8"%string = None /\ run "text/plain ; q"%string = None /\ run "TEXT/PLAIN"%string = None
  /\ run "text/plain"%string = Some (bs "hello").
Proof. exact parameters_are_matched. Qed.
Print Assumptions C17_parameters_are_matched.

(* A compressed response goes only to a client that accepts gzip in the RFC 9110 12.5.3 / 12.4.2 reading
   (some gzip / x-gzip entry none of whose parameters is a zero weight, else "*") -- outside region 1:
   a gzip entry with two or more parameters one of which is a zero weight. *)
Theorem C17_compressed_only_if_rfc_on_domain : forall sniff ctm h0 accept ae ops f,
  o_fed (handler sniff ctm h0 accept ae ops) = Some f ->
  q0_ext_region ae = false -> rfc_accepts_gzip ae = true.
Proof. exact compressed_only_if_rfc_on_domain. Qed.
Print Assumptions C17_compressed_only_if_rfc_on_domain.

(* Region 1 refuted (open finding F-C17-5): "gzip;q=0;x=1" and "gzip;x=1;Q=0.0" refuse gzip and are compressed. *)
Theorem C17_accept_q0_ext_refuted : forall sniff,
  let ops := [SetHeader H_CT (bs "text/html"); Write (bs "hello")] in
  rfc_accepts_gzip [bs "gzip;q=0;x=1"] = false /\ q0_ext_region [bs "gzip;q=0;x=1"] = true
  /\ o_fed (handler sniff (fun _ => true) [] [] [bs "gzip;q=0;x=1"] ops) = Some (bs "hello")
  /\ rfc_accepts_gzip [bs "deflate, gzip;x=1;Q=0.0"] = false /\ q0_ext_region [bs "deflate, gzip;x=1;Q=0.0"] = true
  /\ o_fed (handler sniff (fun _ => true) [] [] [bs "deflate, gzip;x=1;Q=0.0"] ops) = Some (bs "hello").
Proof. exact accept_q0_ext_refuted. Qed.
Print Assumptions C17_accept_q0_ext_refuted.

(* Before commit 7cff601 the test was a substring test: "gzip;q=0" refuses gzip and was compressed
   (fixed finding F-C17-1 as first recorded). *)
Theorem C17_accept_q0_refuted : forall sniff, exists ae ops f,
  rfc_accepts_gzip ae = false /\ o_fed (handler_q0_unrepaired sniff (fun _ => true) [] [] ae ops) = Some f.
Proof. exact accept_q0_refuted. Qed.
Print Assumptions C17_accept_q0_refuted.

(* Between commits 7cff601 and bfb8a14 (name matched by substring, "q=" case-sensitively) two
   refusals were still missed, "gzip;Q=0" and "notgzip2"; the code as it is refuses both. *)
Theorem C17_accept_q0_residual_refuted : forall sniff,
  let ops := [SetHeader H_CT (bs "text/html"); Write (bs "hello")] in
  rfc_accepts_gzip [bs "gzip;Q=0"] = false
  /\ o_fed (handler_q0_7cff601 sniff (fun _ => true) [] [] [bs "gzip;Q=0"] ops) = Some (bs "hello")
  /\ rfc_accepts_gzip [bs "notgzip2"] = false
  /\ o_fed (handler_q0_7cff601 sniff (fun _ => true) [] [] [bs "notgzip2"] ops) = Some (bs "hello")
  /\ o_fed (handler sniff (fun _ => true) [] [] [bs "gzip;Q=0"] ops) = None
  /\ o_fed (handler sniff (fun _ => true) [] [] [bs "notgzip2"] ops) = None.
Proof. exact accept_q0_residual_refuted. Qed.
Print Assumptions C17_accept_q0_residual_refuted.

(* Spellings the code as it is refuses / accepts. *)
Theorem C17_accept_q0_repaired :
  forallb (fun v => negb (accepts_gzip [] [bs v]))
    ["gzip;q=0"; "gzip; q=0.0"; "gzip ; q=0"; "identity;q=1, gzip;q=0"; "deflate, gzip;q=0.000"; "gzip;q=0."; "x-gzip;q=0";
     "gzip;Q=0"; "gzip; Q=0.0"; "deflate, gzip;Q=0"; "Gzip;q=0"; "notgzip2"; "deflate"; ""]%string = true
  /\ forallb (fun v => accepts_gzip [] [bs v])
    ["gzip"; "GZIP"; "X-GZIP"; " gzip "; "deflate, gzip;q=0.5"; "gzip;q=0, x-gzip"]%string = true.
Proof. exact q0_repaired. Qed.
Print Assumptions C17_accept_q0_repaired.

(* A compressed response is labelled Content-Encoding: gzip and carries no Content-Length. *)
Theorem C17_gzip_labelled_no_length : forall sniff ctm h0 accept ae ops f,
  o_fed (handler sniff ctm h0 accept ae ops) = Some f ->
  hvals (o_hdr (handler sniff ctm h0 accept ae ops)) H_CE = Some [GZIP]
  /\ hvals (o_hdr (handler sniff ctm h0 accept ae ops)) H_CL = None.
Proof. exact gzip_labelled_no_length. Qed.
Print Assumptions C17_gzip_labelled_no_length.

(* It decompresses to exactly the bytes the upstream wrote, for every compressor/decompressor
   pair with gunzip (gz b) = Some b (gz b = the gzip.Writer's output after Close when fed b). *)
Theorem C17_gunzip_body_eq_writes : forall sniff ctm h0 accept ae ops gz gunzip f,
  (forall b, gunzip (gz b) = Some b) ->
  o_fed (handler sniff ctm h0 accept ae ops) = Some f ->
  gunzip (body_of gz (handler sniff ctm h0 accept ae ops)) = Some (written ops)
  /\ o_plain (bare sniff h0 ops) = written ops.
Proof. exact gunzip_body_eq_writes. Qed.
Print Assumptions C17_gunzip_body_eq_writes.

(* Its other headers are the upstream's: equal on every key except Content-Type / -Encoding / -Length and
   Vary; Vary gained at most one Accept-Encoding; Content-Type ([ct_res]) is the upstream's as net/http
   delivers it, or one the handler sniffed from the first chunk, or absent where net/http alone would
   have sniffed one (the server does not sniff an encoded body). *)
Theorem C17_compressed_headers : forall sniff ctm h0 accept ae ops f,
  o_fed (handler sniff ctm h0 accept ae ops) = Some f ->
  hdr_rel [H_CT; H_CE; H_CL] (o_hdr (handler sniff ctm h0 accept ae ops)) (o_hdr (bare sniff h0 ops))
  /\ ct_res sniff true true (o_hdr (handler sniff ctm h0 accept ae ops)) (o_hdr (bare sniff h0 ops)).
Proof. exact compressed_headers. Qed.
Print Assumptions C17_compressed_headers.

(* In every other case the body is delivered byte for byte and EVERY header is the upstream's as net/http
   delivers it (its own Content-Type sniffing included), Vary apart -- outside region 2 (accepted request,
   the first non-informational call is a Write, no Content-Type key at that moment). *)
Theorem C17_identity_headers_exact : forall sniff ctm h0 accept ae ops gz,
  o_fed (handler sniff ctm h0 accept ae ops) = None ->
  sniff_region h0 accept ae ops = false ->
  body_of gz (handler sniff ctm h0 accept ae ops) = written ops
  /\ hdr_rel [] (o_hdr (handler sniff ctm h0 accept ae ops)) (o_hdr (bare sniff h0 ops)).
Proof. exact identity_headers_exact. Qed.
Print Assumptions C17_identity_headers_exact.

(* Region 2 refuted (open finding F-C17-3): upstream "Content-Encoding: br" without Content-Type, accepted
   request, not compressed: the response carries a Content-Type the upstream never sent and net/http alone
   would not add; and an unencoded body whose first chunk is "<": text/plain instead of net/http's text/html. *)
Theorem C17_sniffed_type_refuted : forall ctm,
  let sniff := fun b : str => if beq b (bs "<") then bs "text/plain" else bs "text/html" in
  let ops1 := [SetHeader H_CE (bs "br"); Write (bs "BROTLI")] in
  let ops2 := [Write (bs "<"); Write (bs "html>")] in
  sniff_region [] [] [bs "gzip"] ops1 = true
  /\ o_fed (handler sniff (fun _ => false) [] [] [bs "gzip"] ops1) = None
  /\ hvals (o_hdr (handler sniff ctm [] [] [bs "gzip"] ops1)) H_CT = Some [bs "text/html"]
  /\ hvals (o_hdr (bare sniff [] ops1)) H_CT = None
  /\ o_fed (handler sniff (fun _ => false) [] [] [bs "gzip"] ops2) = None
  /\ hvals (o_hdr (handler sniff (fun _ => false) [] [] [bs "gzip"] ops2)) H_CT = Some [bs "text/plain"]
  /\ hvals (o_hdr (bare sniff [] ops2)) H_CT = Some [bs "text/html"].
Proof. exact sniffed_type_refuted. Qed.
Print Assumptions C17_sniffed_type_refuted.

(* For EVERY call sequence (region 2 included): body exact; headers the upstream's apart from Vary and a
   Content-Type that is the upstream's or one the handler sniffed. *)
Theorem C17_identity_otherwise : forall sniff ctm h0 accept ae ops gz,
  o_fed (handler sniff ctm h0 accept ae ops) = None ->
  body_of gz (handler sniff ctm h0 accept ae ops) = written ops
  /\ hdr_rel [H_CT] (o_hdr (handler sniff ctm h0 accept ae ops)) (o_hdr (bare sniff h0 ops))
  /\ ct_res sniff true false (o_hdr (handler sniff ctm h0 accept ae ops)) (o_hdr (bare sniff h0 ops)).
Proof. exact identity_otherwise. Qed.
Print Assumptions C17_identity_otherwise.

(* MECHANISM LEMMA (definitional in the model; tied to the code by the abort classes of the harness, and
   end to end: the client sees a transport error): when the inner handler panics (http.ErrAbortHandler)
   the deferred Close still runs -- the response so far is the one of a normal return -- and the panic
   is not swallowed. *)
Theorem C17_abort_not_swallowed : forall sniff ctm h0 accept ae ops abort,
  s_propagated (serve sniff ctm h0 accept ae ops abort) = abort
  /\ s_res (serve sniff ctm h0 accept ae ops abort) = handler sniff ctm h0 accept ae ops.
Proof. exact abort_not_swallowed. Qed.
Print Assumptions C17_abort_not_swallowed.

(* MECHANISM LEMMAS about the model's state machine.  The writer is decided once: after the decision no call changes the selection, the status
   or the header snapshot.  The first NON-informational WriteHeader or the first Write decides;
   an informational WriteHeader decides nothing, finalises nothing and leaves the headers alone. *)
Theorem C17_decision_once : forall sniff ctm ops g s,
  g_sel g = Some s -> r_wrote (g_rec g) = true ->
  g_sel (grw_run sniff ctm ops g) = Some s
  /\ r_code (g_rec (grw_run sniff ctm ops g)) = r_code (g_rec g)
  /\ r_snap (g_rec (grw_run sniff ctm ops g)) = r_snap (g_rec g).
Proof. exact decision_once. Qed.
Print Assumptions C17_decision_once.

Theorem C17_first_call_decides : forall sniff ctm o g,
  (match o with WriteHeader c => is_1xx c = false | Write _ => True | _ => False end) ->
  g_sel (grw_step sniff ctm o g) <> None
  /\ (g_sel g = None -> r_wrote (g_rec g) = false -> r_wrote (g_rec (grw_step sniff ctm o g)) = true).
Proof. exact first_call_decides. Qed.
Print Assumptions C17_first_call_decides.

Theorem C17_informational_does_not_decide : forall sniff ctm c g, is_1xx c = true ->
  g_sel (grw_step sniff ctm (WriteHeader c) g) = g_sel g
  /\ g_fed (grw_step sniff ctm (WriteHeader c) g) = g_fed g
  /\ r_wrote (g_rec (grw_step sniff ctm (WriteHeader c) g)) = r_wrote (g_rec g)
  /\ r_hdr (g_rec (grw_step sniff ctm (WriteHeader c) g)) = r_hdr (g_rec g).
Proof. exact informational_does_not_decide. Qed.
Print Assumptions C17_informational_does_not_decide.

(* Before commit a52f2fd every WriteHeader decided: on the calls httputil.ReverseProxy makes for
   an upstream that sends 103 Early Hints, with an expression that matches the empty content
   type, the final response was compressed WITHOUT Content-Encoding and WITH the upstream's
   Content-Length (fixed finding F-C17-2); the code as it is labels it correctly. *)
Theorem C17_informational_decides_unrepaired_refuted : forall sniff,
  let res := handler_unrepaired sniff (fun _ => true) [] [] [bs "gzip"] early_hints_ops in
  o_fed res = Some (bs "hello") /\ o_code res = 200
  /\ hvals (o_hdr res) H_CE = None /\ hvals (o_hdr res) H_CL = Some [bs "5"].
Proof. exact informational_decides_unrepaired_refuted. Qed.
Print Assumptions C17_informational_decides_unrepaired_refuted.

Theorem C17_early_hints_repaired : forall sniff,
  let res := handler sniff (fun _ => true) [] [] [bs "gzip"] early_hints_ops in
  o_fed res = Some (bs "hello") /\ o_code res = 200
  /\ hvals (o_hdr res) H_CE = Some [GZIP] /\ hvals (o_hdr res) H_CL = None
  /\ map fst (o_info res) = [103].
Proof. exact early_hints_repaired. Qed.
Print Assumptions C17_early_hints_repaired.

(* non-vacuity: a compressed 404 with a stale Content-Length, written in two chunks *)
Theorem C17_nonvacuous :
  o_fed (handler (fun _ => bs "text/plain") (fun t => has_prefix t (bs "text/")) [] [] [bs "gzip, deflate"]
           [SetHeader H_CT (bs "text/html"); SetHeader H_CL (bs "10"); WriteHeader 404; Write (bs "hello"); Write (bs "world")])
  = Some (bs "helloworld").
Proof. exact compressed_nonvacuous. Qed.
Print Assumptions C17_nonvacuous.

(* The shared writer pool: for every interleaving of any number of handlers call by call, every
   choice of which pooled writer a handler draws and every content the pooled writers hold,
   each handler's response is the response it produces when run alone -- given that Reset
   clears the writer it is applied to. *)
Theorem C17_pool_independence : forall sniff ctm reset,
  (forall w, reset w = []) -> forall sched s,
  map (outcome_of sniff ctm) (snd (sys_run sniff ctm reset sched s)) = map (outcome_of sniff ctm) (snd s).
Proof. exact pool_independence. Qed.
Print Assumptions C17_pool_independence.

Theorem C17_pool_independence_thread : forall sniff ctm reset,
  (forall w, reset w = []) -> forall sched pool ts i ops g r t,
  nth_error ts i = Some (mkH ops g None) ->
  nth_error (snd (sys_run sniff ctm reset sched (pool, ts))) i = Some t ->
  h_done t = Some r ->
  r = grw_result sniff (grw_run sniff ctm ops g).
Proof. exact pool_independence_thread. Qed.
Print Assumptions C17_pool_independence_thread.

(* The hypothesis is needed: without Reset, bytes left in a pooled writer reach the next response. *)
Theorem C17_pool_leak_without_reset :
  let t := mkH [SetHeader H_CT (bs "text/html"); Write (bs "x")]
               (mkG None [] false (rec_new [])) None in
  let run r := map (fun t => h_done t)
                 (snd (sys_run (fun _ => []) (fun _ => true) r [(0, 0); (0, 0); (0, 0)]%nat ([bs "stale"], [t]))) in
  match run (fun w => w), run (fun _ => []) with
  | [Some a], [Some b] => o_fed a = Some (bs "stalex") /\ o_fed b = Some (bs "x")
  | _, _ => False
  end.
Proof. exact pool_leak_without_reset. Qed.
Print Assumptions C17_pool_leak_without_reset.
