(** C07 — HTTP requests and responses pass through unaltered apart from routing
    (proxy/http_proxy.go:83-236, proxy/http_handler.go:17-37, noroute/store.go).
    This file contains only statements, [exact], and [Print Assumptions]. *)
(* Reading guide.  Definitional statements (true by construction of the model; their substance is the
   correspondence run, they are NOT counted as coverage): C07_method_body_identity,
   C07_noroute_no_upstream, C07_noroute_status, C07_routed_one_upstream, the status/body part of
   C07_response_identity.  Historical records of repaired behaviour (functions no code corresponds to
   any more): C07_strip_keeps_encoding_unrepaired, C07_gzip_added_unrepaired.
   Theorems that back the check's verdict 4: C07_strip_on_domain / C07_ws_target_on_domain (group A),
   C07_spec_forward_rest_holds / C07_spec_response_holds (group B), C07_noroute_history_spec_holds
   (histories of the no-route page). *)
From Coq Require Import String List NArith ZArith Bool.
From Fabio Require Import Lib.Outcome Lib.Bytes Model.UrlPathC07 Model.HttpFwd Model.NoRoutePage
  Proofs.UrlPathC07 Proofs.HttpFwd Proofs.NoRoutePage.
Import ListNotations.
Local Open Scope N_scope.

(* ---- net/url (executable transcription, tested against net/url on every run) ---- *)

(* escaping then unescaping a byte string is the identity *)
Theorem C07_unescape_escape : forall p, all_lt_256 p = true -> unescape (escape p) = Ok p.
Proof. exact unescape_escape. Qed.
Print Assumptions C07_unescape_escape.

(* after setPath, EscapedPath gives back the client's raw path byte for byte whenever that path
   consists of URI path bytes (validEncoded) or already is in the canonical encoding *)
Theorem C07_escaped_path_keeps_valid_raw : forall raw path rp,
  has_prefix raw [47] = true -> set_path raw = Ok (path, rp) ->
  (valid_encoded raw = true \/ rp = []) -> escaped_path path rp = raw.
Proof. exact escaped_path_keeps_valid_raw. Qed.
Print Assumptions C07_escaped_path_keeps_valid_raw.

(* whatever EscapedPath returns decodes to Path (the upstream is never sent a different resource) *)
Theorem C07_escaped_path_denotes : forall path rp,
  all_lt_256 path = true -> path <> [42] -> out_is (unescape (escaped_path path rp)) path = true.
Proof. exact escaped_path_denotes. Qed.
Print Assumptions C07_escaped_path_denotes.

(* ---- the upstream request ---- *)

(* without strip/prepend the upstream's raw path is the client's, byte for byte, for every
   request path made of URI path bytes; the query is the merged one *)
Theorem C07_raw_path_preserved_no_opts : forall wire o q u,
  all_lt_256 (rq_target q) = true ->
  forward wire o q = Ok u ->
  ro_strip o = [] -> ro_prepend o = [] ->
  valid_encoded (raw_path_of (rq_target q)) = true ->
  up_target u = raw_path_of (rq_target q) ++ spec_query o (rq_target q).
Proof. exact raw_path_preserved_no_opts. Qed.
Print Assumptions C07_raw_path_preserved_no_opts.

(* the upstream is always sent an absolute path, whatever the options *)
Theorem C07_absolute_path_always : forall wire o q u,
  forward wire o q = Ok u -> exists t, up_target u = 47 :: t.
Proof. exact absolute_path_always. Qed.
Print Assumptions C07_absolute_path_always.

(* the query: the route's own first, '&'-joined with the client's, after a path without '?' *)
Theorem C07_query_merge : forall wire o q u,
  forward wire o q = Ok u ->
  exists rp, ~ In 63 rp /\ up_target u = rp ++ spec_query o (rq_target q).
Proof. exact query_merge. Qed.
Print Assumptions C07_query_merge.

(* Host: the client's unless the route has a host option (dst = the target's address) *)
Theorem C07_host_spec : forall wire o q u,
  forward wire o q = Ok u -> up_host u = spec_host o (rq_host q).
Proof. exact host_spec. Qed.
Print Assumptions C07_host_spec.

Theorem C07_host_only_when_asked : forall wire o q u,
  forward wire o q = Ok u -> ro_host o = [] -> rq_host q <> [] -> up_host u = rq_host q.
Proof. exact host_only_when_asked. Qed.
Print Assumptions C07_host_only_when_asked.

(* strip/prepend keep the client's percent-encoding.  Before fix 402775d they did not (the
   director left the client's RawPath in place and net/url re-encoded the decoded path) ... *)
Theorem C07_strip_keeps_encoding_unrepaired :
  fwd_target_unrepaired (mk_opts "/strip" "") (parsed_of "/strip/a%2Fb") = bs "/a/b"
  /\ fwd_target_unrepaired (mk_opts "" "/pre") (parsed_of "/a%2Fb") = bs "/pre/a/b"
  /\ fwd_target_unrepaired (mk_opts "/strip" "") (parsed_of "/strip/%41") = bs "/A".
Proof. exact strip_keeps_encoding_unrepaired. Qed.
Print Assumptions C07_strip_keeps_encoding_unrepaired.

(* ... the code as it is keeps it on the same requests ... *)
Theorem C07_strip_keeps_encoding_repaired :
  (exists u, forward false (mk_opts "/strip" "") (mk_req "/strip/a%2Fb") = Ok u /\ up_target u = bs "/a%2Fb")
  /\ (exists u, forward false (mk_opts "" "/pre") (mk_req "/a%2Fb") = Ok u /\ up_target u = bs "/pre/a%2Fb")
  /\ (exists u, forward false (mk_opts "/strip" "") (mk_req "/strip/%41") = Ok u /\ up_target u = bs "/%41")
  /\ (exists u, forward false (mk_opts "/strip" "pre") (mk_req "/strip/a%2Fb?q=%2F") = Ok u
                /\ up_target u = bs "/pre/a%2Fb?q=%2F").
Proof. exact strip_keeps_encoding_repaired. Qed.
Print Assumptions C07_strip_keeps_encoding_repaired.

(* ... and in general: raw path valid-encoded, literally starting with a plain strip prefix, cut
   where a '/' can be put in front consistently ([slash_ok]: e.g. the remainder starts with '/'
   or is empty), plain prepend: the upstream path is the absolute prepend followed by the
   client's raw remainder, byte for byte *)
Theorem C07_strip_prepend_keep_raw : forall wire o q u rest,
  all_lt_256 (rq_target q) = true ->
  forward wire o q = Ok u ->
  raw_path_of (rq_target q) = ro_strip o ++ rest ->
  nonempty (ro_strip o) = true -> plain (ro_strip o) = true -> slash_ok rest = true ->
  valid_encoded (raw_path_of (rq_target q)) = true ->
  (ro_prepend o = [] \/ plain (ro_prepend o) = true) ->
  up_target u = (if nonempty (ro_prepend o) then slash_fix (ro_prepend o ++ slash_fix rest) else slash_fix rest)
                ++ spec_query o (rq_target q).
Proof. exact strip_prepend_keep_raw. Qed.
Print Assumptions C07_strip_prepend_keep_raw.

Theorem C07_slash_ok_slash : forall rest d,
  unescape rest = Ok d -> has_prefix rest [47] = true -> slash_ok rest = true.
Proof. exact slash_ok_slash. Qed.
Print Assumptions C07_slash_ok_slash.

Theorem C07_keep_raw_nonvacuous :
  let o := mk_opts "/strip" "/pre" in let q := mk_req "/strip/a%2Fb/%41" in
  raw_path_of (rq_target q) = ro_strip o ++ bs "/a%2Fb/%41"
  /\ nonempty (ro_strip o) = true /\ plain (ro_strip o) = true /\ slash_ok (bs "/a%2Fb/%41") = true
  /\ valid_encoded (raw_path_of (rq_target q)) = true /\ plain (ro_prepend o) = true
  /\ canonical_raw (raw_path_of (rq_target q)) = false
  /\ exists u, forward false o q = Ok u /\ up_target u = bs "/pre/a%2Fb/%41".
Proof. exact keep_raw_nonvacuous. Qed.
Print Assumptions C07_keep_raw_nonvacuous.

(* what still loses the client's encoding (region 1 as narrowed by the fix): the strip prefix itself
   percent-encoded in the request, ... *)
Theorem C07_strip_encoded_prefix_refuted :
  exists o q u, forward false o q = Ok u
    /\ region_strip_encoding o (rq_target q) = true
    /\ spec_target o (rq_target q) = bs "/a%2Fb"
    /\ up_target u = bs "/a/b".
Proof. exact strip_encoded_prefix_refuted. Qed.
Print Assumptions C07_strip_encoded_prefix_refuted.

(* ... a strip prefix cutting in front of an encoded '/', ... *)
Theorem C07_strip_before_encoded_slash_refuted :
  exists o q u, forward false o q = Ok u
    /\ region_strip_encoding o (rq_target q) = true
    /\ spec_target o (rq_target q) = bs "/%2Fb/%41"
    /\ up_target u = bs "/b/A".
Proof. exact strip_before_encoded_slash_refuted. Qed.
Print Assumptions C07_strip_before_encoded_slash_refuted.

(* ... a prepend option with a byte that needs escaping *)
Theorem C07_prepend_escaped_byte_refuted :
  exists o q u, forward false o q = Ok u
    /\ region_strip_encoding o (rq_target q) = true
    /\ spec_target o (rq_target q) = bs "/a%20b/x%2Fy"
    /\ up_target u = bs "/a%20b/x/y".
Proof. exact prepend_escaped_byte_refuted. Qed.
Print Assumptions C07_prepend_escaped_byte_refuted.

(* and, with or without options, a path holding a byte Go's validEncoded rejects *)
Theorem C07_invalid_byte_reencoded_refuted :
  exists o q u, forward false o q = Ok u
    /\ region_invalid_byte o (rq_target q) = true
    /\ spec_target o (rq_target q) = bs "/a^b%2Fc"
    /\ up_target u = bs "/a%5Eb/c".
Proof. exact invalid_byte_reencoded_refuted. Qed.
Print Assumptions C07_invalid_byte_reencoded_refuted.

(* ... and holds everywhere outside those two regions, for every option combination: the raw
   target is the client's raw path with the strip prefix removed and the encoded prepend added *)
Theorem C07_strip_on_domain : forall wire o q u,
  all_lt_256 (rq_target q) = true ->
  forward wire o q = Ok u ->
  region_strip_encoding o (rq_target q) = false ->
  region_invalid_byte o (rq_target q) = false ->
  up_target u = spec_target o (rq_target q).
Proof. exact target_on_domain. Qed.
Print Assumptions C07_strip_on_domain.

(* even inside the two regions the path the upstream is sent DECODES to the path the options
   ask for (what is lost there is the client's choice of encoding, e.g. %2F vs /) *)
Theorem C07_upstream_path_denotes : forall wire o q u,
  all_lt_256 (rq_target q) = true -> all_lt_256 (ro_prepend o) = true ->
  forward wire o q = Ok u ->
  exists rp path,
    unescape (raw_path_of (rq_target q)) = Ok path
    /\ up_target u = rp ++ spec_query o (rq_target q)
    /\ unescape rp = Ok (target_path path (ro_strip o) (ro_prepend o)).
Proof. exact upstream_path_denotes. Qed.
Print Assumptions C07_upstream_path_denotes.

Theorem C07_strip_on_domain_nonvacuous :
  let o := mk_opts "/strip" "/pre" in let q := mk_req "/strip/x%20y/z?q=1" in
  all_lt_256 (rq_target q) = true
  /\ region_strip_encoding o (rq_target q) = false /\ region_invalid_byte o (rq_target q) = false
  /\ exists u, forward false o q = Ok u /\ up_target u = bs "/pre/x%20y/z?q=1" /\ spec_forward o q u = true.
Proof. exact on_domain_nonvacuous. Qed.
Print Assumptions C07_strip_on_domain_nonvacuous.

Theorem C07_no_opts_nonvacuous :
  let o := mk_opts "" "" in let q := mk_req "/a%2Fb/%41?x=%2F" in
  valid_encoded (raw_path_of (rq_target q)) = true
  /\ exists u, forward false o q = Ok u /\ up_target u = rq_target q.
Proof. exact no_opts_nonvacuous. Qed.
Print Assumptions C07_no_opts_nonvacuous.

(* method and body are the client's; every header outside the hop-by-hop set arrives with the
   same values in the same order.  This is a theorem about the MODEL of httputil.ReverseProxy
   (modelled, not verified): its substance is the correspondence run. *)
Theorem C07_method_body_identity : forall wire o q u,
  forward wire o q = Ok u -> up_method u = rq_method q /\ up_body u = rq_body q.
Proof. exact method_body_identity. Qed.
Print Assumptions C07_method_body_identity.

Theorem C07_headers_identity : forall o q u k,
  forward false o q = Ok u ->
  mem_str k managed_req = false ->   (* the forwarding headers are property C08's; outside this model *)
  is_hop (rq_headers q) k = false ->
  (k = k_user_agent -> hhas (rq_headers q) k = true) ->
  hvalues (up_headers u) k = hvalues (rq_headers q) k.
Proof. exact headers_identity_e2e. Qed.
Print Assumptions C07_headers_identity.

(* over real sockets (fabio's transport, compression disabled since fix 5e1efca) nothing is
   added either: every non-hop header but User-Agent (first value only) is the client's *)
Theorem C07_headers_identity_wire : forall o q u k,
  forward true o q = Ok u ->
  mem_str k managed_req = false ->
  is_hop (rq_headers q) k = false -> k <> k_user_agent ->
  hvalues (up_headers u) k = hvalues (rq_headers q) k.
Proof. exact headers_identity_wire_e2e. Qed.
Print Assumptions C07_headers_identity_wire.

(* before 5e1efca the transport added Accept-Encoding: gzip of its own *)
Theorem C07_gzip_added_unrepaired :
  let q := mk_req "/x" in let h := fwd_headers (rq_headers q) in
  region_gzip_added q = true
  /\ hvalues (rq_headers q) k_accept_encoding = []
  /\ hvalues (wire_headers_unrepaired (rq_method q) h) k_accept_encoding = [bs "gzip"]
  /\ hvalues (wire_headers (rq_method q) h) k_accept_encoding = [].
Proof. exact gzip_added_unrepaired. Qed.
Print Assumptions C07_gzip_added_unrepaired.

Theorem C07_no_gzip_added_example :
  exists u, forward true (mk_opts "" "") (mk_req "/x") = Ok u
    /\ hvalues (up_headers u) k_accept_encoding = []
    /\ spec_forward (mk_opts "" "") (mk_req "/x") u = true.
Proof. exact no_gzip_added_example. Qed.
Print Assumptions C07_no_gzip_added_example.

(* no header reaches the upstream that the client did not send, except the proxy's own (Te: trailers,
   Connection/Upgrade of an upgrade request, the empty User-Agent = "send none"); and what does
   arrive from the client is not hop-by-hop.  (The forwarding headers of property C08 are added by
   addHeaders outside this model; the check projects them away.) *)
Theorem C07_no_new_headers : forall wire o q u k v,
  forward wire o q = Ok u -> In (k, v) (up_headers u) ->
  (In (k, v) (rq_headers q) /\ is_hop (rq_headers q) k = false) \/ own_header k v.
Proof. exact no_new_headers. Qed.
Print Assumptions C07_no_new_headers.

(* the boolean specification the correspondence check evaluates on the implementation's
   observables (group B: method, body, Host, end-to-end headers, nothing new) holds of the model
   for every request; over a real connection outside region 4 (User-Agent repeated or empty) *)
Theorem C07_spec_forward_rest_holds : forall wire o q u,
  forward wire o q = Ok u -> (wire = true -> region_ua_wire q = false) ->
  spec_forward_rest o q u = true.
Proof. exact spec_forward_rest_holds. Qed.
Print Assumptions C07_spec_forward_rest_holds.

Theorem C07_spec_rest_nonvacuous :
  let q := {| rq_method := bs "POST"; rq_target := bs "/x"; rq_host := bs "example.com";
              rq_headers := [(bs "Accept", bs "*/*"); (bs "Connection", bs "X-Foo, close"); (bs "Cookie", bs "a=1");
                             (bs "Cookie", bs "b=2"); (bs "Te", bs "trailers"); (bs "X-Foo", bs "1")];
              rq_body := bs "body" |} in
  region_ua_wire q = false
  /\ exists u, forward true (mk_opts "" "") q = Ok u
       /\ map fst (up_headers u) = [bs "Accept"; bs "Cookie"; bs "Cookie"; bs "Te"].
Proof. exact spec_rest_nonvacuous. Qed.
Print Assumptions C07_spec_rest_nonvacuous.

(* region 4: Go's http.Transport writes only the first User-Agent value, none when it is empty *)
Theorem C07_ua_wire_refuted :
  (exists u, forward true (mk_opts "" "") (mk_req_ua ["a/1"%string; "b/2"%string]) = Ok u
     /\ region_ua_wire (mk_req_ua ["a/1"%string; "b/2"%string]) = true
     /\ hvalues (up_headers u) k_user_agent = [bs "a/1"]
     /\ spec_forward_rest (mk_opts "" "") (mk_req_ua ["a/1"%string; "b/2"%string]) u = false)
  /\ (exists u, forward true (mk_opts "" "") (mk_req_ua [""%string]) = Ok u
     /\ region_ua_wire (mk_req_ua [""%string]) = true
     /\ hvalues (up_headers u) k_user_agent = []
     /\ spec_forward_rest (mk_opts "" "") (mk_req_ua [""%string]) u = false).
Proof. exact ua_wire_refuted. Qed.
Print Assumptions C07_ua_wire_refuted.

(* Host, clause by clause *)
Theorem C07_host_dst : forall wire o q u,
  forward wire o q = Ok u -> ro_host o = dst -> up_host u = ro_thost o.
Proof. exact host_dst. Qed.
Print Assumptions C07_host_dst.
Theorem C07_host_named : forall wire o q u,
  forward wire o q = Ok u -> ro_host o <> [] -> ro_host o <> dst -> up_host u = ro_host o.
Proof. exact host_named. Qed.
Print Assumptions C07_host_named.

(* websocket upgrade (request line written from the target URL): same target, Host and method
   as the specification asks, outside regions 1, 2 and 5 (a lone trailing '?') *)
Theorem C07_ws_target_on_domain : forall o q m t h,
  all_lt_256 (rq_target q) = true ->
  ws_forward o q = Ok (m, t, h) ->
  region_ws_lone_q (rq_target q) = false ->
  region_strip_encoding o (rq_target q) = false ->
  region_invalid_byte o (rq_target q) = false ->
  t = spec_target o (rq_target q) /\ h = spec_host o (rq_host q) /\ m = rq_method q.
Proof. exact ws_target_on_domain. Qed.
Print Assumptions C07_ws_target_on_domain.

Theorem C07_ws_lone_q_refuted :
  exists o q m t h, ws_forward o q = Ok (m, t, h)
    /\ region_ws_lone_q (rq_target q) = true
    /\ spec_target o (rq_target q) = bs "/x?" /\ t = bs "/x".
Proof. exact ws_lone_q_refuted. Qed.
Print Assumptions C07_ws_lone_q_refuted.

(* ---- the response ---- *)
Theorem C07_response_identity : forall r,
  rs_status (respond r) = rs_status r /\ rs_body (respond r) = rs_body r
  /\ forall k, is_hop (rs_headers r) k = false ->
               hvalues (rs_headers (respond r)) k = hvalues (rs_headers r) k.
Proof. exact response_identity. Qed.
Print Assumptions C07_response_identity.

(* the boolean response specification of the check holds of the model for every upstream response
   and every projection *)
Theorem C07_spec_response_holds : forall drop r, spec_response drop r (respond r) = true.
Proof. exact spec_response_respond. Qed.
Print Assumptions C07_spec_response_holds.

Theorem C07_on_domain_noncanonical_nonvacuous :
  let o := mk_opts "/strip" "" in let q := mk_req "/strip/a%2Fb" in
  canonical_raw (raw_path_of (rq_target q)) = false
  /\ region_strip_encoding o (rq_target q) = false /\ region_invalid_byte o (rq_target q) = false.
Proof. exact on_domain_noncanonical_nonvacuous. Qed.
Print Assumptions C07_on_domain_noncanonical_nonvacuous.

(* ---- no route ---- *)
Theorem C07_noroute_no_upstream : forall wire cf q answer,
  serve_http wire cf None q answer
  = Ok (None, {| rs_status := noroute_status (cf_noroute_status cf); rs_headers := [];
                 rs_body := cf_noroute_html cf |}).
Proof. exact noroute_no_upstream. Qed.
Print Assumptions C07_noroute_no_upstream.

Theorem C07_noroute_status : forall c,
  noroute_status c = (if (100 <=? c) && (c <=? 999) then c else 404)%Z.
Proof. exact noroute_status_spec. Qed.
Print Assumptions C07_noroute_status.

Theorem C07_routed_one_upstream : forall wire cf o q answer u,
  forward wire o q = Ok u ->
  serve_http wire cf (Some o) q answer = Ok (Some u, respond (answer u)).
Proof. exact routed_one_upstream. Qed.
Print Assumptions C07_routed_one_upstream.

(* ---- the no-route page as configured at run time (main.go watchNoRouteHTML -> noroute store) ---- *)

(* whatever the registry delivered before, and whatever the store held: after the watcher has handled
   a sequence of deliveries the store holds the last one *)
Theorem C07_noroute_page_is_last_delivered : forall deliveries stored,
  watch_run stored deliveries = last deliveries stored.
Proof. exact watch_run_last. Qed.
Print Assumptions C07_noroute_page_is_last_delivered.

(* a removal (the empty value) empties the store, whatever was configured before *)
Theorem C07_noroute_page_removed : forall stored deliveries,
  watch_run stored (deliveries ++ [[]]) = [].
Proof. exact watch_run_removed. Qed.
Print Assumptions C07_noroute_page_removed.

(* for every history of deliveries and requests: each request without a route receives the
   configured status and the page configured by the part of the history in front of it (the last
   page delivered; empty after a removal), and no upstream is contacted *)
Theorem C07_noroute_history : forall wire status init h,
  nr_run wire status init h = map (fun r => Ok (None, r)) (nr_expected status init h).
Proof. exact nr_run_spec. Qed.
Print Assumptions C07_noroute_history.

(* the boolean specification the check evaluates on histories holds of the model (backs verdict 4) *)
Theorem C07_noroute_history_spec_holds : forall wire status init h,
  nr_spec_b status init h (nr_model_obs (nr_run wire status init h)) = true.
Proof. exact nr_spec_b_holds. Qed.
Print Assumptions C07_noroute_history_spec_holds.

(* non-vacuity: set / repeat / replace / remove / set again / remove again with requests in between;
   and the specification rejects a run in which a removed page keeps being served *)
Theorem C07_noroute_history_nonvacuous :
  let q := {| rq_method := [71]; rq_target := [47]; rq_host := [104]; rq_headers := []; rq_body := [] |} in
  map (fun o => match o with Ok (None, r) => Some (rs_status r, rs_body r) | _ => None end)
      (nr_run false 503 [] (nr_example_history q))
  = [Some (503%Z, []); Some (503%Z, [49]); Some (503%Z, [50; 50]); Some (503%Z, []); Some (503%Z, [49]);
     Some (503%Z, [])]
  /\ nr_changes [] (nr_example_history q) = 5%nat.
Proof. exact nr_run_nonvacuous. Qed.
Print Assumptions C07_noroute_history_nonvacuous.

Theorem C07_noroute_history_spec_rejects_stale_page :
  let q := {| rq_method := [71]; rq_target := [47]; rq_host := [104]; rq_headers := []; rq_body := [] |} in
  let r b := (false, {| rs_status := 503; rs_headers := []; rs_body := b |}) in
  nr_spec_b 503 [] (nr_example_history q) [r []; r [49]; r [50; 50]; r [50; 50]; r [49]; r [49]] = false
  /\ nr_spec_b 503 [] (nr_example_history q) [r []; r [49]; r [50; 50]; r []; r [49]; r []] = true.
Proof. exact nr_spec_rejects_stale_page. Qed.
Print Assumptions C07_noroute_history_spec_rejects_stale_page.

(* the watcher cut into its atomic actions (receive, noroute.GetHTML, noroute.SetHTML), requests
   (one atomic load) scheduled anywhere in between: every request is answered with the last page
   among the deliveries the watcher has taken off the channel, the one it is just handling excepted *)
Theorem C07_noroute_any_schedule : forall init deliveries sched,
  Forall (sched_page_ok init deliveries) (sched_run (w_init init deliveries) sched).
Proof. exact sched_run_pages. Qed.
Print Assumptions C07_noroute_any_schedule.

Theorem C07_noroute_schedule_idle : forall init deliveries sched rem page,
  In (rem, true, page) (sched_run (w_init init deliveries) sched) ->
  page = watch_run init (firstn (length deliveries - rem) deliveries).
Proof. exact sched_run_idle. Qed.
Print Assumptions C07_noroute_schedule_idle.

Theorem C07_noroute_schedule_nonvacuous :
  sched_run (w_init [48] [[49]; []; [50]])
            [false; true; false; true; true; false; true; true; false; true; true; false; true; true; true; true; false]
  = [(3%nat, true, [48]); (2%nat, false, [48]); (2%nat, true, [49]); (1%nat, false, [49]); (0%nat, false, []);
     (0%nat, true, [50])].
Proof. exact sched_run_nonvacuous. Qed.
Print Assumptions C07_noroute_schedule_nonvacuous.
