(** C13 - Redirect routes answer from the request alone
    (route/target.go BuildRedirectURL, route/route.go redirect option, route/table.go Lookup
    self-redirect skip, proxy/http_proxy.go redirect branch).  Statements, [exact],
    [Print Assumptions] only. *)
From Coq Require Import String List NArith ZArith.
From Fabio Require Import Lib.Outcome Lib.Bytes Model.Redirect Model.RedirectSpec Proofs.Redirect.
Import ListNotations.
Local Open Scope N_scope.

(* For every template of the documented forms (scheme://HOST[/static], scheme://HOST$path,
   scheme://HOST/pre$path, scheme://HOST/pre/$path, HOST literal or containing $host; [tmpl_dom]),
   every request path made of unescaped path bytes and %XY triplets, every query, host, strip
   and prepend ([req_dom]): the text of the Location is the template with $host := the
   request's host and $path := the request path exactly as written on the request line, after
   strip and prepend, with the request's query iff the template has none
   ([expected_location] is defined on the request line, without Path/RawPath). *)
Theorem C13_location_spec : forall t wire q,
  tmpl_dom t = true -> req_dom t wire q = true ->
  set_path wire = Some (q_path q, q_rawpath q) ->
  url_string (build_redirect_url t q) = expected_location t wire q.
Proof. exact location_spec. Qed.
Print Assumptions C13_location_spec.

Theorem C13_location_spec_nonvacuous :
  tmpl_dom t_slash = true /\ req_dom t_slash (bs "/a%2Fb") q_enc_slash = true
  /\ set_path (bs "/a%2Fb") = Some (q_path q_enc_slash, q_rawpath q_enc_slash)
  /\ region_adjacent_raw t_slash q_enc_slash = false
  /\ expected_location t_slash (bs "/a%2Fb") q_enc_slash = bs "https://foo.com/a%2Fb".
Proof. exact location_spec_nonvacuous. Qed.
Print Assumptions C13_location_spec_nonvacuous.

(* finding F-C13-1, repaired in /repo by fix e4368b6: BuildRedirectURL before the repair
   ([build_redirect_url_unrepaired]) left RawPath empty for $path glued to the host:
   https://$host$path and GET /a%2Fb gave Location https://foo.com/a/b *)
Theorem C13_host_adjacent_path_decoded_refuted :
  exists t wire q, tmpl_dom t = true /\ req_dom t wire q = true
    /\ set_path wire = Some (q_path q, q_rawpath q)
    /\ url_string (build_redirect_url_unrepaired t q) = bs "https://foo.com/a/b"
    /\ expected_location t wire q = bs "https://foo.com/a%2Fb"
    /\ region_adjacent_raw t q = true
    /\ url_string (build_redirect_url t q) = bs "https://foo.com/a%2Fb".
Proof. exact host_adjacent_path_decoded_refuted. Qed.
Print Assumptions C13_host_adjacent_path_decoded_refuted.

(* the status: 0 (not a redirect route) or 3xx for EVERY option text; a three-digit 3xx text
   is kept as it is *)
Theorem C13_code_range : forall opt, redirect_code opt = 0%Z \/ (300 <= redirect_code opt <= 399)%Z.
Proof. exact code_range. Qed.
Print Assumptions C13_code_range.
Theorem C13_code_three_digits : forall a b, is_digit a = true -> is_digit b = true ->
  redirect_code [51; a; b] = (300 + 10 * Z.of_N (a - 48) + Z.of_N (b - 48))%Z.
Proof. exact code_three_digits. Qed.
Print Assumptions C13_code_three_digits.
(* finding F-C13-5, repaired in /repo by fix fa24a7f: the option parsing before the repair
   ([redirect_code_unrepaired]) left Atoi's saturated value in the field *)
Theorem C13_code_range_refuted :
  exists opt, redirect_code_unrepaired opt = 9223372036854775807%Z /\ code_overflows opt = true
              /\ redirect_code opt = 0%Z.
Proof. exact code_range_refuted. Qed.
Print Assumptions C13_code_range_refuted.

(* a request that Lookup answers with a redirect target never reaches the upstream; with a
   3xx code the response is that code and the Location built from THIS request *)
Theorem C13_no_upstream_on_redirect : forall q cands t ou,
  lookup q cands = Some (t, ou) -> is_redirect t = true ->
  upstream_calls (handle q cands) = O
  /\ (code_ok (t_code t) = true ->
      handle q cands = RRedirect (t_code t) (hex_escape_non_ascii (url_string (build_redirect_url t q)))).
Proof. exact no_upstream_on_redirect. Qed.
Print Assumptions C13_no_upstream_on_redirect.

(* the host loop, for every request (whatever headers the client sent: the request's own scheme
   is the one reported in X-Forwarded-Proto, otherwise that of the connection): the answering
   host is the first one whose route does not point back at the request's own scheme, host and
   path, none if there is no such host (reference loop [ref_lookup]); hence Lookup never returns
   a redirect that points back at the request *)
Theorem C13_self_redirect_skipped : forall q cands, chosen_target (lookup q cands) = ref_lookup q cands.
Proof. exact self_redirect_skipped. Qed.
Print Assumptions C13_self_redirect_skipped.
Theorem C13_self_redirect_never_returned : forall q cands t,
  chosen_target (lookup q cands) = Some t -> is_redirect t = true -> points_back (build_redirect_url t q) q = false.
Proof. exact self_redirect_never_returned. Qed.
Print Assumptions C13_self_redirect_never_returned.
(* finding F-C13-3, repaired in /repo by fix 4431a54: the loop before the repair
   ([lookup_unrepaired]) returned the skipped redirect when it belonged to the last host *)
Theorem C13_self_redirect_last_host_refuted :
  exists q cands t, fst (lookup_unrepaired q cands) = Some t /\ ref_lookup q cands = None
    /\ points_back (build_redirect_url t q) q = true
    /\ lookup q cands = None.
Proof. exact self_redirect_last_host_refuted. Qed.
Print Assumptions C13_self_redirect_last_host_refuted.
(* finding F-C13-4, repaired in /repo by fix bcdacf0: the loop before the repair
   ([lookup_hdr_only]) compared the scheme with the X-Forwarded-Proto header only, so a direct
   request was redirected to its own URL *)
Theorem C13_self_redirect_without_xfp_refuted :
  exists q cands, q_xfp q = [] /\ ref_lookup q cands = Some t_upstream
    /\ fst (lookup_hdr_only q cands) = Some t_back
    /\ points_back (build_redirect_url t_back q) q = true
    /\ chosen_target (lookup q cands) = Some t_upstream.
Proof. exact self_redirect_without_xfp_refuted. Qed.
Print Assumptions C13_self_redirect_without_xfp_refuted.

(* request header fields: the answer depends on them only through X-Forwarded-Proto (and Host);
   Upgrade / Accept / Connection / anything else never change it, and a redirect route is
   answered with its 3xx and the Location of this request whatever they are *)
Theorem C13_headers_irrelevant : forall hs hs' host path rawpath query tls cands,
  header_get hs h_xfp = header_get hs' h_xfp ->
  handle_full hs host path rawpath query tls cands = handle_full hs' host path rawpath query tls cands.
Proof. exact headers_irrelevant. Qed.
Print Assumptions C13_headers_irrelevant.
Theorem C13_redirect_whatever_headers : forall hs host path rawpath query tls cands t ou,
  lookup (request_of hs host path rawpath query tls) cands = Some (t, ou) -> is_redirect t = true ->
  code_ok (t_code t) = true ->
  handle_full hs host path rawpath query tls cands
  = RRedirect (t_code t) (hex_escape_non_ascii (url_string (build_redirect_url t (request_of hs host path rawpath query tls)))).
Proof. exact redirect_whatever_headers. Qed.
Print Assumptions C13_redirect_whatever_headers.

(* simultaneous requests.  Lookup and the rest of ServeHTTP are two atomic actions per request.
   For EVERY interleaving of these actions, of ANY number of requests (any list [reqs], any
   schedule, requests repeated or served several times included): every response that is sent
   is the answer of its own request, [own reqs i] = [handle q_i cands_i], a function of that
   request and of the table only. *)
Theorem C13_every_schedule_own : forall reqs sched,
  Forall (fun rr => snd rr = own reqs (fst rr)) (w_out (run_sched reqs sched world0)).
Proof. exact every_schedule_own. Qed.
Print Assumptions C13_every_schedule_own.
Theorem C13_every_schedule_own_nonvacuous :
  w_out (run_sched two_reqs [ALookup 0; ALookup 1; AServe 0; AServe 1] world0)
  = [(1%nat, RRedirect 301%Z (bs "https://foo.com/from-B")); (0%nat, RRedirect 301%Z (bs "https://foo.com/from-A"))].
Proof. exact every_schedule_own_nonvacuous. Qed.
Print Assumptions C13_every_schedule_own_nonvacuous.
(* finding F-C13-2, repaired in /repo by fix ddf101c: before the repair the URL sat in the
   RedirectURL field of the shared target ([run_sched_shared]); Lookup A, Lookup B, serve A
   answered A with B's Location *)
Theorem C13_redirect_cross_talk_refuted :
  exists reqs sched,
    own reqs 0 = RRedirect 301%Z (bs "https://foo.com/from-A")
    /\ own reqs 1 = RRedirect 301%Z (bs "https://foo.com/from-B")
    /\ ws_out (run_sched_shared reqs sched world_shared0)
       = [(1%nat, RRedirect 301%Z (bs "https://foo.com/from-B")); (0%nat, RRedirect 301%Z (bs "https://foo.com/from-B"))].
Proof. exact redirect_cross_talk_refuted. Qed.
Print Assumptions C13_redirect_cross_talk_refuted.
