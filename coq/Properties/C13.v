(** C13 - Redirect routes answer from the request alone
    (route/target.go BuildRedirectURL, route/route.go redirect option, route/table.go Lookup
    self-redirect skip, proxy/http_proxy.go redirect branch).  Statements, [exact],
    [Print Assumptions] only. *)
From Coq Require Import String List NArith ZArith.
From Fabio Require Import Lib.Outcome Lib.Bytes Model.Redirect Model.RedirectSpec Model.RedirectTag Model.RedirectProto Model.RedirectNoGlob Proofs.Redirect Proofs.RedirectTag Proofs.RedirectProto Proofs.RedirectNoGlob.
Import ListNotations.
Local Open Scope N_scope.

(* For every template of the documented forms (scheme://HOST[/static], scheme://HOST$path,
   scheme://HOST/pre$path, scheme://HOST/pre/$path, HOST literal or containing $host; [tmpl_dom]),
   every request path made of unescaped path bytes and %XY triplets, every query, host, strip
   and prepend ([req_dom]): the text of the Location is the template with $host := the
   request's host and $path := the request path exactly as written on the request line, after
   strip and prepend, with the request's query iff the template has none
   ([expected_location] is defined on the request line, without Path/RawPath).
   Reading of the clause "carrying the request's query when the target has none": $path stands
   for the request URI (documentation: "to include the original request URI ... append $path");
   a template WITHOUT $path is sent as it is and does not carry the request's query - this is
   what the repository's own TestTarget_BuildRedirectURL pins ("/?aaa=1" -> "http://bar.com/").
   Outside [req_dom]: finding region 6 (C13_domain_is_complement_of_region_6), raw non-ASCII
   bytes, hosts that need escaping, and encodings of ! ' ( ) * [ ]
   (C13_encoded_sub_delim_returned_decoded). *)
Theorem C13_location_spec : forall t wire q,
  tmpl_dom t = true -> req_dom t wire q = true ->
  set_path wire = Some (q_path q, q_rawpath q) ->
  url_string (build_redirect_url t q) = expected_location t wire q.
Proof. exact location_spec. Qed.
Print Assumptions C13_location_spec.

Theorem C13_location_spec_nonvacuous :
  tmpl_dom t_slash = true /\ req_dom t_slash (bs "/a%2Fb") q_enc_slash = true
  /\ set_path (bs "/a%2Fb") = Some (q_path q_enc_slash, q_rawpath q_enc_slash)
  /\ region_adjacent_raw t_slash q_enc_slash = false
  /\ expected_location t_slash (bs "/a%2Fb") q_enc_slash = bs "https://foo.com/a%2Fb".
Proof. exact location_spec_nonvacuous. Qed.
Print Assumptions C13_location_spec_nonvacuous.

(* a member of the domain with strip, prepend, query, $host inside the host, text after $path,
   an encoded reserved byte and raw sub-delims, and its answer *)
Theorem C13_location_spec_full_example :
  tmpl_dom t_full = true /\ req_dom t_full (bs "/foo/a%2Fb/(x)!") q_full = true
  /\ set_path (bs "/foo/a%2Fb/(x)!") = Some (q_path q_full, q_rawpath q_full)
  /\ expected_location t_full (bs "/foo/a%2Fb/(x)!") q_full = bs "https://www.foo.com:8080/bbb/pre/a%2Fb/(x)!/tail?k=v&x=%20"
  /\ handle q_full [None; Some t_full] = RRedirect 307%Z (bs "https://www.foo.com:8080/bbb/pre/a%2Fb/(x)!/tail?k=v&x=%20").
Proof. exact location_spec_full_example. Qed.
Print Assumptions C13_location_spec_full_example.

(* THE RESPONSE of a redirect route, composed from the option text to the header: the status is
   the 3xx code the option text denotes, the Location header (after http.Redirect's
   hexEscapeNonASCII) is [expected_location] of THIS request, and no upstream is called *)
Theorem C13_response_location : forall q cands t ou wire,
  lookup q cands = Some (t, ou) -> is_redirect t = true -> code_ok (t_code t) = true ->
  tmpl_dom t = true -> req_dom t wire q = true -> set_path wire = Some (q_path q, q_rawpath q) ->
  handle q cands = RRedirect (t_code t) (expected_location t wire q) /\ upstream_calls (handle q cands) = O.
Proof. exact response_location. Qed.
Print Assumptions C13_response_location.
Theorem C13_response_from_option : forall q cands t ou wire opt,
  lookup q cands = Some (t, ou) -> is_redirect t = true -> t_code t = redirect_code opt ->
  tmpl_dom t = true -> req_dom t wire q = true -> set_path wire = Some (q_path q, q_rawpath q) ->
  handle q cands = RRedirect (redirect_code opt) (expected_location t wire q)
  /\ (300 <= redirect_code opt <= 399)%Z /\ upstream_calls (handle q cands) = O.
Proof. exact response_from_option. Qed.
Print Assumptions C13_response_from_option.

(* the domain of C13_location_spec inside [req_dom0] (unescaped path bytes incl. raw ! ' ( ) * [ ]
   and %XY triplets other than encodings of those seven) is exactly the complement of finding
   region 6 *)
Theorem C13_domain_is_complement_of_region_6 : forall t wire q,
  req_dom0 wire q = true -> plain (t_strip t) = true -> set_path wire = Some (q_path q, q_rawpath q) ->
  req_dom t wire q = negb (strip_decoded_only t wire q).
Proof. exact req_dom_split. Qed.
Print Assumptions C13_domain_is_complement_of_region_6.
(* finding F-C13-6 (open): a strip prefix that matches only after percent-decoding (the route
   matches on the decoded path): the rest of the path loses its encoding.  The specification
   there is [expected_location_dec]: strip removes the shortest prefix as written that decodes
   to the strip text. *)
Theorem C13_strip_decoded_only_refuted :
  exists t wire q, tmpl_dom t = true /\ req_dom0 wire q = true
    /\ set_path wire = Some (q_path q, q_rawpath q)
    /\ strip_decoded_only t wire q = true
    /\ url_string (build_redirect_url t q) = bs "https://foo.com/a/b"
    /\ expected_location_dec t wire q = bs "https://foo.com/a%2Fb".
Proof. exact strip_decoded_only_refuted. Qed.
Print Assumptions C13_strip_decoded_only_refuted.
(* outside the domain by net/url's own reading of paths (recorded as an assumption, not a
   finding): an upper-case-hex encoding of one of ! ' ( ) * [ ] in an otherwise default-encoded
   path comes back decoded *)
Theorem C13_encoded_sub_delim_returned_decoded :
  set_path (bs "/a%21b") = Some (bs "/a!b", [])
  /\ req_dom t_slash (bs "/a%21b") (mkReq ex_host (bs "/a!b") [] [] [] false) = false
  /\ url_string (build_redirect_url t_slash (mkReq ex_host (bs "/a!b") [] [] [] false)) = bs "https://foo.com/a!b".
Proof. exact encoded_sub_delim_returned_decoded. Qed.
Print Assumptions C13_encoded_sub_delim_returned_decoded.

(* finding F-C13-1, repaired in /repo by fix e4368b6: BuildRedirectURL before the repair
   ([build_redirect_url_unrepaired]) left RawPath empty for $path glued to the host:
   https://$host$path and GET /a%2Fb gave Location https://foo.com/a/b *)
Theorem C13_host_adjacent_path_decoded_refuted :
  exists t wire q, tmpl_dom t = true /\ req_dom t wire q = true
    /\ set_path wire = Some (q_path q, q_rawpath q)
    /\ url_string (build_redirect_url_unrepaired t q) = bs "https://foo.com/a/b"
    /\ expected_location t wire q = bs "https://foo.com/a%2Fb"
    /\ region_adjacent_raw t q = true
    /\ url_string (build_redirect_url t q) = bs "https://foo.com/a%2Fb".
Proof. exact host_adjacent_path_decoded_refuted. Qed.
Print Assumptions C13_host_adjacent_path_decoded_refuted.

(* the status: 0 (not a redirect route) or 3xx for EVERY option text; a three-digit 3xx text
   is kept as it is *)
Theorem C13_code_range : forall opt, redirect_code opt = 0%Z \/ (300 <= redirect_code opt <= 399)%Z.
Proof. exact code_range. Qed.
Print Assumptions C13_code_range.
Theorem C13_code_three_digits : forall a b, is_digit a = true -> is_digit b = true ->
  redirect_code [51; a; b] = (300 + 10 * Z.of_N (a - 48) + Z.of_N (b - 48))%Z.
Proof. exact code_three_digits. Qed.
Print Assumptions C13_code_three_digits.
(* finding F-C13-5, repaired in /repo by fix fa24a7f: the option parsing before the repair
   ([redirect_code_unrepaired]) left Atoi's saturated value in the field *)
Theorem C13_code_range_refuted :
  exists opt, redirect_code_unrepaired opt = 9223372036854775807%Z /\ code_overflows opt = true
              /\ redirect_code opt = 0%Z.
Proof. exact code_range_refuted. Qed.
Print Assumptions C13_code_range_refuted.

(* a request that Lookup answers with a redirect target never reaches the upstream (in the model:
   by the shape of [serve]; on the real code: the observed hit counter and the counting listener
   of the harness); with a 3xx code the response is that code and the Location built from THIS
   request.  The order "403 / 401 before the 3xx" (access and auth checks precede the redirect
   branch) is C12's: Model/Access.v serve_http with ERedirect. *)
Theorem C13_no_upstream_on_redirect : forall q cands t ou,
  lookup q cands = Some (t, ou) -> is_redirect t = true ->
  upstream_calls (handle q cands) = O
  /\ (code_ok (t_code t) = true ->
      handle q cands = RRedirect (t_code t) (hex_escape_non_ascii (url_string (build_redirect_url t q)))).
Proof. exact no_upstream_on_redirect. Qed.
Print Assumptions C13_no_upstream_on_redirect.

(* the host loop, for every request (whatever headers the client sent: the request's own scheme
   is the one reported in X-Forwarded-Proto, otherwise that of the connection): the answering
   host is the first one whose route does not point back at the request's own scheme, host and
   path, none if there is no such host (reference loop [ref_lookup]); hence Lookup never returns
   a redirect that points back at the request *)
Theorem C13_self_redirect_skipped : forall q cands, chosen_target (lookup q cands) = ref_lookup q cands.
Proof. exact self_redirect_skipped. Qed.
Print Assumptions C13_self_redirect_skipped.
Theorem C13_self_redirect_never_returned : forall q cands t,
  chosen_target (lookup q cands) = Some t -> is_redirect t = true -> points_back (build_redirect_url t q) q = false.
Proof. exact self_redirect_never_returned. Qed.
Print Assumptions C13_self_redirect_never_returned.
(* [ref_lookup] / [points_back] read "own scheme, host and path" as the code does (host compared
   byte for byte).  Against an independent reading (host case-insensitive, the scheme's default
   port optional: [points_back_norm]) the test is SOUND - whatever Lookup skips does point back
   at the request - but not complete: a request that spells the template's host differently
   (FOO.com, foo.com:80) is sent to the template's spelling once and the follow-up request is
   skipped; one extra hop, no loop (recorded as an assumption). *)
Theorem C13_self_test_sound : forall u q, is_self u q = true -> points_back_norm u q = true.
Proof. exact is_self_sound_norm. Qed.
Print Assumptions C13_self_test_sound.
Theorem C13_host_spelling_one_hop :
  handle (q_host_x "FOO.com") [Some t_back; Some t_upstream] = RRedirect 301%Z (bs "http://foo.com/x")
  /\ points_back_norm (build_redirect_url t_back (q_host_x "FOO.com")) (q_host_x "FOO.com") = true
  /\ handle (q_host_x "foo.com:80") [Some t_back; Some t_upstream] = RRedirect 301%Z (bs "http://foo.com/x")
  /\ points_back_norm (build_redirect_url t_back (q_host_x "foo.com:80")) (q_host_x "foo.com:80") = true
  /\ handle (q_host_x "foo.com") [Some t_back; Some t_upstream] = RProxy 1.
Proof. exact host_spelling_one_hop. Qed.
Print Assumptions C13_host_spelling_one_hop.
(* finding F-C13-3, repaired in /repo by fix 4431a54: the loop before the repair
   ([lookup_unrepaired]) returned the skipped redirect when it belonged to the last host *)
Theorem C13_self_redirect_last_host_refuted :
  exists q cands t, fst (lookup_unrepaired q cands) = Some t /\ ref_lookup q cands = None
    /\ points_back (build_redirect_url t q) q = true
    /\ lookup q cands = None.
Proof. exact self_redirect_last_host_refuted. Qed.
Print Assumptions C13_self_redirect_last_host_refuted.
(* finding F-C13-4, repaired in /repo by fix bcdacf0: the loop before the repair
   ([lookup_hdr_only]) compared the scheme with the X-Forwarded-Proto header only, so a direct
   request was redirected to its own URL *)
Theorem C13_self_redirect_without_xfp_refuted :
  exists q cands, q_xfp q = [] /\ ref_lookup q cands = Some t_upstream
    /\ fst (lookup_hdr_only q cands) = Some t_back
    /\ points_back (build_redirect_url t_back q) q = true
    /\ chosen_target (lookup q cands) = Some t_upstream.
Proof. exact self_redirect_without_xfp_refuted. Qed.
Print Assumptions C13_self_redirect_without_xfp_refuted.

(* request header fields (MECHANISM LEMMAS: true by construction of the model, whose serve
   function receives the headers and does not consult them; that the real ServeHTTP answers the
   redirect BEFORE it dispatches on Upgrade / Accept is observed by the harness class
   serve-headers-socket, not proved): the answer depends on the headers only through
   X-Forwarded-Proto (and Host), and a redirect route is answered with its 3xx and the Location
   of this request whatever they are *)
Theorem C13_headers_irrelevant : forall hs hs' host path rawpath query tls cands,
  header_get hs h_xfp = header_get hs' h_xfp ->
  handle_full hs host path rawpath query tls cands = handle_full hs' host path rawpath query tls cands.
Proof. exact headers_irrelevant. Qed.
Print Assumptions C13_headers_irrelevant.
Theorem C13_redirect_whatever_headers : forall hs host path rawpath query tls cands t ou,
  lookup (request_of hs host path rawpath query tls) cands = Some (t, ou) -> is_redirect t = true ->
  code_ok (t_code t) = true ->
  handle_full hs host path rawpath query tls cands
  = RRedirect (t_code t) (hex_escape_non_ascii (url_string (build_redirect_url t (request_of hs host path rawpath query tls)))).
Proof. exact redirect_whatever_headers. Qed.
Print Assumptions C13_redirect_whatever_headers.

(* simultaneous requests (since fix ddf101c the model has no shared state left, so this holds by
   construction of [step]; its content is the modelling claim "what Lookup returned is the only
   state a request carries into its serve step", which the harness class forced-interleaving
   exercises on the real HTTPProxy with 2-4 requests and random schedules).
   Lookup and the rest of ServeHTTP are two atomic actions per request.
   For EVERY interleaving of these actions, of ANY number of requests (any list [reqs], any
   schedule, requests repeated or served several times included): every response that is sent
   is the answer of its own request, [own reqs i] = [handle q_i cands_i], a function of that
   request and of the table only. *)
Theorem C13_every_schedule_own : forall reqs sched,
  Forall (fun rr => snd rr = own reqs (fst rr)) (w_out (run_sched reqs sched world0)).
Proof. exact every_schedule_own. Qed.
Print Assumptions C13_every_schedule_own.
Theorem C13_every_schedule_own_nonvacuous :
  w_out (run_sched two_reqs [ALookup 0; ALookup 1; AServe 0; AServe 1] world0)
  = [(1%nat, RRedirect 301%Z (bs "https://foo.com/from-B")); (0%nat, RRedirect 301%Z (bs "https://foo.com/from-A"))].
Proof. exact every_schedule_own_nonvacuous. Qed.
Print Assumptions C13_every_schedule_own_nonvacuous.
(* finding F-C13-2, repaired in /repo by fix ddf101c: before the repair the URL sat in the
   RedirectURL field of the shared target ([run_sched_shared]); Lookup A, Lookup B, serve A
   answered A with B's Location *)
Theorem C13_redirect_cross_talk_refuted :
  exists reqs sched,
    own reqs 0 = RRedirect 301%Z (bs "https://foo.com/from-A")
    /\ own reqs 1 = RRedirect 301%Z (bs "https://foo.com/from-B")
    /\ ws_out (run_sched_shared reqs sched world_shared0)
       = [(1%nat, RRedirect 301%Z (bs "https://foo.com/from-B")); (0%nat, RRedirect 301%Z (bs "https://foo.com/from-B"))].
Proof. exact redirect_cross_talk_refuted. Qed.
Print Assumptions C13_redirect_cross_talk_refuted.

(* ONLY a redirect that points back at the request is skipped (round 5): whatever Lookup passes
   over before the answering host is an absent route or a redirect whose Location is the
   request's own URL in the independent reading [points_back_norm] (same scheme, same host up
   to letter case and default port, the SAME path byte for byte); the post part starts with
   the candidate that answers.  Together with C13_self_test_sound this bounds the skip from
   both sides. *)
Theorem C13_only_self_redirects_skipped : forall q cands,
  exists pre post, cands = pre ++ post /\ Forall (passed_over q) pre
    /\ match post with
       | [] => lookup q cands = None
       | Some t :: _ => exists ou, lookup q cands = Some (t, ou)
       | None :: _ => False
       end.
Proof. exact only_self_redirects_skipped. Qed.
Print Assumptions C13_only_self_redirects_skipped.
(* hence a redirect whose Location differs from the request's URL in the path - be it only in
   letter case: the canonical-lower-case redirect /Docs -> /docs - is answered, not skipped *)
Theorem C13_path_differs_not_skipped : forall q t rest,
  is_redirect t = true -> u_path (build_redirect_url t q) <> q_path q ->
  lookup q (Some t :: rest) = Some (t, Some (build_redirect_url t q))
  /\ (code_ok (t_code t) = true ->
      handle q (Some t :: rest) = RRedirect (t_code t) (hex_escape_non_ascii (url_string (build_redirect_url t q)))
      /\ upstream_calls (handle q (Some t :: rest)) = O).
Proof. exact path_differs_not_skipped. Qed.
Print Assumptions C13_path_differs_not_skipped.
Theorem C13_case_variant_not_skipped : forall q t rest,
  is_redirect t = true -> case_variant (u_path (build_redirect_url t q)) (q_path q) = true ->
  lookup q (Some t :: rest) = Some (t, Some (build_redirect_url t q)).
Proof. exact case_variant_not_skipped. Qed.
Print Assumptions C13_case_variant_not_skipped.
Theorem C13_case_variant_nonvacuous :
  case_variant (u_path (build_redirect_url t_docs (q_ex "/Docs"))) (q_path (q_ex "/Docs")) = true
  /\ handle (q_ex "/Docs") [Some t_docs; Some (upstream_target 1)] = RRedirect 301%Z (bs "http://example.com/docs")
  /\ case_variant (u_path (build_redirect_url t_api (q_ex "/API/v1/users"))) (q_path (q_ex "/API/v1/users")) = true
  /\ handle (q_ex "/API/v1/users") [Some t_api; Some (upstream_target 1)] = RRedirect 308%Z (bs "http://example.com/api/v1/users")
  /\ handle (q_ex "/docs") [Some t_docs; Some (upstream_target 1)] = RProxy 1.
Proof. exact case_variant_nonvacuous. Qed.
Print Assumptions C13_case_variant_nonvacuous.

(* REDIRECT ROUTES REGISTERED THROUGH A CONSUL TAG (round 5; registry/consul/routecmd.go).
   [tag_written] / [split_template] / [tag_target] (Model/RedirectTag.v) are an independent
   specification of "the template, the code and the path options written in the tag"; they
   are not a model of routecmd.build.  For EVERY tag of the documented shape
     <prefix><src> redirect=<code>,<template> [further option fields]
   (no blank inside prefix, src, code, template and the fields; no comma in code and template)
   the reading gives back src, code and the template byte for byte - $path and $host included,
   nothing is expanded - and strip= / prepend= of the further fields *)
Theorem C13_tag_written_documented : forall prefix src code tmpl more,
  no_blank prefix = true -> word src ->
  no_blank code = true -> no_comma code = true -> no_blank tmpl = true -> no_comma tmpl = true ->
  Forall word more ->
  tag_written prefix (prefix ++ src ++ 32 :: join ((k_redirect ++ code ++ 44 :: tmpl) :: more) [32])
  = Some (mkWritten src code tmpl (opt_value k_strip more) (opt_value k_prepend more)).
Proof. exact tag_written_documented. Qed.
Print Assumptions C13_tag_written_documented.
(* the template text scheme://host[/path][?query] is cut into exactly these four parts *)
Theorem C13_split_template_render : forall sc host path qy,
  scheme_text_ok sc = true -> host <> [] -> host_text_ok host = true -> path_text_ok path = true ->
  query_text_ok qy = true ->
  split_template (sc ++ v_css ++ host ++ path ++ qs qy) = Some (sc, host, path, qy).
Proof. exact split_template_render. Qed.
Print Assumptions C13_split_template_render.
Theorem C13_tag_target_documented : forall id prefix src code tmpl more sc h p qy,
  no_blank prefix = true -> word src ->
  no_blank code = true -> no_comma code = true -> no_blank tmpl = true -> no_comma tmpl = true ->
  Forall word more ->
  split_template tmpl = Some (sc, h, p, qy) ->
  tag_target id prefix (tag_text prefix src code tmpl more)
  = Some (mkTarget id sc h p qy (opt_value k_strip more) (opt_value k_prepend more) (redirect_code code)).
Proof. exact tag_target_documented. Qed.
Print Assumptions C13_tag_target_documented.
(* from the tag to the response: a request answered by the route of such a tag receives the
   3xx code the tag's code text denotes and [expected_location] of the template AS WRITTEN IN
   THE TAG for this request; no upstream is called *)
Theorem C13_consul_tag_response : forall id prefix src code tmpl more sc h p qy q cands ou wire t,
  no_blank prefix = true -> word src ->
  no_blank code = true -> no_comma code = true -> no_blank tmpl = true -> no_comma tmpl = true ->
  Forall word more ->
  split_template tmpl = Some (sc, h, p, qy) ->
  t = mkTarget id sc h p qy (opt_value k_strip more) (opt_value k_prepend more) (redirect_code code) ->
  lookup q cands = Some (t, ou) -> is_redirect t = true ->
  tmpl_dom t = true -> req_dom t wire q = true -> set_path wire = Some (q_path q, q_rawpath q) ->
  tag_target id prefix (tag_text prefix src code tmpl more) = Some t
  /\ handle q cands = RRedirect (redirect_code code) (expected_location t wire q)
  /\ (300 <= redirect_code code <= 399)%Z /\ upstream_calls (handle q cands) = O.
Proof. exact consul_tag_response. Qed.
Print Assumptions C13_consul_tag_response.
Theorem C13_consul_tag_nonvacuous :
  ex_tag = tag_text ex_prefix (bs "/path") (bs "303") (bs "https://www.foo.com$path") []
  /\ split_template (bs "https://www.foo.com$path") = Some (bs "https", bs "www.foo.com$path", [], [])
  /\ tag_target 0 ex_prefix ex_tag = Some ex_tag_target
  /\ tmpl_dom ex_tag_target = true /\ req_dom ex_tag_target (bs "/path/a/b") ex_tag_req = true
  /\ handle ex_tag_req [Some ex_tag_target; Some (upstream_target 1)] = RRedirect 303%Z (bs "https://www.foo.com/path/a/b?x=1")
  /\ tag_target 0 ex_prefix ex_tag_strip
     = Some (mkTarget 0 (bs "https") (bs "$host") (bs "/new/$path") (bs "v=2") (bs "/old") [] 308%Z)
  /\ tag_target 0 ex_prefix (bs "urlprefix-/plain") = None.
Proof. exact consul_tag_nonvacuous. Qed.
Print Assumptions C13_consul_tag_nonvacuous.

(* THE SCHEME OF THE SELF-REDIRECT TEST, over every combination of header fields and connection
   (round 6; route/table.go:459-466).  The request is given by its header fields AS SENT (any
   number of lines, any spelling of the names).  Specification side (Model/RedirectProto.v,
   written on "the fields of a name in the order sent", not on http.Header.Get): [said_x] -
   X-Forwarded-Proto absent (or empty) / a value; [said_f] - Forwarded absent / without a proto
   parameter / with one; the connection; and the decision table [own_scheme_said]: the scheme a
   proxy in front reports in X-Forwarded-Proto, without it the scheme of the connection; a
   Forwarded header, with or without proto, never takes that away.
   For EVERY list of header fields the scheme Lookup derives is the one of the table ... *)
Theorem C13_scheme_all_combinations : forall hs tls,
  lookup_proto hs tls = own_scheme_said (said_x hs) (said_f hs) tls.
Proof. exact proto_all_combinations. Qed.
Print Assumptions C13_scheme_all_combinations.
(* ... hence the clause "a redirect that would point back at the request's own scheme, host and
   path is skipped in favour of the next matching host" for every such request: the answering
   host is the first one whose route is not a redirect to <own scheme>://<host><path>
   ([ref_lookup_own], the reference loop for the table's scheme), and the whole answer (status,
   Location, who is contacted) is the reference answer *)
Theorem C13_self_skip_all_combinations : forall hs host path rawpath query tls cands,
  chosen_target (lookup (request_of hs host path rawpath query tls) cands)
  = ref_lookup_own (own_scheme_said (said_x hs) (said_f hs) tls) (said_request hs host path rawpath query tls) cands.
Proof. exact self_skip_all_combinations. Qed.
Print Assumptions C13_self_skip_all_combinations.
Theorem C13_answer_all_combinations : forall hs host path rawpath query tls cands,
  codes_ok cands = true ->
  handle_full hs host path rawpath query tls cands
  = ref_answer_own (own_scheme_said (said_x hs) (said_f hs) tls) (said_request hs host path rawpath query tls) cands.
Proof. exact answer_all_combinations. Qed.
Print Assumptions C13_answer_all_combinations.
(* a Forwarded field - wherever it stands among the fields, however its name is spelled, whatever
   it says - does not change the answer *)
Theorem C13_forwarded_irrelevant : forall l1 k v l2 host path rawpath query tls cands,
  same_name k h_forwarded = true ->
  handle_full (l1 ++ (k, v) :: l2) host path rawpath query tls cands
  = handle_full (l1 ++ l2) host path rawpath query tls cands.
Proof. exact forwarded_irrelevant. Qed.
Print Assumptions C13_forwarded_irrelevant.
(* the two directions for one candidate: a redirect to <own scheme>://<host><path> is passed
   over (the request reporting its scheme in X-Forwarded-Proto: whatever Forwarded field it
   carries besides and whatever the connection is); a redirect to another scheme is answered
   with its 3xx and no upstream call *)
Theorem C13_pointing_back_skipped : forall hs host path rawpath query tls t rest,
  is_redirect t = true ->
  back_to (own_scheme_said (said_x hs) (said_f hs) tls) host path
          (build_redirect_url t (said_request hs host path rawpath query tls)) = true ->
  handle_full hs host path rawpath query tls (Some t :: rest) = handle_full hs host path rawpath query tls rest.
Proof. exact pointing_back_skipped. Qed.
Print Assumptions C13_pointing_back_skipped.
Theorem C13_reported_scheme_skipped : forall hs host path rawpath query tls t rest s,
  said_x hs = XSays s -> is_redirect t = true ->
  back_to s host path (build_redirect_url t (said_request hs host path rawpath query tls)) = true ->
  handle_full hs host path rawpath query tls (Some t :: rest) = handle_full hs host path rawpath query tls rest.
Proof. exact reported_scheme_skipped. Qed.
Print Assumptions C13_reported_scheme_skipped.
Theorem C13_other_scheme_answered : forall hs host path rawpath query tls t rest,
  is_redirect t = true -> code_ok (t_code t) = true ->
  u_scheme (build_redirect_url t (said_request hs host path rawpath query tls))
    <> own_scheme_said (said_x hs) (said_f hs) tls ->
  handle_full hs host path rawpath query tls (Some t :: rest)
  = RRedirect (t_code t) (hex_escape_non_ascii (url_string (build_redirect_url t (said_request hs host path rawpath query tls))))
  /\ upstream_calls (handle_full hs host path rawpath query tls (Some t :: rest)) = O.
Proof. exact other_scheme_answered. Qed.
Print Assumptions C13_other_scheme_answered.
(* non-vacuity: the usual pair  example.com:80/ -> https://example.com$path (301)  +  example.com/
   -> upstream  over the whole grid of 3 x 4 x 2 combinations: the request is proxied exactly
   when the client used https (X-Forwarded-Proto says so, or nothing is said and the connection
   is TLS), otherwise it is sent to https; the grid's entries fall into the classes they are
   labelled with; the load-balancer case with both headers *)
Theorem C13_scheme_grid_nonvacuous :
  length grid = 24%nat
  /\ map grid_answer grid = map grid_expected grid
  /\ map (fun i => said_x (grid_x i)) [0;1;2]%nat = [XNone; XSays s_http; XSays s_https]
  /\ map (fun j => said_f (grid_f j)) [0;1;2;3]%nat = [FNone; FNoProto; FProto s_http; FProto s_https]
  /\ handle_full [(bs "X-Forwarded-Proto", bs "https"); (bs "Forwarded", bs "for=203.0.113.7")]
       (bs "example.com") (bs "/account/settings") [] [] false [Some t_to_https; Some t_web] = RProxy 1
  /\ back_to (bs "https") (bs "example.com") (bs "/account/settings")
       (build_redirect_url t_to_https (said_request [(bs "X-Forwarded-Proto", bs "https"); (bs "Forwarded", bs "for=203.0.113.7")]
                                         (bs "example.com") (bs "/account/settings") [] [] false)) = true
  /\ handle_full [(bs "Forwarded", bs "for=203.0.113.7")] (bs "example.com") (bs "/account/settings") [] [] false
       [Some t_to_https; Some t_web] = RRedirect 301%Z (bs "https://example.com/account/settings")
  /\ handle_full [(bs "Forwarded", bs "for=203.0.113.7;proto=https")] (bs "example.com") (bs "/account/settings") [] [] false
       [Some t_to_https; Some t_web] = RRedirect 301%Z (bs "https://example.com/account/settings")
  /\ said_f [(bs "forwarded", bs "for=192.0.2.43, for=198.51.100.17; Proto=https;by=10.0.0.1")] = FProto s_https
  /\ said_f [(bs "Forwarded", bs "for=1.2.3.4; httpproto=http/1.1")] = FNoProto
  /\ codes_ok [Some t_to_https; Some t_web] = true.
Proof. exact grid_nonvacuous. Qed.
Print Assumptions C13_scheme_grid_nonvacuous.

(* ------------------------------------------------------------------ *)
(* round 8: Table.Lookup with GLOB MATCHING DISABLED (glob.matching.disabled=true;
   Model/RedirectNoGlob.v).  The host test of matchingHostNoGlob (normalizeHost on both sides)
   is the specification's "the pattern IS the request's host": the same name up to letter case,
   the default port of the connection's scheme written or left out on either side ([bare_of],
   [same_host_said]); no pattern is interpreted. *)
Theorem C13_noglob_host_test_spec : forall tls pat host,
  beq (normalize_host pat tls) (normalize_host host tls) = true <-> same_host_said tls pat host.
Proof. exact host_matches_iff. Qed.
Print Assumptions C13_noglob_host_test_spec.
(* the three-alternative decision by which Check/C13.v judges the implementation is that reading *)
Theorem C13_noglob_decision_spec : forall tls pat host,
  same_hostb tls pat host = true <-> same_host_said tls pat host.
Proof. exact same_hostb_iff. Qed.
Print Assumptions C13_noglob_decision_spec.
(* the routes Lookup visits in this mode: those of the table hosts that are the request's host,
   in table order - for every table and request *)
Theorem C13_noglob_candidates : forall tv host tls, cands_said tls host tv (matching_noglob tv host tls).
Proof. exact noglob_candidates. Qed.
Print Assumptions C13_noglob_candidates.
(* THE ANSWER in this mode, for every request, table view and host-less route: the host loop runs
   over those routes and then the host-less ones; the answering route is the first that is not
   a redirect pointing back at the request (reference loop [ref_lookup]) *)
Theorem C13_noglob_answer : forall q tv fb l,
  cands_said (q_tls q) (q_host q) tv l ->
  handle_noglob q tv fb = handle q (l ++ [fb])
  /\ chosen_target (lookup_noglob q tv fb) = ref_lookup q (l ++ [fb]).
Proof. exact noglob_answer. Qed.
Print Assumptions C13_noglob_answer.
(* a request for a host the table does not know is answered by the host-less routes exactly as
   by a Lookup that visits only them *)
Theorem C13_hostless_either_mode : forall q tv fb,
  (forall pat o, In (pat, o) tv -> ~ same_host_said (q_tls q) pat (q_host q)) ->
  handle_noglob q tv fb = handle q [fb].
Proof. exact hostless_either_mode. Qed.
Print Assumptions C13_hostless_either_mode.
(* THE CLAUSE for a host-less redirect route with glob matching disabled: a request whose host is
   no host of the table, matching a host-less redirect route that does not point back at it,
   receives the configured 3xx and the Location of THIS request; no upstream is contacted *)
Theorem C13_noglob_hostless_redirect : forall q tv t wire,
  (forall pat o, In (pat, o) tv -> ~ same_host_said (q_tls q) pat (q_host q)) ->
  is_redirect t = true -> code_ok (t_code t) = true ->
  tmpl_dom t = true -> req_dom t wire q = true -> set_path wire = Some (q_path q, q_rawpath q) ->
  points_back (build_redirect_url t q) q = false ->
  handle_noglob q tv (Some t) = RRedirect (t_code t) (expected_location t wire q)
  /\ upstream_calls (handle_noglob q tv (Some t)) = O.
Proof. exact noglob_hostless_redirect. Qed.
Print Assumptions C13_noglob_hostless_redirect.
(* route add svc /docs https://www.foo.com$path opts "redirect=302" (no host) beside
   example.com/ and *.example.org/ services: Host intranet.local and a.example.org (a glob
   pattern is a literal key in this mode) get the 302; Example.COM:80 / example.com:443 over TLS
   are the table's host; example.com:443 on a plain connection is not *)
Theorem C13_noglob_hostless_redirect_nonvacuous :
  (forall pat o, In (pat, o) ng_tv -> ~ same_host_said false pat (bs "intranet.local"))
  /\ is_redirect ng_docs = true /\ code_ok (t_code ng_docs) = true /\ tmpl_dom ng_docs = true
  /\ req_dom ng_docs (bs "/docs/setup") (ng_q (bs "intranet.local") false) = true
  /\ points_back (build_redirect_url ng_docs (ng_q (bs "intranet.local") false)) (ng_q (bs "intranet.local") false) = false
  /\ handle_noglob (ng_q (bs "intranet.local") false) ng_tv (Some ng_docs)
     = RRedirect 302%Z (bs "https://www.foo.com/docs/setup?v=2")
  /\ handle_noglob (ng_q (bs "a.example.org") false) ng_tv (Some ng_docs)
     = RRedirect 302%Z (bs "https://www.foo.com/docs/setup?v=2")
  /\ handle_noglob (ng_q (bs "Example.COM:80") false) ng_tv (Some ng_docs) = RProxy 1
  /\ handle_noglob (ng_q (bs "example.com:443") true) ng_tv (Some ng_docs) = RProxy 1
  /\ handle_noglob (ng_q (bs "example.com:443") false) ng_tv (Some ng_docs)
     = RRedirect 302%Z (bs "https://www.foo.com/docs/setup?v=2").
Proof. exact noglob_hostless_redirect_nonvacuous. Qed.
Print Assumptions C13_noglob_hostless_redirect_nonvacuous.
(* the self-redirect skip in this mode: http://$host/$path on example.com:80 points back at a
   plain request for example.com and is passed over (service behind / host-less redirect behind);
   on example.com:443 over TLS it does not point back and answers *)
Theorem C13_noglob_self_redirect_skipped_nonvacuous :
  handle_noglob (ng_q (bs "example.com") false) [(bs "example.com:80", Some ng_self80); (bs "example.com", Some ng_web)] (Some ng_docs) = RProxy 1
  /\ handle_noglob (ng_q (bs "example.com") false) [(bs "example.com:80", Some ng_self80)] (Some ng_docs)
     = RRedirect 302%Z (bs "https://www.foo.com/docs/setup?v=2")
  /\ handle_noglob (ng_q (bs "example.com") true) [(bs "example.com:443", Some ng_self80)] None
     = RRedirect 301%Z (bs "http://example.com/docs/setup?v=2").
Proof. exact noglob_self_redirect_skipped_nonvacuous. Qed.
Print Assumptions C13_noglob_self_redirect_skipped_nonvacuous.
