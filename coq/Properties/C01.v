(** C01 - the routing table holds exactly the healthy, tagged service instances
    (registry/consul/passing.go, service.go, routecmd.go; main.go:watchBackend).
    Statements, [exact] and the assumption printouts only. *)
From Coq Require Import String List NArith Bool.
From Coq Require Import ZArith.
From Fabio Require Import Lib.Outcome Lib.Bytes Model.WtF64 Model.TableCmd Model.RouteText Model.RouteCmd
     Proofs.TableCmd Proofs.RouteCmd
     Model.Consul Model.Watch Model.ConsulSpec Proofs.Consul Proofs.Watch
     Model.RegistryTable Proofs.ManualOnTop Proofs.RegistryTable Model.OperatorText Proofs.OperatorText.
Import ListNotations.
Local Open Scope N_scope.

(* Every multiset of health checks, every accepted-status list, both checksRequired modes:
   passingServices returns exactly the service checks of the instances that are [healthy]:
   an own check with an accepted status (all own checks in strict mode), no critical
   serfHealth check on the node, no _node_maintenance check on the node, no critical
   _service_maintenance:<id> check.  [healthy] (Model/ConsulSpec.v) is written from the
   property text and mentions no loop. *)
Theorem C01_passing_iff_healthy : forall checks status strict svc,
  In svc (passing_services checks status strict) <->
  In svc checks /\ is_service_check svc = true /\
  healthy checks status strict (c_node svc) (c_sid svc).
Proof. exact passing_iff_healthy. Qed.
Print Assumptions C01_passing_iff_healthy.

Theorem C01_instance_passing_iff : forall checks status strict n sid,
  (exists svc, In svc (passing_services checks status strict) /\ own n sid svc) <->
  registered checks n sid /\ healthy checks status strict n sid.
Proof. exact instance_passing_iff. Qed.
Print Assumptions C01_instance_passing_iff.

(* the boolean predicate the correspondence check evaluates on the implementation's
   output decides [healthy] *)
Theorem C01_healthy_b_decides : forall checks status strict n sid,
  healthy_b checks status strict n sid = true <-> healthy checks status strict n sid.
Proof. exact healthy_b_spec. Qed.
Print Assumptions C01_healthy_b_decides.

Theorem C01_passing_nonvacuous :
  let a := mkCheck (bs "n1") (bs "service:s1") (bs "s1") (bs "svc-a") (bs "passing") [bs "urlprefix-/foo"] in
  let b := mkCheck (bs "n1") (bs "chk2") (bs "s1") (bs "svc-a") (bs "critical") [bs "urlprefix-/foo"] in
  let serf := mkCheck (bs "n1") (bs "serfHealth") [] [] (bs "passing") [] in
  passing_services [a; b; serf] [bs "passing"] false = [a; b]
  /\ passing_services [a; b; serf] [bs "passing"] true = []
  /\ passing_services [a; serf] [bs "passing"] true = [a].
Proof. exact passing_nonvacuous. Qed.
Print Assumptions C01_passing_nonvacuous.

(* The tag filter in front of passingServices keeps every agent and maintenance check, so
   it never changes the health of an instance whose own checks carry a tag that, trimmed,
   starts with the prefix (the property's "advertises") ... *)
Theorem C01_tagfilter_keeps_node_checks : forall prefix checks status strict n sid,
  (forall c, In c checks -> own n sid c -> tagged prefix c = true) ->
  (healthy (checks_with_tag_prefix prefix checks) status strict n sid <->
   healthy checks status strict n sid).
Proof. exact tagfilter_keeps_node_checks. Qed.
Print Assumptions C01_tagfilter_keeps_node_checks.

(* ... and what one round of the watcher hands to makeConfig is exactly the tagged healthy
   service checks *)
Theorem C01_watch_passing_iff : forall prefix checks status strict svc,
  (forall c, In c checks -> own (c_node svc) (c_sid svc) c -> tagged prefix c = true) ->
  (In svc (watch_passing prefix status strict checks) <->
   In svc checks /\ is_service_check svc = true /\ healthy checks status strict (c_node svc) (c_sid svc)).
Proof. exact watch_passing_iff. Qed.
Print Assumptions C01_watch_passing_iff.

Theorem C01_untagged_never_passing : forall prefix checks status strict svc,
  In svc (watch_passing prefix status strict checks) -> tag_kept prefix svc = true.
Proof. exact tagfilter_drops_untagged. Qed.
Print Assumptions C01_untagged_never_passing.

(* finding F-C01-2, repaired in /repo by the fix: commit fdfd589: the filter used to look at
   the tag untrimmed while routecmd.build trims it first, so that a healthy instance whose
   only route tag has leading white space was not routed.  Stated about the filter as it
   was ([svc_config_unrepaired]); the repaired pipeline routes the witness. *)
Theorem C01_untrimmed_tag_refuted :
  exists prefix status checks e,
    route_tags prefix (e_tags e) <> [] /\ e_cmds e <> [] /\
    healthy checks status false (e_node e) (e_sid e) /\ registered checks (e_node e) (e_sid e) /\
    svc_config_unrepaired prefix status false checks [e] = Ok [] /\
    svc_config prefix status false checks [e] = Ok (join (e_cmds e) [10]).
Proof. exact untrimmed_tag_refuted. Qed.
Print Assumptions C01_untrimmed_tag_refuted.

(* The key struct{node, serviceID} determines the instance. *)
Theorem C01_inst_key_injective : forall n1 s1 n2 s2,
  inst_key n1 s1 = inst_key n2 s2 -> n1 = n2 /\ s1 = s2.
Proof. exact inst_key_injective. Qed.
Print Assumptions C01_inst_key_injective.

(* finding F-C01-1, repaired in /repo by the fix: commit f815d97: the key used to be the string
   Node + "." + ServiceID, which does not determine the instance ... *)
Theorem C01_inst_key_collision_refuted :
  exists n1 s1 n2 s2, (n1, s1) <> (n2, s2) /\ inst_key_unrepaired n1 s1 = inst_key_unrepaired n2 s2.
Proof. exact inst_key_collision_refuted. Qed.
Print Assumptions C01_inst_key_collision_refuted.

(* ... so an unhealthy instance was routed when its key namesake was healthy (stated about the
   pipeline as it was, [svc_config_key_unrepaired]); the repaired pipeline pushes a config for
   the same state that does not contain the critical instance's command *)
Theorem C01_svc_config_collision_refuted :
  exists prefix status checks catalog e line,
    In e catalog /\ In line (e_cmds e) /\
    ~ healthy checks status false (e_node e) (e_sid e) /\
    (exists text, svc_config_key_unrepaired prefix status false checks catalog = Ok text
                  /\ In line (split_byte text 10)) /\
    (exists text, svc_config prefix status false checks catalog = Ok text
                  /\ ~ In line (split_byte text 10) /\ text <> []).
Proof. exact svc_config_collision_refuted. Qed.
Print Assumptions C01_svc_config_collision_refuted.

(* Every line of the config generated for a registry state is a command of a catalog entry
   whose own instance is registered, tagged and healthy in that state: an instance that is
   unhealthy in the observed state has none of its commands in the pushed config. *)
Theorem C01_svc_lines_from_healthy : forall prefix status strict checks catalog ls x,
  config_lines prefix catalog (watch_passing prefix status strict checks) = Ok ls ->
  In x (sort_desc ls) ->
  exists e, In e catalog /\ In x (e_cmds e) /\
            registered (checks_with_tag_prefix prefix checks) (e_node e) (e_sid e) /\
            healthy (checks_with_tag_prefix prefix checks) status strict (e_node e) (e_sid e).
Proof. exact svc_lines_from_healthy. Qed.
Print Assumptions C01_svc_lines_from_healthy.

(* The lines are exactly, in order, the commands of the catalog entries serviceConfig selects
   ([selected_c], Proofs/Consul.v) ... *)
Theorem C01_config_is_selected_commands : forall prefix catalog passing ls,
  config_lines prefix catalog passing = Ok ls -> ls = flat_map e_cmds (selected_c catalog (group passing)).
Proof. exact config_lines_selected. Qed.
Print Assumptions C01_config_is_selected_commands.

(* ... and (contrapositive of the above) an entry whose instance is not healthy, or not
   registered, or not tagged in the observed state is not among them: none of ITS commands is
   in the pushed config (the same text can only be there as the command of another, healthy
   entry). *)
Theorem C01_unhealthy_not_in_config : forall prefix status strict checks catalog e,
  ~ (registered (checks_with_tag_prefix prefix checks) (e_node e) (e_sid e)
     /\ healthy (checks_with_tag_prefix prefix checks) status strict (e_node e) (e_sid e)) ->
  ~ In e (selected_c catalog (group (watch_passing prefix status strict checks))).
Proof. exact unhealthy_entry_not_selected. Qed.
Print Assumptions C01_unhealthy_not_in_config.

(* The other direction, over the generated commands: every command routecmd.build has for
   a catalog entry whose instance is registered under the entry's service name, carries
   the prefix on all its checks and is healthy is a line of the pushed config; and a line
   is in the config iff it is a command of an entry matching, by name, node and id, a check
   handed to makeConfig. *)
Theorem C01_svc_lines_iff : forall prefix status strict checks catalog ls x,
  config_lines prefix catalog (watch_passing prefix status strict checks) = Ok ls ->
  (In x (sort_desc ls) <->
   exists e svc, In e catalog /\ In x (e_cmds e) /\ e_sname e <> [] /\
                 In svc (watch_passing prefix status strict checks) /\
                 c_sname svc = e_sname e /\ c_node svc = e_node e /\ c_sid svc = e_sid e).
Proof. exact svc_lines_iff. Qed.
Print Assumptions C01_svc_lines_iff.

Theorem C01_healthy_tagged_is_routed : forall prefix status strict checks catalog ls e svc x,
  config_lines prefix catalog (watch_passing prefix status strict checks) = Ok ls ->
  In e catalog -> e_sname e <> [] ->
  In svc checks -> is_service_check svc = true -> c_sname svc = e_sname e ->
  c_node svc = e_node e -> c_sid svc = e_sid e ->
  (forall c, In c checks -> own (e_node e) (e_sid e) c -> tagged prefix c = true) ->
  healthy checks status strict (e_node e) (e_sid e) ->
  In x (e_cmds e) -> In x (sort_desc ls).
Proof. exact healthy_tagged_is_routed. Qed.
Print Assumptions C01_healthy_tagged_is_routed.

(* The watch loop, for every table type, every table builder and every history of
   deliveries.  Quiescence: once the last service text and the last manual text combine to
   an accepted text, the active table is that text's table, whatever happened before. *)
Theorem C01_watch_quiescent : forall (table : Type) (build : str -> option table) w h e T,
  inv table build w ->
  build (next_text (last_svc (h ++ [e]) (w_svc w)) (last_man (h ++ [e]) (w_man w))) = Some T ->
  w_active (run table build w (h ++ [e])) = T /\ w_first (run table build w (h ++ [e])) = true.
Proof. exact watch_quiescent. Qed.
Print Assumptions C01_watch_quiescent.

Theorem C01_watch_invariant : forall (table : Type) (build : str -> option table) t0 h,
  inv table build (run table build (w_init table t0) h).
Proof. exact run_init_inv. Qed.
Print Assumptions C01_watch_invariant.

(* The watcher, Model/Consul.v [watch_deliveries]: one round is fully processed before the next
   blocking query is issued; a round whose health query or catalog lookup fails delivers nothing
   (since /repo c8f84e8); the others deliver their config, in observation order.  Mechanism
   lemmas (near-definitional in the model; tied to /repo by the delayed-catalog and
   lookup-failure histories of the correspondence run): *)
Theorem C01_failed_round_delivers_nothing : forall prefix status strict a o b,
  delivers prefix status strict o = false ->
  watch_deliveries prefix status strict (a ++ o :: b) = watch_deliveries prefix status strict (a ++ b).
Proof. exact failed_round_delivers_nothing. Qed.
Print Assumptions C01_failed_round_delivers_nothing.

Theorem C01_last_delivery_is_final_state : forall prefix status strict obs final fails tf h d,
  svc_texts h = watch_deliveries prefix status strict (obs ++ final :: fails) ->
  observe_config prefix status strict final = Ok tf ->
  forallb (fun o => negb (delivers prefix status strict o)) fails = true ->
  last_svc h d = tf.
Proof. exact last_delivery_is_final_state. Qed.
Print Assumptions C01_last_delivery_is_final_state.

(* A round in which the catalog lookup of a service with a passing instance fails yields no
   config at all - so nothing is pushed and the routes of that service stay in the table ... *)
Theorem C01_failed_lookup_no_config : forall failing prefix status strict checks catalog svc,
  In svc (watch_passing prefix status strict checks) -> c_sname svc <> [] -> In (c_sname svc) failing ->
  is_ok (svc_config_o failing prefix status strict checks catalog) = false.
Proof. exact failed_lookup_no_config. Qed.
Print Assumptions C01_failed_lookup_no_config.

(* ... and when every lookup succeeds the round is the one of the error-free model. *)
Theorem C01_no_failure_same_config : forall prefix status strict checks catalog,
  svc_config_o [] prefix status strict checks catalog = svc_config prefix status strict checks catalog.
Proof. exact svc_config_o_nil. Qed.
Print Assumptions C01_no_failure_same_config.

(* finding F-C01-3, repaired in /repo by the fix: commit c8f84e8: a failed lookup used to be
   treated as "no instances" and the config pushed all the same ([svc_config_lookup_unrepaired]),
   taking the command of a healthy, registered, tagged instance out of the table; the repaired
   round pushes nothing *)
Theorem C01_failed_lookup_unroutes_refuted :
  exists failing prefix status checks catalog e line,
    In e catalog /\ In line (e_cmds e) /\ In (e_sname e) failing /\
    healthy checks status false (e_node e) (e_sid e) /\ registered checks (e_node e) (e_sid e) /\
    (exists text, svc_config prefix status false checks catalog = Ok text /\ In line (split_byte text 10)) /\
    (exists text, svc_config_lookup_unrepaired failing prefix status false checks catalog = Ok text
                  /\ ~ In line (split_byte text 10)) /\
    svc_config_o failing prefix status false checks catalog = Err err_catalog.
Proof. exact failed_lookup_unroutes_refuted. Qed.
Print Assumptions C01_failed_lookup_unroutes_refuted.

(* the manual side, Model/Consul.v [kv_deliveries] / [kv_text] (kv.go watchKV / listKV): the last
   delivered manual text is the text of the final KV state (mechanism lemma, as above) *)
Theorem C01_last_manual_is_final_kv : forall obs pairs fails h d,
  man_texts h = kv_deliveries (obs ++ KvState pairs :: fails) ->
  forallb kv_failed fails = true ->
  last_man h d = kv_text pairs.
Proof. exact last_manual_is_final_kv. Qed.
Print Assumptions C01_last_manual_is_final_kv.

(* Quiescence in terms of the registry and the KV store (the "KV override edits" of the
   quantifier): once the health/catalog view stops changing at the state observed in round
   [final] and the KV path at [pairs] (later rounds of either watcher, if any, fail), the active
   table is the table of final's config followed by the operator's text for [pairs]. *)
Theorem C01_watch_quiescent_registry : forall (table : Type) (build : str -> option table)
    prefix status strict obs final fails tf kobs pairs kfails (w : wstate table) h e T,
  inv table build w ->
  svc_texts (h ++ [e]) = watch_deliveries prefix status strict (obs ++ final :: fails) ->
  observe_config prefix status strict final = Ok tf ->
  forallb (fun o => negb (delivers prefix status strict o)) fails = true ->
  man_texts (h ++ [e]) = kv_deliveries (kobs ++ KvState pairs :: kfails) ->
  forallb kv_failed kfails = true ->
  build (next_text tf (kv_text pairs)) = Some T ->
  w_active (run table build w (h ++ [e])) = T /\ w_first (run table build w (h ++ [e])) = true.
Proof. exact watch_quiescent_registry. Qed.
Print Assumptions C01_watch_quiescent_registry.

Theorem C01_watch_quiescent_final_state : forall (table : Type) (build : str -> option table)
    prefix status strict obs final fails tf (w : wstate table) h e T,
  inv table build w ->
  svc_texts (h ++ [e]) = watch_deliveries prefix status strict (obs ++ final :: fails) ->
  observe_config prefix status strict final = Ok tf ->
  forallb (fun o => negb (delivers prefix status strict o)) fails = true ->
  build (next_text tf (last_man (h ++ [e]) (w_man w))) = Some T ->
  w_active (run table build w (h ++ [e])) = T /\ w_first (run table build w (h ++ [e])) = true.
Proof. exact watch_quiescent_final_state. Qed.
Print Assumptions C01_watch_quiescent_final_state.

(* A rejected candidate leaves the active table as it was; the next accepted one is applied. *)
Theorem C01_watch_keeps_last_good : forall (table : Type) (build : str -> option table) w e,
  inv table build w -> build (cur_text table w e) = None ->
  w_active (step table build w e) = w_active w /\ w_last (step table build w e) = w_last w /\
  w_first (step table build w e) = w_first w /\
  forall e2 T, build (cur_text table (step table build w e) e2) = Some T ->
               w_active (step table build (step table build w e) e2) = T.
Proof. exact watch_keeps_last_good. Qed.
Print Assumptions C01_watch_keeps_last_good.

(* Complete characterisation from the start state: the active table is the table of the
   most recent accepted combined text (service text, newline, manual text: the operator's
   commands are applied on top of the service routes), the start table if there is none. *)
Theorem C01_watch_active_is_last_accepted : forall (table : Type) (build : str -> option table) t0 h,
  w_active (run table build (w_init table t0) h) = expected_active table build t0 h /\
  w_first (run table build (w_init table t0) h) = expected_first_rev table build (rev h).
Proof. exact run_expected. Qed.
Print Assumptions C01_watch_active_is_last_accepted.

(* An instance that has become unhealthy is absent from every table installed after that
   state was observed: from the delivery of the config of state (checks, catalog) on, until
   a newer service config arrives, every installed table is built from exactly the lines
   [ls] plus the manual text, and each of these lines is a command of an entry whose instance
   is registered and healthy in that state. *)
Theorem C01_unhealthy_absent : forall (table : Type) (build : str -> option table)
    prefix status strict checks catalog ls (w : wstate table) h1 h2 t,
  config_lines prefix catalog (watch_passing prefix status strict checks) = Ok ls ->
  forallb is_man h2 = true ->
  In t (installs table build w (h1 ++ Svc (join (sort_desc ls) [10]) :: h2)) ->
  In t (installs table build w h1) \/
  (exists m, t = next_text (join (sort_desc ls) [10]) m /\ build t <> None) /\
  forall x, In x (sort_desc ls) ->
    exists e, In e catalog /\ In x (e_cmds e) /\
              registered (checks_with_tag_prefix prefix checks) (e_node e) (e_sid e) /\
              healthy (checks_with_tag_prefix prefix checks) status strict (e_node e) (e_sid e).
Proof. exact unhealthy_absent. Qed.
Print Assumptions C01_unhealthy_absent.

Theorem C01_watch_nonvacuous :
  let build := fun t : str => if has_prefix t (bs "bad") then None else Some t in
  let h := [Svc (bs "a"); Man (bs "m"); Svc (bs "bad"); Man (bs "m2"); Svc (bs "b")] in
  map (w_active) (trace str build (w_init str []) h)
  = [bs "a" ++ [10]; bs "a" ++ 10 :: bs "m"; bs "a" ++ 10 :: bs "m"; bs "a" ++ 10 :: bs "m"; bs "b" ++ 10 :: bs "m2"]
  /\ installs str build (w_init str []) h = [bs "a" ++ [10]; bs "a" ++ 10 :: bs "m"; bs "b" ++ 10 :: bs "m2"].
Proof. exact watch_nonvacuous. Qed.
Print Assumptions C01_watch_nonvacuous.

(* ======================= all layers composed =======================
   registry (this property) -> route commands (C14: Model/RouteCmd.v [build]) -> table (C05:
   Model/RouteText.v [new_table]).  A catalog entry is C14's [reg] plus its node; the commands
   Model/Consul.v's config generation carries for it are C14's [build] of the entry, which since
   /repo d16ce3d keeps a command only if route.NewTable accepts it on its own ([emitted]).
   [pw], [canon], [gl] stand for strconv.ParseFloat, url.Parse and glob.Compile as in C14 / C05;
   the theorems hold whatever these libraries answer, and for ALL catalogs: a registration that
   cannot be expressed no longer blocks the table, it is dropped on its own.

   [routed_intent ... i]: some catalog entry with a non-empty service name is [inst_healthy]
   in the state, advertises [i] (one of its routing tags stands for [i]) and [i]'s command is
   emitted.  [table_holds ... dm t]: (a) every routed intent's command parses to a definition
   whose target is in [t] under (lower-cased host, path); (b) for an [intent_expressible]
   intent of a healthy instance that is the target the registration stands for (service,
   destination URL, weight, tags: [has_target]); (c) every manual definition in [dm] has its
   target; (d) every target of [t] is one of (a) or (c). *)

(* (1) the lines of the pushed config are, in order, C14's rendered commands of the validated
   intents of the entries serviceConfig selects; the model's own count check never fires *)
Theorem C01_config_lines_are_built_commands : forall pw canon gl env prefix rcat passing,
  config_lines prefix (catalog_of pw canon gl env prefix rcat) passing =
  Ok (map render_intent
          (flat_map (fun r => vintents pw canon gl env prefix (r_reg r)) (selected rcat (group passing)))).
Proof. exact config_lines_struct. Qed.
Print Assumptions C01_config_lines_are_built_commands.

(* (2) the headline, for every registry state whose checks carry their instance's tags
   ([consistent], Consul's guarantee) - no condition on the catalog: the pushed config is
   accepted by NewTable and the table has a target for an instance and prefix IF AND ONLY IF the
   instance is healthy, advertises the prefix and the command validates. *)
Theorem C01_svc_table_iff : forall pw canon gl env prefix status strict checks rcat,
  consistent checks rcat ->
  exists text t,
    registry_config pw canon gl env prefix status strict checks rcat = Ok text
    /\ new_table pw canon gl text = Ok t
    /\ table_holds pw canon gl env prefix status strict checks rcat [] t.
Proof. exact svc_table_iff. Qed.
Print Assumptions C01_svc_table_iff.

(* what [table_holds] says, spelled out (so that the statement above can be read without
   Proofs/RegistryTable.v) *)
Theorem C01_table_holds_unfold : forall pw canon gl env prefix status strict checks rcat dm t,
  table_holds pw canon gl env prefix status strict checks rcat dm t <->
  (forall i, routed_intent pw canon gl env prefix status strict checks rcat i ->
             exists d, parse_line pw (render_intent i) = Ok (Some d) /\ def_target canon t d)
  /\ (forall r i, In r rcat -> inst_healthy status strict checks r -> advertises_intent env prefix r i ->
                  intent_expressible pw canon gl i = true -> has_target pw canon prefix t r i)
  /\ (forall d, In d dm -> def_target canon t d)
  /\ (forall x, In x (flat t) ->
         (exists i d url, routed_intent pw canon gl env prefix status strict checks rcat i
                          /\ parse_line pw (render_intent i) = Ok (Some d)
                          /\ canon (d_dst d) = Some url /\ x = trip d url)
         \/ (exists d url, In d dm /\ canon (d_dst d) = Some url /\ x = trip d url)).
Proof. exact table_holds_unfold. Qed.
Print Assumptions C01_table_holds_unfold.

Theorem C01_routed_intent_unfold : forall pw canon gl env prefix status strict checks rcat i,
  routed_intent pw canon gl env prefix status strict checks rcat i <->
  exists r, In r rcat /\ g_name (r_reg r) <> [] /\ inst_healthy status strict checks r
            /\ advertises_intent env prefix r i /\ emitted pw canon gl i.
Proof. exact routed_intent_unfold. Qed.
Print Assumptions C01_routed_intent_unfold.

(* an expressible registration of a healthy instance is always routed (never dropped) *)
Theorem C01_expressible_is_routed : forall pw canon gl env prefix status strict checks rcat r i,
  In r rcat -> inst_healthy status strict checks r -> advertises_intent env prefix r i ->
  intent_expressible pw canon gl i = true ->
  routed_intent pw canon gl env prefix status strict checks rcat i.
Proof. exact expressible_routed. Qed.
Print Assumptions C01_expressible_is_routed.

(* ... with the operator's route commands applied on top, for manual texts made of acceptable
   'route add' commands: nothing but the healthy instances' and the operator's targets *)
Theorem C01_svc_table_with_manual_adds : forall pw canon gl env prefix status strict checks rcat,
  consistent checks rcat ->
  forall m dm, parse pw m = Ok dm -> Forall (addable canon gl) dm ->
  exists text t,
    registry_config pw canon gl env prefix status strict checks rcat = Ok text
    /\ new_table pw canon gl (next_text text m) = Ok t
    /\ table_holds pw canon gl env prefix status strict checks rcat dm t.
Proof. exact svc_table_with_manual. Qed.
Print Assumptions C01_svc_table_with_manual_adds.

(* (3) the watch loop with route.NewTable as its builder.  Quiescence, concrete: after ANY
   history of deliveries whose last service text is the config of registry state (checks, rcat)
   and whose last manual text is empty, the ACTIVE table has a target for (instance, prefix)
   iff the instance is healthy in that state, advertises the prefix and the command validates. *)
Theorem C01_active_table_iff : forall pw canon gl env prefix status strict checks rcat,
  consistent checks rcat ->
  forall (w : wstate table) h e,
  inv table (table_builder pw canon gl) w ->
  registry_config pw canon gl env prefix status strict checks rcat = Ok (last_svc (h ++ [e]) (w_svc w)) ->
  last_man (h ++ [e]) (w_man w) = [] ->
  table_holds pw canon gl env prefix status strict checks rcat []
              (w_active (Watch.run table (table_builder pw canon gl) w (h ++ [e]))).
Proof. exact active_table_iff. Qed.
Print Assumptions C01_active_table_iff.

(* ... and with a last manual text of acceptable 'route add' commands *)
Theorem C01_active_table_with_manual_adds : forall pw canon gl env prefix status strict checks rcat,
  consistent checks rcat ->
  forall (w : wstate table) h e m dm,
  inv table (table_builder pw canon gl) w ->
  registry_config pw canon gl env prefix status strict checks rcat = Ok (last_svc (h ++ [e]) (w_svc w)) ->
  last_man (h ++ [e]) (w_man w) = m ->
  parse pw m = Ok dm -> Forall (addable canon gl) dm ->
  table_holds pw canon gl env prefix status strict checks rcat dm
              (w_active (Watch.run table (table_builder pw canon gl) w (h ++ [e]))).
Proof. exact active_table_with_manual. Qed.
Print Assumptions C01_active_table_with_manual_adds.

(* An instance that has become unhealthy is absent from every TABLE installed after that state
   was observed (until a newer service config arrives): each such table is NewTable of that
   state's config plus a manual text, and for manual texts of acceptable 'route add' commands
   it holds exactly the routed intents' targets of that state and the manual ones. *)
Theorem C01_unhealthy_absent_table : forall pw canon gl env prefix status strict checks rcat,
  consistent checks rcat ->
  forall (w : wstate table) text h1 h2 tt,
  registry_config pw canon gl env prefix status strict checks rcat = Ok text ->
  forallb is_man h2 = true ->
  In tt (installs table (table_builder pw canon gl) w (h1 ++ Svc text :: h2)) ->
  In tt (installs table (table_builder pw canon gl) w h1) \/
  exists m T, tt = next_text text m /\ new_table pw canon gl tt = Ok T /\
    forall dm, parse pw m = Ok dm -> Forall (addable canon gl) dm ->
               table_holds pw canon gl env prefix status strict checks rcat dm T.
Proof. exact unhealthy_absent_table. Qed.
Print Assumptions C01_unhealthy_absent_table.

(* ANY manual text the parser accepts ('route add' / 'route del' / 'route weight' in any mix):
   the table is the operator's commands applied, in order, to the table of the service routes
   ([run_from] on the unsorted service table [t0]), and - apart from weight and options - each
   of its targets is that of a routed intent of the state or of a manual 'route add'
   ([allowed_core]): del and weight bring nothing in, so an instance that is unhealthy in the
   state has no target of its own whatever the operator wrote. *)
Theorem C01_svc_table_any_manual : forall pw canon gl env prefix status strict checks rcat,
  consistent checks rcat ->
  forall m T text, registry_config pw canon gl env prefix status strict checks rcat = Ok text ->
  new_table pw canon gl (next_text text m) = Ok T ->
  exists dm t0, parse pw m = Ok dm
    /\ new_table pw canon gl text = Ok (sort_table t0)
    /\ (do t <- run_from canon gl t0 dm; Ok (sort_table t))%outcome = Ok T
    /\ forall x, In x (flat T) -> allowed_core pw canon gl env prefix status strict checks rcat dm (core x).
Proof. exact svc_table_any_manual. Qed.
Print Assumptions C01_svc_table_any_manual.

Theorem C01_allowed_core_unfold : forall pw canon gl env prefix status strict checks rcat dm c,
  allowed_core pw canon gl env prefix status strict checks rcat dm c <->
  (exists i d url, routed_intent pw canon gl env prefix status strict checks rcat i
                   /\ parse_line pw (render_intent i) = Ok (Some d)
                   /\ canon (d_dst d) = Some url /\ c = add_core d url)
  \/ (exists d url, In d dm /\ d_cmd d = CmdAdd /\ canon (d_dst d) = Some url /\ c = add_core d url).
Proof. exact allowed_core_unfold. Qed.
Print Assumptions C01_allowed_core_unfold.

(* "An instance that has become unhealthy is absent from every table installed after that
   state was observed", with NO condition on the manual deliveries: from the delivery of the
   state's config on, until a newer service config arrives, every installed table has only
   targets of routed intents of that state and of manual 'route add's. *)
Theorem C01_unhealthy_absent_any_manual : forall pw canon gl env prefix status strict checks rcat,
  consistent checks rcat ->
  forall (w : wstate table) text h1 h2 tt,
  registry_config pw canon gl env prefix status strict checks rcat = Ok text ->
  forallb is_man h2 = true ->
  In tt (installs table (table_builder pw canon gl) w (h1 ++ Svc text :: h2)) ->
  In tt (installs table (table_builder pw canon gl) w h1) \/
  exists m dm T, tt = next_text text m /\ parse pw m = Ok dm /\ new_table pw canon gl tt = Ok T /\
                 forall x, In x (flat T) -> allowed_core pw canon gl env prefix status strict checks rcat dm (core x).
Proof. exact unhealthy_absent_any_manual. Qed.
Print Assumptions C01_unhealthy_absent_any_manual.

(* a concrete state: two instances of one service, one critical, a blank-padded routing tag, an
   upper-case host, and a third HEALTHY instance whose registration cannot be expressed (a tag
   with a double quote): only the healthy expressible one is in the table; the inexpressible
   one is dropped on its own and blocks nothing *)
Theorem C01_registry_table_nonvacuous :
  consistent ex_checks ex_rcat
  /\ expressible pweight_dec idcanon anyglob env_dc pfx (ex_reg "s1" "10.0.0.1") = true
  /\ expressible pweight_dec idcanon anyglob env_dc pfx ex_bad_reg = false
  /\ inst_healthy [bs "passing"] false ex_checks (mkREntry (bs "n1") (ex_reg "s1" "10.0.0.1"))
  /\ ~ inst_healthy [bs "passing"] false ex_checks (mkREntry (bs "n2") (ex_reg "s2" "10.0.0.2"))
  /\ inst_healthy [bs "passing"] false ex_checks (mkREntry (bs "n3") ex_bad_reg)
  /\ exists t, (do text <- registry_config pweight_dec idcanon anyglob env_dc pfx [bs "passing"] false ex_checks ex_rcat;
                new_table pweight_dec idcanon anyglob text)%outcome = Ok t
       /\ map (fun x => (fst (fst x), snd (fst x), t_url (snd x))) (flat t)
          = [(bs "foo.com", bs "/good", bs "http://10.0.0.1:80/"); ([], bs "/two", bs "http://10.0.0.1:80/")].
Proof. exact registry_table_nonvacuous. Qed.
Print Assumptions C01_registry_table_nonvacuous.

(* ======================= the operator's commands, as the operator means them =======================
   (round 7) The manual-text theorems above take "the parser accepts the text" ([parse pw m = Ok dm])
   as a hypothesis.  Model/OperatorText.v describes what the operator writes as VALUES ([opcmd]:
   add / del / del by tags / weight / comment / blank line), the text written for them
   ([operator_text], one command per line) and which commands the language can say
   ([op_expressible]: words without blanks, tags and options free of the double quote -- any other
   byte between the quotes is data, a blank followed by '#' included).  [op_def] / [op_defs] read
   the definition off the command, [apply_ops] is "applied on top" as an abstract machine on the
   set of (host, path, service, URL, tags) of a table. *)

(* one expressible command, written as a line, is read as the definition it stands for *)
Theorem C01_operator_line_parses : forall pw canon gl o, op_expressible pw canon gl o = true ->
  exists od, op_def pw o = Ok od /\ parse_line pw (drop_cr (render_op o)) = Ok od
             /\ lacks 10 (render_op o) = true.
Proof. exact op_line_parses. Qed.
Print Assumptions C01_operator_line_parses.

(* the operator's text is read as exactly the definitions of its commands, in order *)
Theorem C01_operator_text_parses : forall pw canon gl ops,
  forallb (op_expressible pw canon gl) ops = true ->
  exists dm, op_defs pw ops = Ok dm /\ parse pw (operator_text ops) = Ok dm.
Proof. exact operator_text_parses. Qed.
Print Assumptions C01_operator_text_parses.

(* 'route add' commands and comments on top of the service routes: accepted, and the table holds
   exactly the routed intents' targets and the operator's -- no hypothesis about the parser *)
Theorem C01_svc_table_with_operator_adds : forall pw canon gl env prefix status strict checks rcat,
  consistent checks rcat -> forall ops,
  forallb (op_expressible pw canon gl) ops = true -> forallb is_add_or_note ops = true ->
  exists text t dm,
    registry_config pw canon gl env prefix status strict checks rcat = Ok text
    /\ op_defs pw ops = Ok dm
    /\ new_table pw canon gl (next_text text (operator_text ops)) = Ok t
    /\ table_holds pw canon gl env prefix status strict checks rcat dm t.
Proof. exact svc_table_with_operator_adds. Qed.
Print Assumptions C01_svc_table_with_operator_adds.

(* any mix of expressible add / del / del-by-tags commands and comments: the combined text is
   accepted (the table is never left as it was) and the content of the table is the operator's
   commands applied, in order, to the content of the service table [t0] -- the table
   C01_svc_table_iff is about *)
Theorem C01_operator_ops_applied : forall pw canon gl env prefix status strict checks rcat,
  consistent checks rcat -> forall ops,
  forallb (op_expressible pw canon gl) ops = true -> forallb (fun o => negb (is_weight_op o)) ops = true ->
  exists text t0 T dm,
    registry_config pw canon gl env prefix status strict checks rcat = Ok text
    /\ new_table pw canon gl text = Ok t0
    /\ table_holds pw canon gl env prefix status strict checks rcat [] t0
    /\ op_defs pw ops = Ok dm /\ parse pw (operator_text ops) = Ok dm
    /\ new_table pw canon gl (next_text text (operator_text ops)) = Ok T
    /\ same_set (table_cores T) (apply_ops canon (table_cores t0) ops).
Proof. exact operator_ops_applied. Qed.
Print Assumptions C01_operator_ops_applied.

(* ... and the ACTIVE table of the watch loop, after any history of deliveries whose last
   service text is the config of the registry state and whose last manual text is the
   operator's text *)
Theorem C01_active_table_operator : forall pw canon gl env prefix status strict checks rcat,
  consistent checks rcat -> forall (w : wstate table) h e ops,
  inv table (table_builder pw canon gl) w ->
  registry_config pw canon gl env prefix status strict checks rcat = Ok (last_svc (h ++ [e]) (w_svc w)) ->
  last_man (h ++ [e]) (w_man w) = operator_text ops ->
  forallb (op_expressible pw canon gl) ops = true -> forallb (fun o => negb (is_weight_op o)) ops = true ->
  exists t0, new_table pw canon gl (last_svc (h ++ [e]) (w_svc w)) = Ok t0
    /\ table_holds pw canon gl env prefix status strict checks rcat [] t0
    /\ same_set (table_cores (w_active (Watch.run table (table_builder pw canon gl) w (h ++ [e]))))
                (apply_ops canon (table_cores t0) ops).
Proof. exact active_table_operator. Qed.
Print Assumptions C01_active_table_operator.

(* [same_set]: the same elements *)
Theorem C01_same_set_unfold : forall a b, same_set a b <-> forall c, In c a <-> In c b.
Proof. exact same_set_unfold. Qed.
Print Assumptions C01_same_set_unfold.

(* a concrete operator's text -- header comment, an add whose tags and options carry a blank
   followed by '#', a blank line, a del by such a tag, a del by service and source -- on top of
   the registry state of C01_registry_table_nonvacuous *)
Theorem C01_operator_text_nonvacuous :
  forallb (op_expressible pweight_dec idcanon anyglob) ex_ops = true
  /\ forallb (fun o => negb (is_weight_op o)) ex_ops = true
  /\ operator_text ex_ops
     = bs "# --- fabio/config" ++ 10 :: bs "route add shop /shop http://10.0.0.9:80/ tags ""build #42,canary"" opts ""x=a #b"""
       ++ 10 :: 10 :: bs "route del good tags ""no #such""" ++ 10 :: bs "route del good /two"
  /\ parse pweight_dec (operator_text ex_ops) = op_defs pweight_dec ex_ops
  /\ (exists d1 d2 d3, op_defs pweight_dec ex_ops = Ok [d1; d2; d3]
        /\ d_tags d1 = [bs "build #42"; bs "canary"] /\ d_opts d1 = [(bs "#b", []); (bs "x", bs "a")]
        /\ d_tags d2 = [bs "no #such"] /\ d_cmd d3 = CmdDel)
  /\ exists T, (do text <- registry_config pweight_dec idcanon anyglob env_dc pfx [bs "passing"] false ex_checks ex_rcat;
                new_table pweight_dec idcanon anyglob (next_text text (operator_text ex_ops)))%outcome = Ok T
       /\ table_cores T
          = [(bs "foo.com", bs "/good", bs "good", bs "http://10.0.0.1:80/", [bs "blue"]);
             ([], bs "/shop", bs "shop", bs "http://10.0.0.9:80/", [bs "build #42"; bs "canary"])].
Proof. exact operator_text_nonvacuous. Qed.
Print Assumptions C01_operator_text_nonvacuous.

(* the service side of the same point: a plain service tag ("build #42") and an option of the
   routing tag ("#1") with a blank followed by '#' are data in the generated command; the
   registration is expressible, the healthy instance is routed with exactly these tags / options *)
Theorem C01_hash_tag_registry_nonvacuous :
  consistent ex_hash_checks ex_hash_rcat
  /\ expressible pweight_dec idcanon anyglob env_dc pfx ex_hash_reg = true
  /\ inst_healthy [bs "passing"] false ex_hash_checks (mkREntry (bs "n2") ex_hash_reg)
  /\ registry_config pweight_dec idcanon anyglob env_dc pfx [bs "passing"] false ex_hash_checks ex_hash_rcat
     = Ok (bs "route add shop /shop http://10.0.0.2:8080/ tags ""build #42"" opts ""note=x #1""")
  /\ exists t, (do text <- registry_config pweight_dec idcanon anyglob env_dc pfx [bs "passing"] false ex_hash_checks ex_hash_rcat;
                new_table pweight_dec idcanon anyglob text)%outcome = Ok t
       /\ map (fun x => (core_of x, t_opts (snd x))) (flat t)
          = [(([], bs "/shop", bs "shop", bs "http://10.0.0.2:8080/", [bs "build #42"]), [(bs "#1", []); (bs "note", bs "x")])].
Proof. exact hash_tag_registry_nonvacuous. Qed.
Print Assumptions C01_hash_tag_registry_nonvacuous.
