(** C08 — forwarding headers (proxy/http_headers.go, proxy/http_proxy.go ServeHTTP), the code as
    it is after the repairs afbb806 (F-C08-2), 7dd13e1 (F-C08-1), 35aa11b (F-C08-3), 216337c
    (F-C08-4) and 25597b0 (F-C08-5, localPort and IPv6 literals).  Two findings are OPEN (regions 5
    and 6 of Model/HeadersSpec.v): fabio believes a Forwarded / X-Forwarded-Proto header the client
    sent when it supplies the other one, so the supplied header need not describe the client's
    actual connection (C08_proto_from_forged_forwarded_refuted, C08_forwarded_from_forged_xfp_refuted);
    outside those two syntactic regions every clause is proved for ALL client header maps, requests,
    route targets and sane configurations (C08_all_clauses_on_domain).  The [_refuted] theorems of
    the repaired findings are about the [_unrepaired] definitions, each paired with the same witness
    on the current model.  All vocabulary of the statements is defined in Model/Headers.v and
    Model/HeadersSpec.v.  This file contains only statements, [exact], and [Print Assumptions]. *)
From Coq Require Import String List NArith ZArith Bool.
From Fabio Require Import Lib.Outcome Lib.Bytes Model.Headers Model.HeadersSpec Model.HeaderLines Model.HeadersRouted Proofs.Headers Proofs.HeaderLines Proofs.HeadersRouted.
Import ListNotations.
Local Open Scope N_scope.

(* [off k name]: the configured header name is empty or canonicalises to something else than k *)

(* The configured client-IP header is overwritten with the peer address: whatever (and however
   often) the client sent it, afterwards it has exactly one value, the peer. *)
Theorem C08_clientip_overwritten : forall cfg strip r peer h',
  add_headers cfg strip r = Ok h' -> r_peer r = Some peer ->
  c_clientip cfg <> [] -> c_clientip cfg <> K_XFF ->
  mem (canon_key (c_clientip cfg)) [K_XFF; K_XFP; K_XFPORT; K_XFH; K_XFPREFIX; K_FWD] = false ->
  canon_key (c_clientip cfg) <> K_CONN ->
  off (canon_key (c_clientip cfg)) (c_tlsheader cfg) ->
  hfind h' (canon_key (c_clientip cfg)) = Some [peer].
Proof. exact clientip_overwritten. Qed.
Print Assumptions C08_clientip_overwritten.

(* X-Real-Ip carries the peer unless the client already sent one. *)
Theorem C08_xrealip_rule : forall cfg strip r peer h',
  add_headers cfg strip r = Ok h' -> r_peer r = Some peer -> off K_XRI (c_tlsheader cfg) ->
  hfind h' K_XRI = Some [peer] \/
  (hget (r_hdr r) K_XRI <> [] /\ hfind h' K_XRI = hfind (r_hdr r) K_XRI).
Proof. exact xrealip_rule. Qed.
Print Assumptions C08_xrealip_rule.

(* The configured TLS header is present with the configured value exactly when the client
   connection used TLS, whatever the client sent. *)
Theorem C08_tls_header_iff_tls : forall cfg strip r h',
  add_headers cfg strip r = Ok h' -> c_tlsheader cfg <> [] -> canon_key (c_tlsheader cfg) <> K_CONN ->
  hfind h' (canon_key (c_tlsheader cfg)) = if is_tls r then Some [c_tlsvalue cfg] else None.
Proof. exact tls_header_iff_tls. Qed.
Print Assumptions C08_tls_header_iff_tls.

(* Strict-Transport-Security only on TLS connections (and always there when max-age > 0).
   Mechanism lemmas: they read off [add_response_headers]'s guard; the end-to-end statements
   are C08_serve_hsts_only_tls / C08_serve_sts_clause below and the correspondence run (values the
   upstream's own response carries are passed through and are not fabio's). *)
Theorem C08_hsts_only_tls : forall cfg tls v, add_response_headers cfg tls = Some v -> tls = true.
Proof. exact hsts_only_tls. Qed.
Print Assumptions C08_hsts_only_tls.

Theorem C08_hsts_when_tls : forall cfg,
  (0 < c_sts_maxage cfg)%Z -> add_response_headers cfg true = Some (sts_value cfg).
Proof. exact hsts_when_tls. Qed.
Print Assumptions C08_hsts_when_tls.

(* A Forwarded header the client sent is only appended to. *)
Theorem C08_forwarded_appends_only : forall cfg strip r h',
  add_headers cfg strip r = Ok h' -> off K_FWD (c_tlsheader cfg) -> off K_FWD (c_clientip cfg) ->
  hget (r_hdr r) K_FWD <> [] ->
  hfind h' K_FWD = Some [hget (r_hdr r) K_FWD ++ fwd_items cfg r].
Proof. exact forwarded_appends_only. Qed.
Print Assumptions C08_forwarded_appends_only.

(* Requests that carry neither X-Forwarded-Proto nor Forwarded: proto, port, host and the
   generated Forwarded describe the actual connection and the Host of the request. *)
(* X-Forwarded-Proto absent => the supplied value describes the connection, for every request
   outside region 5 (no "fresh" gating: a Forwarded header without proto= item is covered). *)
Theorem C08_proto_supplied_on_domain : forall cfg strip r h',
  add_headers cfg strip r = Ok h' ->
  hget (r_hdr r) K_XFP = [] -> F_fwd_proto_trusted (r_hdr r) = false ->
  off K_XFP (c_clientip cfg) -> off K_FWD (c_clientip cfg) -> off K_XFP (c_tlsheader cfg) ->
  hfind h' K_XFP = Some [true_scheme (is_tls r)].
Proof. exact proto_supplied. Qed.
Print Assumptions C08_proto_supplied_on_domain.

Theorem C08_proto_truthful : forall cfg strip r h',
  add_headers cfg strip r = Ok h' -> fresh (r_hdr r) = true ->
  off K_XFP (c_clientip cfg) -> off K_FWD (c_clientip cfg) -> off K_XFP (c_tlsheader cfg) ->
  hfind h' K_XFP = Some [true_scheme (is_tls r)].
Proof. exact proto_truthful. Qed.
Print Assumptions C08_proto_truthful.

Theorem C08_port_truthful : forall cfg strip r h',
  add_headers cfg strip r = Ok h' -> hget (r_hdr r) K_XFPORT = [] ->
  off K_XFPORT (c_clientip cfg) -> off K_XFPORT (c_tlsheader cfg) ->
  hfind h' K_XFPORT = Some [local_port (r_host r) (is_tls r)].
Proof. exact port_truthful. Qed.
Print Assumptions C08_port_truthful.

(* What [local_port] is, on every syntactic shape of the Host header (independent of its index
   arithmetic; [spec_port] of Model/HeadersSpec.v is the same description as one function and is
   what the correspondence run judges the real code against): *)
(* host:port *)
Theorem C08_port_host_port : forall a p tls,
  a <> [] -> p <> [] -> ~ In 58 a -> ~ In 91 a -> ~ In 93 a -> ~ In 58 p -> ~ In 91 p -> ~ In 93 p ->
  local_port (a ++ 58 :: p) tls = p.
Proof. exact local_port_host_port. Qed.
Print Assumptions C08_port_host_port.

(* [IPv6 literal, zone included]:port -- a may contain colons and '%' *)
Theorem C08_port_bracketed : forall a p tls,
  a <> [] -> p <> [] -> ~ In 91 a -> ~ In 93 a -> ~ In 58 p -> ~ In 91 p -> ~ In 93 p ->
  local_port (91 :: a ++ 93 :: 58 :: p) tls = p.
Proof. exact local_port_bracketed. Qed.
Print Assumptions C08_port_bracketed.

(* [IPv6 literal] without port: the connection's default *)
Theorem C08_port_bracket_only : forall a tls, ~ In 93 a -> local_port (91 :: a ++ [93]) tls = default_port tls.
Proof. exact local_port_bracket_only. Qed.
Print Assumptions C08_port_bracket_only.

Theorem C08_port_no_colon : forall host tls, ~ In 58 host -> local_port host tls = default_port tls.
Proof. exact local_port_no_colon. Qed.
Print Assumptions C08_port_no_colon.

(* several colons without brackets (a:b:c, ::1) *)
Theorem C08_port_many_colons : forall a b p tls,
  ~ In 58 p -> starts_bracket (a ++ 58 :: b ++ 58 :: p) = false ->
  local_port (a ++ 58 :: b ++ 58 :: p) tls = default_port tls.
Proof. exact local_port_many_colons. Qed.
Print Assumptions C08_port_many_colons.

(* empty host ":80", trailing colon "host:" *)
Theorem C08_port_empty_host : forall p tls,
  ~ In 58 p -> ~ In 91 p -> ~ In 93 p -> local_port (58 :: p) tls = default_port tls.
Proof. exact local_port_empty_host. Qed.
Print Assumptions C08_port_empty_host.

Theorem C08_port_trailing_colon : forall a tls,
  ~ In 58 a -> ~ In 91 a -> ~ In 93 a -> local_port (a ++ [58]) tls = default_port tls.
Proof. exact local_port_trailing_colon. Qed.
Print Assumptions C08_port_trailing_colon.

(* F-C08-5, REPAIRED in /repo by 25597b0: localPort cut the port at the FIRST colon of the Host
   ([local_port_unrepaired]); witness Host [::1]:8443. *)
Theorem C08_port_ipv6_refuted :
  let host := bs "[::1]:8443" in
  local_port_unrepaired host false = bs ":1]:8443" /\ spec_port host false = bs "8443" /\
  local_port_unrepaired (bs "[2001:db8::2]") true = bs "db8::2]" /\ spec_port (bs "[2001:db8::2]") true = bs "443".
Proof. exact port_ipv6_refuted. Qed.
Print Assumptions C08_port_ipv6_refuted.

(* ... the current model and the independent spec on a list of Host values of every shape *)
Theorem C08_port_ipv6_repaired :
  map (fun h => local_port (bs h) false)
      ["[::1]:8443"; "[2001:db8::2]"; "[fe80::1%eth0]:8080"; "a:b:c"; "host:"; ":80"; "example.com:8080"; "::1"; "[::1]:"; "x]:1"; ""]%string
  = map bs ["8443"; "80"; "8080"; "80"; "80"; "80"; "8080"; "80"; "80"; "80"; "80"]%string /\
  map (fun h => spec_port (bs h) false)
      ["[::1]:8443"; "[2001:db8::2]"; "[fe80::1%eth0]:8080"; "a:b:c"; "host:"; ":80"; "example.com:8080"; "::1"; "[::1]:"; "x]:1"; ""]%string
  = map bs ["8443"; "80"; "8080"; "80"; "80"; "80"; "8080"; "80"; "80"; "80"; "80"]%string.
Proof. exact port_ipv6_repaired. Qed.
Print Assumptions C08_port_ipv6_repaired.

Theorem C08_host_truthful : forall cfg strip r h',
  add_headers cfg strip r = Ok h' -> hget (r_hdr r) K_XFH = [] -> r_host r <> [] ->
  off K_XFH (c_clientip cfg) -> off K_XFH (c_tlsheader cfg) ->
  hfind h' K_XFH = Some [r_host r].
Proof. exact host_truthful. Qed.
Print Assumptions C08_host_truthful.

Theorem C08_forwarded_fresh : forall cfg strip r peer h',
  add_headers cfg strip r = Ok h' -> r_peer r = Some peer -> fresh (r_hdr r) = true ->
  off K_XFP (c_clientip cfg) -> off K_FWD (c_clientip cfg) -> off K_FWD (c_tlsheader cfg) ->
  exists p, In p (if is_tls r then [bs "https"; bs "wss"] else [bs "http"; bs "ws"]) /\
            hfind h' K_FWD = Some [(bs "for=" ++ peer ++ bs "; proto=" ++ p) ++ fwd_items cfg r].
Proof. exact forwarded_fresh. Qed.
Print Assumptions C08_forwarded_fresh.

(* ---------------- end to end: what reaches the upstream through HTTPProxy.ServeHTTP ---------------- *)

(* The peer is the last element of X-Forwarded-For at the upstream (modelled ReverseProxy
   for plain requests, addHeaders for Upgrade: websocket / Websocket), for every client header
   map (no region excluded since the repair afbb806). *)
Theorem C08_xff_last_is_peer : forall cfg t uuid r peer up sts,
  serve cfg t uuid r = Ok (up, sts) -> r_peer r = Some peer -> wf_hdr (r_hdr r) = true ->
  off K_XFF (c_tlsheader cfg) ->
  off K_UPGRADE (c_clientip cfg) -> off K_UPGRADE (c_tlsheader cfg) -> off K_UPGRADE (c_reqid cfg) ->
  cl_xff up peer = true.
Proof. exact xff_last_is_peer. Qed.
Print Assumptions C08_xff_last_is_peer.

(* unlistManagedHeaders (216337c): afterwards NO token of the Connection header names a managed
   header, for every header map -- any case, spacing, empty tokens, repetition, several values. *)
Theorem C08_unlist_tokens_unmanaged : forall cfg h x,
  In x (conn_tokens (unlist_managed cfg h)) -> managed_key cfg (canon_key x) = false.
Proof. exact unlist_tokens_unmanaged. Qed.
Print Assumptions C08_unlist_tokens_unmanaged.

(* ... hence after the reverse proxy's hop-by-hop deletion every managed header survives, for ANY
   Connection header (the map handed to ReverseProxy is [unlist_managed cfg h]) ... *)
Theorem C08_rp_keeps_managed : forall cfg peer h k,
  managed_key cfg k = true -> k <> K_XFF -> mem k hop_headers = false ->
  hfind (rp_out peer (unlist_managed cfg h)) k = hfind h k.
Proof. exact rp_keeps_managed. Qed.
Print Assumptions C08_rp_keeps_managed.

(* ... and whatever addHeaders decided for a managed header reaches the upstream unchanged, on
   the websocket path and through the (modelled) ReverseProxy, whatever Connection says. *)
Theorem C08_serve_preserves : forall cfg t uuid r up sts k,
  serve cfg t uuid r = Ok (up, sts) -> wf_hdr (r_hdr r) = true ->
  managed_key cfg k = true -> k <> K_XFF -> mem k hop_headers = false ->
  exists peer h, r_peer r = Some peer /\
    add_headers cfg (t_strip t) (req_with_reqid cfg uuid r) = Ok h /\
    hfind up k = hfind h k.
Proof. exact serve_preserves. Qed.
Print Assumptions C08_serve_preserves.

Theorem C08_serve_hsts_only_tls : forall cfg t uuid r up v,
  serve cfg t uuid r = Ok (up, Some v) -> is_tls r = true.
Proof. exact serve_hsts_only_tls. Qed.
Print Assumptions C08_serve_hsts_only_tls.

Theorem C08_serve_sts_clause : forall cfg t uuid r up sts,
  serve cfg t uuid r = Ok (up, sts) ->
  cl_sts cfg (is_tls r) (match sts with Some v => [v] | None => [] end) = true.
Proof. exact serve_sts_clause. Qed.
Print Assumptions C08_serve_sts_clause.

(* ALL clauses of the property (client-IP header, X-Forwarded-For, X-Real-Ip, TLS header,
   X-Forwarded-Proto/-Port/-Host, Forwarded; no "fresh" gating) hold at the upstream for every
   client header map a client can produce, every request, every route target and every sane
   configuration outside the two OPEN finding regions 5 and 6 (syntactic on the client's
   Forwarded / X-Forwarded-Proto headers).  This is the boolean the correspondence run evaluates
   on the real code's output, there with [spec_port] for the expected port. *)
Theorem C08_all_clauses_on_domain : forall cfg t uuid r peer up sts,
  cfg_sane cfg = true -> wf_hdr (r_hdr r) = true -> no_region (r_hdr r) = true ->
  serve cfg t uuid r = Ok (up, sts) -> r_peer r = Some peer ->
  all_hold (clauses cfg (r_hdr r) peer (r_host r) (local_port (r_host r) (is_tls r)) (is_tls r) true up) = true.
Proof. exact serve_clauses_on_domain. Qed.
Print Assumptions C08_all_clauses_on_domain.

(* X-Forwarded-Host / -Port describe the host the client asked for whatever the route's host=
   option says (no region 1 any more: the rewrite of r.Host runs after addHeaders, 7dd13e1). *)
Theorem C08_serve_host_port_truthful : forall cfg t uuid r peer up sts,
  cfg_sane cfg = true -> wf_hdr (r_hdr r) = true ->
  serve cfg t uuid r = Ok (up, sts) -> r_peer r = Some peer ->
  (hget (r_hdr r) K_XFH = [] -> r_host r <> [] -> hfind up K_XFH = Some [r_host r]) /\
  (hget (r_hdr r) K_XFPORT = [] -> hfind up K_XFPORT = Some [local_port (r_host r) (is_tls r)]).
Proof. exact serve_host_port_truthful. Qed.
Print Assumptions C08_serve_host_port_truthful.

Theorem C08_serve_managed_survive_connection : forall cfg t uuid r peer up sts,
  cfg_sane cfg = true -> wf_hdr (r_hdr r) = true ->
  serve cfg t uuid r = Ok (up, sts) -> r_peer r = Some peer ->
  (c_clientip cfg <> [] -> canon_key (c_clientip cfg) <> K_XFF -> hfind up (canon_key (c_clientip cfg)) = Some [peer]) /\
  (c_tlsheader cfg <> [] ->
   hfind up (canon_key (c_tlsheader cfg)) = if is_tls r then Some [c_tlsvalue cfg] else None) /\
  cl_xri (r_hdr r) up peer = true.
Proof. exact serve_managed_survive_connection. Qed.
Print Assumptions C08_serve_managed_survive_connection.

Theorem C08_clauses_nonvacuous :
  let hdr := [(K_XFF, [bs "6.6.6.6"; bs "7.7.7.7"]); (bs "X-Client-Ip", [bs "6.6.6.6"; bs "8.8.8.8"]);
              (bs "X-Tls", [bs "true"]); (K_XRI, [[]; bs "6.6.6.6"]);
              (K_CONN, [bs "keep-alive, X-Forwarded-For ,x-client-ip"; bs " X-TLS,X-REAL-IP"])] in
  let r := ex_req None hdr in
  exists up sts,
    cfg_sane ex_cfg = true /\ wf_hdr hdr = true /\
    serve ex_cfg (ex_tgt []) [] r = Ok (up, sts) /\
    all_hold (clauses ex_cfg hdr ex_peer (r_host r) (spec_port (r_host r) false) false true up) = true /\
    hfind up K_XFF = Some [bs "1.2.3.4"] /\ hfind up (bs "X-Client-Ip") = Some [ex_peer] /\
    hfind up (bs "X-Tls") = None /\ hfind up K_XRI = Some [ex_peer].
Proof. exact clauses_nonvacuous. Qed.
Print Assumptions C08_clauses_nonvacuous.

(* ---------------- from the client's header LINES to the upstream's end of the wire ----------------
   (Model/HeaderLines.v: [parse_lines] = the header map the net/http server hands to fabio for the
   lines a client wrote, [serve_lines] = what the upstream reads off the wire for them) *)

(* Whatever lines a client writes -- empty values, blank values, repeated names, any casing -- no
   key of the header map is present without a value: the nil "do not populate X-Forwarded-For"
   marker cannot come from a client. *)
Theorem C08_lines_wf : forall ls, wf_hdr (parse_lines ls) = true.
Proof. exact lines_wf. Qed.
Print Assumptions C08_lines_wf.

(* ... and what the map holds, declaratively: under a canonical name exactly the trimmed values of
   the lines with that name, in the order of the lines (an empty line contributes ""). *)
Theorem C08_lines_values : forall ls k,
  hfind (parse_lines ls) k = match values_of k ls with [] => None | xs => Some xs end.
Proof. exact lines_values. Qed.
Print Assumptions C08_lines_values.

(* The peer is the last element of the X-Forwarded-For line the upstream reads, for ALL lists of
   header lines (no well-formedness hypothesis), on the ReverseProxy and on the websocket path. *)
Theorem C08_lines_xff_last_is_peer : forall cfg t uuid r ls peer up sts,
  serve_lines cfg t uuid r ls = Ok (up, sts) -> r_peer r = Some peer ->
  off K_XFF (c_tlsheader cfg) ->
  off K_UPGRADE (c_clientip cfg) -> off K_UPGRADE (c_tlsheader cfg) -> off K_UPGRADE (c_reqid cfg) ->
  cl_xff up peer = true.
Proof. exact lines_xff_last_is_peer. Qed.
Print Assumptions C08_lines_xff_last_is_peer.

(* Every clause at the upstream's end of the wire, for all header lines outside regions 5 / 6. *)
Theorem C08_lines_all_clauses_on_domain : forall cfg t uuid r ls peer up sts,
  cfg_sane cfg = true -> no_region (parse_lines ls) = true ->
  serve_lines cfg t uuid r ls = Ok (up, sts) -> r_peer r = Some peer ->
  all_hold (clauses cfg (parse_lines ls) peer (r_host r) (local_port (r_host r) (is_tls r)) (is_tls r) true up) = true.
Proof. exact lines_clauses_on_domain. Qed.
Print Assumptions C08_lines_all_clauses_on_domain.

(* non-vacuity on the input class itself: the client's only X-Forwarded-For lines are an empty and
   a blank one; the upstream reads "X-Forwarded-For: , , 1.2.3.4" on both paths *)
Theorem C08_lines_blank_xff_nonvacuous :
  let ls := [(bs "x-forwarded-for", []); (bs "Accept", bs "*/*"); (bs "X-FORWARDED-FOR", bs "  ")] in
  let lsw := ls ++ [(bs "upgrade", bs "websocket"); (bs "Connection", bs " Upgrade")] in
  only_blank_xff ls = true /\ only_blank_xff lsw = true /\
  hfind (parse_lines ls) K_XFF = Some [[]; []] /\
  exists up sts upw stsw,
    serve_lines ex_cfg (ex_tgt []) [] (ex_req None []) ls = Ok (up, sts) /\
    hfind up K_XFF = Some [bs ", , 1.2.3.4"] /\ cl_xff up ex_peer = true /\
    serve_lines ex_cfg (ex_tgt []) [] (ex_req None []) lsw = Ok (upw, stsw) /\
    takes_ws_path upw = true /\
    hfind upw K_XFF = Some [bs ", , 1.2.3.4"] /\ cl_xff upw ex_peer = true /\
    all_hold (clauses ex_cfg (parse_lines ls) ex_peer (bs "example.com") (spec_port (bs "example.com") false) false true up) = true.
Proof. exact lines_blank_xff_nonvacuous. Qed.
Print Assumptions C08_lines_blank_xff_nonvacuous.

(* Why [wf_hdr] is a hypothesis of C08_xff_last_is_peer and what C08_lines_wf buys: a header map
   that does carry the nil marker under X-Forwarded-For hides the peer from the upstream on both
   paths -- no X-Forwarded-For line is written at all. *)
Theorem C08_xff_nil_marker_refuted :
  exists cfg t uuid r rw up sts upw stsw,
    cfg_sane cfg = true /\ wf_hdr (r_hdr r) = false /\ wf_hdr (r_hdr rw) = false /\
    hfind (r_hdr r) K_XFF = Some [] /\ hfind (r_hdr rw) K_XFF = Some [] /\
    serve_wire cfg t uuid r = Ok (up, sts) /\ hfind up K_XFF = None /\ cl_xff up ex_peer = false /\
    serve_wire cfg t uuid rw = Ok (upw, stsw) /\ takes_ws_path upw = true /\
    hfind upw K_XFF = None /\ cl_xff upw ex_peer = false.
Proof. exact xff_nil_marker_refuted. Qed.
Print Assumptions C08_xff_nil_marker_refuted.

(* ---------------- refutations (each reproduced on the real code by the harness) ---------------- *)

(* F-C08-1, REPAIRED in /repo by 7dd13e1: with a host= option X-Forwarded-Host/-Port described
   the option's value.  The statement is about the order ServeHTTP had before the repair
   ([serve_host_first_unrepaired]: r.Host rewritten before addHeaders); the same witness on the
   current model follows ([C08_xfh_after_host_rewrite_repaired]). *)
Theorem C08_xfh_after_host_rewrite_refuted :
  exists cfg t uuid r up sts,
    cfg_sane cfg = true /\ wf_hdr (r_hdr r) = true /\
    serve_host_first_unrepaired cfg t uuid r = Ok (up, sts) /\
    hget (r_hdr r) K_XFH = [] /\ hget (r_hdr r) K_XFPORT = [] /\
    F_host_rewrite t (r_host r) = true /\
    hfind up K_XFH = Some [bs "backend.internal:8500"] /\ hfind up K_XFPORT = Some [bs "8500"] /\
    cl_host (r_host r) up = false /\ cl_port (spec_port (r_host r) (is_tls r)) up = false.
Proof. exact xfh_after_host_rewrite_refuted. Qed.
Print Assumptions C08_xfh_after_host_rewrite_refuted.

Theorem C08_xfh_after_host_rewrite_repaired :
  let t := ex_tgt (bs "backend.internal:8500") in
  let r := ex_req None [(bs "Accept", [bs "*/*"])] in
  exists up sts,
    serve ex_cfg t [] r = Ok (up, sts) /\ F_host_rewrite t (r_host r) = true /\
    hfind up K_XFH = Some [bs "example.com"] /\ hfind up K_XFPORT = Some [bs "80"] /\
    cl_host (r_host r) up = true /\ cl_port (spec_port (r_host r) (is_tls r)) up = true /\
    upstream_host ex_cfg t [] r = Ok (bs "backend.internal:8500").
Proof. exact xfh_after_host_rewrite_repaired. Qed.
Print Assumptions C08_xfh_after_host_rewrite_repaired.

(* F-C08-2, REPAIRED in /repo by afbb806: Upgrade: Websocket got no X-Forwarded-For entry.
   The statement is about the definitions as they were before the repair ([serve_unrepaired]);
   on the current code the same request gets the peer appended ([C08_xff_capital_websocket_repaired])
   and C08_xff_last_is_peer holds without exception. *)
Theorem C08_xff_capital_websocket_refuted :
  exists cfg t uuid r up sts,
    cfg_sane cfg = true /\ wf_hdr (r_hdr r) = true /\
    serve_unrepaired cfg t uuid r = Ok (up, sts) /\
    F_capital_websocket (r_hdr r) = true /\
    hfind up K_XFF = Some [bs "6.6.6.6"] /\ cl_xff up ex_peer = false.
Proof. exact xff_capital_websocket_refuted. Qed.
Print Assumptions C08_xff_capital_websocket_refuted.

Theorem C08_xff_capital_websocket_repaired :
  exists up sts,
    serve ex_cfg (ex_tgt []) []
      (ex_req None [(K_UPGRADE, [bs "Websocket"]); (K_CONN, [bs "Upgrade"]); (K_XFF, [bs "6.6.6.6"])]) = Ok (up, sts) /\
    hfind up K_XFF = Some [bs "6.6.6.6, 1.2.3.4"] /\ cl_xff up ex_peer = true.
Proof. exact xff_capital_websocket_repaired. Qed.
Print Assumptions C08_xff_capital_websocket_repaired.

(* F-C08-3, REPAIRED in /repo by 35aa11b: ClientIPHeader = "X-Real-Ip" let a forged X-Real-Ip
   through.  About the code before the repair ([serve_xri_guard_unrepaired]); the same witness on
   the current model follows. *)
Theorem C08_clientip_xrealip_refuted :
  exists cfg t uuid r up sts,
    cfg_sane cfg = true /\ wf_hdr (r_hdr r) = true /\
    serve_xri_guard_unrepaired cfg t uuid r = Ok (up, sts) /\
    F_cih_xrealip_forged cfg (r_hdr r) = true /\
    hfind up (canon_key (c_clientip cfg)) = Some [bs "6.6.6.6"] /\ cl_clientip cfg up ex_peer = false.
Proof. exact clientip_xrealip_refuted. Qed.
Print Assumptions C08_clientip_xrealip_refuted.

Theorem C08_clientip_xrealip_repaired :
  exists up sts,
    serve ex_cfg_xri (ex_tgt []) [] (ex_req None [(K_XRI, [bs "6.6.6.6"])]) = Ok (up, sts) /\
    F_cih_xrealip_forged ex_cfg_xri [(K_XRI, [bs "6.6.6.6"])] = true /\
    hfind up K_XRI = Some [ex_peer] /\ cl_clientip ex_cfg_xri up ex_peer = true.
Proof. exact clientip_xrealip_repaired. Qed.
Print Assumptions C08_clientip_xrealip_repaired.

(* F-C08-4, REPAIRED in /repo by 216337c: Connection naming managed headers stripped them (plain
   requests).  About the code before the repair ([serve_conn_unrepaired]); the same witness on the
   current model follows; the for-all statements are C08_unlist_tokens_unmanaged,
   C08_rp_keeps_managed, C08_serve_preserves and C08_serve_managed_survive_connection above. *)
Theorem C08_connection_strips_managed_refuted :
  exists cfg t uuid r up sts,
    cfg_sane cfg = true /\ wf_hdr (r_hdr r) = true /\
    serve_conn_unrepaired cfg t uuid r = Ok (up, sts) /\
    F_conn_lists (r_hdr r) (canon_key (c_clientip cfg)) = true /\
    hfind up (canon_key (c_clientip cfg)) = None /\ hfind up K_XRI = None /\
    hfind up (canon_key (c_tlsheader cfg)) = None /\ is_tls r = true /\
    cl_clientip cfg up ex_peer = false /\ cl_xri (r_hdr r) up ex_peer = false /\
    cl_tls cfg (is_tls r) up = false.
Proof. exact connection_strips_managed_refuted. Qed.
Print Assumptions C08_connection_strips_managed_refuted.

Theorem C08_connection_strips_managed_repaired :
  let r := ex_req (Some (771, 4865)) ex_conn_hdr in
  exists up sts,
    serve ex_cfg (ex_tgt []) [] r = Ok (up, sts) /\
    F_conn_lists (r_hdr r) (canon_key (c_clientip ex_cfg)) = true /\
    hfind up (bs "X-Client-Ip") = Some [ex_peer] /\ hfind up K_XRI = Some [ex_peer] /\
    hfind up (bs "X-Tls") = Some [bs "true"] /\
    all_hold (clauses ex_cfg (r_hdr r) ex_peer (r_host r) (spec_port (r_host r) true) true true up) = true.
Proof. exact connection_strips_managed_repaired. Qed.
Print Assumptions C08_connection_strips_managed_repaired.

(* ---------------- OPEN findings: a Forwarded / X-Forwarded-Proto header of the client is believed ---------------- *)

(* F-C08-6 (region 5): plain connection, the client sends only Forwarded: for=9.9.9.9; proto=https:
   fabio supplies X-Forwarded-Proto: https *)
Theorem C08_proto_from_forged_forwarded_refuted :
  exists cfg t uuid r up sts,
    cfg_sane cfg = true /\ wf_hdr (r_hdr r) = true /\ is_tls r = false /\
    serve cfg t uuid r = Ok (up, sts) /\
    hget (r_hdr r) K_XFP = [] /\ F_fwd_proto_trusted (r_hdr r) = true /\
    hfind up K_XFP = Some [bs "https"] /\ cl_proto (is_tls r) up = false.
Proof. exact proto_from_forged_forwarded_refuted. Qed.
Print Assumptions C08_proto_from_forged_forwarded_refuted.

(* F-C08-7 (region 6): plain connection, the client sends only X-Forwarded-Proto: https: the
   Forwarded header fabio generates says proto=https *)
Theorem C08_forwarded_from_forged_xfp_refuted :
  exists cfg t uuid r up sts,
    cfg_sane cfg = true /\ wf_hdr (r_hdr r) = true /\ is_tls r = false /\
    serve cfg t uuid r = Ok (up, sts) /\
    hget (r_hdr r) K_FWD = [] /\ F_xfp_trusted (r_hdr r) = true /\
    hfind up K_FWD = Some [bs "for=1.2.3.4; proto=https; httpproto=http/1.1"] /\
    cl_fwd (r_hdr r) ex_peer (is_tls r) up = false.
Proof. exact forwarded_from_forged_xfp_refuted. Qed.
Print Assumptions C08_forwarded_from_forged_xfp_refuted.

(* the complement of the regions is more than the "fresh" requests: a Forwarded header without
   proto= item lies outside and every clause holds *)
Theorem C08_proto_supplied_nonvacuous :
  let hdr := [(K_FWD, [bs "for=9.9.9.9;by=1.1.1.1"])] in
  exists up sts,
    no_region hdr = true /\ fresh hdr = false /\
    serve ex_cfg (ex_tgt []) [] (ex_req None hdr) = Ok (up, sts) /\
    hfind up K_XFP = Some [bs "http"] /\
    all_hold (clauses ex_cfg hdr ex_peer (bs "example.com") (spec_port (bs "example.com") false) false true up) = true.
Proof. exact proto_supplied_nonvacuous. Qed.
Print Assumptions C08_proto_supplied_nonvacuous.

(* ---------------- mechanism lemmas for the two anchored headers the property text does not mention ---------------- *)
Theorem C08_reqid_overwritten : forall cfg uuid r,
  c_reqid cfg <> [] -> hfind (r_hdr (req_with_reqid cfg uuid r)) (canon_key (c_reqid cfg)) = Some [uuid].
Proof. exact reqid_overwritten. Qed.
Print Assumptions C08_reqid_overwritten.

Theorem C08_prefix_rule : forall cfg strip r h',
  add_headers cfg strip r = Ok h' -> off K_XFPREFIX (c_tlsheader cfg) -> off K_XFPREFIX (c_clientip cfg) ->
  hfind h' K_XFPREFIX = if sempty strip then hfind (r_hdr r) K_XFPREFIX else Some [strip].
Proof. exact prefix_rule. Qed.
Print Assumptions C08_prefix_rule.

(* ---------------- through the routing stage (Model/HeadersRouted.v) ----------------
   Between net/http and addHeaders run the real Table.Lookup (redirect routes whose self-redirect is
   skipped fall through to the next host), AccessDeniedHTTP (reads the client's X-Forwarded-For) and
   Authorized.  [serve_routed cfg d uuid r]: r = the request AS THE CLIENT SENT IT, d = the stage's
   decision.  Whatever is decided, a contacted upstream is told the truth about r. *)

(* nothing is forwarded unless the decision is a proxy target, and then it is [serve] of the
   client's own request with that target *)
Theorem C08_routed_forwards_only_proxy : forall cfg d uuid r x,
  serve_routed cfg d uuid r = Ok x -> exists t, d = DProxy t /\ serve cfg t uuid r = Ok x.
Proof. exact routed_forwards_only_proxy. Qed.
Print Assumptions C08_routed_forwards_only_proxy.

Theorem C08_routed_not_forwarded : forall cfg d uuid r,
  is_proxy d = false -> serve_routed cfg d uuid r = Err E_NOT_FORWARDED.
Proof. exact routed_not_forwarded. Qed.
Print Assumptions C08_routed_not_forwarded.

(* the peer is the last element of X-Forwarded-For for every decision and every client header map
   -- in particular when the client's X-Forwarded-For names only the peer itself and the route
   carries access rules that read (and admit) it *)
Theorem C08_routed_xff_last_is_peer : forall cfg d uuid r peer up sts,
  serve_routed cfg d uuid r = Ok (up, sts) -> r_peer r = Some peer -> wf_hdr (r_hdr r) = true ->
  off K_XFF (c_tlsheader cfg) ->
  off K_UPGRADE (c_clientip cfg) -> off K_UPGRADE (c_tlsheader cfg) -> off K_UPGRADE (c_reqid cfg) ->
  cl_xff up peer = true.
Proof. exact routed_xff_last_is_peer. Qed.
Print Assumptions C08_routed_xff_last_is_peer.

Theorem C08_routed_all_clauses_on_domain : forall cfg d uuid r peer up sts,
  cfg_sane cfg = true -> wf_hdr (r_hdr r) = true -> no_region (r_hdr r) = true ->
  serve_routed cfg d uuid r = Ok (up, sts) -> r_peer r = Some peer ->
  all_hold (clauses cfg (r_hdr r) peer (r_host r) (local_port (r_host r) (is_tls r)) (is_tls r) true up) = true.
Proof. exact routed_clauses_on_domain. Qed.
Print Assumptions C08_routed_all_clauses_on_domain.

(* X-Forwarded-Host / -Port describe the Host the CLIENT wrote (default port included when it
   spelled it out), whichever hosts the table tried and skipped before it picked the target *)
Theorem C08_routed_host_port_truthful : forall cfg d uuid r peer up sts,
  cfg_sane cfg = true -> wf_hdr (r_hdr r) = true ->
  serve_routed cfg d uuid r = Ok (up, sts) -> r_peer r = Some peer ->
  (hget (r_hdr r) K_XFH = [] -> r_host r <> [] -> hfind up K_XFH = Some [r_host r]) /\
  (hget (r_hdr r) K_XFPORT = [] -> hfind up K_XFPORT = Some [local_port (r_host r) (is_tls r)]).
Proof. exact routed_host_port_truthful. Qed.
Print Assumptions C08_routed_host_port_truthful.

Theorem C08_routed_sts_clause : forall cfg d uuid r up sts,
  serve_routed cfg d uuid r = Ok (up, sts) ->
  cl_sts cfg (is_tls r) (match sts with Some v => [v] | None => [] end) = true.
Proof. exact routed_sts_clause. Qed.
Print Assumptions C08_routed_sts_clause.

(* which route was picked, its host= option and its URL do not change what the upstream is told *)
Theorem C08_routed_route_irrelevant : forall cfg t1 t2 uuid r,
  t_strip t1 = t_strip t2 ->
  serve_routed cfg (DProxy t1) uuid r = serve_routed cfg (DProxy t2) uuid r.
Proof. exact routed_route_irrelevant. Qed.
Print Assumptions C08_routed_route_irrelevant.

Theorem C08_routed_lines_xff_last_is_peer : forall cfg d uuid r ls peer up sts,
  serve_routed_lines cfg d uuid r ls = Ok (up, sts) -> r_peer r = Some peer ->
  off K_XFF (c_tlsheader cfg) ->
  off K_UPGRADE (c_clientip cfg) -> off K_UPGRADE (c_tlsheader cfg) -> off K_UPGRADE (c_reqid cfg) ->
  cl_xff up peer = true.
Proof. exact routed_lines_xff_last_is_peer. Qed.
Print Assumptions C08_routed_lines_xff_last_is_peer.

Theorem C08_routed_lines_all_clauses_on_domain : forall cfg d uuid r ls peer up sts,
  cfg_sane cfg = true -> no_region (parse_lines ls) = true ->
  serve_routed_lines cfg d uuid r ls = Ok (up, sts) -> r_peer r = Some peer ->
  all_hold (clauses cfg (parse_lines ls) peer (r_host r) (local_port (r_host r) (is_tls r)) (is_tls r) true up) = true.
Proof. exact routed_lines_clauses_on_domain. Qed.
Print Assumptions C08_routed_lines_all_clauses_on_domain.

(* non-vacuity on the request shapes themselves: X-Forwarded-For naming only the peer (one line on
   the ReverseProxy path, two on the websocket path); TLS with Host: shop.example.com:443 *)
Theorem C08_routed_nonvacuous :
  let h1 := [(K_XFF, [ex_peer])] in
  let h2 := [(K_XFF, [ex_peer; ex_peer]); (K_UPGRADE, [bs "websocket"]); (K_CONN, [bs "Upgrade"])] in
  let r3 := {| r_peer := Some ex_peer; r_host := bs "shop.example.com:443"; r_tls := Some (772, 4865);
               r_proto := bs "HTTP/1.1"; r_hdr := [(bs "Accept", [bs "*/*"])] |} in
  let d := DProxy (ex_tgt (bs "backend.internal")) in
  xff_only_peer h1 ex_peer = true /\ xff_only_peer h2 ex_peer = true /\
  exists up1 s1 up2 s2 up3 s3,
    serve_routed ex_cfg d [] (ex_req None h1) = Ok (up1, s1) /\
    hfind up1 K_XFF = Some [bs "1.2.3.4, 1.2.3.4"] /\
    all_hold (clauses ex_cfg h1 ex_peer (bs "example.com") (spec_port (bs "example.com") false) false true up1) = true /\
    serve_routed ex_cfg d [] (ex_req None h2) = Ok (up2, s2) /\ takes_ws_path up2 = true /\
    hfind up2 K_XFF = Some [bs "1.2.3.4, 1.2.3.4, 1.2.3.4"] /\ cl_xff up2 ex_peer = true /\
    serve_routed ex_cfg d [] r3 = Ok (up3, s3) /\
    hfind up3 K_XFH = Some [bs "shop.example.com:443"] /\ hfind up3 K_XFPORT = Some [bs "443"] /\
    all_hold (clauses ex_cfg (r_hdr r3) ex_peer (r_host r3) (spec_port (r_host r3) true) true true up3) = true /\
    upstream_host_routed ex_cfg d [] r3 = Ok (bs "backend.internal") /\
    serve_routed ex_cfg DDenied [] r3 = Err E_NOT_FORWARDED /\
    serve_routed ex_cfg DRedirect [] r3 = Err E_NOT_FORWARDED.
Proof. exact routed_nonvacuous. Qed.
Print Assumptions C08_routed_nonvacuous.
