(** C08 — forwarding headers (proxy/http_headers.go, proxy/http_proxy.go ServeHTTP), the code as
    it is after the four repairs afbb806 (F-C08-2), 7dd13e1 (F-C08-1), 35aa11b (F-C08-3) and
    216337c (F-C08-4): no finding region is left, every clause is proved for ALL client header
    maps, requests and sane configurations; the four [_refuted] theorems are about the
    [_unrepaired] definitions and each is paired with the same witness on the current model.
    This file contains only statements, [exact], and [Print Assumptions]. *)
From Coq Require Import String List NArith ZArith Bool.
From Fabio Require Import Lib.Outcome Lib.Bytes Model.Headers Model.HeadersSpec Proofs.Headers.
Import ListNotations.
Local Open Scope N_scope.

(* [off k name]: the configured header name is empty or canonicalises to something else than k *)

(* The configured client-IP header is overwritten with the peer address: whatever (and however
   often) the client sent it, afterwards it has exactly one value, the peer. *)
Theorem C08_clientip_overwritten : forall cfg strip r peer h',
  add_headers cfg strip r = Ok h' -> r_peer r = Some peer ->
  c_clientip cfg <> [] -> c_clientip cfg <> K_XFF ->
  mem (canon_key (c_clientip cfg)) [K_XFF; K_XFP; K_XFPORT; K_XFH; K_XFPREFIX; K_FWD] = false ->
  canon_key (c_clientip cfg) <> K_CONN ->
  off (canon_key (c_clientip cfg)) (c_tlsheader cfg) ->
  hfind h' (canon_key (c_clientip cfg)) = Some [peer].
Proof. exact clientip_overwritten. Qed.
Print Assumptions C08_clientip_overwritten.

(* X-Real-Ip carries the peer unless the client already sent one. *)
Theorem C08_xrealip_rule : forall cfg strip r peer h',
  add_headers cfg strip r = Ok h' -> r_peer r = Some peer -> off K_XRI (c_tlsheader cfg) ->
  hfind h' K_XRI = Some [peer] \/
  (hget (r_hdr r) K_XRI <> [] /\ hfind h' K_XRI = hfind (r_hdr r) K_XRI).
Proof. exact xrealip_rule. Qed.
Print Assumptions C08_xrealip_rule.

(* The configured TLS header is present with the configured value exactly when the client
   connection used TLS, whatever the client sent. *)
Theorem C08_tls_header_iff_tls : forall cfg strip r h',
  add_headers cfg strip r = Ok h' -> c_tlsheader cfg <> [] -> canon_key (c_tlsheader cfg) <> K_CONN ->
  hfind h' (canon_key (c_tlsheader cfg)) = if is_tls r then Some [c_tlsvalue cfg] else None.
Proof. exact tls_header_iff_tls. Qed.
Print Assumptions C08_tls_header_iff_tls.

(* Strict-Transport-Security only on TLS connections (and always there when max-age > 0). *)
Theorem C08_hsts_only_tls : forall cfg tls v, add_response_headers cfg tls = Some v -> tls = true.
Proof. exact hsts_only_tls. Qed.
Print Assumptions C08_hsts_only_tls.

Theorem C08_hsts_when_tls : forall cfg,
  (0 < c_sts_maxage cfg)%Z -> add_response_headers cfg true = Some (sts_value cfg).
Proof. exact hsts_when_tls. Qed.
Print Assumptions C08_hsts_when_tls.

(* A Forwarded header the client sent is only appended to. *)
Theorem C08_forwarded_appends_only : forall cfg strip r h',
  add_headers cfg strip r = Ok h' -> off K_FWD (c_tlsheader cfg) -> off K_FWD (c_clientip cfg) ->
  hget (r_hdr r) K_FWD <> [] ->
  hfind h' K_FWD = Some [hget (r_hdr r) K_FWD ++ fwd_items cfg r].
Proof. exact forwarded_appends_only. Qed.
Print Assumptions C08_forwarded_appends_only.

(* Requests that carry neither X-Forwarded-Proto nor Forwarded: proto, port, host and the
   generated Forwarded describe the actual connection and the Host of the request. *)
Theorem C08_proto_truthful : forall cfg strip r h',
  add_headers cfg strip r = Ok h' -> fresh (r_hdr r) = true ->
  off K_XFP (c_clientip cfg) -> off K_FWD (c_clientip cfg) -> off K_XFP (c_tlsheader cfg) ->
  hfind h' K_XFP = Some [true_scheme (is_tls r)].
Proof. exact proto_truthful. Qed.
Print Assumptions C08_proto_truthful.

Theorem C08_port_truthful : forall cfg strip r h',
  add_headers cfg strip r = Ok h' -> hget (r_hdr r) K_XFPORT = [] ->
  off K_XFPORT (c_clientip cfg) -> off K_XFPORT (c_tlsheader cfg) ->
  hfind h' K_XFPORT = Some [local_port (r_host r) (is_tls r)].
Proof. exact port_truthful. Qed.
Print Assumptions C08_port_truthful.

Theorem C08_local_port_host_port : forall a p tls,
  a <> [] -> ~ In 58 a -> p <> [] -> local_port (a ++ 58 :: p) tls = p.
Proof. exact local_port_host_port. Qed.
Print Assumptions C08_local_port_host_port.

Theorem C08_local_port_no_colon : forall host tls,
  ~ In 58 host -> local_port host tls = if tls then bs "443" else bs "80".
Proof. exact local_port_no_colon. Qed.
Print Assumptions C08_local_port_no_colon.

Theorem C08_host_truthful : forall cfg strip r h',
  add_headers cfg strip r = Ok h' -> hget (r_hdr r) K_XFH = [] -> r_host r <> [] ->
  off K_XFH (c_clientip cfg) -> off K_XFH (c_tlsheader cfg) ->
  hfind h' K_XFH = Some [r_host r].
Proof. exact host_truthful. Qed.
Print Assumptions C08_host_truthful.

Theorem C08_forwarded_fresh : forall cfg strip r peer h',
  add_headers cfg strip r = Ok h' -> r_peer r = Some peer -> fresh (r_hdr r) = true ->
  off K_XFP (c_clientip cfg) -> off K_FWD (c_clientip cfg) -> off K_FWD (c_tlsheader cfg) ->
  exists p, In p (if is_tls r then [bs "https"; bs "wss"] else [bs "http"; bs "ws"]) /\
            hfind h' K_FWD = Some [(bs "for=" ++ peer ++ bs "; proto=" ++ p) ++ fwd_items cfg r].
Proof. exact forwarded_fresh. Qed.
Print Assumptions C08_forwarded_fresh.

(* ---------------- end to end: what reaches the upstream through HTTPProxy.ServeHTTP ---------------- *)

(* The peer is the last element of X-Forwarded-For at the upstream (modelled ReverseProxy
   for plain requests, addHeaders for Upgrade: websocket / Websocket), for every client header
   map (no region excluded since the repair afbb806). *)
Theorem C08_xff_last_is_peer : forall cfg t uuid r peer up sts,
  serve cfg t uuid r = Ok (up, sts) -> r_peer r = Some peer -> wf_hdr (r_hdr r) = true ->
  off K_XFF (c_tlsheader cfg) ->
  off K_UPGRADE (c_clientip cfg) -> off K_UPGRADE (c_tlsheader cfg) -> off K_UPGRADE (c_reqid cfg) ->
  cl_xff up peer = true.
Proof. exact xff_last_is_peer. Qed.
Print Assumptions C08_xff_last_is_peer.

(* unlistManagedHeaders (216337c): afterwards NO token of the Connection header names a managed
   header, for every header map -- any case, spacing, empty tokens, repetition, several values. *)
Theorem C08_unlist_tokens_unmanaged : forall cfg h x,
  In x (conn_tokens (unlist_managed cfg h)) -> managed_key cfg (canon_key x) = false.
Proof. exact unlist_tokens_unmanaged. Qed.
Print Assumptions C08_unlist_tokens_unmanaged.

(* ... hence after the reverse proxy's hop-by-hop deletion every managed header survives, for ANY
   Connection header (the map handed to ReverseProxy is [unlist_managed cfg h]) ... *)
Theorem C08_rp_keeps_managed : forall cfg peer h k,
  managed_key cfg k = true -> k <> K_XFF -> mem k hop_headers = false ->
  hfind (rp_out peer (unlist_managed cfg h)) k = hfind h k.
Proof. exact rp_keeps_managed. Qed.
Print Assumptions C08_rp_keeps_managed.

(* ... and whatever addHeaders decided for a managed header reaches the upstream unchanged, on
   the websocket path and through the (modelled) ReverseProxy, whatever Connection says. *)
Theorem C08_serve_preserves : forall cfg t uuid r up sts k,
  serve cfg t uuid r = Ok (up, sts) -> wf_hdr (r_hdr r) = true ->
  managed_key cfg k = true -> k <> K_XFF -> mem k hop_headers = false ->
  exists peer h, r_peer r = Some peer /\
    add_headers cfg (t_strip t) (req_with_reqid cfg uuid r) = Ok h /\
    hfind up k = hfind h k.
Proof. exact serve_preserves. Qed.
Print Assumptions C08_serve_preserves.

Theorem C08_serve_hsts_only_tls : forall cfg t uuid r up v,
  serve cfg t uuid r = Ok (up, Some v) -> is_tls r = true.
Proof. exact serve_hsts_only_tls. Qed.
Print Assumptions C08_serve_hsts_only_tls.

Theorem C08_serve_sts_clause : forall cfg t uuid r up sts,
  serve cfg t uuid r = Ok (up, sts) ->
  cl_sts cfg (is_tls r) (match sts with Some v => [v] | None => [] end) = true.
Proof. exact serve_sts_clause. Qed.
Print Assumptions C08_serve_sts_clause.

(* ALL clauses of the property (client-IP header, X-Forwarded-For, X-Real-Ip, TLS header,
   X-Forwarded-Proto/-Port/-Host, Forwarded) hold at the upstream for every client header map a
   client can produce, every request, every route target and every sane configuration: no
   finding region is excluded any more (this is the boolean the correspondence run evaluates on
   the real code's output; the name is kept from the time when regions were excluded). *)
Theorem C08_all_clauses_on_domain : forall cfg t uuid r peer up sts,
  cfg_sane cfg = true -> wf_hdr (r_hdr r) = true ->
  serve cfg t uuid r = Ok (up, sts) -> r_peer r = Some peer ->
  all_hold (clauses cfg (r_hdr r) peer (r_host r) (is_tls r) true up) = true.
Proof. exact serve_clauses_on_domain. Qed.
Print Assumptions C08_all_clauses_on_domain.

(* X-Forwarded-Host / -Port describe the host the client asked for whatever the route's host=
   option says (no region 1 any more: the rewrite of r.Host runs after addHeaders, 7dd13e1). *)
Theorem C08_serve_host_port_truthful : forall cfg t uuid r peer up sts,
  cfg_sane cfg = true -> wf_hdr (r_hdr r) = true ->
  serve cfg t uuid r = Ok (up, sts) -> r_peer r = Some peer ->
  (hget (r_hdr r) K_XFH = [] -> r_host r <> [] -> hfind up K_XFH = Some [r_host r]) /\
  (hget (r_hdr r) K_XFPORT = [] -> hfind up K_XFPORT = Some [local_port (r_host r) (is_tls r)]).
Proof. exact serve_host_port_truthful. Qed.
Print Assumptions C08_serve_host_port_truthful.

Theorem C08_serve_managed_survive_connection : forall cfg t uuid r peer up sts,
  cfg_sane cfg = true -> wf_hdr (r_hdr r) = true ->
  serve cfg t uuid r = Ok (up, sts) -> r_peer r = Some peer ->
  (c_clientip cfg <> [] -> canon_key (c_clientip cfg) <> K_XFF -> hfind up (canon_key (c_clientip cfg)) = Some [peer]) /\
  (c_tlsheader cfg <> [] ->
   hfind up (canon_key (c_tlsheader cfg)) = if is_tls r then Some [c_tlsvalue cfg] else None) /\
  cl_xri (r_hdr r) up peer = true.
Proof. exact serve_managed_survive_connection. Qed.
Print Assumptions C08_serve_managed_survive_connection.

Theorem C08_clauses_nonvacuous :
  let hdr := [(K_XFF, [bs "6.6.6.6"; bs "7.7.7.7"]); (bs "X-Client-Ip", [bs "6.6.6.6"; bs "8.8.8.8"]);
              (bs "X-Tls", [bs "true"]); (K_XRI, [[]; bs "6.6.6.6"]);
              (K_CONN, [bs "keep-alive, X-Forwarded-For ,x-client-ip"; bs " X-TLS,X-REAL-IP"])] in
  let r := ex_req None hdr in
  exists up sts,
    cfg_sane ex_cfg = true /\ wf_hdr hdr = true /\
    serve ex_cfg (ex_tgt []) [] r = Ok (up, sts) /\
    all_hold (clauses ex_cfg hdr ex_peer (r_host r) false true up) = true /\
    hfind up K_XFF = Some [bs "1.2.3.4"] /\ hfind up (bs "X-Client-Ip") = Some [ex_peer] /\
    hfind up (bs "X-Tls") = None /\ hfind up K_XRI = Some [ex_peer].
Proof. exact clauses_nonvacuous. Qed.
Print Assumptions C08_clauses_nonvacuous.

(* ---------------- refutations (each reproduced on the real code by the harness) ---------------- *)

(* F-C08-1, REPAIRED in /repo by 7dd13e1: with a host= option X-Forwarded-Host/-Port described
   the option's value.  The statement is about the order ServeHTTP had before the repair
   ([serve_host_first_unrepaired]: r.Host rewritten before addHeaders); the same witness on the
   current model follows ([C08_xfh_after_host_rewrite_repaired]). *)
Theorem C08_xfh_after_host_rewrite_refuted :
  exists cfg t uuid r up sts,
    cfg_sane cfg = true /\ wf_hdr (r_hdr r) = true /\
    serve_host_first_unrepaired cfg t uuid r = Ok (up, sts) /\
    hget (r_hdr r) K_XFH = [] /\ hget (r_hdr r) K_XFPORT = [] /\
    F_host_rewrite t (r_host r) = true /\
    hfind up K_XFH = Some [bs "backend.internal:8500"] /\ hfind up K_XFPORT = Some [bs "8500"] /\
    cl_host (r_host r) up = false /\ cl_port (r_host r) (is_tls r) up = false.
Proof. exact xfh_after_host_rewrite_refuted. Qed.
Print Assumptions C08_xfh_after_host_rewrite_refuted.

Theorem C08_xfh_after_host_rewrite_repaired :
  let t := ex_tgt (bs "backend.internal:8500") in
  let r := ex_req None [(bs "Accept", [bs "*/*"])] in
  exists up sts,
    serve ex_cfg t [] r = Ok (up, sts) /\ F_host_rewrite t (r_host r) = true /\
    hfind up K_XFH = Some [bs "example.com"] /\ hfind up K_XFPORT = Some [bs "80"] /\
    cl_host (r_host r) up = true /\ cl_port (r_host r) (is_tls r) up = true /\
    upstream_host ex_cfg t [] r = Ok (bs "backend.internal:8500").
Proof. exact xfh_after_host_rewrite_repaired. Qed.
Print Assumptions C08_xfh_after_host_rewrite_repaired.

(* F-C08-2, REPAIRED in /repo by afbb806: Upgrade: Websocket got no X-Forwarded-For entry.
   The statement is about the definitions as they were before the repair ([serve_unrepaired]);
   on the current code the same request gets the peer appended ([C08_xff_capital_websocket_repaired])
   and C08_xff_last_is_peer holds without exception. *)
Theorem C08_xff_capital_websocket_refuted :
  exists cfg t uuid r up sts,
    cfg_sane cfg = true /\ wf_hdr (r_hdr r) = true /\
    serve_unrepaired cfg t uuid r = Ok (up, sts) /\
    F_capital_websocket (r_hdr r) = true /\
    hfind up K_XFF = Some [bs "6.6.6.6"] /\ cl_xff up ex_peer = false.
Proof. exact xff_capital_websocket_refuted. Qed.
Print Assumptions C08_xff_capital_websocket_refuted.

Theorem C08_xff_capital_websocket_repaired :
  exists up sts,
    serve ex_cfg (ex_tgt []) []
      (ex_req None [(K_UPGRADE, [bs "Websocket"]); (K_CONN, [bs "Upgrade"]); (K_XFF, [bs "6.6.6.6"])]) = Ok (up, sts) /\
    hfind up K_XFF = Some [bs "6.6.6.6, 1.2.3.4"] /\ cl_xff up ex_peer = true.
Proof. exact xff_capital_websocket_repaired. Qed.
Print Assumptions C08_xff_capital_websocket_repaired.

(* F-C08-3, REPAIRED in /repo by 35aa11b: ClientIPHeader = "X-Real-Ip" let a forged X-Real-Ip
   through.  About the code before the repair ([serve_xri_guard_unrepaired]); the same witness on
   the current model follows. *)
Theorem C08_clientip_xrealip_refuted :
  exists cfg t uuid r up sts,
    cfg_sane cfg = true /\ wf_hdr (r_hdr r) = true /\
    serve_xri_guard_unrepaired cfg t uuid r = Ok (up, sts) /\
    F_cih_xrealip_forged cfg (r_hdr r) = true /\
    hfind up (canon_key (c_clientip cfg)) = Some [bs "6.6.6.6"] /\ cl_clientip cfg up ex_peer = false.
Proof. exact clientip_xrealip_refuted. Qed.
Print Assumptions C08_clientip_xrealip_refuted.

Theorem C08_clientip_xrealip_repaired :
  exists up sts,
    serve ex_cfg_xri (ex_tgt []) [] (ex_req None [(K_XRI, [bs "6.6.6.6"])]) = Ok (up, sts) /\
    F_cih_xrealip_forged ex_cfg_xri [(K_XRI, [bs "6.6.6.6"])] = true /\
    hfind up K_XRI = Some [ex_peer] /\ cl_clientip ex_cfg_xri up ex_peer = true.
Proof. exact clientip_xrealip_repaired. Qed.
Print Assumptions C08_clientip_xrealip_repaired.

(* F-C08-4, REPAIRED in /repo by 216337c: Connection naming managed headers stripped them (plain
   requests).  About the code before the repair ([serve_conn_unrepaired]); the same witness on the
   current model follows; the for-all statements are C08_unlist_tokens_unmanaged,
   C08_rp_keeps_managed, C08_serve_preserves and C08_serve_managed_survive_connection above. *)
Theorem C08_connection_strips_managed_refuted :
  exists cfg t uuid r up sts,
    cfg_sane cfg = true /\ wf_hdr (r_hdr r) = true /\
    serve_conn_unrepaired cfg t uuid r = Ok (up, sts) /\
    F_conn_lists (r_hdr r) (canon_key (c_clientip cfg)) = true /\
    hfind up (canon_key (c_clientip cfg)) = None /\ hfind up K_XRI = None /\
    hfind up (canon_key (c_tlsheader cfg)) = None /\ is_tls r = true /\
    cl_clientip cfg up ex_peer = false /\ cl_xri (r_hdr r) up ex_peer = false /\
    cl_tls cfg (is_tls r) up = false.
Proof. exact connection_strips_managed_refuted. Qed.
Print Assumptions C08_connection_strips_managed_refuted.

Theorem C08_connection_strips_managed_repaired :
  let r := ex_req (Some (771, 4865)) ex_conn_hdr in
  exists up sts,
    serve ex_cfg (ex_tgt []) [] r = Ok (up, sts) /\
    F_conn_lists (r_hdr r) (canon_key (c_clientip ex_cfg)) = true /\
    hfind up (bs "X-Client-Ip") = Some [ex_peer] /\ hfind up K_XRI = Some [ex_peer] /\
    hfind up (bs "X-Tls") = Some [bs "true"] /\
    all_hold (clauses ex_cfg (r_hdr r) ex_peer (r_host r) true true up) = true.
Proof. exact connection_strips_managed_repaired. Qed.
Print Assumptions C08_connection_strips_managed_repaired.
